/-
C19 — property theorems (partial: SciPy/OpenTURNS numerics are parameters).

Part 1 (this section): the parameter space.  For every well-formed space (an invariant of every
edit history), every environment of marginals and every vector of the right dimension:
`normalize_vect(use_dist=True)` / `transform_vect` maps each variable independently — uncertain
variables through the CDFs of their marginals, deterministic variables through exactly the affine
design-space block — in variable order and with the variable sizes; if each marginal pair is
mutually inverse at the values met, `untransform_vect ∘ transform_vect` and
`transform_vect ∘ untransform_vect` are identities; 2-D inputs are mapped row by row.
-/
import GemseoVerif.Lemmas.C19Round
import GemseoVerif.Lemmas.C19Inv
import GemseoVerif.Lemmas.C19Out
import GemseoVerif.Analysis.C19Laws
import GemseoVerif.Gen.C19Params

namespace GV.C19
open GV GV.C02

/-! ### Without distributions a parameter space is its design space -/

theorem normalize_without_dist (p : PS) (env : Env) (m : Bool) (x : List Rat) :
    p.normalizeVect env m false x = some (p.ds.normalizeVect m x) := by
  simp [PS.normalizeVect]

theorem unnormalize_without_dist (p : PS) (env : Env) (m : Bool) (u : List Rat) :
    p.unnormalizeVect env m false u = some (p.ds.unnormalizeVect m u) := by
  simp [PS.unnormalizeVect]

/-! ### With distributions: one independent map per variable, in variable order -/

/-- `transform_vect x` exists and is the concatenation, in variable order, of one block per
    variable of the size of that variable. -/
theorem transform_blocks (p : PS) (hwf : p.WF) (env : Env) (x : List Rat)
    (hx : x.length = p.ds.dimension) :
    ∃ y, p.transformVect env x = some y ∧ y.length = p.ds.dimension ∧
      splitBySizes p.ds.sizes y = p.normBlocks env true x ∧
      (p.normBlocks env true x).map List.length = p.ds.sizes := by
  refine ⟨p.normSpec env true x, normalizeVect_spec p hwf env true x hx,
    normSpec_length p hwf env true x hx, split_normSpec p hwf env true x hx, ?_⟩
  exact blocks_lengths p hwf env false (normBlock p.ds.intNorm true)
    (fun v hv xb hxb => normBlock_length _ _ v (hwf.ds.2 v hv) xb hxb) x hx

/-- **Deterministic variables follow exactly the affine design-space map**: the block of the
    `i`-th variable, when it is deterministic, is the block of `DesignSpace.normalize_vect`
    (for `normalize_vect(x, minus_lb, use_dist=True)` with either value of `minus_lb`). -/
theorem deterministic_on_design_space_map (p : PS) (hwf : p.WF) (env : Env) (m : Bool)
    (x y : List Rat) (hx : x.length = p.ds.dimension)
    (hy : p.normalizeVect env m true x = some y)
    (i : Nat) (v : Var) (hv : p.ds.vars[i]? = some v) (hdet : v.name ∉ p.unc) :
    (splitBySizes p.ds.sizes y)[i]? = (splitBySizes p.ds.sizes (p.ds.normalizeVect m x))[i]? := by
  rw [normalizeVect_spec p hwf env m x hx] at hy
  have hy' : y = p.normSpec env m x := (Option.some.inj hy).symm
  subst hy'
  rw [split_normSpec p hwf env m x hx]
  have hl : (splitBySizes p.ds.sizes x).length = p.ds.vars.length := by
    rw [splitBySizes_length]; simp [DS.sizes]
  have hG : splitBySizes p.ds.sizes (p.ds.normalizeVect m x) =
      List.zipWith (normBlock p.ds.intNorm m) p.ds.vars (splitBySizes p.ds.sizes x) := by
    rw [normalizeVect_blocks p.ds hwf.ds m x]
    apply splitBySizes_flatten_of
    rw [zipWith_map_length _ Var.size p.ds.vars _ hl]
    · rfl
    · intro j w b hw hb
      exact normBlock_length _ _ w (hwf.ds.2 w (List.mem_of_getElem? hw)) b
        (block_length p.ds x hx j w b hw hb)
  rw [hG]
  unfold PS.normBlocks
  rw [List.getElem?_zipWith, List.getElem?_zipWith, hv]
  cases (splitBySizes p.ds.sizes x)[i]? with
  | none => rfl
  | some b => simp [PS.mapVar, hdet]

/-- **Uncertain variables go through the CDFs of their own marginals**, component by component. -/
theorem uncertain_through_marginals (p : PS) (hwf : p.WF) (env : Env) (m : Bool)
    (x y : List Rat) (hx : x.length = p.ds.dimension)
    (hy : p.normalizeVect env m true x = some y)
    (i : Nat) (v : Var) (b : List Rat) (hv : p.ds.vars[i]? = some v)
    (hb : (splitBySizes p.ds.sizes x)[i]? = some b) (hunc : v.name ∈ p.unc) :
    (splitBySizes p.ds.sizes y)[i]? =
      some (List.zipWith (fun xi mg => env.cdf mg xi) b (p.margsOf v.name)) := by
  rw [normalizeVect_spec p hwf env m x hx] at hy
  have hy' : y = p.normSpec env m x := (Option.some.inj hy).symm
  subst hy'
  rw [split_normSpec p hwf env m x hx]
  unfold PS.normBlocks
  rw [List.getElem?_zipWith, hv, hb]
  simp [PS.mapVar, hunc, jointApply, applyMarg]

/-! ### Mutual inverses -/

/-- **`untransform_vect (transform_vect x) = x`** (more generally with any `minus_lb`), given that
    each marginal pair is mutually inverse at the values of `x` and returns probabilities, and that
    the deterministic variables are float with non-degenerate normalised components. -/
theorem unnormalize_normalize_dist (p : PS) (hwf : p.WF) (env : Env) (m : Bool) (x : List Rat)
    (hx : x.length = p.ds.dimension) (h : RoundTripHyp p env m x) :
    ∃ y, p.normalizeVect env m true x = some y ∧ p.unnormalizeVect env m true y = some x := by
  refine ⟨p.normSpec env m x, normalizeVect_spec p hwf env m x hx, ?_⟩
  rw [unnormalizeVect_spec p hwf env m _ (normSpec_length p hwf env m x hx)
    (normSpec_unit p hwf env m x hx h)]
  rw [unnormSpec_normSpec p hwf env m x hx h]

theorem untransform_transform (p : PS) (hwf : p.WF) (env : Env) (x : List Rat)
    (hx : x.length = p.ds.dimension) (h : RoundTripHyp p env true x) :
    ∃ y, p.transformVect env x = some y ∧ p.untransformVect env y = some x :=
  unnormalize_normalize_dist p hwf env true x hx h

/-! ### The `out` argument: absent, another array, or the input array itself

`Model/C19.lean` runs the calls statement by statement over a store of mutable arrays
(`PS.normalizeVectOut`, ...).  For **every** store, every address `ax` of the input array and every
`out` (`none`, `some ao` with `ao ≠ ax`, or `some ax`: the in-place call), the call raises exactly
when the value-level map of the *original* content of the input raises, and otherwise
(1) the returned array holds that map, (2) it is `out` when `out` is given (so `out` holds the map),
(3) every other array of the store keeps its content — in particular the input when it is not `out`.
All the theorems of this file about `PS.normalizeVect`, ... therefore hold for the content of the
returned array / of `out`, whatever the aliasing. -/

/-- `normalize_vect(x_vect, minus_lb, use_dist, out)` on 1-D arrays (`transform_vect` is the case
    `minus_lb = use_dist = true`). -/
theorem normalize_vect_out (p : PS) (env : Env) (m u : Bool) (h : Heap (List Rat)) (ax : Nat)
    (out : Option Nat) (hax : ax < h.length) (hout : ∀ ao, out = some ao → ao < h.length) :
    (p.normalizeVect env m u (h.read ax) = none → p.normalizeVectOut env m u h ax out = none) ∧
    ∀ y, p.normalizeVect env m u (h.read ax) = some y →
      ∃ h' r, p.normalizeVectOut env m u h ax out = some (h', r) ∧ h'.read r = y ∧
        (∀ ao, out = some ao → r = ao) ∧
        (∀ b, b < h.length → out ≠ some b → h'.read b = h.read b) :=
  out_unfold (outCorrect_of u (p.ds.normalizeVect m) (p.normComb env) _ _
    (fun x => by cases u <;> simp [PS.normalizeVect, PS.normComb])
    (fun _ _ _ => rfl)) h ax out hax hout

/-- `unnormalize_vect(x_vect, minus_lb, no_check, use_dist, out)` on 1-D arrays
    (`untransform_vect`: `minus_lb = use_dist = true`). -/
theorem unnormalize_vect_out (p : PS) (env : Env) (m u : Bool) (h : Heap (List Rat)) (ax : Nat)
    (out : Option Nat) (hax : ax < h.length) (hout : ∀ ao, out = some ao → ao < h.length) :
    (p.unnormalizeVect env m u (h.read ax) = none → p.unnormalizeVectOut env m u h ax out = none) ∧
    ∀ y, p.unnormalizeVect env m u (h.read ax) = some y →
      ∃ h' r, p.unnormalizeVectOut env m u h ax out = some (h', r) ∧ h'.read r = y ∧
        (∀ ao, out = some ao → r = ao) ∧
        (∀ b, b < h.length → out ≠ some b → h'.read b = h.read b) :=
  out_unfold (outCorrect_of u (p.ds.unnormalizeVect m) (p.unnormComb env) _ _
    (fun x => by cases u <;> simp [PS.unnormalizeVect, PS.unnormComb])
    (fun _ _ _ => rfl)) h ax out hax hout

/-- The same for 2-D arrays (one point per row). -/
theorem normalize_vect2_out (p : PS) (env : Env) (m u : Bool) (h : Heap (List (List Rat)))
    (ax : Nat) (out : Option Nat) (hax : ax < h.length)
    (hout : ∀ ao, out = some ao → ao < h.length) :
    (p.normalizeVect2 env m u (h.read ax) = none → p.normalizeVect2Out env m u h ax out = none) ∧
    ∀ y, p.normalizeVect2 env m u (h.read ax) = some y →
      ∃ h' r, p.normalizeVect2Out env m u h ax out = some (h', r) ∧ h'.read r = y ∧
        (∀ ao, out = some ao → r = ao) ∧
        (∀ b, b < h.length → out ≠ some b → h'.read b = h.read b) :=
  out_unfold (outCorrect_of u (List.map (p.ds.normalizeVect m)) (p.normComb2 env) _ _
    (fun x => by cases u <;> simp [PS.normalizeVect2, PS.normComb2])
    (fun _ _ _ => rfl)) h ax out hax hout

theorem unnormalize_vect2_out (p : PS) (env : Env) (m u : Bool) (h : Heap (List (List Rat)))
    (ax : Nat) (out : Option Nat) (hax : ax < h.length)
    (hout : ∀ ao, out = some ao → ao < h.length) :
    (p.unnormalizeVect2 env m u (h.read ax) = none →
      p.unnormalizeVect2Out env m u h ax out = none) ∧
    ∀ y, p.unnormalizeVect2 env m u (h.read ax) = some y →
      ∃ h' r, p.unnormalizeVect2Out env m u h ax out = some (h', r) ∧ h'.read r = y ∧
        (∀ ao, out = some ao → r = ao) ∧
        (∀ b, b < h.length → out ≠ some b → h'.read b = h.read b) :=
  out_unfold (outCorrect_of u (List.map (p.ds.unnormalizeVect m)) (p.unnormComb2 env) _ _
    (fun x => by cases u <;> simp [PS.unnormalizeVect2, PS.unnormComb2])
    (fun _ _ _ => rfl)) h ax out hax hout

/-- **In-place round trip**: `transform_vect(x, out=x)` followed by `untransform_vect(x, out=x)`
    leaves in the array `x` its original content (and touches no other array of the store), under
    the hypotheses of `untransform_transform`. -/
theorem untransform_transform_in_place (p : PS) (hwf : p.WF) (env : Env) (h : Heap (List Rat))
    (ax : Nat) (hax : ax < h.length) (hx : (h.read ax).length = p.ds.dimension)
    (hrt : RoundTripHyp p env true (h.read ax)) :
    ∃ h1 h2, p.transformVectOut env h ax (some ax) = some (h1, ax) ∧
      p.untransformVectOut env h1 ax (some ax) = some (h2, ax) ∧
      h2.read ax = h.read ax ∧ ∀ b, b < h.length → b ≠ ax → h2.read b = h.read b := by
  obtain ⟨y, hy, hback⟩ := untransform_transform p hwf env (h.read ax) hx hrt
  obtain ⟨h1, r1, e1, v1, o1, f1⟩ :=
    (normalize_vect_out p env true true h ax (some ax) hax (fun a ha => by cases ha; exact hax)).2 y hy
  have hr1 : r1 = ax := o1 ax rfl
  subst hr1
  have hlen1 : h.length ≤ h1.length := by
    have hc := (outCorrect_of true (p.ds.normalizeVect true) (p.normComb env)
      (p.normalizeVect env true true) (p.normalizeVectOut env true true)
      (fun x => by simp [PS.normalizeVect, PS.normComb]) (fun _ _ _ => rfl))
      h r1 (some r1) hax (fun a ha => by cases ha; exact hax)
    obtain ⟨h', r', e', hp⟩ := hc.2 y hy
    rw [e1] at e'
    cases e'
    exact hp.grows
  have hax1 : r1 < h1.length := Nat.lt_of_lt_of_le hax hlen1
  obtain ⟨h2, r2, e2, v2, o2, f2⟩ :=
    (unnormalize_vect_out p env true true h1 r1 (some r1) hax1
      (fun a ha => by cases ha; exact hax1)).2 (h.read r1) (by rw [v1]; exact hback)
  have hr2 : r2 = r1 := o2 r1 rfl
  subst hr2
  refine ⟨h1, h2, e1, e2, v2, fun b hb hne => ?_⟩
  rw [f2 b (Nat.lt_of_lt_of_le hb hlen1) (by simpa using fun e => hne e.symm),
    f1 b hb (by simpa using fun e => hne e.symm)]

/-- Non-vacuity: a deterministic variable `d` on `[-1, 3]` and a uniform random variable `u` on
    `[1, 3]` (CDF `(x - 1) / 2`); the in-place call `transform_vect(x, out=x)` on `x = [1, 2]`
    leaves `[1/2, 1/2]` in `x` and does not touch the other array of the store. -/
example :
    (exampleSpace.transformVectOut exampleEnv [[1, 2], [9, 9]] 0 (some 0)).map
      (fun r => (r.1.read 0, r.1.read 1, r.2)) = some ([1/2, 1/2], [9, 9], 0) ∧
    (exampleSpace.transformVectOut exampleEnv [[1, 2], [9, 9]] 0 (some 1)).map
      (fun r => (r.1.read 0, r.1.read 1, r.2)) = some ([1, 2], [1/2, 1/2], 1) ∧
    (exampleSpace.untransformVectOut exampleEnv [[1/2, 1/2], [9, 9]] 0 (some 0)).map
      (fun r => (r.1.read 0, r.1.read 1, r.2)) = some ([1, 2], [9, 9], 0) := by
  decide +kernel

/-- What the theorems exclude: forwarding `out` to the geometric map (an allocation saved) makes
    the views on `x_vect` hold the geometrically normalised values when `out` is the input array:
    the uniform variable gets `cdf((2 - 1) / 2) = -1/4` instead of `cdf(2) = 1/2`. -/
example :
    let p := exampleSpace
    let h : Heap (List Rat) := [[1, 2], [9, 9]]
    let g := dsVectOut (p.ds.normalizeVect true) h 0 (some 0)
    p.normComb exampleEnv (g.1.read 0) (g.1.read g.2) = some [1/2, -1/4] := by
  decide +kernel

/-! ### Every history of admissible edits yields a well-formed space -/

/-- Well-formedness (distinct names, uncertain variables are variables, one marginal per component)
    is preserved by every edit that returns normally. -/
theorem wf_preserved (env : Env) (tol : Rat) (p : PS) (op : Op) (hwf : p.WF)
    (hok : (p.apply env tol op).2 = true) : (p.apply env tol op).1.WF :=
  wf_apply env tol p op hwf hok

/-- ... hence holds after every history of admissible edits starting from the empty space, and the
    stored joint distribution is then the concatenation of the marginals of the uncertain
    variables in the order of `uncertain_variables` (the columns of `compute_samples`). -/
theorem wf_reachable (env : Env) (tol : Rat) (ops : List Op) (q : PS)
    (h : PS.runAll env tol PS.empty ops = some q) :
    q.WF ∧ (q.unc ≠ [] → q.joint = q.unc.flatMap q.margsOf) :=
  ⟨wf_runAll env tol ops PS.empty q wf_empty h,
   jointOk_runAll env tol ops PS.empty q wf_empty (fun hne => absurd rfl hne) h⟩

/-! ## Part 2 — GEMSEO's parameter mappings denote the documented laws

`Gen.*` is regenerated from /repo at every run; the conventions `Laws.sp*`, `Laws.std*`,
`Laws.ot*` are the trusted transcription of SciPy's and OpenTURNS' parametrisations. -/

open Laws Real

/-- interfaced names and parameter names / arities, as passed to the libraries -/
theorem interfaced_names (a b c : ℝ) (w : Bool) :
    Gen.SPUniform.interfaced a b = "uniform" ∧ Gen.OTUniform.interfaced a b = "Uniform" ∧
    Gen.SPNormal.interfaced a b = "norm" ∧ Gen.OTNormal.interfaced a b = "Normal" ∧
    Gen.SPTriangular.interfaced a b c = "triang" ∧ Gen.OTTriangular.interfaced a b c = "Triangular" ∧
    Gen.SPExponential.interfaced a b = "expon" ∧ Gen.OTExponential.interfaced a b = "Exponential" ∧
    Gen.SPBeta.interfaced a b c c = "beta" ∧ Gen.OTBeta.interfaced a b c c = "Beta" ∧
    Gen.SPWeibull.interfaced a b c w = (if w then "weibull_min" else "weibull_max") ∧
    Gen.OTWeibull.interfaced a b c w = (if w then "WeibullMin" else "WeibullMax") ∧
    Gen.SPLogNormal.interfaced a b c w = "lognorm" ∧ Gen.OTLogNormal.interfaced a b c w = "LogNormal" ∧
    Gen.OTDirac.interfaced a = "Dirac" ∧
    Gen.SPUniform.keys = ["loc", "scale"] ∧ Gen.SPNormal.keys = ["loc", "scale"] ∧
    Gen.SPTriangular.keys = ["loc", "scale", "c"] ∧ Gen.SPExponential.keys = ["loc", "scale"] ∧
    Gen.SPBeta.keys = ["a", "b", "loc", "scale"] ∧ Gen.SPWeibull.keys = ["loc", "scale", "c"] ∧
    Gen.SPLogNormal.keys = ["s", "loc", "scale"] ∧
    Gen.OTUniform.arity = 2 ∧ Gen.OTNormal.arity = 2 ∧ Gen.OTTriangular.arity = 3 ∧
    Gen.OTExponential.arity = 2 ∧ Gen.OTBeta.arity = 4 ∧ Gen.OTWeibull.arity = 3 ∧
    Gen.OTLogNormal.arity = 3 ∧ Gen.OTDirac.arity = 1 := by
  cases w <;> simp [Gen.SPUniform.interfaced, Gen.OTUniform.interfaced, Gen.SPNormal.interfaced,
    Gen.OTNormal.interfaced, Gen.SPTriangular.interfaced, Gen.OTTriangular.interfaced,
    Gen.SPExponential.interfaced, Gen.OTExponential.interfaced, Gen.SPBeta.interfaced,
    Gen.OTBeta.interfaced, Gen.SPWeibull.interfaced, Gen.OTWeibull.interfaced,
    Gen.SPLogNormal.interfaced, Gen.OTLogNormal.interfaced, Gen.OTDirac.interfaced,
    Gen.SPUniform.keys, Gen.SPNormal.keys, Gen.SPTriangular.keys, Gen.SPExponential.keys,
    Gen.SPBeta.keys, Gen.SPWeibull.keys, Gen.SPLogNormal.keys, Gen.OTUniform.arity,
    Gen.OTNormal.arity, Gen.OTTriangular.arity, Gen.OTExponential.arity, Gen.OTBeta.arity,
    Gen.OTWeibull.arity, Gen.OTLogNormal.arity, Gen.OTDirac.arity]

/-- the truncation / transformation options of the OpenTURNS classes are forwarded unchanged -/
theorem ot_options_forwarded :
    Gen.OTUniform.optionsForwarded = true ∧ Gen.OTNormal.optionsForwarded = true ∧
    Gen.OTTriangular.optionsForwarded = true ∧ Gen.OTExponential.optionsForwarded = true ∧
    Gen.OTBeta.optionsForwarded = true ∧ Gen.OTWeibull.optionsForwarded = true ∧
    Gen.OTLogNormal.optionsForwarded = true ∧ Gen.OTDirac.optionsForwarded = true := by
  simp [Gen.OTUniform.optionsForwarded, Gen.OTNormal.optionsForwarded,
    Gen.OTTriangular.optionsForwarded, Gen.OTExponential.optionsForwarded,
    Gen.OTBeta.optionsForwarded, Gen.OTWeibull.optionsForwarded,
    Gen.OTLogNormal.optionsForwarded, Gen.OTDirac.optionsForwarded]

/-- the documented default arguments are admissible -/
theorem defaults_admissible :
    Gen.SPUniform.default_minimum < Gen.SPUniform.default_maximum ∧
    Gen.OTUniform.default_minimum < Gen.OTUniform.default_maximum ∧
    Gen.SPTriangular.default_minimum < Gen.SPTriangular.default_mode ∧
    Gen.SPTriangular.default_mode < Gen.SPTriangular.default_maximum ∧
    Gen.OTTriangular.default_minimum < Gen.OTTriangular.default_mode ∧
    Gen.OTTriangular.default_mode < Gen.OTTriangular.default_maximum ∧
    0 < Gen.SPNormal.default_sigma ∧ 0 < Gen.OTNormal.default_sigma ∧
    0 < Gen.SPExponential.default_rate ∧ 0 < Gen.OTExponential.default_rate ∧
    0 < Gen.SPBeta.default_alpha ∧ 0 < Gen.SPBeta.default_beta ∧
    Gen.SPBeta.default_minimum < Gen.SPBeta.default_maximum ∧
    0 < Gen.OTBeta.default_alpha ∧ 0 < Gen.OTBeta.default_beta ∧
    Gen.OTBeta.default_minimum < Gen.OTBeta.default_maximum ∧
    0 < Gen.SPWeibull.default_scale ∧ 0 < Gen.SPWeibull.default_shape ∧
    0 < Gen.OTWeibull.default_scale ∧ 0 < Gen.OTWeibull.default_shape ∧
    Gen.SPLogNormal.default_location < Gen.SPLogNormal.default_mu ∧ 0 < Gen.SPLogNormal.default_sigma ∧
    Gen.OTLogNormal.default_location < Gen.OTLogNormal.default_mu ∧ 0 < Gen.OTLogNormal.default_sigma := by
  simp only [Gen.SPUniform.default_minimum, Gen.SPUniform.default_maximum,
    Gen.OTUniform.default_minimum, Gen.OTUniform.default_maximum,
    Gen.SPTriangular.default_minimum, Gen.SPTriangular.default_mode, Gen.SPTriangular.default_maximum,
    Gen.OTTriangular.default_minimum, Gen.OTTriangular.default_mode, Gen.OTTriangular.default_maximum,
    Gen.SPNormal.default_sigma, Gen.OTNormal.default_sigma, Gen.SPExponential.default_rate,
    Gen.OTExponential.default_rate, Gen.SPBeta.default_alpha, Gen.SPBeta.default_beta,
    Gen.SPBeta.default_minimum, Gen.SPBeta.default_maximum, Gen.OTBeta.default_alpha,
    Gen.OTBeta.default_beta, Gen.OTBeta.default_minimum, Gen.OTBeta.default_maximum,
    Gen.SPWeibull.default_scale, Gen.SPWeibull.default_shape, Gen.OTWeibull.default_scale,
    Gen.OTWeibull.default_shape, Gen.SPLogNormal.default_location, Gen.SPLogNormal.default_mu,
    Gen.SPLogNormal.default_sigma, Gen.OTLogNormal.default_location, Gen.OTLogNormal.default_mu,
    Gen.OTLogNormal.default_sigma]
  norm_num

/-! #### Uniform -/

theorem sp_uniform_same_law (a b x p : ℝ) :
    spCdf stdUniformCdf (Gen.SPUniform.loc a b) (Gen.SPUniform.scale a b) x = uniformCdf a b x ∧
    spPpf stdUniformPpf (Gen.SPUniform.loc a b) (Gen.SPUniform.scale a b) p = uniformIcdf a b p ∧
    spMean (1 / 2) (Gen.SPUniform.loc a b) (Gen.SPUniform.scale a b) = (a + b) / 2 ∧
    spStd (1 / sqrt 12) (Gen.SPUniform.scale a b) = (b - a) / sqrt 12 := by
  refine ⟨rfl, ?_, ?_, ?_⟩
  · simp [spPpf, stdUniformPpf, Gen.SPUniform.loc, Gen.SPUniform.scale, uniformIcdf]; ring
  · simp only [spMean, Gen.SPUniform.loc, Gen.SPUniform.scale]; ring
  · simp only [spStd, Gen.SPUniform.scale]; ring

theorem ot_uniform_same_law (a b x : ℝ) :
    otUniform (Gen.OTUniform.arg0 a b) (Gen.OTUniform.arg1 a b) x = uniformCdf a b x := rfl

/-! #### Normal -/

theorem sp_normal_same_law (Φ : ℝ → ℝ) (mu sigma x : ℝ) :
    spCdf Φ (Gen.SPNormal.loc mu sigma) (Gen.SPNormal.scale mu sigma) x = normalCdf Φ mu sigma x ∧
    spMean 0 (Gen.SPNormal.loc mu sigma) (Gen.SPNormal.scale mu sigma) = mu ∧
    spStd 1 (Gen.SPNormal.scale mu sigma) = sigma := by
  refine ⟨rfl, ?_, ?_⟩
  · simp [spMean, Gen.SPNormal.loc]
  · simp [spStd, Gen.SPNormal.scale]

theorem ot_normal_same_law (Φ : ℝ → ℝ) (mu sigma x : ℝ) :
    otNormal Φ (Gen.OTNormal.arg0 mu sigma) (Gen.OTNormal.arg1 mu sigma) x = normalCdf Φ mu sigma x :=
  rfl

/-! #### Exponential -/

theorem sp_exponential_same_law (rate loc x p : ℝ) (hr : 0 < rate) :
    spCdf stdExponCdf (Gen.SPExponential.loc rate loc) (Gen.SPExponential.scale rate loc) x =
      exponentialCdf rate loc x ∧
    spPpf stdExponPpf (Gen.SPExponential.loc rate loc) (Gen.SPExponential.scale rate loc) p =
      exponentialIcdf rate loc p ∧
    spMean 1 (Gen.SPExponential.loc rate loc) (Gen.SPExponential.scale rate loc) = loc + 1 / rate ∧
    spStd 1 (Gen.SPExponential.scale rate loc) = 1 / rate := by
  refine ⟨sp_exponential_eq rate loc x hr, ?_, ?_, ?_⟩
  · simp only [spPpf, stdExponPpf, Gen.SPExponential.loc, Gen.SPExponential.scale, exponentialIcdf]
    ring
  · simp only [spMean, Gen.SPExponential.loc, Gen.SPExponential.scale]; ring
  · simp only [spStd, Gen.SPExponential.scale]; ring

theorem ot_exponential_same_law (rate loc x : ℝ) :
    otExponential (Gen.OTExponential.arg0 rate loc) (Gen.OTExponential.arg1 rate loc) x =
      exponentialCdf rate loc x := rfl

/-! #### Triangular -/

theorem sp_triangular_same_law (a m b x : ℝ) (ham : a < m) (hmb : m < b) :
    spCdf (stdTriangCdf (Gen.SPTriangular.c a m b)) (Gen.SPTriangular.loc a m b)
      (Gen.SPTriangular.scale a m b) x = triangularCdf a m b x := by
  exact sp_triangular_eq a m b x ham hmb

theorem sp_triangular_moments (a m b : ℝ) (hab : a < b) :
    spMean ((1 + Gen.SPTriangular.c a m b) / 3) (Gen.SPTriangular.loc a m b)
      (Gen.SPTriangular.scale a m b) = (a + m + b) / 3 := by
  have hba : b - a ≠ 0 := (sub_pos.mpr hab).ne'
  simp only [spMean, Gen.SPTriangular.c, Gen.SPTriangular.loc, Gen.SPTriangular.scale]
  field_simp; ring

theorem ot_triangular_same_law (a m b x : ℝ) :
    otTriangular (Gen.OTTriangular.arg0 a m b) (Gen.OTTriangular.arg1 a m b)
      (Gen.OTTriangular.arg2 a m b) x = triangularCdf a m b x := rfl

/-! #### Beta on `[minimum, maximum]` -/

theorem sp_beta_same_law (I : ℝ → ℝ → ℝ → ℝ) (al be a b x : ℝ) :
    spCdf (I (Gen.SPBeta.a al be a b) (Gen.SPBeta.b al be a b)) (Gen.SPBeta.loc al be a b)
      (Gen.SPBeta.scale al be a b) x = betaCdf I al be a b x ∧
    spMean (al / (al + be)) (Gen.SPBeta.loc al be a b) (Gen.SPBeta.scale al be a b) =
      a + (b - a) * al / (al + be) := by
  refine ⟨rfl, ?_⟩
  simp only [spMean, Gen.SPBeta.loc, Gen.SPBeta.scale]; ring

theorem ot_beta_same_law (I : ℝ → ℝ → ℝ → ℝ) (al be a b x : ℝ) :
    otBeta I (Gen.OTBeta.arg0 al be a b) (Gen.OTBeta.arg1 al be a b) (Gen.OTBeta.arg2 al be a b)
      (Gen.OTBeta.arg3 al be a b) x = betaCdf I al be a b x := rfl

/-! #### Weibull (minimum and maximum extreme value) -/

theorem sp_weibull_same_law (location scale shape x : ℝ) (hs : 0 < scale) :
    spCdf (stdWeibullMinCdf (Gen.SPWeibull.c location scale shape true))
      (Gen.SPWeibull.loc location scale shape true) (Gen.SPWeibull.scale location scale shape true) x
      = weibullMinCdf location scale shape x ∧
    spCdf (stdWeibullMaxCdf (Gen.SPWeibull.c location scale shape false))
      (Gen.SPWeibull.loc location scale shape false) (Gen.SPWeibull.scale location scale shape false) x
      = weibullMaxCdf location scale shape x := by
  exact ⟨sp_weibull_min_eq location scale shape x hs, sp_weibull_max_eq location scale shape x hs⟩

theorem ot_weibull_same_law (location scale shape x : ℝ) :
    otWeibullMin (Gen.OTWeibull.arg0 location scale shape true)
      (Gen.OTWeibull.arg1 location scale shape true) (Gen.OTWeibull.arg2 location scale shape true) x
      = weibullMinCdf location scale shape x ∧
    otWeibullMax (Gen.OTWeibull.arg0 location scale shape false)
      (Gen.OTWeibull.arg1 location scale shape false) (Gen.OTWeibull.arg2 location scale shape false) x
      = weibullMaxCdf location scale shape x := ⟨rfl, rfl⟩

/-! #### Log-normal -/

/-- `set_log = True`: `mu`, `sigma` are the mean and standard deviation of the logarithm. -/
theorem sp_lognormal_log_same_law (Φ : ℝ → ℝ) (mu sigma location x : ℝ) :
    spCdf (stdLognormCdf Φ (Gen.SPLogNormal.s mu sigma location true))
      (Gen.SPLogNormal.loc mu sigma location true) (Gen.SPLogNormal.scale mu sigma location true) x
      = logNormalCdf Φ mu sigma location x := by
  exact sp_lognormal_eq Φ mu sigma location x

theorem ot_lognormal_log_same_law (Φ : ℝ → ℝ) (mu sigma location x : ℝ) :
    otLogNormal Φ (Gen.OTLogNormal.arg0 mu sigma location true)
      (Gen.OTLogNormal.arg1 mu sigma location true) (Gen.OTLogNormal.arg2 mu sigma location true) x
      = logNormalCdf Φ mu sigma location x := by
  simp [otLogNormal, Gen.OTLogNormal.arg0, Gen.OTLogNormal.arg1, Gen.OTLogNormal.arg2, logNormalCdf]

/-- `set_log = False`: `mu`, `sigma` are the mean and standard deviation of the variable itself.
    The log-parameters computed by GEMSEO (`compute_mu_l_and_sigma_l`, inlined by the translator)
    are those of the shifted log-normal law with exactly that mean and that variance, and the
    SciPy and OpenTURNS classes receive the same ones. -/
theorem lognormal_moment_matching (mu sigma location : ℝ) (hm : location < mu) :
    let muL := Gen.OTLogNormal.arg0 mu sigma location false
    let sL := Gen.OTLogNormal.arg1 mu sigma location false
    location + exp (muL + sL ^ 2 / 2) = mu ∧
    (exp (sL ^ 2) - 1) * exp (2 * muL + sL ^ 2) = sigma ^ 2 ∧
    Gen.SPLogNormal.s mu sigma location false = sL ∧
    Gen.SPLogNormal.scale mu sigma location false = exp muL ∧
    Gen.SPLogNormal.loc mu sigma location false = location ∧
    Gen.OTLogNormal.arg2 mu sigma location false = location := by
  intro muL sL
  have hmpos : 0 < mu - location := sub_pos.mpr hm
  set A := sqrt ((sigma / (mu - location)) ^ 2 + 1) with hA
  have hA1 : 1 ≤ (sigma / (mu - location)) ^ 2 + 1 := by nlinarith [sq_nonneg (sigma / (mu - location))]
  have hApos : 0 < A := sqrt_pos.mpr (by linarith)
  have hAsq : A ^ 2 = (sigma / (mu - location)) ^ 2 + 1 := sq_sqrt (by linarith)
  have hAge : 1 ≤ A := by
    rw [hA]; calc (1 : ℝ) = sqrt 1 := sqrt_one.symm
      _ ≤ sqrt ((sigma / (mu - location)) ^ 2 + 1) := sqrt_le_sqrt hA1
  have hlogA : 0 ≤ log A := log_nonneg hAge
  have hmuL : muL = log (mu - location) - log A := by
    simp only [muL, Gen.OTLogNormal.arg0, Bool.false_eq_true, if_false]
    rw [← hA, log_div hmpos.ne' hApos.ne']
  have hsL2 : sL ^ 2 = 2 * log A := by
    simp only [sL, Gen.OTLogNormal.arg1, Bool.false_eq_true, if_false]
    rw [← hA, log_div hmpos.ne' hApos.ne', sq_sqrt (by linarith)]
    ring
  refine ⟨?_, ?_, ?_, ?_, rfl, rfl⟩
  · rw [hmuL, hsL2]
    have : log (mu - location) - log A + 2 * log A / 2 = log (mu - location) := by ring
    rw [this, exp_log hmpos]; ring
  · rw [hmuL, hsL2]
    have e1 : exp (2 * log A) = A ^ 2 := by
      rw [two_mul, exp_add, exp_log hApos]; ring
    have e2 : exp (2 * (log (mu - location) - log A) + 2 * log A) = (mu - location) ^ 2 := by
      have : 2 * (log (mu - location) - log A) + 2 * log A = log (mu - location) + log (mu - location) := by
        ring
      rw [this, exp_add, exp_log hmpos]; ring
    rw [e1, e2, hAsq]
    field_simp; ring
  · simp only [sL, Gen.SPLogNormal.s, Gen.OTLogNormal.arg1]
  · simp only [muL, Gen.SPLogNormal.scale, Gen.OTLogNormal.arg0]

/-! #### Dirac -/

theorem ot_dirac_same_law (v x : ℝ) : otDirac (Gen.OTDirac.arg0 v) x = diracCdf v x := rfl

/-! ## Part 3 — closed-form laws (re-exported from Analysis/C19Laws.lean)

CDF and inverse CDF are mutual inverses, the inverse CDF maps the unit interval into the support
(samples obtained by inverse transform lie in the support), the moments have their closed forms. -/

theorem uniform_law (a b : ℝ) (h : a < b) :
    (∀ p, 0 ≤ p → p ≤ 1 → uniformCdf a b (uniformIcdf a b p) = p) ∧
    (∀ x, a ≤ x → x ≤ b → uniformIcdf a b (uniformCdf a b x) = x) ∧
    (∀ p, 0 ≤ p → p ≤ 1 → a ≤ uniformIcdf a b p ∧ uniformIcdf a b p ≤ b) ∧
    (∫ x in a..b, x * (1 / (b - a))) = (a + b) / 2 ∧
    (∫ x in a..b, (x - (a + b) / 2) ^ 2 * (1 / (b - a))) = (b - a) ^ 2 / 12 ∧
    sqrt ((b - a) ^ 2 / 12) = (b - a) / sqrt 12 :=
  ⟨fun p h0 h1 => uniform_cdf_icdf a b p h h0 h1, fun x h0 h1 => uniform_icdf_cdf a b x h h0 h1,
   fun p h0 h1 => uniform_icdf_mem_support a b p h.le h0 h1, uniform_mean a b h,
   uniform_variance a b h, uniform_std a b h⟩

theorem triangular_law (a m b : ℝ) (ham : a < m) (hmb : m < b) :
    (∀ p, 0 ≤ p → p ≤ 1 → triangularCdf a m b (triangularIcdf a m b p) = p) ∧
    (∀ x, a ≤ x → x ≤ b → triangularIcdf a m b (triangularCdf a m b x) = x) ∧
    (∀ p, 0 ≤ p → p ≤ 1 → a ≤ triangularIcdf a m b p ∧ triangularIcdf a m b p ≤ b) ∧
    ((∫ x in a..m, x * (2 * (x - a) / ((b - a) * (m - a)))) +
      (∫ x in m..b, x * (2 * (b - x) / ((b - a) * (b - m)))) = (a + m + b) / 3) ∧
    ((∫ x in a..m, (x - (a + m + b) / 3) ^ 2 * (2 * (x - a) / ((b - a) * (m - a)))) +
      (∫ x in m..b, (x - (a + m + b) / 3) ^ 2 * (2 * (b - x) / ((b - a) * (b - m)))) =
      (a ^ 2 + m ^ 2 + b ^ 2 - a * m - a * b - m * b) / 18) :=
  ⟨fun p h0 h1 => triangular_cdf_icdf a m b p ham hmb h0 h1,
   fun x h0 h1 => triangular_icdf_cdf a m b x ham hmb h0 h1,
   fun p h0 h1 => triangular_icdf_mem_support a m b p ham.le hmb.le h0 h1,
   triangular_mean a m b ham hmb, triangular_variance a m b ham hmb⟩

theorem exponential_law (rate loc : ℝ) (hr : 0 < rate) :
    (∀ p, 0 ≤ p → p < 1 → exponentialCdf rate loc (exponentialIcdf rate loc p) = p) ∧
    (∀ x, loc ≤ x → exponentialIcdf rate loc (exponentialCdf rate loc x) = x) ∧
    (∀ p, 0 ≤ p → p < 1 → loc ≤ exponentialIcdf rate loc p) ∧
    (∫ x in Set.Ioi (0 : ℝ), x * exp (-x)) = 1 ∧
    (∫ x in Set.Ioi (0 : ℝ), x ^ 2 * exp (-x)) = 2 :=
  ⟨fun p h0 h1 => exponential_cdf_icdf rate loc p hr h0 h1,
   fun x h => exponential_icdf_cdf rate loc x hr h,
   fun p h0 h1 => exponential_icdf_mem_support rate loc p hr h0 h1,
   std_exponential_mean, std_exponential_second_moment⟩

/-- samples obtained through a monotone inverse CDF lie in the support -/
theorem samples_in_support (Q : ℝ → ℝ) (lb ub : ℝ) (hmono : MonotoneOn Q (Set.Icc 0 1))
    (h0 : Q 0 = lb) (h1 : Q 1 = ub) (u : ℝ) (hu : u ∈ Set.Icc (0 : ℝ) 1) :
    lb ≤ Q u ∧ Q u ≤ ub :=
  icdf_image_in_support Q lb ub hmono h0 h1 u hu

end GV.C19
