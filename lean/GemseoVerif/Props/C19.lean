/-
C19 — property theorems (partial: SciPy/OpenTURNS numerics are parameters).

Part 1 (this section): the parameter space.  For every well-formed space (an invariant of every
edit history), every environment of marginals and every vector of the right dimension:
`normalize_vect(use_dist=True)` / `transform_vect` maps each variable independently — uncertain
variables through the CDFs of their marginals, deterministic variables through exactly the affine
design-space block — in variable order and with the variable sizes; if each marginal pair is
mutually inverse at the values met, `untransform_vect ∘ transform_vect` and
`transform_vect ∘ untransform_vect` are identities; 2-D inputs are mapped row by row.
-/
import GemseoVerif.Lemmas.C19Round

namespace GV.C19
open GV GV.C02

/-! ### Without distributions a parameter space is its design space -/

theorem normalize_without_dist (p : PS) (env : Env) (m : Bool) (x : List Rat) :
    p.normalizeVect env m false x = some (p.ds.normalizeVect m x) := by
  simp [PS.normalizeVect]

theorem unnormalize_without_dist (p : PS) (env : Env) (m : Bool) (u : List Rat) :
    p.unnormalizeVect env m false u = some (p.ds.unnormalizeVect m u) := by
  simp [PS.unnormalizeVect]

/-! ### With distributions: one independent map per variable, in variable order -/

/-- `transform_vect x` exists and is the concatenation, in variable order, of one block per
    variable of the size of that variable. -/
theorem transform_blocks (p : PS) (hwf : p.WF) (env : Env) (x : List Rat)
    (hx : x.length = p.ds.dimension) :
    ∃ y, p.transformVect env x = some y ∧ y.length = p.ds.dimension ∧
      splitBySizes p.ds.sizes y = p.normBlocks env true x ∧
      (p.normBlocks env true x).map List.length = p.ds.sizes := by
  refine ⟨p.normSpec env true x, normalizeVect_spec p hwf env true x hx,
    normSpec_length p hwf env true x hx, split_normSpec p hwf env true x hx, ?_⟩
  exact blocks_lengths p hwf env false (normBlock p.ds.intNorm true)
    (fun v hv xb hxb => normBlock_length _ _ v (hwf.ds.2 v hv) xb hxb) x hx

/-- **Deterministic variables follow exactly the affine design-space map**: the block of the
    `i`-th variable, when it is deterministic, is the block of `DesignSpace.normalize_vect`
    (for `normalize_vect(x, minus_lb, use_dist=True)` with either value of `minus_lb`). -/
theorem deterministic_on_design_space_map (p : PS) (hwf : p.WF) (env : Env) (m : Bool)
    (x y : List Rat) (hx : x.length = p.ds.dimension)
    (hy : p.normalizeVect env m true x = some y)
    (i : Nat) (v : Var) (hv : p.ds.vars[i]? = some v) (hdet : v.name ∉ p.unc) :
    (splitBySizes p.ds.sizes y)[i]? = (splitBySizes p.ds.sizes (p.ds.normalizeVect m x))[i]? := by
  rw [normalizeVect_spec p hwf env m x hx] at hy
  have hy' : y = p.normSpec env m x := (Option.some.inj hy).symm
  subst hy'
  rw [split_normSpec p hwf env m x hx]
  have hl : (splitBySizes p.ds.sizes x).length = p.ds.vars.length := by
    rw [splitBySizes_length]; simp [DS.sizes]
  have hG : splitBySizes p.ds.sizes (p.ds.normalizeVect m x) =
      List.zipWith (normBlock p.ds.intNorm m) p.ds.vars (splitBySizes p.ds.sizes x) := by
    rw [normalizeVect_blocks p.ds hwf.ds m x]
    apply splitBySizes_flatten_of
    rw [zipWith_map_length _ Var.size p.ds.vars _ hl]
    · rfl
    · intro j w b hw hb
      exact normBlock_length _ _ w (hwf.ds.2 w (List.mem_of_getElem? hw)) b
        (block_length p.ds x hx j w b hw hb)
  rw [hG]
  unfold PS.normBlocks
  rw [List.getElem?_zipWith, List.getElem?_zipWith, hv]
  cases (splitBySizes p.ds.sizes x)[i]? with
  | none => rfl
  | some b => simp [PS.mapVar, hdet]

/-- **Uncertain variables go through the CDFs of their own marginals**, component by component. -/
theorem uncertain_through_marginals (p : PS) (hwf : p.WF) (env : Env) (m : Bool)
    (x y : List Rat) (hx : x.length = p.ds.dimension)
    (hy : p.normalizeVect env m true x = some y)
    (i : Nat) (v : Var) (b : List Rat) (hv : p.ds.vars[i]? = some v)
    (hb : (splitBySizes p.ds.sizes x)[i]? = some b) (hunc : v.name ∈ p.unc) :
    (splitBySizes p.ds.sizes y)[i]? =
      some (List.zipWith (fun xi mg => env.cdf mg xi) b (p.margsOf v.name)) := by
  rw [normalizeVect_spec p hwf env m x hx] at hy
  have hy' : y = p.normSpec env m x := (Option.some.inj hy).symm
  subst hy'
  rw [split_normSpec p hwf env m x hx]
  unfold PS.normBlocks
  rw [List.getElem?_zipWith, hv, hb]
  simp [PS.mapVar, hunc, jointApply, applyMarg]

/-! ### Mutual inverses -/

/-- **`untransform_vect (transform_vect x) = x`** (more generally with any `minus_lb`), given that
    each marginal pair is mutually inverse at the values of `x` and returns probabilities, and that
    the deterministic variables are float with non-degenerate normalised components. -/
theorem unnormalize_normalize_dist (p : PS) (hwf : p.WF) (env : Env) (m : Bool) (x : List Rat)
    (hx : x.length = p.ds.dimension) (h : RoundTripHyp p env m x) :
    ∃ y, p.normalizeVect env m true x = some y ∧ p.unnormalizeVect env m true y = some x := by
  refine ⟨p.normSpec env m x, normalizeVect_spec p hwf env m x hx, ?_⟩
  rw [unnormalizeVect_spec p hwf env m _ (normSpec_length p hwf env m x hx)
    (normSpec_unit p hwf env m x hx h)]
  rw [unnormSpec_normSpec p hwf env m x hx h]

theorem untransform_transform (p : PS) (hwf : p.WF) (env : Env) (x : List Rat)
    (hx : x.length = p.ds.dimension) (h : RoundTripHyp p env true x) :
    ∃ y, p.transformVect env x = some y ∧ p.untransformVect env y = some x :=
  unnormalize_normalize_dist p hwf env true x hx h

end GV.C19
