/-
C05 — property theorems: discipline caches are transparent.
Only property theorems (and the few definitions needed to state them) live here; helper lemmas
are in `Lemmas/C05.lean`, `Lemmas/C05Index.lean` and `Lemmas/C05Hist.lean`.

Conventions: `cfg.cow = true` says that the cache stores private copies of the data the discipline
was *called with* (nothing kept by reference, the inputs of an entry copied before the body runs),
`cfg.coh = true` that a hit hands out copies (both true for every cache kind under `Policy.copy`, the
repaired code). `reach cfg d ops` is the state after an arbitrary history `ops` (executions,
linearizations, in-place modifications of caller arrays, kept output arrays, HDF5 reopen, clear),
`d` is an arbitrary body: `run`, `jacf` are arbitrary functions of the values the input arrays hold
when the body starts, and the body may **update its input arrays in place** (`d.wr` arbitrary) and
**return an input array itself as an output** (`d.aliasOf` arbitrary) — every theorem below that
quantifies over `d` covers such bodies. (Correspondence with the code: `execute` is validated for
all of them; `linearize` only for bodies that do not write, `d.wr = id` — the code differentiates a
writing body at the values its run left in the arrays, the model at the call-time values; see
notes/C05.md.) The hash of each call is an arbitrary number carried by the operation.
-/
import GemseoVerif.Lemmas.C05Hist
import GemseoVerif.Lemmas.C05Forms
import Mathlib.Analysis.Real.Sqrt
import Mathlib.Tactic.Linarith
import Mathlib.Tactic.NormNum

namespace GV.C05

/-! ### Transparency of `execute` -/

/-- **transparent_tol.** After every history, every execution returns the outputs of the body at an
    input `w` that the body was really run on (now or before) and that matches the current input `x`
    with the cache tolerance (`compare_dict_of_arrays(x, w, t)`); the witness is returned.
    Histories include in-place modifications of the caller's arrays: `x` is the value the arrays
    have at call time. -/
theorem transparent_tol (cfg : Cfg) (d : Disc) (hcow : cfg.cow = true) (hcoh : cfg.coh = true)
    (ops : List Op) (args : List (Name × Nat)) (h : Nat) (xs : List (Arr × Option Nat))
    (hp : prepare cfg (reach cfg d ops) args = some xs) :
    ∃ w ∈ (step cfg d (reach cfg d ops) (.exec args h)).1.runLog,
      cmp cfg.tol (xs.map (·.1)) w = true ∧
      (step cfg d (reach cfg d ops) (.exec args h)).2 = .data (d.run w) := by
  have hinv : Inv d (reach cfg d ops) := reachFrom_inv ops {} hcow hcoh (inv_init d)
  have hpost := execute_post (xs := xs) (h := h) hcow hcoh hinv
  obtain ⟨w, hw, hc, hr⟩ := hpost.out
  simp only [step, hp]
  exact ⟨w, hw, hc, by rw [hr]⟩

/-- **transparent_exact.** With exact matching (`t = 0`) every execution, after every history,
    returns exactly the outputs of the body at the current input values: what the uncached twin
    returns. -/
theorem transparent_exact (cfg : Cfg) (d : Disc) (hcow : cfg.cow = true) (hcoh : cfg.coh = true)
    (ht : cfg.tol = 0)
    (ops : List Op) (args : List (Name × Nat)) (h : Nat) (xs : List (Arr × Option Nat))
    (hp : prepare cfg (reach cfg d ops) args = some xs) :
    (step cfg d (reach cfg d ops) (.exec args h)).2 = .data (d.run (xs.map (·.1))) := by
  obtain ⟨w, _, hc, hr⟩ := transparent_tol cfg d hcow hcoh ops args h xs hp
  rw [ht] at hc
  rw [(cmp_zero_iff _ _).mp hc]
  exact hr

/-- The uncached twin: with no cache every execution returns the outputs of the body at the
    current input (so `transparent_exact` is an equality with the twin on the same history). -/
theorem twin_exact (cfg : Cfg) (d : Disc) (hk : cfg.kind = .none)
    (st : State) (args : List (Name × Nat)) (h : Nat) (xs : List (Arr × Option Nat))
    (hp : prepare cfg st args = some xs) :
    (step cfg d st (.exec args h)).2 = .data (d.run (xs.map (·.1))) := by
  simp only [step, hp, execute, hk]
  simp [execMiss]

/-! ### Transparency of `linearize` -/

/-- **jacobian_transparent_tol.** After every history, every linearization (with execution) returns
    only blocks of the body's Jacobian at an input `w` that was really linearized and matches the
    current input with the cache tolerance (or nothing at all). -/
theorem jacobian_transparent_tol (cfg : Cfg) (d : Disc) (hcow : cfg.cow = true)
    (hcoh : cfg.coh = true) (ops : List Op) (all : Bool) (args : List (Name × Nat)) (h : Nat)
    (xs : List (Arr × Option Nat)) (hp : prepare cfg (reach cfg d ops) args = some xs) :
    ∃ r, (step cfg d (reach cfg d ops) (.lin all true args h)).2 = .jac r ∧
      (r = [] ∨ ∃ w ∈ (step cfg d (reach cfg d ops) (.lin all true args h)).1.jacLog,
        cmp cfg.tol (xs.map (·.1)) w = true ∧ ∀ kb ∈ r, kb ∈ d.jacf w) := by
  have hinv : Inv d (reach cfg d ops) := reachFrom_inv ops {} hcow hcoh (inv_init d)
  have hpost := linearize_post (all := all) (xs := xs) (h := h) hcow hcoh hinv
  simp only [step, hp]
  exact ⟨_, rfl, hpost.jac⟩

/-- **jacobian_transparent_exact.** With exact matching every returned block is the body's block at
    the current input values. -/
theorem jacobian_transparent_exact (cfg : Cfg) (d : Disc) (hcow : cfg.cow = true)
    (hcoh : cfg.coh = true) (ht : cfg.tol = 0) (ops : List Op) (all : Bool)
    (args : List (Name × Nat)) (h : Nat)
    (xs : List (Arr × Option Nat)) (hp : prepare cfg (reach cfg d ops) args = some xs) :
    ∃ r, (step cfg d (reach cfg d ops) (.lin all true args h)).2 = .jac r ∧
      ∀ kb ∈ r, kb ∈ d.jacf (xs.map (·.1)) := by
  obtain ⟨r, hr, hj⟩ := jacobian_transparent_tol cfg d hcow hcoh ops all args h xs hp
  refine ⟨r, hr, ?_⟩
  rcases hj with rfl | ⟨w, _, hc, hw⟩
  · intro kb hkb; cases hkb
  · rw [ht] at hc
    rw [(cmp_zero_iff _ _).mp hc]
    exact hw

theorem hasBlocks_prune {j : Jac} {inN outN : List Name} (h : hasBlocks j inN outN = true) :
    hasBlocks (prune j inN outN) inN outN = true := by
  unfold hasBlocks at h ⊢
  simp only [List.all_eq_true, List.any_eq_true] at h ⊢
  intro o ho i hi
  obtain ⟨p, hp, hpe⟩ := h o ho i hi
  refine ⟨p, ?_, hpe⟩
  unfold prune
  have hk : p.1 = (o, i) := by simpa using hpe
  simp [List.mem_filter, hp, hk, ho, hi]

/-- **jacobian_complete.** When something is to be differentiated and the body provides every
    requested block, every requested block is returned (from the cache or freshly computed). -/
theorem jacobian_complete (cfg : Cfg) (d : Disc) (st : State) (all : Bool)
    (xs : List (Arr × Option Nat)) (h : Nat) (hne : linEarly cfg all = false)
    (hbody : ∀ x, hasBlocks (d.jacf x) (linIn cfg all) (linOut cfg all) = true) :
    hasBlocks (linearize cfg d st all true xs h).2 (linIn cfg all) (linOut cfg all) = true := by
  unfold linearize linTail
  simp only [hne, Bool.false_eq_true, if_false, if_true]
  by_cases hc : ((execute cfg d st xs h).1.hasJac && !(execute cfg d st xs h).1.dJac.isEmpty &&
      hasBlocks (execute cfg d st xs h).1.dJac (linIn cfg all) (linOut cfg all)) = true
  · simp only [hc, if_true]
    simp only [Bool.and_eq_true] at hc
    exact hc.2
  · simp only [hc, Bool.false_eq_true, if_false]
    unfold linCompute linJac
    simp only []
    cases all with
    | true => simpa [linIn, linOut] using hbody (xs.map (·.1))
    | false =>
      simp only [Bool.false_eq_true, if_false]
      have := hbody (xs.map (·.1))
      simp only [linIn, linOut, Bool.false_eq_true, if_false] at this ⊢
      exact hasBlocks_prune this

/-! ### In-place modification of caller arrays -/

theorem findIdx_heap_indep {d : Disc} {rl jl : List Vals} {f : Full} (hf : FullOK d rl jl f)
    (heap heap' : List Arr) (t : Rat) (x : Vals) (idxs : List Nat) :
    findIdx heap f t x idxs = findIdx heap' f t x idxs := by
  unfold findIdx
  congr 1
  funext i
  cases he : f.entry? i with
  | none => rfl
  | some e =>
    have hv := (hf e (entry?_mem he)).inVal
    simp only [derefs_eq_vals heap _ hv, derefs_eq_vals heap' _ hv]

/-- **caller_mutation_harmless.** Whatever the caller writes into whichever of its arrays (all the
    arrays it ever passed in, and the output arrays it was handed), the cache answers every later
    request `(x, h)` exactly as before: the stored entries are private copies. -/
theorem caller_mutation_harmless (cfg : Cfg) (d : Disc) (hcow : cfg.cow = true)
    (hcoh : cfg.coh = true) (ops : List Op) (id : Nat) (v : Arr) (x : Vals) (h : Nat) :
    cacheGet cfg (step cfg d (reach cfg d ops) (.modify id v)).1 x h =
      cacheGet cfg (reach cfg d ops) x h := by
  have hinv : Inv d (reach cfg d ops) := reachFrom_inv ops {} hcow hcoh (inv_init d)
  generalize reach cfg d ops = st at hinv
  -- only the heap may differ
  have key : ∀ heap' : List Arr, cacheGet cfg { st with heap := heap' } x h = cacheGet cfg st x h := by
    intro heap'
    unfold cacheGet
    cases cfg.kind with
    | none => rfl
    | simple =>
      simp only [Simple.isCached, derefs_eq_vals _ _ hinv.simple.inVal]
    | memory sh =>
      simp only [Full.lookup, findIdx_heap_indep hinv.full heap' st.heap]
    | hdf5 =>
      simp only [Full.lookup, findIdx_heap_indep hinv.full heap' st.heap]
  simp only [step]
  split
  · split
    · exact key _
    · rfl
  · rfl

/-- The entries listed by `get_all_entries()` do not change either. -/
theorem caller_mutation_entries (cfg : Cfg) (d : Disc) (hcow : cfg.cow = true)
    (hcoh : cfg.coh = true) (ops : List Op) (id : Nat) (v : Arr) :
    allEntries cfg (step cfg d (reach cfg d ops) (.modify id v)).1 =
      allEntries cfg (reach cfg d ops) := by
  have hinv : Inv d (reach cfg d ops) := reachFrom_inv ops {} hcow hcoh (inv_init d)
  generalize reach cfg d ops = st at hinv
  have key : ∀ heap' : List Arr, allEntries cfg { st with heap := heap' } = allEntries cfg st := by
    intro heap'
    unfold allEntries
    cases cfg.kind with
    | none => rfl
    | simple =>
      simp only [derefs_eq_vals _ _ hinv.simple.inVal, derefs_eq_vals _ _ hinv.simple.outVal]
    | memory sh =>
      apply List.map_congr_left
      intro e he
      have hok := hinv.full e he
      rw [derefs_eq_vals heap' _ hok.inVal, derefs_eq_vals st.heap _ hok.inVal]
      cases ho : e.outputs with
      | none => rfl
      | some oc =>
        have := (hok.outOK oc ho).1
        simp only [Option.getD_some, derefs_eq_vals _ _ this]
    | hdf5 =>
      apply List.map_congr_left
      intro e he
      have hok := hinv.full e he
      rw [derefs_eq_vals heap' _ hok.inVal, derefs_eq_vals st.heap _ hok.inVal]
      cases ho : e.outputs with
      | none => rfl
      | some oc =>
        have := (hok.outOK oc ho).1
        simp only [Option.getD_some, derefs_eq_vals _ _ this]
  simp only [step]
  split
  · split
    · exact key _
    · rfl
  · rfl

/-! ### Full caches: run count, distinct entries, entries never overwritten, reopen

`hf` is an arbitrary hash function (collisions allowed); `HistHashOK hf cfg d {} ops` says that every
call of the history carries the hash `hf x` of the inputs it is called with. -/

/-- **runs_at_most_once.** With a full cache (memory, shared or not, or HDF5 — also reopened) and
    exact matching, whatever the hash function, after every history without `clear` the body has
    been run at most once per distinct input value: the run log has no duplicate, and the run
    counter is its length. (The body has at least one output: a discipline without outputs is
    never cached.) -/
theorem runs_at_most_once (hf : Vals → Nat) (cfg : Cfg) (d : Disc)
    (hk : cfg.kind.isFull = true) (ht : cfg.tol = 0) (hcow : cfg.cow = true)
    (hcoh : cfg.coh = true) (hout : ∀ x, d.run x ≠ []) (ops : List Op)
    (hops : HistHashOK hf cfg d {} ops) (hnc : Op.clear ∉ ops) :
    (reach cfg d ops).runLog.Nodup ∧ (reach cfg d ops).nRun = (reach cfg d ops).runLog.length := by
  have h0 : RunInv hf d {} :=
    ⟨inv_init d, idxInv_empty hf, (fun x hx => by cases hx), List.nodup_nil⟩
  exact ⟨(reachFrom_runInv ops {} hk ht hcow hcoh hout hops hnc h0).nodup,
    reachFrom_nRun ops {} hcoh rfl⟩

/-- **entries_inputs_distinct** (`len_eq_distinct_inputs`). Whatever the hash function (collisions
    included) and the tolerance, no two entries of a full cache have the same inputs: `len(cache)`
    is the number of distinct inputs stored. -/
theorem entries_inputs_distinct (hf : Vals → Nat) (cfg : Cfg) (d : Disc) (hcow : cfg.cow = true)
    (hcoh : cfg.coh = true) (ops : List Op) (hops : HistHashOK hf cfg d {} ops)
    (i j : Nat) (ei ej : Entry) (hi : (reach cfg d ops).full.entry? i = some ei)
    (hj : (reach cfg d ops).full.entry? j = some ej) (hv : vals ei.inputs = vals ej.inputs) :
    i = j :=
  (reachFrom_idx ops {} hcow hcoh hops (idxInv_empty hf)).distinct i j ei ej hi hj hv

/-- **entry_never_overwritten** (`jacobian_then_outputs`, `outputs_then_jacobian`). From any state,
    whatever happens next short of `clear` — outputs stored after the Jacobian or the Jacobian after
    the outputs, for this input or for colliding ones, a reopen — an existing entry keeps its index,
    its inputs, its hash and every group (outputs, Jacobian) it already has. -/
theorem entry_never_overwritten (cfg : Cfg) (d : Disc) (hcow : cfg.cow = true)
    (hcoh : cfg.coh = true) (st : State) (ops : List Op) (hnc : Op.clear ∉ ops)
    (i : Nat) (e : Entry) (he : st.full.entry? i = some e) :
    ∃ e', (reachFrom cfg d st ops).full.entry? i = some e' ∧ e'.inputs = e.inputs ∧
      e'.hash = e.hash ∧ (∀ oc, e.outputs = some oc → e'.outputs = some oc) ∧
      (∀ j, e.jac = some j → e'.jac = some j) :=
  reachFrom_ext ops st hcow hcoh hnc i e he

/-- **reopen_same_entries.** A file cache reopened after any history has the same entries and, with
    exact matching, finds for every request exactly the entry the cache found before the reopen
    (whatever the order in which h5py lists the entries and whatever the hash function). -/
theorem reopen_same_entries (hf : Vals → Nat) (cfg : Cfg) (d : Disc) (hcow : cfg.cow = true)
    (hcoh : cfg.coh = true) (ops : List Op) (hops : HistHashOK hf cfg d {} ops)
    (heap : List Arr) (x : Vals) :
    (reach cfg d ops).full.reopen.entries = (reach cfg d ops).full.entries ∧
    (reach cfg d ops).full.reopen.lookup heap 0 x (hf x) =
      (reach cfg d ops).full.lookup heap 0 x (hf x) := by
  have hI : IdxInv hf (reach cfg d ops).full := reachFrom_idx ops {} hcow hcoh hops (idxInv_empty hf)
  generalize (reach cfg d ops).full = f at hI
  have hI' := reopen_idx hI
  refine ⟨rfl, ?_⟩
  -- a found index designates an entry with inputs `x`; such an entry is found by both
  have key : ∀ (g g' : Full), IdxInv hf g → IdxInv hf g' → g'.entries = g.entries →
      ∀ i, g.lookup heap 0 x (hf x) = some i → g'.lookup heap 0 x (hf x) = some i := by
    intro g g' hg hg' hent i hl
    obtain ⟨e, he, hc⟩ := lookup_some hl
    rw [derefs_eq_vals heap _ (hg.inVal e (entry?_mem he))] at hc
    have hx : x = vals e.inputs := (cmp_zero_iff _ _).mp hc
    have he' : g'.entry? i = some e := by rw [entry?_same_entries hent]; exact he
    rw [hx]; exact lookup_finds hg' heap he'
  cases h1 : f.lookup heap 0 x (hf x) with
  | some i => exact key f f.reopen hI hI' rfl i h1
  | none =>
    cases h2 : f.reopen.lookup heap 0 x (hf x) with
    | none => rfl
    | some i =>
      have := key f.reopen f hI' hI rfl i h2
      rw [h1] at this; cases this

/-! ### Bodies that update their input arrays in place: the entry is keyed by the pre-run values -/

/-- **entry_input_is_pre_run_value** (full caches). After every history, when an execution runs the
    body, the cache holds an entry whose inputs are the values `xs` the input arrays had when the
    discipline was **called** (before the run) and whose outputs are the outputs of the body at these
    values — whatever the body wrote into its input arrays during the run (`d.wr`, `d.aliasOf`
    arbitrary: e.g. a self-coupled state advanced in place and returned as the same array). -/
theorem entry_input_is_pre_run_value (cfg : Cfg) (d : Disc) (hk : cfg.kind.isFull = true)
    (hcow : cfg.cow = true) (hcoh : cfg.coh = true) (ops : List Op) (args : List (Name × Nat))
    (h : Nat) (xs : List (Arr × Option Nat)) (hp : prepare cfg (reach cfg d ops) args = some xs)
    (hran : (step cfg d (reach cfg d ops) (.exec args h)).1.nRun ≠ (reach cfg d ops).nRun) :
    ∃ i e oc, (step cfg d (reach cfg d ops) (.exec args h)).1.full.entry? i = some e ∧
      vals e.inputs = xs.map (·.1) ∧ e.outputs = some oc ∧ vals oc = d.run (xs.map (·.1)) := by
  have hinv : Inv d (reach cfg d ops) := reachFrom_inv ops {} hcow hcoh (inv_init d)
  generalize reach cfg d ops = st at hinv hp hran
  simp only [step, hp] at hran ⊢
  rcases execute_cases (cfg := cfg) (d := d) (st := st) (xs := xs) (h := h) hcoh with hn | hm
  · exact absurd hn hran
  · rw [hm]
    exact execMiss_entry hk hcow (hinv.of_eq rfl rfl rfl rfl) rfl

/-- **simple_entry_input_is_pre_run_value** (`SimpleCache`). Same statement for the single entry:
    after an execution that runs the body the stored inputs are the call-time values and the stored
    outputs (if any) are the body's outputs at these values. -/
theorem simple_entry_input_is_pre_run_value (cfg : Cfg) (d : Disc) (hk : cfg.kind = .simple)
    (hcow : cfg.cow = true) (hcoh : cfg.coh = true) (ops : List Op) (args : List (Name × Nat))
    (h : Nat) (xs : List (Arr × Option Nat)) (hp : prepare cfg (reach cfg d ops) args = some xs)
    (hran : (step cfg d (reach cfg d ops) (.exec args h)).1.nRun ≠ (reach cfg d ops).nRun) :
    vals (step cfg d (reach cfg d ops) (.exec args h)).1.simple.inputs = xs.map (·.1) ∧
      ((step cfg d (reach cfg d ops) (.exec args h)).1.simple.outputs ≠ [] →
        vals (step cfg d (reach cfg d ops) (.exec args h)).1.simple.outputs =
          d.run (xs.map (·.1))) := by
  have hinv : Inv d (reach cfg d ops) := reachFrom_inv ops {} hcow hcoh (inv_init d)
  generalize reach cfg d ops = st at hinv hp hran
  simp only [step, hp] at hran ⊢
  rcases execute_cases (cfg := cfg) (d := d) (st := st) (xs := xs) (h := h) hcoh with hn | hm
  · exact absurd hn hran
  · rw [hm]
    exact execMiss_simple_entry hk hcow (hinv.of_eq rfl rfl rfl rfl) rfl

/-- **repeated_input_hits.** With a full cache and exact matching, whatever the hash function:
    once the body has been run on the input values `x` (they are in the run log — the arrays that
    held them may have been overwritten since, by the caller or by the body itself), every later
    execution called with arrays holding `x` again is a hit: the body does not run and the outputs
    of the body at `x` are returned. -/
theorem repeated_input_hits (hf : Vals → Nat) (cfg : Cfg) (d : Disc)
    (hk : cfg.kind.isFull = true) (ht : cfg.tol = 0) (hcow : cfg.cow = true)
    (hcoh : cfg.coh = true) (hout : ∀ x, d.run x ≠ []) (ops : List Op)
    (hops : HistHashOK hf cfg d {} ops) (hnc : Op.clear ∉ ops)
    (args : List (Name × Nat)) (xs : List (Arr × Option Nat))
    (hp : prepare cfg (reach cfg d ops) args = some xs)
    (hx : xs.map (·.1) ∈ (reach cfg d ops).runLog) :
    (step cfg d (reach cfg d ops) (.exec args (hf (xs.map (·.1))))).1.nRun = (reach cfg d ops).nRun ∧
    (step cfg d (reach cfg d ops) (.exec args (hf (xs.map (·.1))))).2 =
      .data (d.run (xs.map (·.1))) := by
  have h0 : RunInv hf d {} :=
    ⟨inv_init d, idxInv_empty hf, (fun x hx => by cases hx), List.nodup_nil⟩
  have hK : RunInv hf d (reach cfg d ops) :=
    reachFrom_runInv ops {} hk ht hcow hcoh hout hops hnc h0
  have hn : (reach cfg d ops).nRun = (reach cfg d ops).runLog.length :=
    reachFrom_nRun ops {} hcoh rfl
  refine ⟨?_, transparent_exact cfg d hcow hcoh ht ops args _ xs hp⟩
  simp only [step, hp]
  rw [execute_nRun hcoh hn, (execute_logged_hit hk ht hcoh hout rfl hK hx).1, hn]

/-! ### Meaning of the square-root-free tolerance test -/

/-- The test of the model is the test of the code: `‖w - x‖ ≤ t (1 + ‖x‖)` with Euclidean norms
    (for arrays of the same length and `t ≥ 0`). -/
theorem withinArr_iff (t : Rat) (x w : Arr) (ht : 0 ≤ t) (hl : x.length = w.length) :
    withinArr t x w = true ↔
      Real.sqrt (sumSq (subArr w x) : ℚ) ≤ (t : ℝ) * (1 + Real.sqrt (sumSq x : ℚ)) := by
  have hD : (0 : ℝ) ≤ ((sumSq (subArr w x) : ℚ) : ℝ) := by exact_mod_cast sumSq_nonneg _
  have hS : (0 : ℝ) ≤ ((sumSq x : ℚ) : ℝ) := by exact_mod_cast sumSq_nonneg _
  have htR : (0 : ℝ) ≤ (t : ℝ) := by exact_mod_cast ht
  set D : ℚ := sumSq (subArr w x) with hDdef
  set S : ℚ := sumSq x with hSdef
  set sD := Real.sqrt (D : ℝ) with hsD
  set sS := Real.sqrt (S : ℝ) with hsS
  have hsD0 : 0 ≤ sD := Real.sqrt_nonneg _
  have hsS0 : 0 ≤ sS := Real.sqrt_nonneg _
  have hsD2 : sD * sD = (D : ℝ) := Real.mul_self_sqrt hD
  have hsS2 : sS * sS = (S : ℝ) := Real.mul_self_sqrt hS
  unfold withinArr
  simp only [hl, beq_self_eq_true, Bool.true_and, Bool.or_eq_true, decide_eq_true_eq, ← hDdef,
    ← hSdef]
  have htt : (0 : ℝ) ≤ (t : ℝ) * (t : ℝ) := mul_self_nonneg _
  have httS : (0 : ℝ) ≤ (t : ℝ) * (t : ℝ) * sS := mul_nonneg htt hsS0
  have hrhs : (0 : ℝ) ≤ (t : ℝ) * (1 + sS) := mul_nonneg htR (by linarith)
  have e1 : ((t : ℝ) * (1 + sS)) * ((t : ℝ) * (1 + sS)) =
      (t : ℝ) * (t : ℝ) + 2 * ((t : ℝ) * (t : ℝ) * sS) + (t : ℝ) * (t : ℝ) * (S : ℝ) := by
    rw [← hsS2]; ring
  have e2 : ((t : ℝ) * sS) * ((t : ℝ) * sS) = (t : ℝ) * (t : ℝ) * (S : ℝ) := by
    rw [← hsS2]; ring
  have e3 : (sD - (t : ℝ)) * (sD - (t : ℝ)) = (D : ℝ) - 2 * (t : ℝ) * sD + (t : ℝ) * (t : ℝ) := by
    rw [← hsD2]; ring
  have e4 : (2 * (t : ℝ) * sD) * (2 * (t : ℝ) * sD) = 4 * ((t : ℝ) * (t : ℝ)) * (D : ℝ) := by
    rw [← hsD2]; ring
  constructor
  · rintro ((h1 | h2) | h3)
    · -- D ≤ t²  ⇒  √D ≤ t
      have h1R : (D : ℝ) ≤ (t : ℝ) * (t : ℝ) := by exact_mod_cast h1
      have : sD ≤ (t : ℝ) := by
        apply (mul_self_le_mul_self_iff hsD0 htR).mpr
        rw [hsD2]; exact h1R
      nlinarith
    · have h2R : (D : ℝ) + (t : ℝ) * (t : ℝ) - (t : ℝ) * (t : ℝ) * (S : ℝ) ≤ 0 := by
        exact_mod_cast h2
      by_contra hcon
      have hcon' : (t : ℝ) * (1 + sS) < sD := not_le.mp hcon
      have hsq := mul_self_lt_mul_self hrhs hcon'
      rw [e1, hsD2] at hsq
      linarith
    · have h3R : ((D : ℝ) + (t : ℝ) * (t : ℝ) - (t : ℝ) * (t : ℝ) * (S : ℝ)) *
          ((D : ℝ) + (t : ℝ) * (t : ℝ) - (t : ℝ) * (t : ℝ) * (S : ℝ)) ≤
          4 * ((t : ℝ) * (t : ℝ)) * (D : ℝ) := by exact_mod_cast h3
      by_contra hcon
      have hcon' : (t : ℝ) * (1 + sS) < sD := not_le.mp hcon
      -- then √D - t > t √S ≥ 0, so A = D + t² - t² S > 2 t √D ≥ 0 and A² > 4 t² D
      have h1 : (t : ℝ) * sS < sD - (t : ℝ) := by linarith
      have h1sq := mul_self_lt_mul_self (mul_nonneg htR hsS0) h1
      rw [e2, e3] at h1sq
      have hA : 2 * (t : ℝ) * sD <
          (D : ℝ) + (t : ℝ) * (t : ℝ) - (t : ℝ) * (t : ℝ) * (S : ℝ) := by linarith
      have hAsq := mul_self_lt_mul_self (by positivity : (0 : ℝ) ≤ 2 * (t : ℝ) * sD) hA
      rw [e4] at hAsq
      linarith
  · intro hle
    by_cases h1 : D ≤ t * t
    · exact Or.inl (Or.inl h1)
    · by_cases h2 : D + t * t - t * t * S ≤ 0
      · exact Or.inl (Or.inr h2)
      · right
        have h1' : t * t < D := not_le.mp h1
        have h2' : 0 < D + t * t - t * t * S := not_le.mp h2
        have h1R : (t : ℝ) * (t : ℝ) < (D : ℝ) := by exact_mod_cast h1'
        have h2R : 0 < (D : ℝ) + (t : ℝ) * (t : ℝ) - (t : ℝ) * (t : ℝ) * (S : ℝ) := by
          exact_mod_cast h2'
        have goalR : ((D : ℝ) + (t : ℝ) * (t : ℝ) - (t : ℝ) * (t : ℝ) * (S : ℝ)) *
            ((D : ℝ) + (t : ℝ) * (t : ℝ) - (t : ℝ) * (t : ℝ) * (S : ℝ)) ≤
            4 * ((t : ℝ) * (t : ℝ)) * (D : ℝ) := by
          -- 0 < √D - t ≤ t √S  ⇒  A = D + t² - t² S ≤ 2 t √D
          have hlt : (t : ℝ) < sD := by
            by_contra hc
            have hc' : sD ≤ (t : ℝ) := not_lt.mp hc
            have := mul_self_le_mul_self hsD0 hc'
            rw [hsD2] at this
            linarith
          have h3 : sD - (t : ℝ) ≤ (t : ℝ) * sS := by linarith
          have h3sq := mul_self_le_mul_self (by linarith : (0 : ℝ) ≤ sD - (t : ℝ)) h3
          rw [e2, e3] at h3sq
          have hA : (D : ℝ) + (t : ℝ) * (t : ℝ) - (t : ℝ) * (t : ℝ) * (S : ℝ) ≤ 2 * (t : ℝ) * sD := by
            linarith
          have hAsq := mul_self_le_mul_self (le_of_lt h2R) hA
          rw [e4] at hAsq
          exact hAsq
        exact_mod_cast goalR

/-! ### Non-vacuity and counter-examples for the by-reference policies -/

/-- A body: `y = a` (one input, one output), Jacobian block `1`. -/
def exDisc : Disc := { run := fun x => x, jacf := fun _ => [(("y", "a"), [[1]])] }

def exCfg (kind : Kind) (tol : Rat) (pol : Policy) : Cfg :=
  { kind := kind, tol := tol, pol := pol, inNames := ["a"], defaults := [none], outNames := ["y"],
    dIn := ["a"], dOut := ["y"], runSetsJac := false }

/-- Non-vacuity of `HistHashOK`: every history can be given the hashes of an arbitrary hash
    function `hf` (this is what the real code does: it hashes the inputs of each call). -/
def fixHash (hf : Vals → Nat) (cfg : Cfg) (st : State) : Op → Op
  | .exec args _ =>
    (match prepare cfg st args with
     | some xs => .exec args (hf (xs.map (·.1)))
     | none => .exec args 0)
  | .lin all exe args _ =>
    (match prepare cfg st args with
     | some xs => .lin all exe args (hf (xs.map (·.1)))
     | none => .lin all exe args 0)
  | op => op

def fixHist (hf : Vals → Nat) (cfg : Cfg) (d : Disc) : State → List Op → List Op
  | _, [] => []
  | st, op :: ops =>
    fixHash hf cfg st op :: fixHist hf cfg d (step cfg d st (fixHash hf cfg st op)).1 ops

theorem fixHash_ok (hf : Vals → Nat) (cfg : Cfg) (st : State) (op : Op) :
    OpHashOK hf cfg st (fixHash hf cfg st op) := by
  intro args h xs hop hp
  cases op with
  | exec a h0 =>
    simp only [fixHash] at hop
    rcases hop with hop | ⟨_, _, hop⟩
    · cases hpa : prepare cfg st a with
      | none => simp only [hpa, Op.exec.injEq] at hop; rw [← hop.1, hpa] at hp; cases hp
      | some xs' =>
        simp only [hpa, Op.exec.injEq] at hop
        rw [← hop.1, hpa] at hp; cases hp
        exact hop.2.symm
    · cases hpa : prepare cfg st a <;> simp [hpa] at hop
  | lin al ex a h0 =>
    simp only [fixHash] at hop
    rcases hop with hop | ⟨_, _, hop⟩
    · cases hpa : prepare cfg st a <;> simp [hpa] at hop
    · cases hpa : prepare cfg st a with
      | none => simp only [hpa, Op.lin.injEq] at hop; rw [← hop.2.2.1, hpa] at hp; cases hp
      | some xs' =>
        simp only [hpa, Op.lin.injEq] at hop
        rw [← hop.2.2.1, hpa] at hp; cases hp
        exact hop.2.2.2.symm
  | new _ _ => rcases hop with hop | ⟨_, _, hop⟩ <;> simp [fixHash] at hop
  | modify _ _ => rcases hop with hop | ⟨_, _, hop⟩ <;> simp [fixHash] at hop
  | keep _ _ => rcases hop with hop | ⟨_, _, hop⟩ <;> simp [fixHash] at hop
  | reopen => rcases hop with hop | ⟨_, _, hop⟩ <;> simp [fixHash] at hop
  | clear => rcases hop with hop | ⟨_, _, hop⟩ <;> simp [fixHash] at hop

theorem fixHist_ok (hf : Vals → Nat) (cfg : Cfg) (d : Disc) (st : State) (ops : List Op) :
    HistHashOK hf cfg d st (fixHist hf cfg d st ops) := by
  induction ops generalizing st with
  | nil => trivial
  | cons op ops ih => exact ⟨fixHash_ok hf cfg st op, ih _⟩

/-- A history with a hit after an in-place modification of the array passed in first. -/
def exOps : List Op :=
  [.new 1 [0], .exec [("a", 1)] 7, .modify 1 [1], .new 2 [1], .exec [("a", 2)] 8]

-- the hypotheses of the theorems are met by every cache kind under the copy policy
example : (exCfg (.memory false) (1/4) Policy.copy).cow = true ∧
    (exCfg (.memory false) (1/4) Policy.copy).coh = true := by decide
example : (exCfg .simple 0 Policy.copy).cow = true ∧ (exCfg .hdf5 0 ⟨false, false, .pre⟩).cow = true := by
  decide
-- ... and the history is non-trivial: copy policy, the second execution is a miss and runs the body on [1]
example : (outputs (exCfg (.memory false) (1/4) Policy.copy) exDisc {} exOps).getLast? =
    some (.data [[1]]) := by decide +kernel
example : (reach (exCfg (.memory false) (1/4) Policy.copy) exDisc exOps).runLog = [[[0]], [[1]]] := by
  decide +kernel
-- a hit: same input again, the body is not run again
example : (reach (exCfg (.memory false) 0 Policy.copy) exDisc
    (exOps ++ [.new 3 [0], .exec [("a", 3)] 7])).nRun = 2 := by decide +kernel

/-- **Counter-example (store by reference).** With the pinned tree's policy of the non-shared
    `MemoryFullCache` (inputs and outputs kept by reference) the same history returns the outputs of
    `[0]` for the input `[1]`, which is not within the tolerance `1/4`: `transparent_tol` fails. -/
example : (outputs (exCfg (.memory false) (1/4) ⟨false, true, .coupledPre⟩) exDisc {} exOps).getLast? =
    some (.data [[0]]) := by decide +kernel
example : ¬ ∃ w ∈ (reach (exCfg (.memory false) (1/4) ⟨false, true, .coupledPre⟩) exDisc exOps).runLog,
    cmp (1/4) [[1]] w = true := by decide +kernel

/-- **Counter-example (hit hands out the stored array).** The caller keeps the output array of a
    hit, passes it back and modifies it: the entry of `[0]` now answers `[5]`. -/
def exOpsHit : List Op :=
  [.new 1 [0], .exec [("a", 1)] 7, .exec [("a", 1)] 7, .keep 2 "y", .exec [("a", 2)] 7,
   .modify 2 [5], .new 3 [0], .exec [("a", 3)] 7]

example : (outputs (exCfg .simple 0 ⟨true, false, .pre⟩) exDisc {} exOpsHit).getLast? =
    some (.data [[5]]) := by decide +kernel
example : (outputs (exCfg .simple 0 Policy.copy) exDisc {} exOpsHit).getLast? =
    some (.data [[0]]) := by decide +kernel

-- `runs_at_most_once` on a concrete colliding hash (every input hashes to 0): four calls, two runs
example : (reach (exCfg .hdf5 0 Policy.copy) exDisc
    (fixHist (fun _ => 0) (exCfg .hdf5 0 Policy.copy) exDisc {}
      [.new 1 [0], .exec [("a", 1)] 9, .new 2 [1], .exec [("a", 2)] 9, .reopen,
       .exec [("a", 1)] 9, .lin true true [("a", 2)] 9])).nRun = 2 := by decide +kernel
example : ((reach (exCfg .hdf5 0 Policy.copy) exDisc
    (fixHist (fun _ => 0) (exCfg .hdf5 0 Policy.copy) exDisc {}
      [.new 1 [0], .exec [("a", 1)] 9, .new 2 [1], .exec [("a", 2)] 9, .reopen,
       .exec [("a", 1)] 9, .lin true true [("a", 2)] 9])).full.entries.length = 2) := by decide +kernel

/-! ### Bodies with side effects on their input arrays: non-vacuity and counter-examples -/

/-- A discipline with a state: the self-coupled `s` is advanced **in place** (`s += 1`), the updated
    array itself is returned as the output `s`, and `y = 10 (s + 1)`. -/
def exInc : Disc :=
  { run := fun x => match x with
      | [[s]] => [[10 * (s + 1)], [s + 1]]
      | _ => [],
    jacf := fun _ => [],
    wr := fun x => x.map (fun v => v.map (· + 1)),
    aliasOf := [none, some 0] }

def exIncCfg (kind : Kind) (pol : Policy) : Cfg :=
  { kind := kind, tol := 0, pol := pol, inNames := ["s"], defaults := [none], outNames := ["y", "s"],
    dIn := [], dOut := [], runSetsJac := false }

/-- `s = 1`, then (fresh array) the state `s = 2` that call reached, then (fresh array) `s = 1` again
    (every call carries the same hash: a constant hash function). -/
def exIncOps : List Op :=
  [.new 1 [1], .exec [("s", 1)] 7, .new 2 [2], .exec [("s", 2)] 7, .new 3 [1], .exec [("s", 3)] 7]

-- the body really writes into the caller's array (the array passed first now holds 2) and the
-- returned `s` is that very array (address 0) ...
example : (reach (exIncCfg .simple Policy.copy) exInc (exIncOps.take 2)).heap.getD 0 [] = [2] := by
  decide +kernel
example : lookupN (reach (exIncCfg .simple Policy.copy) exInc (exIncOps.take 2)).lastRet "s" =
    some 0 := by decide +kernel
-- ... and the entry is keyed by the value before the run (`entry_input_is_pre_run_value`)
example : (allEntries (exIncCfg .hdf5 Policy.copy) (reach (exIncCfg .hdf5 Policy.copy) exInc
    (exIncOps.take 2))).map (fun e => (e.1, e.2.1)) = [([[1]], [[20], [2]])] := by decide +kernel
-- transparency: the call at the reached state runs the body, the repeated input hits
example : outputs (exIncCfg (.memory false) Policy.copy) exInc {} exIncOps =
    [.ok, .data [[20], [2]], .ok, .data [[30], [3]], .ok, .data [[20], [2]]] := by decide +kernel
example : (reach (exIncCfg (.memory false) Policy.copy) exInc exIncOps).nRun = 2 := by decide +kernel
example : (exIncCfg (.memory false) Policy.copy).cow = true ∧
    (exIncCfg (.memory false) Policy.copy).kind.isFull = true := by decide

/-- **Counter-example (inputs of the entry read after the run).** When the snapshot of the inputs is
    taken when the entry is written (`Snap.post`), the entry of the call at `s = 1` is keyed by the
    updated state `s = 2`: the call at `s = 2` is a wrong hit (the outputs of `s = 1` are returned,
    `transparent_exact` fails) and the repeated input `s = 1` runs the body again
    (`runs_at_most_once` fails), for every cache kind. -/
example : outputs (exIncCfg .simple ⟨true, true, .post⟩) exInc {} exIncOps =
    [.ok, .data [[20], [2]], .ok, .data [[20], [2]], .ok, .data [[20], [2]]] := by decide +kernel
example : (outputs (exIncCfg .hdf5 ⟨true, true, .post⟩) exInc {} exIncOps).getD 3 .ok =
    .data [[20], [2]] := by decide +kernel
example : (reach (exIncCfg (.memory true) ⟨true, true, .post⟩) exInc
    [.new 1 [1], .exec [("s", 1)] 7, .new 3 [1], .exec [("s", 3)] 7]).runLog = [[[1]], [[1]]] := by
  decide +kernel

/-- A body that updates a plain (not self-coupled) input in place: `k += 1`, `y = 10 a + k`. -/
def exPlain : Disc :=
  { run := fun x => match x with
      | [[a], [k]] => [[10 * a + k]]
      | _ => [],
    jacf := fun _ => [],
    wr := fun x => match x with
      | [a, k] => [a, k.map (· + 1)]
      | _ => x }

def exPlainCfg (kind : Kind) (pol : Policy) : Cfg :=
  { kind := kind, tol := 0, pol := pol, inNames := ["a", "k"], defaults := [none, none],
    outNames := ["y"], dIn := [], dOut := [], runSetsJac := false }

def exPlainOps : List Op :=
  [.new 1 [1], .new 2 [1], .exec [("a", 1), ("k", 2)] 1, .new 3 [1], .new 4 [2],
   .exec [("a", 3), ("k", 4)] 2]

/-- **Counter-example (pinned tree: only the self-coupled inputs are copied before the run).** The
    entry of `(a, k) = (1, 1)` is keyed by `(1, 2)`; the call at `(1, 2)` returns `11` instead of
    `12`. With every input copied before the run (`Policy.copy`, repaired code) it returns `12`. -/
example : (outputs (exPlainCfg .simple ⟨true, true, .coupledPre⟩) exPlain {} exPlainOps).getLast? =
    some (.data [[11]]) := by decide +kernel
example : (outputs (exPlainCfg .simple Policy.copy) exPlain {} exPlainOps).getLast? =
    some (.data [[12]]) := by decide +kernel
-- a self-coupled in-place state is handled by the pinned-tree policy
example : outputs (exIncCfg .simple ⟨true, true, .coupledPre⟩) exInc {} exIncOps =
    outputs (exIncCfg .simple Policy.copy) exInc {} exIncOps := by decide +kernel

/-! ### The form of a call is not part of its input

The input data of a call are a mapping `{name: array}`; inputs left out take their default value. What a
call does is a function of the *values* its inputs resolve to (and of the arrays given, for aliasing):
not of the order in which the items of the dict were inserted — and there is no order among the default
values either (`cfg.defaults` is indexed by input name). Together with `HistHashOK` (the hash of a call
is a function `hf` of the resolved values, in input-name order) this is what `runs_at_most_once` and
`repeated_input_hits` need: the same values passed as `execute()`, as `{b: .., a: ..}` or partially
defaulted are **one** input. (A hash that depended on the insertion order of the prepared dict — seeded
change r3m2 — breaks `HistHashOK` in the code: the harness gives one hash token per resolved value.) -/

/-- **call_key_order_irrelevant.** In every state, an execution / a linearization called with a dict
    and with the same dict whose items are in another order do exactly the same thing (same new
    state — cache, counters, logs —, same returned data). -/
theorem call_key_order_irrelevant (cfg : Cfg) (d : Disc) (st : State) {args args' : List (Name × Nat)}
    (hp : args.Perm args') (hn : (args.map (·.1)).Nodup) (h : Nat) :
    step cfg d st (.exec args h) = step cfg d st (.exec args' h) ∧
    ∀ all exe, step cfg d st (.lin all exe args h) = step cfg d st (.lin all exe args' h) := by
  refine ⟨?_, fun all exe => ?_⟩ <;> simp only [step, prepare_perm cfg st hp hn]

/-- Two inputs `a`, `b` with default values `1`, `2`; `y = a` (first input). -/
def exCfg2 (kind : Kind) : Cfg :=
  { kind := kind, tol := 0, pol := Policy.copy, inNames := ["a", "b"], defaults := [some [1], some [2]],
    outNames := ["y"], dIn := ["a", "b"], dOut := ["y"], runSetsJac := false }

-- non-vacuity: a dict of two items and its reversal
example : [("a", 1), ("b", 2)].Perm [("b", 2), (("a", 1) : Name × Nat)] ∧
    (([("a", 1), ("b", 2)] : List (Name × Nat)).map (·.1)).Nodup := by decide
-- one input (a, b) = (1, 2) in four forms (every input defaulted, all explicit in the order b, a,
-- partially defaulted, every input defaulted again; then a reopen and a linearization): one run, one entry
example : (reach (exCfg2 .hdf5) exDisc
    (fixHist (fun _ => 0) (exCfg2 .hdf5) exDisc {}
      [.exec [] 9, .new 1 [1], .new 2 [2], .exec [("b", 2), ("a", 1)] 9, .new 3 [2], .exec [("b", 3)] 9,
       .exec [] 9, .reopen, .lin true true [("a", 1)] 9])).nRun = 1 := by decide +kernel
example : ((reach (exCfg2 (.memory false)) exDisc
    (fixHist (fun _ => 0) (exCfg2 (.memory false)) exDisc {}
      [.exec [] 9, .new 1 [1], .new 2 [2], .exec [("b", 2), ("a", 1)] 9, .new 3 [2], .exec [("b", 3)] 9,
       .exec [] 9])).full.entries.length = 1) := by decide +kernel

/-! ### Jacobian cached before any outputs, then two inputs within the tolerance of it (non-vacuity)

`SimpleCache` with `t = 1/4`: the Jacobian is cached at `x0 = 1/2` on a cleared cache, then the body is
executed at `x1 = 3/4` and `x2 = 1/4`, both within `t` of `x0`, not within `t` of each other. The
outputs of `x1` start a **new** entry (`Simple.storeOutputs` completes the entry only when it is the
entry of these very inputs), so `x2` is a miss and gets its own outputs: `transparent_tol` on this
history. (Completing the entry of `x0` with the outputs of `x1` — seeded change r3m1 — serves `[3/4]`
for `x2`.) -/
def exOpsJacFirst : List Op :=
  [.new 1 [1/2], .exec [("a", 1)] 7, .clear, .lin true false [("a", 1)] 7,
   .new 2 [3/4], .exec [("a", 2)] 8, .new 3 [1/4], .exec [("a", 3)] 9]

example : cmp (1/4) [[3/4]] [[1/2]] = true ∧ cmp (1/4) [[1/4]] [[1/2]] = true ∧
    cmp (1/4) [[1/4]] [[3/4]] = false ∧ cmp (1/4) [[3/4]] [[1/4]] = false := by decide +kernel
example : (outputs (exCfg .simple (1/4) Policy.copy) exDisc {} exOpsJacFirst).getLast? =
    some (.data [[1/4]]) := by decide +kernel
example : (reach (exCfg .simple (1/4) Policy.copy) exDisc exOpsJacFirst).runLog =
    [[[1/2]], [[3/4]], [[1/4]]] := by decide +kernel
-- after the execution at x1 the entry is the one of x1, without the Jacobian of x0
example : (allEntries (exCfg .simple (1/4) Policy.copy)
    (reach (exCfg .simple (1/4) Policy.copy) exDisc (exOpsJacFirst.take 6))).map
      (fun e => (e.1, e.2.1, e.2.2.length)) = [([[3/4]], [[3/4]], 0)] := by decide +kernel

end GV.C05
