/-
C06 — property theorems: every MDA algorithm converges to the multidisciplinary fixed point.

Two layers (see notes/C06.md):
* theorems about the executable model of the MDA loop (`Model/C06.lean`, tied to the real code by the
  correspondence check): a run that ends by the residual test returns `sweep y` for an iterate `y` whose
  scaled residual is below the tolerance, whatever the sweep, acceleration, relaxation, scaling, warm start
  and previous executions were; the iteration budget is respected;
* theorems of fixed-point analysis (`Analysis/C06.lean`, Mathlib): what such a returned value is worth when
  the disciplines are contractive — re-execution reproduces it, it is close to THE solution, all converged
  runs agree; Jacobi and Gauss–Seidel sweeps (any number of disciplines, any order, self-coupled disciplines
  included) are contractions with the same fixed points; relaxation keeps the fixed points; Newton's step is
  exact on affine systems.
* theorems about *what is resolved* and about *compositions* (`Lemmas/C06Chain.lean`): the strong couplings of a
  group are exactly the variables it reads and writes (a variable a discipline only feeds back to itself
  included); a stop test on a set of variables that covers everything the disciplines read controls the
  re-execution defect (and one that misses a private self-coupling does not); a chain of components each of
  which solves its own equations, in the order of the coupling graph, solves the whole system, and a component
  executed once solves its equations only if it does not read its own outputs (`MDAChain.__requires_mda`);
  the settings of a composed MDA prevail on the ones given for its inner MDAs in whichever form.
* theorems about compositions whose parts carry their OWN settings and about several MDA objects in one process
  (`Lemmas/C06Seq.lean`): an `MDASequential` stops on ITS tolerance or after its last sub-MDA and the data it returns
  pass the residual test at ITS tolerance; an operation on an MDA object touches that object only, and the inner MDAs
  of an `MDAChain` / `MDAGSNewton` hold the tolerance and the budget of their composed MDA after any history.
Helper lemmas live in `Lemmas/C06Loop.lean`, `Lemmas/C06Chain.lean`, `Lemmas/C06Seq.lean` and `Analysis/C06.lean`.
-/
import GemseoVerif.Lemmas.C06Loop
import GemseoVerif.Lemmas.C06Chain
import GemseoVerif.Lemmas.C06Seq
import GemseoVerif.Analysis.C06
import Mathlib.Analysis.SpecialFunctions.Pow.NNReal
import Mathlib.Tactic.NormNum

open Function
open scoped NNReal

namespace GV.C06

/-! ### The model of the loop -/

/-- **Loop invariant (all algorithms, accelerations, relaxations, scalings, starts, previous executions).**
    If `execute` ends by the residual test, the returned data are `sweep y` for the last iterate `y`, and the
    squared normalized residual of `(y, sweep y)` on the resolved variables — for some scaling data `sd₀`,
    the ones in force at that iteration — is at most `tol²`; it is the last entry of the residual history. -/
theorem stop_implies_residual_small (s : Sys) (c : Cfg) (fuel : Nat) (st : MState) (start : Vec)
    (h : (execute s c fuel st start).outcome = .converged) :
    ∃ (y : Vec) (sd₀ : Option ScalData) (h' : List Rat),
      (execute s c fuel st start).data = sweepOf s c y ∧
      (normedSq c.scaling c.groups sd₀ (residOn c.res y (sweepOf s c y))).1 ≤ c.tol * c.tol ∧
      (execute s c fuel st start).hist
        = h' ++ [(normedSq c.scaling c.groups sd₀ (residOn c.res y (sweepOf s c y))).1] := by
  unfold execute at h ⊢
  unfold sweepOf
  cases hc : c.algo with
  | jacobi =>
    simp only [hc] at h ⊢
    obtain ⟨y, sd₀, h', e1, e2, e3, _⟩ := mdaLoop_converged _ _ _ _ _ _ _ _ _ _ _ _ _ h
    exact ⟨y, sd₀, h', e1, e2, e3⟩
  | newton =>
    simp only [hc] at h ⊢
    obtain ⟨y, sd₀, h', e1, e2, e3, _⟩ := mdaLoop_converged _ _ _ _ _ _ _ _ _ _ _ _ _ h
    exact ⟨y, sd₀, h', e1, e2, e3⟩
  | gaussSeidel =>
    simp only [hc] at h ⊢
    by_cases h0 : c.maxIter = 0
    · simp [h0] at h
    · simp only [h0, if_false] at h ⊢
      obtain ⟨y, sd₀, h', e1, e2, e3, _⟩ := mdaLoop_converged _ _ _ _ _ _ _ _ _ _ _ _ _ h
      exact ⟨y, sd₀, h', e1, e2, e3⟩

/-- Without scaling the test is on the Euclidean norm itself: `‖sweep y - y‖² ≤ tol²` on the resolved
    variables of the returned data. -/
theorem stop_no_scaling (s : Sys) (c : Cfg) (fuel : Nat) (st : MState) (start : Vec)
    (hsc : c.scaling = .noScaling) (h : (execute s c fuel st start).outcome = .converged) :
    ∃ y : Vec, (execute s c fuel st start).data = sweepOf s c y ∧
      normSq (residOn c.res y (sweepOf s c y)) ≤ c.tol * c.tol := by
  obtain ⟨y, sd₀, _, e1, e2, _⟩ := stop_implies_residual_small s c fuel st start h
  rw [hsc] at e2
  exact ⟨y, e1, normedSq_noScaling _ _ _ _ e2⟩

/-- With the scaling by the initial residual norm, on the first execution of an MDA object: the returned data
    are `sweep y` with `‖sweep y - y‖² ≤ tol²·‖r₀‖²` for a positive reference `‖r₀‖²` (the scaling data are
    either the ones of a previous iteration — a positive number — or set from the current residual). -/
theorem stop_initial_residual_norm (g : List (List Nat)) (sd : Option ScalData) (r : Vec) (tolSq : Rat)
    (hsd : ∀ s, sd = some (.normSq s) → 0 < s)
    (h : (normedSq .initialResidualNorm g sd r).1 ≤ tolSq) :
    ∃ s : Rat, 0 < s ∧ normSq r ≤ tolSq * s ∧ (normedSq .initialResidualNorm g sd r).2 = some (.normSq s) := by
  cases sd with
  | none => exact ⟨nz (normSq r), nz_normSq_pos r, normedSq_initialResidualNorm_first g r tolSq h, rfl⟩
  | some d =>
    cases d with
    | normSq s => exact ⟨s, hsd s rfl, normedSq_initialResidualNorm_later g s (hsd s rfl) r tolSq h, rfl⟩
    | size n => exact ⟨nz (normSq r), nz_normSq_pos r, by
        have : (normedSq .initialResidualNorm g (some (.size n)) r).1 = normSq r / nz (normSq r) := rfl
        rw [this] at h; rwa [div_le_iff₀ (nz_normSq_pos r)] at h, rfl⟩
    | groups l => exact ⟨nz (normSq r), nz_normSq_pos r, by
        have : (normedSq .initialResidualNorm g (some (.groups l)) r).1 = normSq r / nz (normSq r) := rfl
        rw [this] at h; rwa [div_le_iff₀ (nz_normSq_pos r)] at h, rfl⟩
    | comps l => exact ⟨nz (normSq r), nz_normSq_pos r, by
        have : (normedSq .initialResidualNorm g (some (.comps l)) r).1 = normSq r / nz (normSq r) := rfl
        rw [this] at h; rwa [div_le_iff₀ (nz_normSq_pos r)] at h, rfl⟩

/-- Component-wise scalings: when the test passes every component of the residual satisfies
    `(rⱼ/cⱼ)² ≤ tol²` (resp. `≤ tol²·n` for the scaled variant), `c` the reference components. -/
theorem stop_componentwise (g : List (List Nat)) (c r : Vec) (tolSq : Rat) :
    ((normedSq .initialResidualComponent g (some (.comps c)) r).1 ≤ tolSq → ∀ q ∈ vdiv r c, q * q ≤ tolSq) ∧
    (r ≠ [] → (normedSq .scaledInitialResidualComponent g (some (.comps c)) r).1 ≤ tolSq →
      ∀ q ∈ vdiv r c, q * q ≤ tolSq * (r.length : Rat)) :=
  ⟨normedSq_initialResidualComponent g c r tolSq,
   fun hr => normedSq_scaledInitialResidualComponent g c r hr tolSq⟩

/-- `max_mda_iter` is respected by the loop: at most `max(1, maxIter)` sweeps are recorded by an execution
    of the Jacobi and Newton models. -/
theorem iteration_budget_respected (s : Sys) (c : Cfg) (fuel : Nat) (st : MState) (start : Vec)
    (hc : c.algo ≠ .gaussSeidel) :
    (execute s c fuel st start).hist.length ≤ max 1 c.maxIter := by
  unfold execute
  cases hcc : c.algo with
  | gaussSeidel => exact absurd hcc hc
  | jacobi =>
    simp only
    refine le_trans (mdaLoop_iterations_le _ _ _ _ _ _ _ _ _ _ _ _ _) ?_
    simp
  | newton =>
    simp only
    refine le_trans (mdaLoop_iterations_le _ _ _ _ _ _ _ _ _ _ _ _ _) ?_
    simp

/-- Non-vacuity: the model converges on a 2-discipline affine system (`y₀ = 2 + y₁/4`, `y₁ = 2 - y₀/8`),
    for Jacobi, Gauss–Seidel with Aitken acceleration and relaxation, and Newton (one step + one check). -/
example :
    let sys : Sys := ⟨[⟨2, [0, 1/4]⟩, ⟨2, [-1/8, 0]⟩], [[0], [1]]⟩
    let cj : Cfg := ⟨.jacobi, [0, 1], [[0], [1]], [0, 1], 1/1024, 30, .noScaling, 1, .none, false⟩
    let cg : Cfg := ⟨.gaussSeidel, [0, 1], [[0], [1]], [0, 1], 1/1024, 30, .initialResidualNorm, 9/10, .secant, false⟩
    let cn : Cfg := ⟨.newton, [0, 1], [[0], [1]], [0, 1], 1/1024, 30, .initialResidualComponent, 1, .none, false⟩
    (execute sys cj 40 {} [0, 0]).outcome = .converged ∧ (execute sys cj 40 {} [0, 0]).hist.length = 6 ∧
    (execute sys cg 40 {} [0, 0]).outcome = .converged ∧
    (execute sys cn 40 {} [0, 0]).outcome = .converged ∧ (execute sys cn 40 {} [0, 0]).data = [80/33, 56/33] := by
  decide +kernel

/-! ### Fixed-point analysis (Mathlib) -/

section Analysis

variable {α : Type*} [MetricSpace α] [CompleteSpace α] [Nonempty α] {K : ℝ≥0} {G : α → α}

/-- Re-executing the disciplines on the returned data `G y` reproduces the returned outputs within `K·ε`
    when the residual test `dist (G y) y ≤ ε` passed at the last iterate `y` (`ε = tol·scale`). -/
theorem returned_is_almost_fixed (hG : ContractingWith K G) (y : α) {ε : ℝ} (h : dist (G y) y ≤ ε) :
    dist (G (G y)) (G y) ≤ K * ε :=
  Analysis.reexecution_le hG y h

/-- The returned couplings are within `K/(1-K)·ε` of THE solution of the coupled system. -/
theorem distance_to_solution (hG : ContractingWith K G) (y : α) {ε : ℝ} (h : dist (G y) y ≤ ε) :
    dist (G y) (ContractingWith.fixedPoint G hG) ≤ K / (1 - K) * ε :=
  Analysis.returned_dist_fixed_le hG (ContractingWith.fixedPoint_isFixedPt hG) y h

/-- Any returned value with a small residual (e.g. the root returned by a quasi-Newton solver) is close to
    the solution: `dist y (G y) ≤ ε → dist y y* ≤ ε/(1-K)`. -/
theorem small_residual_near_solution (hG : ContractingWith K G) (y : α) {ε : ℝ} (h : dist y (G y) ≤ ε) :
    dist y (ContractingWith.fixedPoint G hG) ≤ ε / (1 - K) :=
  Analysis.dist_fixed_le_of_residual hG (ContractingWith.fixedPoint_isFixedPt hG) y h

/-- All algorithms agree: two converged runs, whatever acceleration / relaxation / order / warm start
    produced their last iterates, return couplings within `K/(1-K)·(ε₁+ε₂)` of each other. -/
theorem algorithms_agree (hG : ContractingWith K G) (y₁ y₂ : α) {ε₁ ε₂ : ℝ}
    (h₁ : dist (G y₁) y₁ ≤ ε₁) (h₂ : dist (G y₂) y₂ ≤ ε₂) :
    dist (G y₁) (G y₂) ≤ K / (1 - K) * (ε₁ + ε₂) :=
  Analysis.returned_agree hG (ContractingWith.fixedPoint_isFixedPt hG) y₁ y₂ h₁ h₂

/-- The plain iteration passes any positive residual test after finitely many sweeps. -/
theorem plain_iteration_terminates (hG : ContractingWith K G) (x : α) {ε : ℝ} (hε : 0 < ε) :
    ∃ n : ℕ, dist (G^[n + 1] x) (G^[n] x) ≤ ε :=
  Analysis.plain_iteration_passes hG x hε

end Analysis

/-- Non-vacuity of the contraction hypotheses: `x ↦ x/2 + 1` on `ℝ`. -/
theorem half_plus_one_contracting : ContractingWith (1 / 2 : ℝ≥0) (fun x : ℝ => x / 2 + 1) := by
  refine ⟨by norm_num, LipschitzWith.of_dist_le_mul fun x y => ?_⟩
  have : x / 2 + 1 - (y / 2 + 1) = (x - y) / 2 := by ring
  simp only [Real.dist_eq, this, abs_div, NNReal.coe_div, NNReal.coe_one, NNReal.coe_ofNat]
  rw [abs_of_pos (by norm_num : (0 : ℝ) < 2)]
  linarith [abs_nonneg (x - y)]

example : dist ((fun x : ℝ => x / 2 + 1) ((fun x : ℝ => x / 2 + 1) 0)) ((fun x : ℝ => x / 2 + 1) 0)
    ≤ ((1 / 2 : ℝ≥0) : ℝ) * 1 :=
  returned_is_almost_fixed half_plus_one_contracting 0 (by simp [Real.dist_eq])

section Sweeps

variable {ι : Type*} [Fintype ι] [DecidableEq ι] {E : ι → Type*} [∀ i, MetricSpace (E i)]
  {f : ∀ i, (∀ j, E j) → E i} {K : ℝ≥0}

/-- `n` disciplines, each `K`-Lipschitz in all the couplings (sup metric), `K < 1`: the Jacobi sweep is a
    `K`-contraction. Self-coupled disciplines are included (`f i` may depend on component `i`). -/
theorem jacobi_contracts (hf : ∀ i, LipschitzWith K (f i)) (hK : K < 1) :
    ContractingWith K (Analysis.jacobi f) :=
  Analysis.jacobi_contracting hf hK

/-- ... and so is the Gauss–Seidel sweep in *any* listed order containing every discipline. -/
theorem gauss_seidel_contracts (hf : ∀ i, LipschitzWith K (f i)) (hK : K < 1) (l : List ι) (hl : ∀ i, i ∈ l) :
    ContractingWith K (Analysis.gsSweep f l) :=
  Analysis.gsSweep_contracting hf hK l hl

/-- Jacobi and Gauss–Seidel (any order) have the same fixed points: the points satisfying all disciplines
    simultaneously. -/
theorem sweeps_same_fixed_points (hf : ∀ i, LipschitzWith K (f i)) (hK : K < 1) (l : List ι) (hl : ∀ i, i ∈ l)
    [CompleteSpace (∀ j, E j)] [Nonempty (∀ j, E j)] (y : ∀ j, E j) :
    (IsFixedPt (Analysis.gsSweep f l) y ↔ ∀ i, f i y = y i) ∧
    (IsFixedPt (Analysis.jacobi f) y ↔ ∀ i, f i y = y i) :=
  ⟨Analysis.isFixedPt_gsSweep_iff hf hK l hl y, Analysis.isFixedPt_jacobi_iff y⟩

/-- The solution does not depend on the order in which the disciplines are listed. -/
theorem order_independent_solution (hf : ∀ i, LipschitzWith K (f i)) (hK : K < 1) (l₁ l₂ : List ι)
    (h₁ : ∀ i, i ∈ l₁) (h₂ : ∀ i, i ∈ l₂) [CompleteSpace (∀ j, E j)] [Nonempty (∀ j, E j)] :
    ContractingWith.fixedPoint (Analysis.gsSweep f l₁) (Analysis.gsSweep_contracting hf hK l₁ h₁)
      = ContractingWith.fixedPoint (Analysis.gsSweep f l₂) (Analysis.gsSweep_contracting hf hK l₂ h₂) ∧
    ContractingWith.fixedPoint (Analysis.gsSweep f l₁) (Analysis.gsSweep_contracting hf hK l₁ h₁)
      = ContractingWith.fixedPoint (Analysis.jacobi f) (Analysis.jacobi_contracting hf hK) :=
  Analysis.order_independent hf hK l₁ l₂ h₁ h₂

end Sweeps

/-- Non-vacuity: two scalar disciplines `y₀ = y₁/2 + 1`, `y₁ = y₀/2 + 1`, listed as `[1, 0]`. -/
example : ContractingWith (1 / 2 : ℝ≥0)
    (Analysis.gsSweep (E := fun _ : Fin 2 => ℝ) (fun i y => y (i + 1) / 2 + 1) [1, 0]) := by
  refine gauss_seidel_contracts (fun i => ?_) (by norm_num) [1, 0] (fun i => by fin_cases i <;> simp)
  refine LipschitzWith.of_dist_le_mul fun y z => ?_
  have key : |y (i + 1) - z (i + 1)| ≤ dist y z := by
    simpa [Real.dist_eq] using dist_le_pi_dist y z (i + 1)
  have : y (i + 1) / 2 + 1 - (z (i + 1) / 2 + 1) = (y (i + 1) - z (i + 1)) / 2 := by ring
  simp only [Real.dist_eq, this, abs_div, NNReal.coe_div, NNReal.coe_one, NNReal.coe_ofNat]
  rw [abs_of_pos (by norm_num : (0 : ℝ) < 2)]
  linarith

section Relaxation

variable {V : Type*} [NormedAddCommGroup V] [NormedSpace ℝ V]

/-- Relaxation with `ω ≠ 0` has exactly the fixed points of `G`. -/
theorem relaxation_same_fixed_points {ω : ℝ} (hω : ω ≠ 0) (G : V → V) (x : V) :
    Analysis.relax ω G x = x ↔ G x = x :=
  Analysis.relax_fixed_iff hω G x

/-- Under-relaxation `0 < ω ≤ 1` of a `K`-contraction is a `(1 - ω(1-K))`-contraction. -/
theorem relaxation_contracts {K : ℝ≥0} {G : V → V} (hG : LipschitzWith K G) (hK : K < 1) {ω : ℝ}
    (h0 : 0 < ω) (h1 : ω ≤ 1) (x y : V) :
    ‖Analysis.relax ω G x - Analysis.relax ω G y‖ ≤ (1 - ω * (1 - K)) * ‖x - y‖ ∧ 1 - ω * (1 - K) < 1 := by
  have hK' : (K : ℝ) < 1 := by exact_mod_cast hK
  refine ⟨?_, by nlinarith⟩
  have := Analysis.relax_lipschitz hG (ω := ω) x y
  rw [abs_of_pos h0, abs_of_nonneg (by linarith : 0 ≤ 1 - ω)] at this
  calc _ ≤ (ω * K + (1 - ω)) * ‖x - y‖ := this
    _ = (1 - ω * (1 - K)) * ‖x - y‖ := by ring

/-- The relaxation GEMSEO implements (`x_{n+2} = ω·G x_{n+1} + (1-ω)·G x_n`): its stationary points are
    the fixed points of `G`, and it converges geometrically when `K·(|ω| + |1-ω|) < 1`. -/
theorem two_step_relaxation_converges {K : ℝ≥0} {G : V → V} (hG : LipschitzWith K G) {s : V} (hs : G s = s)
    (ω : ℝ) (x : ℕ → V) (hx : ∀ n, x (n + 2) = ω • G (x (n + 1)) + (1 - ω) • G (x n))
    (hq1 : (K : ℝ) * (|ω| + |1 - ω|) ≤ 1) :
    (∀ z : V, ω • G z + (1 - ω) • G z = z ↔ G z = z) ∧
    ∀ n, ‖x n - s‖ ≤ ((K : ℝ) * (|ω| + |1 - ω|)) ^ (n / 2) * max ‖x 0 - s‖ ‖x 1 - s‖ :=
  ⟨fun z => Analysis.two_step_stationary_iff ω G z,
   Analysis.two_step_converges hG hs ω x hx _ _ rfl hq1 (le_max_left _ _) (le_max_right _ _)⟩

end Relaxation

/-- Newton on an affine coupled system `G y = A y + b` is exact in one step from any starting point:
    if the step solves the linearized residual equation `(A - I) s = -(G y - y)` then `y + s` satisfies all
    the disciplines. -/
theorem newton_affine_one_step {𝕜 W : Type*} [Field 𝕜] [AddCommGroup W] [Module 𝕜 W]
    (A : W →ₗ[𝕜] W) (b y s : W) (hs : A s - s = -((A y + b) - y)) : A (y + s) + b = y + s :=
  Analysis.newton_affine_one_step A b y s hs

/-- Non-vacuity: scalar system `y = y/2 + 1` from `y = 0`: residual `1`, step `2`, solution `2`. -/
example : (LinearMap.lsmul ℚ ℚ (1 / 2)) ((0 : ℚ) + 2) + 1 = 0 + 2 :=
  newton_affine_one_step (LinearMap.lsmul ℚ ℚ (1 / 2)) 1 0 2 (by simp; norm_num)

/-! ### What an MDA resolves -/

/-- **Specification of the strong couplings of a group** (`CouplingStructure._compute_strong_couplings` as
    modelled by `strongCouplingVars`): a variable is resolved iff some discipline of the group reads it and some
    discipline of the group writes it. -/
theorem strong_couplings_spec {nvars : Nat} {reads writes : List (List Nat)} {v : Nat} :
    v ∈ strongCouplingVars nvars reads writes ↔
      v < nvars ∧ (∃ r ∈ reads, v ∈ r) ∧ (∃ w ∈ writes, v ∈ w) :=
  mem_strongCouplingVars

/-- In particular a variable that ONE discipline of the group both reads and writes — a private self-coupling,
    whatever the other couplings of that discipline are and whoever else reads it — is resolved. -/
theorem private_self_coupling_is_resolved {nvars : Nat} (reads writes : List (List Nat)) (d v : Nat)
    (hv : v < nvars) (hd : d < reads.length) (hd' : d < writes.length)
    (hr : v ∈ reads[d]) (hw : v ∈ writes[d]) : v ∈ strongCouplingVars nvars reads writes :=
  mem_strongCouplingVars.mpr ⟨hv, ⟨reads[d], List.getElem_mem hd, hr⟩, ⟨writes[d], List.getElem_mem hd', hw⟩⟩

/-- Non-vacuity: `D0` reads `{s, y2}` and writes `{s, y1}`, `D1` reads `{y1}` and writes `{y2}` (variables
    `s = 0`, `y1 = 1`, `y2 = 2`, `x = 3`): the private `s` is resolved with the couplings of the cycle. -/
example : strongCouplingVars 4 [[3, 0, 2], [1]] [[0, 1], [2]] = [0, 1, 2] := by decide

/-- **Exact form**: if the last sweep changed nothing on a monitored set that covers everything the disciplines
    read, re-executing any discipline on the returned data `fun j => f j y` reproduces its returned output. -/
theorem monitored_set_reexecution {ι V : Type*} (f : ι → (ι → V) → V) (reads : ι → Set ι)
    (hreads : ∀ i y z, (∀ j ∈ reads i, y j = z j) → f i y = f i z) (mon : Set ι)
    (hcover : ∀ i, ∀ j ∈ reads i, j ∈ mon) (y : ι → V) (hstop : ∀ j ∈ mon, f j y = y j) :
    ∀ i, f i (fun j => f j y) = f i y :=
  Chain.monitored_cover_exact f reads hreads mon hcover y hstop

/-- The covering hypothesis cannot be dropped: a monitored set that misses a variable a discipline feeds back to
    itself passes the test on data that re-execution does not reproduce. -/
theorem monitored_set_must_cover_self_couplings :
    ∃ (f : Bool → (Bool → ℚ) → ℚ) (y : Bool → ℚ),
      (∀ j ∈ ({true} : Set Bool), f j y = y j) ∧ f false (fun j => f j y) ≠ f false y :=
  Chain.unmonitored_self_coupling_fails

/-- **Quantitative form on the executable model** (any affine system, any resolved set, any iterate):
    a residual `≤ ε` on resolved components covering every component some row reads bounds the re-execution
    defect of every row by `(Σⱼ|coefⱼ|)·ε`. -/
theorem reexecution_bound_affine (s : Sys) (res : List Nat) (y : Vec) (ε : Rat) (hε : 0 ≤ ε)
    (hcover : ∀ r ∈ s.rows, ∀ j, r.coefs.getD j 0 ≠ 0 → j ∈ res)
    (hstop : ∀ t ∈ residOn res y (jacobiSweep s y), |t| ≤ ε) :
    ∀ r ∈ s.rows, |evalRow r (jacobiSweep s y) - evalRow r y| ≤ rsum (r.coefs.map (|·|)) * ε :=
  reexecution_le_of_monitored s res y ε hε hcover hstop

/-- **End to end for the Jacobi and Newton models without residual scaling**: a run that ends by the residual
    test with resolved components covering what the rows read returns `jacobiSweep y` whose rows, re-executed on
    the returned data, move by at most `(Σⱼ|coefⱼ|)·tol`. -/
theorem stop_no_scaling_reexecution (s : Sys) (c : Cfg) (fuel : Nat) (st : MState) (start : Vec)
    (halgo : c.algo ≠ .gaussSeidel) (hsc : c.scaling = .noScaling) (htol : 0 ≤ c.tol)
    (hcover : ∀ r ∈ s.rows, ∀ j, r.coefs.getD j 0 ≠ 0 → j ∈ c.res)
    (h : (execute s c fuel st start).outcome = .converged) :
    ∃ y : Vec, (execute s c fuel st start).data = jacobiSweep s y ∧
      ∀ r ∈ s.rows, |evalRow r (jacobiSweep s y) - evalRow r y| ≤ rsum (r.coefs.map (|·|)) * c.tol := by
  obtain ⟨y, e1, e2⟩ := stop_no_scaling s c fuel st start hsc h
  have hsw : sweepOf s c = jacobiSweep s := by
    unfold sweepOf
    cases hc : c.algo with
    | gaussSeidel => exact absurd hc halgo
    | jacobi => rfl
    | newton => rfl
  rw [hsw] at e1 e2
  refine ⟨y, e1, reexecution_le_of_monitored s c.res y c.tol htol hcover ?_⟩
  intro t ht
  have h1 : |t| * |t| ≤ c.tol * c.tol := by
    rw [abs_mul_abs_self]
    exact le_trans (sq_le_normSq _ t ht) e2
  by_contra hlt
  rw [not_le] at hlt
  nlinarith [abs_nonneg t]

/-- Non-vacuity: the hypotheses of `stop_no_scaling_reexecution` hold on a system whose first discipline feeds
    a private variable (row 0, slow) back to itself inside a 2-discipline cycle (rows 1, 2). -/
example :
    let sys : Sys := ⟨[⟨1, [1/2, 0, 1/8]⟩, ⟨2, [0, 0, 1/16]⟩, ⟨2, [0, -1/16, 0]⟩], [[0, 1], [2]]⟩
    let c : Cfg := ⟨.jacobi, [0, 1, 2], [[0], [1], [2]], [0, 1, 2], 1/64, 30, .noScaling, 1, .none, false⟩
    (execute sys c 40 {} [0, 0, 0]).outcome = .converged ∧
    (∀ r ∈ sys.rows, ∀ j, r.coefs.getD j 0 ≠ 0 → j ∈ c.res) := by
  refine ⟨by decide +kernel, ?_⟩
  intro r hr j hj
  simp only [List.mem_cons, List.not_mem_nil, or_false] at hr
  rcases hr with rfl | rfl | rfl <;>
    (rcases j with _ | _ | _ | j <;> simp_all)

/-! ### Compositions -/

/-- **A chain of components that each solve their own equations, executed in the order of the coupling
    graph, solves the whole system** (any variables, values and discipline maps; `R i a b` = "equation `i`
    holds": equality, or `dist a b ≤ ε i` for converged inner MDAs — what a component leaves is not modified by
    the later ones). -/
theorem chain_of_mdas_fixed_point {ι V : Type*} (f : ι → (ι → V) → V) (reads : ι → Set ι)
    (R : ι → V → V → Prop) (hreads : ∀ i y z, (∀ j ∈ reads i, y j = z j) → f i y = f i z)
    (steps : List (Chain.Step ι V)) (y : ι → V) (hok : Chain.ChainOK f reads R ∅ steps) :
    ∀ i, (∃ st ∈ steps, i ∈ st.owns) → R i (f i (Chain.runAll steps y)) (Chain.runAll steps y i) := by
  intro i hi
  exact Chain.chain_solves f reads R hreads steps ∅ y hok (fun i hi => absurd hi (Set.notMem_empty i)) i (Or.inr hi)

/-- **When a component may be executed only once**: a process that reads none of its own outputs, executed once,
    returns data that satisfy its equations exactly ... -/
theorem single_execution_solves {ι V : Type*} (f : ι → (ι → V) → V) (reads : ι → Set ι)
    (hreads : ∀ i y z, (∀ j ∈ reads i, y j = z j) → f i y = f i z) (owns : Set ι)
    (hno : ∀ i ∈ owns, ∀ j ∈ reads i, j ∉ owns) (y : ι → V) :
    ∀ i ∈ owns, f i (Chain.runOnce f owns y) = Chain.runOnce f owns y i :=
  Chain.runOnce_solves f reads hreads owns hno y

/-- ... and a self-coupled process does not: it must be wrapped in an MDA (or be one). -/
theorem self_coupled_needs_mda :
    ∃ (f : Unit → (Unit → ℚ) → ℚ) (y : Unit → ℚ),
      f () (Chain.runOnce f Set.univ y) ≠ Chain.runOnce f Set.univ y () :=
  Chain.runOnce_self_reading_fails

/-- `MDAChain.__requires_mda` of the model: a component is executed as is exactly when it is a single discipline
    that is not self-coupled, or a self-coupled MDA. -/
theorem requiresMda_eq_false_iff (g : Group) :
    requiresMda g = false ↔
      g.discs.length ≤ 1 ∧ (g.discs.length = 1 → g.selfCoupled = false ∨ g.isMda = true) := by
  unfold requiresMda
  cases hs : g.selfCoupled <;> cases hm : g.isMda <;> simp <;> omega

/-- Non-vacuity of the chain on the executable model: a 2-discipline cycle (rows 0, 1), then a self-coupled
    discipline (row 2), then a weakly coupled one (row 3), inner Newton MDAs: the chain returns the exact
    solution `[2, 2, 4, 4]`; had the self-coupled discipline been executed once (flagged as an MDA of its own), row 2
    would not hold. -/
example :
    let sys : Sys := ⟨[⟨1, [0, 1/2, 0, 0]⟩, ⟨1, [1/2, 0, 0, 0]⟩, ⟨0, [1, 0, 1/2, 0]⟩, ⟨0, [0, 0, 1, 0]⟩],
                      [[0], [1], [2], [3]]⟩
    let cfg (res : List Nat) : Cfg := ⟨.newton, res, res.map (fun _ => [0]), res, 1/1024, 30, .noScaling, 1, .none, false⟩
    let g1 : Group := ⟨[[0], [1]], false, false, cfg [0, 1]⟩
    let g2 : Group := ⟨[[2]], true, false, cfg [2]⟩
    let g2' : Group := ⟨[[2]], true, true, cfg [2]⟩
    let g3 : Group := ⟨[[3]], false, false, cfg []⟩
    (chainExecute sys [g1, g2, g3] 40 [0, 0, 0, 0]).1 = [2, 2, 4, 4] ∧
    (chainExecute sys [g1, g2', g3] 40 [0, 0, 0, 0]).1 = [2, 2, 2, 2] := by
  decide +kernel

/-- Non-vacuity of `chain_of_mdas_fixed_point`: `f 0 = 1`, `f 1 y = y 0 + 1`, each executed once in that order. -/
example :
    let f : Bool → (Bool → ℚ) → ℚ := fun i y => if i then y false + 1 else 1
    let steps : List (Chain.Step Bool ℚ) :=
      [⟨{false}, Chain.runOnce f {false}⟩, ⟨{true}, Chain.runOnce f {true}⟩]
    ∀ y : Bool → ℚ, ∀ i, f i (Chain.runAll steps y) = Chain.runAll steps y i := by
  intro f steps y i
  let reads : Bool → Set Bool := fun i => if i then {false} else ∅
  have hreads : ∀ i y z, (∀ j ∈ reads i, y j = z j) → f i y = f i z := by
    intro i y z h
    cases i
    · rfl
    · show y false + 1 = z false + 1
      rw [h false (by simp [reads])]
  have hok : Chain.ChainOK f reads (fun _ a b => a = b) ∅ steps := by
    refine ⟨fun y j hj => Chain.runOnce_frame f _ y j hj,
      fun y i hi => Chain.runOnce_solves f reads hreads _ (by
        intro i hi j hj; have : i = false := hi; subst this; simp [reads] at hj) y i hi,
      fun i hi => absurd hi (Set.notMem_empty i), ?_⟩
    refine ⟨fun y j hj => Chain.runOnce_frame f _ y j hj,
      fun y i hi => Chain.runOnce_solves f reads hreads _ (by
        intro i hi j hj; have : i = true := hi; subst this
        have : j = false := by simpa [reads] using hj
        subst this; simp) y i hi,
      ?_, trivial⟩
    intro i hi
    have : i = false := by simpa using hi
    subst this
    simp [reads]
  refine chain_of_mdas_fixed_point f reads (fun _ a b => a = b) hreads steps y hok i ?_
  cases i
  · exact ⟨_, List.mem_cons_self .., rfl⟩
  · exact ⟨_, List.mem_cons_of_mem _ (List.mem_cons_self ..), rfl⟩

/-- **The settings of the composed MDA prevail on the settings given for its inner MDAs**, for every
    `BaseMDASettings` field of the model and whatever is given (a dictionary with a few keys, or the full content
    of a Pydantic model with its defaults). -/
theorem inner_settings_chain_prevails (chain given : Settings) (k : String) (hk : k ∈ baseFields) (v : Rat)
    (h : chain.get? k = some v) : (innerSettings chain given).get? k = some v :=
  innerSettings_chain_prevails chain given k hk v h

/-- Non-vacuity: the chain asks for `tolerance = 2⁻³⁰`, `max_mda_iter = 100`; the inner settings are given as a
    model holding the defaults `tolerance = 10⁻⁶`, `max_mda_iter = 20` besides the relaxation factor. -/
example :
    let chain : Settings := [("tolerance", 1/1073741824), ("max_mda_iter", 100), ("warm_start", 0)]
    let given : Settings := [("over_relaxation_factor", 9/10), ("tolerance", 1/1000000), ("max_mda_iter", 20), ("warm_start", 0)]
    (innerSettings chain given).get? "tolerance" = some (1/1073741824) ∧
    (innerSettings chain given).get? "max_mda_iter" = some 100 ∧
    (innerSettings chain given).get? "over_relaxation_factor" = some (9/10) := by
  decide +kernel

/-! ### Compositions whose parts carry their own settings; several MDA objects in one process -/

/-- **`MDASequential` stops on ITS tolerance.** Whatever the sub-MDAs are — any number of them, each with its own
    algorithm, tolerance, `max_mda_iter`, scaling, acceleration and previous executions — the data the sequence
    returns are the data of a run of one of them, and that run either has a normed residual below the tolerance of
    the SEQUENCE (`seqBreaks outerTol`), or is the run of the LAST sub-MDA: a sub-MDA that merely reached a looser
    tolerance of its own never ends the sequence. -/
theorem sequence_stops_on_its_own_tolerance_or_last_stage (s : Sys) (outerTol : Rat) (fuel : Nat)
    (stages : List (Cfg × MState)) (data : Vec) (hne : stages ≠ []) :
    ∃ (pre : List (Run (Option ScalData))) (c : Cfg) (st : MState) (d : Vec), (c, st) ∈ stages ∧
      seqExecute s outerTol fuel stages data []
        = ((execute s c fuel st d).data, pre ++ [execute s c fuel st d]) ∧
      (seqBreaks outerTol (execute s c fuel st d) = true ∨ stages.getLast? = some (c, st)) := by
  obtain ⟨pre, c, st, d, hmem, heq, hor⟩ := seqExecute_spec s outerTol fuel stages data [] hne
  exact ⟨pre, c, st, d, hmem, by simpa using heq, hor⟩

/-- **The data returned by a sequence pass the residual test at the tolerance requested from the SEQUENCE**, when
    its last sub-MDA is at least as accurate as the sequence and the last run performed ended by a residual test (its
    own, or the one of the sequence): for the sub-MDA `c` that produced them, the returned data are `sweep y` with the
    squared normed residual of `(y, sweep y)`, under the scaling of that sub-MDA, at most `outerTol²`. All sequences,
    all settings of the earlier sub-MDAs (looser, tighter, budget-limited), all systems and starts. -/
theorem sequence_meets_its_tolerance (s : Sys) (outerTol : Rat) (fuel : Nat)
    (stages : List (Cfg × MState)) (data : Vec) (hne : stages ≠ [])
    (hlast : ∀ c st, stages.getLast? = some (c, st) → c.tol * c.tol ≤ outerTol * outerTol)
    (hcap : ∀ r ∈ (seqExecute s outerTol fuel stages data []).2, r.outcome ≠ .capped)
    (hconv : ∀ r, (seqExecute s outerTol fuel stages data []).2.getLast? = some r →
      r.outcome = .converged ∨ seqBreaks outerTol r = true) :
    ∃ (c : Cfg) (st : MState) (y : Vec) (sd₀ : Option ScalData), (c, st) ∈ stages ∧
      (seqExecute s outerTol fuel stages data []).1 = sweepOf s c y ∧
      (normedSq c.scaling c.groups sd₀ (residOn c.res y (sweepOf s c y))).1 ≤ outerTol * outerTol := by
  obtain ⟨pre, c, st, d, hmem, heq, hor⟩ := sequence_stops_on_its_own_tolerance_or_last_stage s outerTol fuel stages data hne
  rw [heq] at hcap hconv ⊢
  have hr_cap : (execute s c fuel st d).outcome ≠ .capped := hcap _ (by simp)
  have hbreak : seqBreaks outerTol (execute s c fuel st d) = true →
      ∃ (y : Vec) (sd₀ : Option ScalData), (execute s c fuel st d).data = sweepOf s c y ∧
        (normedSq c.scaling c.groups sd₀ (residOn c.res y (sweepOf s c y))).1 ≤ outerTol * outerTol := by
    intro hb
    obtain ⟨nsq, hl, _, hlt⟩ := (seqBreaks_iff outerTol _).mp hb
    rcases execute_last s c fuel st d hr_cap with h0 | ⟨y, sd₀, h', e1, e2⟩
    · rw [h0] at hl; simp at hl
    · rw [e2] at hl
      simp only [List.getLast?_append, List.getLast?_singleton, Option.some_or, Option.some.injEq] at hl
      exact ⟨y, sd₀, e1, by rw [hl]; exact le_of_lt hlt⟩
  have hfinal : seqBreaks outerTol (execute s c fuel st d) = true ∨
      ((execute s c fuel st d).outcome = .converged ∧ stages.getLast? = some (c, st)) := by
    rcases hor with hb | hl
    · exact Or.inl hb
    · rcases hconv (execute s c fuel st d) (by simp) with hc | hb
      · exact Or.inr ⟨hc, hl⟩
      · exact Or.inl hb
  rcases hfinal with hb | ⟨hc, hl⟩
  · obtain ⟨y, sd₀, e1, e2⟩ := hbreak hb
    exact ⟨c, st, y, sd₀, hmem, e1, e2⟩
  · obtain ⟨y, sd₀, _, e1, e2, _⟩ := stop_implies_residual_small s c fuel st d hc
    exact ⟨c, st, y, sd₀, hmem, e1, le_trans e2 (hlast c st hl)⟩

/-- Non-vacuity (and the shape of the missed defect): on `y₀ = 2 + y₁/4`, `y₁ = 2 - y₀/8`, a Gauss–Seidel starter with
    the loose tolerance `1/16` reaches ITS tolerance after 2 iterations (normed residual² `3185/16777216 < (1/16)²`, not
    below `(1/1024)²`), so the Newton stage with tolerance `1/4096` IS executed and the sequence with tolerance `1/1024`
    returns the exact solution `[80/33, 56/33]`; the hypotheses of `sequence_meets_its_tolerance` hold. -/
example :
    let sys : Sys := ⟨[⟨2, [0, 1/4]⟩, ⟨2, [-1/8, 0]⟩], [[0], [1]]⟩
    let cg : Cfg := ⟨.gaussSeidel, [0, 1], [[0], [1]], [0, 1], 1/16, 60, .noScaling, 1, .none, false⟩
    let cn : Cfg := ⟨.newton, [0, 1], [[0], [1]], [0, 1], 1/4096, 100, .noScaling, 1, .none, false⟩
    let out := seqExecute sys (1/1024) 100 [(cg, {}), (cn, {})] [0, 0] []
    out.1 = [80/33, 56/33] ∧ out.2.map (·.hist.length) = [2, 2] ∧ out.2.map (·.outcome) = [.converged, .converged] ∧
    (out.2.map (seqBreaks (1/1024))) = [false, true] ∧ cn.tol * cn.tol ≤ (1/1024 : Rat) * (1/1024) := by
  decide +kernel

/-- **Several MDA objects in one process: the others do not interfere.** After any history of constructions and
    assignments (on the objects themselves or on their inner MDAs), what object `a` is — its own settings and the
    settings of its inner MDAs / stages — is what the operations naming `a` alone would have made it. -/
theorem other_objects_do_not_interfere (w : World) (ops : List WOp) (a : Nat) :
    wrun w ops a = wrun w (ops.filter (fun op => op.target == a)) a :=
  wrun_filter a ops w

/-- **The inner MDAs of a composed MDA hold ITS tolerance and iteration budget**, after any history, whatever is
    built or assigned on the OTHER objects (any classes, any settings, assignments on their inner MDAs included) and
    whatever settings were given for its inner MDAs, as long as nobody assigns the settings of its own inner MDAs
    directly: for `MDAChain` and `MDAGSNewton` (the classes that cascade `tolerance` and `max_mda_iter`), every inner
    MDA holds the value the composed MDA holds for both fields. -/
theorem inner_mdas_hold_the_settings_of_their_composed_mda (ops : List WOp) (a : Nat)
    (hops : ∀ op ∈ ops, op.target = a → op.isAssignSub = false) (o : Obj)
    (ho : wrun (fun _ => none) ops a = some o) (hk : cascades o.kind = true) :
    ∀ sub ∈ o.subs, ∀ f ∈ cascadedFields, ∀ v, o.own.get? f = some v → sub.get? f = some v :=
  wrun_coherent a ops (fun _ => none) (fun _ h => by simp at h) hops o ho hk

/-- Non-vacuity: an accurate `MDAChain` (object 0: tolerance `2⁻³⁰`, 100 iterations, two inner MDAs given a coarse
    tolerance of their own), then a coarse `MDAGSNewton` (object 1) and a coarse `MDAChain` (object 2) are built and
    assigned: the inner MDAs of object 0 still hold `2⁻³⁰` and `100`; object 1's stages follow ITS assignments. -/
example :
    let ops : List WOp := [
      .create 0 .chain [("tolerance", 1/1073741824), ("max_mda_iter", 100)] [[("tolerance", 1/2)], []],
      .create 1 .gsNewton [("tolerance", 1/4), ("max_mda_iter", 2)] [[], []],
      .assignSub 1 0 "max_mda_iter" 1,
      .create 2 .chain [("tolerance", 1/2), ("max_mda_iter", 1)] [[]],
      .assign 1 "tolerance" (1/8),
      .assign 2 "max_mda_iter" 3]
    let w := wrun (fun _ => none) ops
    (w 0).map (fun o => o.subs.map (fun s => (s.get? "tolerance", s.get? "max_mda_iter")))
      = some [(some (1/1073741824), some 100), (some (1/1073741824), some 100)] ∧
    (w 1).map (fun o => o.subs.map (fun s => (s.get? "tolerance", s.get? "max_mda_iter")))
      = some [(some (1/8), some 2), (some (1/8), some 2)] ∧
    (∀ op ∈ ops, op.target = 0 → op.isAssignSub = false) := by
  refine ⟨by decide +kernel, by decide +kernel, ?_⟩
  intro op hop ht
  simp only [List.mem_cons, List.not_mem_nil, or_false] at hop
  rcases hop with rfl | rfl | rfl | rfl | rfl | rfl <;> first | rfl | (simp [WOp.target] at ht)

end GV.C06
