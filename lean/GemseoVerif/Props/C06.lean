/-
C06 — property theorems: every MDA algorithm converges to the multidisciplinary fixed point.

Two layers (see notes/C06.md):
* theorems about the executable model of the MDA loop (`Model/C06.lean`, tied to the real code by the
  correspondence check): a run that ends by the residual test returns `sweep y` for an iterate `y` whose
  scaled residual is below the tolerance, whatever the sweep, acceleration, relaxation, scaling, warm start
  and previous executions were; the iteration budget is respected;
* theorems of fixed-point analysis (`Analysis/C06.lean`, Mathlib): what such a returned value is worth when
  the disciplines are contractive — re-execution reproduces it, it is close to THE solution, all converged
  runs agree; Jacobi and Gauss–Seidel sweeps (any number of disciplines, any order, self-coupled disciplines
  included) are contractions with the same fixed points; relaxation keeps the fixed points; Newton's step is
  exact on affine systems.
Helper lemmas live in `Lemmas/C06Loop.lean` and `Analysis/C06.lean`.
-/
import GemseoVerif.Lemmas.C06Loop
import GemseoVerif.Analysis.C06
import Mathlib.Analysis.SpecialFunctions.Pow.NNReal
import Mathlib.Tactic.NormNum

open Function
open scoped NNReal

namespace GV.C06

/-! ### The model of the loop -/

/-- The sweep an algorithm of the model performs at every iteration. -/
def sweepOf (s : Sys) (c : Cfg) : Vec → Vec :=
  match c.algo with
  | .gaussSeidel => gsSweep s
  | _ => jacobiSweep s

/-- **Loop invariant (all algorithms, accelerations, relaxations, scalings, starts, previous executions).**
    If `execute` ends by the residual test, the returned data are `sweep y` for the last iterate `y`, and the
    squared normalized residual of `(y, sweep y)` on the resolved variables — for some scaling data `sd₀`,
    the ones in force at that iteration — is at most `tol²`; it is the last entry of the residual history. -/
theorem stop_implies_residual_small (s : Sys) (c : Cfg) (fuel : Nat) (st : MState) (start : Vec)
    (h : (execute s c fuel st start).outcome = .converged) :
    ∃ (y : Vec) (sd₀ : Option ScalData) (h' : List Rat),
      (execute s c fuel st start).data = sweepOf s c y ∧
      (normedSq c.scaling c.groups sd₀ (residOn c.res y (sweepOf s c y))).1 ≤ c.tol * c.tol ∧
      (execute s c fuel st start).hist
        = h' ++ [(normedSq c.scaling c.groups sd₀ (residOn c.res y (sweepOf s c y))).1] := by
  unfold execute at h ⊢
  unfold sweepOf
  cases hc : c.algo with
  | jacobi =>
    simp only [hc] at h ⊢
    obtain ⟨y, sd₀, h', e1, e2, e3, _⟩ := mdaLoop_converged _ _ _ _ _ _ _ _ _ _ _ _ _ h
    exact ⟨y, sd₀, h', e1, e2, e3⟩
  | newton =>
    simp only [hc] at h ⊢
    obtain ⟨y, sd₀, h', e1, e2, e3, _⟩ := mdaLoop_converged _ _ _ _ _ _ _ _ _ _ _ _ _ h
    exact ⟨y, sd₀, h', e1, e2, e3⟩
  | gaussSeidel =>
    simp only [hc] at h ⊢
    by_cases h0 : c.maxIter = 0
    · simp [h0] at h
    · simp only [h0, if_false] at h ⊢
      obtain ⟨y, sd₀, h', e1, e2, e3, _⟩ := mdaLoop_converged _ _ _ _ _ _ _ _ _ _ _ _ _ h
      exact ⟨y, sd₀, h', e1, e2, e3⟩

/-- Without scaling the test is on the Euclidean norm itself: `‖sweep y - y‖² ≤ tol²` on the resolved
    variables of the returned data. -/
theorem stop_no_scaling (s : Sys) (c : Cfg) (fuel : Nat) (st : MState) (start : Vec)
    (hsc : c.scaling = .noScaling) (h : (execute s c fuel st start).outcome = .converged) :
    ∃ y : Vec, (execute s c fuel st start).data = sweepOf s c y ∧
      normSq (residOn c.res y (sweepOf s c y)) ≤ c.tol * c.tol := by
  obtain ⟨y, sd₀, _, e1, e2, _⟩ := stop_implies_residual_small s c fuel st start h
  rw [hsc] at e2
  exact ⟨y, e1, normedSq_noScaling _ _ _ _ e2⟩

/-- With the scaling by the initial residual norm, on the first execution of an MDA object: the returned data
    are `sweep y` with `‖sweep y - y‖² ≤ tol²·‖r₀‖²` for a positive reference `‖r₀‖²` (the scaling data are
    either the ones of a previous iteration — a positive number — or set from the current residual). -/
theorem stop_initial_residual_norm (g : List (List Nat)) (sd : Option ScalData) (r : Vec) (tolSq : Rat)
    (hsd : ∀ s, sd = some (.normSq s) → 0 < s)
    (h : (normedSq .initialResidualNorm g sd r).1 ≤ tolSq) :
    ∃ s : Rat, 0 < s ∧ normSq r ≤ tolSq * s ∧ (normedSq .initialResidualNorm g sd r).2 = some (.normSq s) := by
  cases sd with
  | none => exact ⟨nz (normSq r), nz_normSq_pos r, normedSq_initialResidualNorm_first g r tolSq h, rfl⟩
  | some d =>
    cases d with
    | normSq s => exact ⟨s, hsd s rfl, normedSq_initialResidualNorm_later g s (hsd s rfl) r tolSq h, rfl⟩
    | size n => exact ⟨nz (normSq r), nz_normSq_pos r, by
        have : (normedSq .initialResidualNorm g (some (.size n)) r).1 = normSq r / nz (normSq r) := rfl
        rw [this] at h; rwa [div_le_iff₀ (nz_normSq_pos r)] at h, rfl⟩
    | groups l => exact ⟨nz (normSq r), nz_normSq_pos r, by
        have : (normedSq .initialResidualNorm g (some (.groups l)) r).1 = normSq r / nz (normSq r) := rfl
        rw [this] at h; rwa [div_le_iff₀ (nz_normSq_pos r)] at h, rfl⟩
    | comps l => exact ⟨nz (normSq r), nz_normSq_pos r, by
        have : (normedSq .initialResidualNorm g (some (.comps l)) r).1 = normSq r / nz (normSq r) := rfl
        rw [this] at h; rwa [div_le_iff₀ (nz_normSq_pos r)] at h, rfl⟩

/-- Component-wise scalings: when the test passes every component of the residual satisfies
    `(rⱼ/cⱼ)² ≤ tol²` (resp. `≤ tol²·n` for the scaled variant), `c` the reference components. -/
theorem stop_componentwise (g : List (List Nat)) (c r : Vec) (tolSq : Rat) :
    ((normedSq .initialResidualComponent g (some (.comps c)) r).1 ≤ tolSq → ∀ q ∈ vdiv r c, q * q ≤ tolSq) ∧
    (r ≠ [] → (normedSq .scaledInitialResidualComponent g (some (.comps c)) r).1 ≤ tolSq →
      ∀ q ∈ vdiv r c, q * q ≤ tolSq * (r.length : Rat)) :=
  ⟨normedSq_initialResidualComponent g c r tolSq,
   fun hr => normedSq_scaledInitialResidualComponent g c r hr tolSq⟩

/-- `max_mda_iter` is respected by the loop: at most `max(1, maxIter)` sweeps are recorded by an execution
    of the Jacobi and Newton models. -/
theorem iteration_budget_respected (s : Sys) (c : Cfg) (fuel : Nat) (st : MState) (start : Vec)
    (hc : c.algo ≠ .gaussSeidel) :
    (execute s c fuel st start).hist.length ≤ max 1 c.maxIter := by
  unfold execute
  cases hcc : c.algo with
  | gaussSeidel => exact absurd hcc hc
  | jacobi =>
    simp only
    refine le_trans (mdaLoop_iterations_le _ _ _ _ _ _ _ _ _ _ _ _ _) ?_
    simp
  | newton =>
    simp only
    refine le_trans (mdaLoop_iterations_le _ _ _ _ _ _ _ _ _ _ _ _ _) ?_
    simp

/-- Non-vacuity: the model converges on a 2-discipline affine system (`y₀ = 2 + y₁/4`, `y₁ = 2 - y₀/8`),
    for Jacobi, Gauss–Seidel with Aitken acceleration and relaxation, and Newton (one step + one check). -/
example :
    let sys : Sys := ⟨[⟨2, [0, 1/4]⟩, ⟨2, [-1/8, 0]⟩], [[0], [1]]⟩
    let cj : Cfg := ⟨.jacobi, [0, 1], [[0], [1]], [0, 1], 1/1024, 30, .noScaling, 1, .none, false⟩
    let cg : Cfg := ⟨.gaussSeidel, [0, 1], [[0], [1]], [0, 1], 1/1024, 30, .initialResidualNorm, 9/10, .secant, false⟩
    let cn : Cfg := ⟨.newton, [0, 1], [[0], [1]], [0, 1], 1/1024, 30, .initialResidualComponent, 1, .none, false⟩
    (execute sys cj 40 {} [0, 0]).outcome = .converged ∧ (execute sys cj 40 {} [0, 0]).hist.length = 6 ∧
    (execute sys cg 40 {} [0, 0]).outcome = .converged ∧
    (execute sys cn 40 {} [0, 0]).outcome = .converged ∧ (execute sys cn 40 {} [0, 0]).data = [80/33, 56/33] := by
  decide +kernel

/-! ### Fixed-point analysis (Mathlib) -/

section Analysis

variable {α : Type*} [MetricSpace α] [CompleteSpace α] [Nonempty α] {K : ℝ≥0} {G : α → α}

/-- Re-executing the disciplines on the returned data `G y` reproduces the returned outputs within `K·ε`
    when the residual test `dist (G y) y ≤ ε` passed at the last iterate `y` (`ε = tol·scale`). -/
theorem returned_is_almost_fixed (hG : ContractingWith K G) (y : α) {ε : ℝ} (h : dist (G y) y ≤ ε) :
    dist (G (G y)) (G y) ≤ K * ε :=
  Analysis.reexecution_le hG y h

/-- The returned couplings are within `K/(1-K)·ε` of THE solution of the coupled system. -/
theorem distance_to_solution (hG : ContractingWith K G) (y : α) {ε : ℝ} (h : dist (G y) y ≤ ε) :
    dist (G y) (ContractingWith.fixedPoint G hG) ≤ K / (1 - K) * ε :=
  Analysis.returned_dist_fixed_le hG (ContractingWith.fixedPoint_isFixedPt hG) y h

/-- Any returned value with a small residual (e.g. the root returned by a quasi-Newton solver) is close to
    the solution: `dist y (G y) ≤ ε → dist y y* ≤ ε/(1-K)`. -/
theorem small_residual_near_solution (hG : ContractingWith K G) (y : α) {ε : ℝ} (h : dist y (G y) ≤ ε) :
    dist y (ContractingWith.fixedPoint G hG) ≤ ε / (1 - K) :=
  Analysis.dist_fixed_le_of_residual hG (ContractingWith.fixedPoint_isFixedPt hG) y h

/-- All algorithms agree: two converged runs, whatever acceleration / relaxation / order / warm start
    produced their last iterates, return couplings within `K/(1-K)·(ε₁+ε₂)` of each other. -/
theorem algorithms_agree (hG : ContractingWith K G) (y₁ y₂ : α) {ε₁ ε₂ : ℝ}
    (h₁ : dist (G y₁) y₁ ≤ ε₁) (h₂ : dist (G y₂) y₂ ≤ ε₂) :
    dist (G y₁) (G y₂) ≤ K / (1 - K) * (ε₁ + ε₂) :=
  Analysis.returned_agree hG (ContractingWith.fixedPoint_isFixedPt hG) y₁ y₂ h₁ h₂

/-- The plain iteration passes any positive residual test after finitely many sweeps. -/
theorem plain_iteration_terminates (hG : ContractingWith K G) (x : α) {ε : ℝ} (hε : 0 < ε) :
    ∃ n : ℕ, dist (G^[n + 1] x) (G^[n] x) ≤ ε :=
  Analysis.plain_iteration_passes hG x hε

end Analysis

/-- Non-vacuity of the contraction hypotheses: `x ↦ x/2 + 1` on `ℝ`. -/
theorem half_plus_one_contracting : ContractingWith (1 / 2 : ℝ≥0) (fun x : ℝ => x / 2 + 1) := by
  refine ⟨by norm_num, LipschitzWith.of_dist_le_mul fun x y => ?_⟩
  have : x / 2 + 1 - (y / 2 + 1) = (x - y) / 2 := by ring
  simp only [Real.dist_eq, this, abs_div, NNReal.coe_div, NNReal.coe_one, NNReal.coe_ofNat]
  rw [abs_of_pos (by norm_num : (0 : ℝ) < 2)]
  linarith [abs_nonneg (x - y)]

example : dist ((fun x : ℝ => x / 2 + 1) ((fun x : ℝ => x / 2 + 1) 0)) ((fun x : ℝ => x / 2 + 1) 0)
    ≤ ((1 / 2 : ℝ≥0) : ℝ) * 1 :=
  returned_is_almost_fixed half_plus_one_contracting 0 (by simp [Real.dist_eq])

section Sweeps

variable {ι : Type*} [Fintype ι] [DecidableEq ι] {E : ι → Type*} [∀ i, MetricSpace (E i)]
  {f : ∀ i, (∀ j, E j) → E i} {K : ℝ≥0}

/-- `n` disciplines, each `K`-Lipschitz in all the couplings (sup metric), `K < 1`: the Jacobi sweep is a
    `K`-contraction. Self-coupled disciplines are included (`f i` may depend on component `i`). -/
theorem jacobi_contracts (hf : ∀ i, LipschitzWith K (f i)) (hK : K < 1) :
    ContractingWith K (Analysis.jacobi f) :=
  Analysis.jacobi_contracting hf hK

/-- ... and so is the Gauss–Seidel sweep in *any* listed order containing every discipline. -/
theorem gauss_seidel_contracts (hf : ∀ i, LipschitzWith K (f i)) (hK : K < 1) (l : List ι) (hl : ∀ i, i ∈ l) :
    ContractingWith K (Analysis.gsSweep f l) :=
  Analysis.gsSweep_contracting hf hK l hl

/-- Jacobi and Gauss–Seidel (any order) have the same fixed points: the points satisfying all disciplines
    simultaneously. -/
theorem sweeps_same_fixed_points (hf : ∀ i, LipschitzWith K (f i)) (hK : K < 1) (l : List ι) (hl : ∀ i, i ∈ l)
    [CompleteSpace (∀ j, E j)] [Nonempty (∀ j, E j)] (y : ∀ j, E j) :
    (IsFixedPt (Analysis.gsSweep f l) y ↔ ∀ i, f i y = y i) ∧
    (IsFixedPt (Analysis.jacobi f) y ↔ ∀ i, f i y = y i) :=
  ⟨Analysis.isFixedPt_gsSweep_iff hf hK l hl y, Analysis.isFixedPt_jacobi_iff y⟩

/-- The solution does not depend on the order in which the disciplines are listed. -/
theorem order_independent_solution (hf : ∀ i, LipschitzWith K (f i)) (hK : K < 1) (l₁ l₂ : List ι)
    (h₁ : ∀ i, i ∈ l₁) (h₂ : ∀ i, i ∈ l₂) [CompleteSpace (∀ j, E j)] [Nonempty (∀ j, E j)] :
    ContractingWith.fixedPoint (Analysis.gsSweep f l₁) (Analysis.gsSweep_contracting hf hK l₁ h₁)
      = ContractingWith.fixedPoint (Analysis.gsSweep f l₂) (Analysis.gsSweep_contracting hf hK l₂ h₂) ∧
    ContractingWith.fixedPoint (Analysis.gsSweep f l₁) (Analysis.gsSweep_contracting hf hK l₁ h₁)
      = ContractingWith.fixedPoint (Analysis.jacobi f) (Analysis.jacobi_contracting hf hK) :=
  Analysis.order_independent hf hK l₁ l₂ h₁ h₂

end Sweeps

/-- Non-vacuity: two scalar disciplines `y₀ = y₁/2 + 1`, `y₁ = y₀/2 + 1`, listed as `[1, 0]`. -/
example : ContractingWith (1 / 2 : ℝ≥0)
    (Analysis.gsSweep (E := fun _ : Fin 2 => ℝ) (fun i y => y (i + 1) / 2 + 1) [1, 0]) := by
  refine gauss_seidel_contracts (fun i => ?_) (by norm_num) [1, 0] (fun i => by fin_cases i <;> simp)
  refine LipschitzWith.of_dist_le_mul fun y z => ?_
  have key : |y (i + 1) - z (i + 1)| ≤ dist y z := by
    simpa [Real.dist_eq] using dist_le_pi_dist y z (i + 1)
  have : y (i + 1) / 2 + 1 - (z (i + 1) / 2 + 1) = (y (i + 1) - z (i + 1)) / 2 := by ring
  simp only [Real.dist_eq, this, abs_div, NNReal.coe_div, NNReal.coe_one, NNReal.coe_ofNat]
  rw [abs_of_pos (by norm_num : (0 : ℝ) < 2)]
  linarith

section Relaxation

variable {V : Type*} [NormedAddCommGroup V] [NormedSpace ℝ V]

/-- Relaxation with `ω ≠ 0` has exactly the fixed points of `G`. -/
theorem relaxation_same_fixed_points {ω : ℝ} (hω : ω ≠ 0) (G : V → V) (x : V) :
    Analysis.relax ω G x = x ↔ G x = x :=
  Analysis.relax_fixed_iff hω G x

/-- Under-relaxation `0 < ω ≤ 1` of a `K`-contraction is a `(1 - ω(1-K))`-contraction. -/
theorem relaxation_contracts {K : ℝ≥0} {G : V → V} (hG : LipschitzWith K G) (hK : K < 1) {ω : ℝ}
    (h0 : 0 < ω) (h1 : ω ≤ 1) (x y : V) :
    ‖Analysis.relax ω G x - Analysis.relax ω G y‖ ≤ (1 - ω * (1 - K)) * ‖x - y‖ ∧ 1 - ω * (1 - K) < 1 := by
  have hK' : (K : ℝ) < 1 := by exact_mod_cast hK
  refine ⟨?_, by nlinarith⟩
  have := Analysis.relax_lipschitz hG (ω := ω) x y
  rw [abs_of_pos h0, abs_of_nonneg (by linarith : 0 ≤ 1 - ω)] at this
  calc _ ≤ (ω * K + (1 - ω)) * ‖x - y‖ := this
    _ = (1 - ω * (1 - K)) * ‖x - y‖ := by ring

/-- The relaxation GEMSEO implements (`x_{n+2} = ω·G x_{n+1} + (1-ω)·G x_n`): its stationary points are
    the fixed points of `G`, and it converges geometrically when `K·(|ω| + |1-ω|) < 1`. -/
theorem two_step_relaxation_converges {K : ℝ≥0} {G : V → V} (hG : LipschitzWith K G) {s : V} (hs : G s = s)
    (ω : ℝ) (x : ℕ → V) (hx : ∀ n, x (n + 2) = ω • G (x (n + 1)) + (1 - ω) • G (x n))
    (hq1 : (K : ℝ) * (|ω| + |1 - ω|) ≤ 1) :
    (∀ z : V, ω • G z + (1 - ω) • G z = z ↔ G z = z) ∧
    ∀ n, ‖x n - s‖ ≤ ((K : ℝ) * (|ω| + |1 - ω|)) ^ (n / 2) * max ‖x 0 - s‖ ‖x 1 - s‖ :=
  ⟨fun z => Analysis.two_step_stationary_iff ω G z,
   Analysis.two_step_converges hG hs ω x hx _ _ rfl hq1 (le_max_left _ _) (le_max_right _ _)⟩

end Relaxation

/-- Newton on an affine coupled system `G y = A y + b` is exact in one step from any starting point:
    if the step solves the linearized residual equation `(A - I) s = -(G y - y)` then `y + s` satisfies all
    the disciplines. -/
theorem newton_affine_one_step {𝕜 W : Type*} [Field 𝕜] [AddCommGroup W] [Module 𝕜 W]
    (A : W →ₗ[𝕜] W) (b y s : W) (hs : A s - s = -((A y + b) - y)) : A (y + s) + b = y + s :=
  Analysis.newton_affine_one_step A b y s hs

/-- Non-vacuity: scalar system `y = y/2 + 1` from `y = 0`: residual `1`, step `2`, solution `2`. -/
example : (LinearMap.lsmul ℚ ℚ (1 / 2)) ((0 : ℚ) + 2) + 1 = 0 + 2 :=
  newton_affine_one_step (LinearMap.lsmul ℚ ℚ (1 / 2)) 1 0 2 (by simp; norm_num)

end GV.C06
