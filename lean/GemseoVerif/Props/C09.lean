/-
C09 — property theorems: composite processes differentiate by the exact chain rule.

The model (`Model/C09.lean`) transcribes the (repaired) accumulation code of `MDOChain`,
`MDOParallelChain`, `MDOAdditiveChain`, `traverse_add_diff_io` and the restriction performed by
`Discipline.linearize`.  The specification is the forward-mode definition of the total derivative
(`fwd`, `pfwd`, `afwd` in `Lemmas/C09*.lean`): the tangent of a variable computed by a discipline is
`Σ_inputs ∂out/∂in ⬝ tangent(in)`, the last writer of a variable wins.

All theorems hold for every finite type of variable names `V`, every family of blocks `β o i`
satisfying the laws of matrices (`LawfulBlocks`: e.g. `Matrix (Fin (sz o)) (Fin (sz i)) R` over any
semiring, instance below), every list of disciplines, every requested output and input list, every
point (the partial derivatives are arbitrary blocks).
-/
import GemseoVerif.Lemmas.C09
import GemseoVerif.Lemmas.C09Par
import GemseoVerif.Lemmas.C09Mat
import GemseoVerif.Lemmas.C09Sel
import GemseoVerif.Lemmas.C09Eval
import GemseoVerif.Lemmas.C09Size

namespace GV.C09

set_option linter.unusedSectionVars false

open Finset

section
variable {V : Type} [DecidableEq V] [Fintype V] {β : V → V → Type} [BlockOps β]
  [∀ o i, AddCommMonoid (β o i)] [LawfulBlocks β]

local infixl:70 " ⬝ " => BlockOps.mul

/-- The zero blocks `_init_jacobian` fills the missing keys with. -/
abbrev zeroFill : (o x : V) → β o x := fun _ _ => 0

/-! ### MDOChain -/

/-- **Reverse accumulation = forward-mode total derivative** (directional form, no identity
    needed).  For every chain `ds` (any order, any overlap of names: a variable may be computed by
    several disciplines, or read and computed by the same one), every output `o` computed by some
    discipline, every list `X` of requested inputs and every tangent `t` of the variables before
    the chain that vanishes outside `X`, the tangent of `o` after the chain is
    `Σ_{x ∈ X} J[o][x] ⬝ t x` where `J = chainJac` is what `MDOChain._compute_jacobian` returns. -/
theorem reverse_eq_forward {p : V} (vars : List V) (hnd : vars.Nodup) (hall : ∀ v, v ∈ vars)
    (ds : List (Disc β)) (hds : ∀ d ∈ ds, d.jac.WF) (o : V) (ho : ∃ d ∈ ds, o ∈ d.outs)
    (X : List V) (t : (v : V) → β v p) (ht : ∀ v, v ∉ X → t v = 0) :
    fwd ds t o = ∑ x ∈ X.toFinset, chainJac vars zeroFill ds o x ⬝ t x := by
  rw [chain_adjoint vars hnd hall ds hds o t]
  have hs := chainRow_isSome vars ds o ho
  cases hrow : chainRow vars ds o with
  | none => simp [hrow] at hs
  | some r =>
    simp only []
    rw [pair_support r.sem t X ht]
    apply Finset.sum_congr rfl
    intro x _
    unfold chainJac
    rw [hrow, finishRow_zero_sem]

/-- **Reverse accumulation = forward-mode total derivative** (block form).  The block returned
    for the requested pair `(o, x)` is the tangent of `o` obtained by the forward sweep seeded with
    the identity on `x` and zero on every other variable, i.e. `D o / D x`. -/
theorem reverse_eq_forward_unit [BlockOne β] [LawfulOne β]
    (vars : List V) (hnd : vars.Nodup) (hall : ∀ v, v ∈ vars)
    (ds : List (Disc β)) (hds : ∀ d ∈ ds, d.jac.WF) (o : V) (ho : ∃ d ∈ ds, o ∈ d.outs)
    (x : V) :
    chainJac vars zeroFill ds o x = fwd ds (seedAt x) o := by
  rw [reverse_eq_forward vars hnd hall ds hds o ho [x] (seedAt x)
    (fun v hv => seedAt_ne x v (fun h => hv (by simp [h])))]
  simp [mul_seedAt_self]

/-- **The returned block does not depend on the other requested pairs**: `chainJac … o x` has no
    argument for the request; whatever lists of inputs/outputs are requested, the block of a pair is
    the same function of the disciplines' Jacobian dictionaries. Stated for the record as the
    equality of the blocks obtained through two different requests. -/
theorem subset_stable [BlockOne β] [LawfulOne β]
    (vars : List V) (hnd : vars.Nodup) (hall : ∀ v, v ∈ vars)
    (ds ds' : List (Disc β)) (hds : ∀ d ∈ ds, d.jac.WF) (hds' : ∀ d ∈ ds', d.jac.WF)
    (o x : V) (ho : ∃ d ∈ ds, o ∈ d.outs) (ho' : ∃ d ∈ ds', o ∈ d.outs)
    (hsame : fwd ds (seedAt x) o = fwd ds' (seedAt x) o) :
    chainJac vars zeroFill ds o x = chainJac vars zeroFill ds' o x := by
  rw [reverse_eq_forward_unit vars hnd hall ds hds o ho x,
    reverse_eq_forward_unit vars hnd hall ds' hds' o ho' x, hsame]

/-! ### MDOParallelChain and MDOAdditiveChain -/

/-- **Parallel merge**: the Jacobian of a parallel chain is the Jacobian of the function it
    computes (every discipline reads the inputs of the chain, the last discipline computing an
    output wins). -/
theorem parallel_merge {p : V} (ds : List (Disc β)) (o : V) (ho : ∃ d ∈ ds, o ∈ d.outs)
    (X : List V) (t : (v : V) → β v p) (ht : ∀ v, v ∉ X → t v = 0) :
    pfwd ds t o = ∑ x ∈ X.toFinset, parJac zeroFill ds o x ⬝ t x := by
  rw [par_adjoint ds o t]
  have hs := parRow_isSome ds o ho
  cases hrow : parRow ds o with
  | none => simp [hrow] at hs
  | some r =>
    simp only []
    rw [pair_support r.sem t X ht]
    apply Finset.sum_congr rfl
    intro x _
    unfold parJac
    rw [hrow, finishRow_zero_sem]

/-- **Additive chain**: for an output to sum, the returned block is the sum of the blocks of the
    disciplines, and the tangent of the summed output is the sum of the disciplines' tangents. -/
theorem additive_sum {p : V} (sums : List V) (ds : List (Disc β)) (o : V) (hs : o ∈ sums)
    (X : List V) (t : (v : V) → β v p) (ht : ∀ v, v ∉ X → t v = 0) :
    (ds.map (fun d => d.jac.out t o)).sum = ∑ x ∈ X.toFinset, addJac zeroFill sums ds o x ⬝ t x := by
  have hb : ∀ x, addJac zeroFill sums ds o x = (ds.map (fun d => d.jac.eff o x)).sum := by
    intro x
    simp only [addJac, hs, if_true]
    have := addBlock_sem ds o x
    cases h : addBlock ds o x <;> simp [h] at this ⊢ <;> exact this
  simp only [hb]
  exact additive_tangent ds o X t ht

/-- Outputs that are not summed follow the parallel merge. -/
theorem additive_other (sums : List V) (ds : List (Disc β)) (o x : V) (hs : o ∉ sums) :
    addJac zeroFill sums ds o x = parJac zeroFill ds o x := by
  simp [addJac, hs]

/-- **Pruning in a parallel chain.**  `MDOParallelChain._compute_jacobian(X, O)` asks every
    discipline for the requested names of its grammars only (or more, cumulatively); the blocks of
    the requested pairs are those obtained with the full dictionaries. -/
theorem parallel_pruned (fill : (o x : V) → β o x) (ds : List (Disc β)) (sels : List (DiscIO V))
    (hlen : sels.length = ds.length)
    (hk : ∀ d ∈ ds, ∀ w v, d.jac.present w v → w ∈ d.outs ∧ v ∈ d.ins)
    (X O : List V)
    (hs : ∀ k (d : Disc β), ds[k]? = some d →
      (∀ o, o ∈ O → o ∈ d.outs → o ∈ (sels.getD k ([], [])).2) ∧
      (∀ x, x ∈ X → x ∈ d.ins → x ∈ (sels.getD k ([], [])).1))
    (o x : V) (ho : o ∈ O) (hx : x ∈ X) :
    parJac fill (List.zipWith Disc.restrictTo ds sels) o x = parJac fill ds o x :=
  parJac_congr fill o x _ _ (samePair_restrict o x ds sels hlen hk
    (fun k d hd => ⟨(hs k d hd).1 o ho, (hs k d hd).2 x hx⟩))

/-- **Pruning in an additive chain.** -/
theorem additive_pruned (fill : (o x : V) → β o x) (sums : List V) (ds : List (Disc β))
    (sels : List (DiscIO V)) (hlen : sels.length = ds.length)
    (hk : ∀ d ∈ ds, ∀ w v, d.jac.present w v → w ∈ d.outs ∧ v ∈ d.ins)
    (X O : List V)
    (hs : ∀ k (d : Disc β), ds[k]? = some d →
      (∀ o, o ∈ O → o ∈ d.outs → o ∈ (sels.getD k ([], [])).2) ∧
      (∀ x, x ∈ X → x ∈ d.ins → x ∈ (sels.getD k ([], [])).1))
    (o x : V) (ho : o ∈ O) (hx : x ∈ X) :
    addJac fill sums (List.zipWith Disc.restrictTo ds sels) o x = addJac fill sums ds o x := by
  have hsp := samePair_restrict o x ds sels hlen hk
    (fun k d hd => ⟨(hs k d hd).1 o ho, (hs k d hd).2 x hx⟩)
  unfold addJac
  rw [addBlock_congr o x _ _ hsp, parJac_congr fill o x _ _ hsp]

/-! ### Zero blocks -/

/-- **Independent pairs get zero blocks**: when `o` is not reachable from `x` through the keys of
    the disciplines' Jacobian dictionaries (`dependsOn`), the returned block is zero. -/
theorem independent_zero [BlockOne β] [LawfulOne β]
    (vars : List V) (hnd : vars.Nodup) (hall : ∀ v, v ∈ vars)
    (ds : List (Disc β)) (hds : ∀ d ∈ ds, d.jac.WF) (o : V) (ho : ∃ d ∈ ds, o ∈ d.outs)
    (x : V) (hind : ¬ dependsOn ds (fun v => v = x) o) :
    chainJac vars zeroFill ds o x = 0 := by
  rw [reverse_eq_forward_unit vars hnd hall ds hds o ho x]
  exact fwd_support ds (seedAt x) (fun v => v = x) (fun v hv => seedAt_ne x v hv) o hind

/-- A key that was never produced is filled by `fill`: with `fill o x = zeros (|o|, |x|)` the block
    has the shape of the pair. -/
theorem missing_key_filled (vars : List V) (fill : (o x : V) → β o x) (ds : List (Disc β)) (o x : V)
    (h : ∀ r, chainRow vars ds o = some r → r.get x = none) :
    chainJac vars fill ds o x = fill o x := by
  unfold chainJac finishRow
  cases hrow : chainRow vars ds o with
  | none => rfl
  | some r => simp [h r hrow]

end

/-- The zero block of the driver has the shape of the pair. -/
theorem zero_block_shape (m n : Nat) :
    (Mat.zeros m n).length = m ∧ ∀ r ∈ Mat.zeros m n, r.length = n ∧ ∀ e ∈ r, e = 0 := by
  refine ⟨by simp [Mat.zeros], ?_⟩
  intro r hr
  have := List.eq_of_mem_replicate hr
  subst this
  exact ⟨by simp, fun e he => List.eq_of_mem_replicate he⟩

/-! ### Zero blocks along a history of input points whose vectors change length

Grammars do not fix sizes: the same process object may be linearized at a point made of vectors of one
length, then at a point made of vectors of another length.  `_init_jacobian` reads the sizes of the requested
names in the current data at every call (section Sizes of the model: `namesToSizes`, `SizedReq.fill`,
`sizedAnswers`); the model — like the code — keeps no size between two requests. -/

section
variable {V D : Type} [DecidableEq V] [BlockOps (fun (_ _ : V) => Mat)]

/-- **Zero blocks have the shape of the CURRENT point, whatever the history.**  For every history of
    requests on one chain (any data, any lengths, any requested names, any dictionaries of the disciplines at
    each request), the answer to request `k` gives every requested pair `(o, x)` for which the accumulation
    produced no block (independent pair) the zero block with `len (data_k o)` rows of `len (data_k x)` zeros:
    the lengths of the values of `o` and `x` in the data of request `k`, not of an earlier request. -/
theorem zero_blocks_follow_current_sizes (len : D → Nat) (vars : List V)
    (history : List (SizedReq V D × List (Disc (fun (_ _ : V) => Mat))))
    (k : Nat) (r : SizedReq V D) (ds : List (Disc (fun (_ _ : V) => Mat)))
    (hk : history[k]? = some (r, ds)) (o x : V) (ho : o ∈ r.os) (hx : x ∈ r.xs)
    (h : ∀ row, chainRow vars ds o = some row → row.get x = none) :
    ∃ a, (sizedAnswers len vars history)[k]? = some a ∧
      a o x = Mat.zeros (len (r.data o)) (len (r.data x)) ∧
      (a o x).length = len (r.data o) ∧
      ∀ row ∈ a o x, row.length = len (r.data x) ∧ ∀ e ∈ row, e = 0 := by
  refine ⟨fun o x => chainJac vars (r.fill len) ds o x, ?_, ?_⟩
  · simp [sizedAnswers, List.getElem?_map, hk]
  · have hb : chainJac vars (r.fill len) ds o x = Mat.zeros (len (r.data o)) (len (r.data x)) := by
      rw [← SizedReq.fill_eq len r o x ho hx]
      unfold chainJac finishRow
      cases hrow : chainRow vars ds o with
      | none => rfl
      | some row => simp [h row hrow]
    refine ⟨hb, ?_⟩
    beta_reduce
    rw [hb]
    exact Mat.zeros_shape _ _

/-- The same zero blocks are used by the parallel and additive chains (`parJac`, `addJac` take the same
    `fill`): whatever the request, the fill of a requested pair has the sizes of the data of the request. -/
theorem request_fill_has_current_shape (len : D → Nat) (r : SizedReq V D) (o x : V)
    (ho : o ∈ r.os) (hx : x ∈ r.xs) :
    (r.fill len o x).length = len (r.data o) ∧
      ∀ row ∈ r.fill len o x, row.length = len (r.data x) ∧ ∀ e ∈ row, e = 0 := by
  rw [SizedReq.fill_eq len r o x ho hx]
  exact Mat.zeros_shape _ _

/-- Parallel chain: an independent requested pair gets the zero block of the current sizes. -/
theorem parallel_zero_blocks_follow_current_sizes (len : D → Nat) (r : SizedReq V D)
    (ds : List (Disc (fun (_ _ : V) => Mat))) (o x : V) (ho : o ∈ r.os) (hx : x ∈ r.xs)
    (h : ∀ row, parRow ds o = some row → row.get x = none) :
    parJac (r.fill len) ds o x = Mat.zeros (len (r.data o)) (len (r.data x)) := by
  rw [← SizedReq.fill_eq len r o x ho hx]
  unfold parJac finishRow
  cases hrow : parRow ds o with
  | none => rfl
  | some row => simp [h row hrow]

end

/-- Non-vacuity: the chain `[H : u ↦ z]` asked for `dz/dx` (independent pair) at a point where `x, z` have
    2 components, then at a point where they have 4 and 3: the second answer is the `3 × 4` zero block. -/
example :
    let H : Disc (fun (_ _ : String) => Mat) :=
      ⟨["u"], ["z"], ⟨["z"], fun _ => ["u"], fun _ _ => [[1]]⟩⟩
    let r1 : SizedReq String (List Rat) := ⟨fun _ => [1, 2], ["x", "u"], ["z"]⟩
    let r2 : SizedReq String (List Rat) :=
      ⟨fun v => if v = "x" then [1, 2, 3, 4] else [5, 6, 7], ["x", "u"], ["z"]⟩
    ∃ a, (sizedAnswers List.length ["u", "x", "z"] [(r1, [H]), (r2, [H])])[1]? = some a ∧
      a "z" "x" = Mat.zeros 3 4 := by
  intro H r1 r2
  obtain ⟨a, ha, hz, _⟩ := zero_blocks_follow_current_sizes (V := String) List.length ["u", "x", "z"]
    [(r1, [H]), (r2, [H])] 1 r2 [H] rfl "z" "x" (by simp [r2]) (by simp [r2])
    (by
      intro row hrow
      simp [chainRow, stepOpt, H] at hrow
      subst hrow
      simp [DJac.row])
  exact ⟨a, ha, by simpa [r2] using hz⟩

/-- Witness of the seeded class "sizes memoized per variable" (NOT the code): after a first request at a
    point where `x` has 2 components the memo answers 2 at a point where `x` has 4 components, the code
    (`namesToSizes`) answers 4. -/
theorem memoized_sizes_keep_the_first_shape :
    let memo := memoSizes (V := Nat) List.length [] (fun _ => [1, 2]) [0]
    sizeIn (memoSizes List.length memo (fun _ => [1, 2, 3, 4]) [0]) 0 = 2 ∧
      sizeIn (namesToSizes (V := Nat) List.length (fun _ => [1, 2, 3, 4]) [0]) 0 = 4 := by
  decide

/-! ### Pruning: the partials selected by the graph traversal suffice -/

section
variable {V : Type} [DecidableEq V] [Fintype V] {β : V → V → Type} [BlockOps β]
  [∀ o i, AddCommMonoid (β o i)] [LawfulBlocks β]

/-- **pruned = full**.  Let `ds'` be the chain `ds` where every discipline returns a
    sub-dictionary of its Jacobian (`Disc.Sub`: same grammars, a subset of the keys, same blocks).
    If the kept keys cover every key `(w, v)` of every discipline such that `v` may depend on the
    requested inputs `X` (forward reachability `reachF`) and a requested output of `O` may depend
    on `w` (backward reachability `needB`), then the blocks returned for the requested pairs are
    the same as with the full dictionaries. -/
theorem pruned_eq_full [BlockOne β] [LawfulOne β]
    (vars : List V) (hnd : vars.Nodup) (hall : ∀ v, v ∈ vars)
    (ds ds' : List (Disc β)) (hds : ∀ d ∈ ds, d.jac.WF) (hds' : ∀ d ∈ ds', d.jac.WF)
    (X O : List V) (hcov : Covers ds' ds (fun v => v ∈ X) (fun v => v ∈ O))
    (o x : V) (ho : o ∈ O) (hx : x ∈ X) (hod : ∃ d ∈ ds, o ∈ d.outs) :
    chainJac vars zeroFill ds' o x = chainJac vars zeroFill ds o x := by
  have hod' : ∃ d ∈ ds', o ∈ d.outs := Covers.outs_iff hcov o |>.mpr hod
  rw [reverse_eq_forward_unit vars hnd hall ds hds o hod x,
    reverse_eq_forward_unit vars hnd hall ds' hds' o hod' x]
  exact fwd_pruned ds' ds (fun v => v ∈ X) (fun v => v ∈ O) hcov (seedAt x) (seedAt x)
    (fun v _ => rfl) (fun v hv => seedAt_ne x v (fun h => hv (h ▸ hx)))
    (fun v hv => seedAt_ne x v (fun h => hv (h ▸ hx))) o ho

/-- **Successive requests are stable.**  A chain keeps, per discipline, the union of everything
    the traversals of the past requests selected (`ChainState.request`, `add_differentiated_*` only
    add).  Whatever the history, if the cumulative selection still covers the current request
    (`Covers`, which only asks for *more* keys to be present), the blocks returned now are those of
    the full dictionaries, hence equal to the total derivative and independent of the history. -/
theorem successive_requests_stable [BlockOne β] [LawfulOne β]
    (vars : List V) (hnd : vars.Nodup) (hall : ∀ v, v ∈ vars)
    (ds : List (Disc β)) (hds : ∀ d ∈ ds, d.jac.WF)
    (sel₁ sel₂ : List (DiscIO V)) (X O : List V)
    (h₁ : Covers (restrictAll ds sel₁) ds (fun v => v ∈ X) (fun v => v ∈ O))
    (h₂ : Covers (restrictAll ds sel₂) ds (fun v => v ∈ X) (fun v => v ∈ O))
    (o x : V) (ho : o ∈ O) (hx : x ∈ X) (hod : ∃ d ∈ ds, o ∈ d.outs) :
    chainJac vars zeroFill (restrictAll ds sel₁) o x
      = chainJac vars zeroFill (restrictAll ds sel₂) o x := by
  rw [pruned_eq_full vars hnd hall ds _ hds (restrictAll_wf ds sel₁ hds) X O h₁ o x ho hx hod,
    pruned_eq_full vars hnd hall ds _ hds (restrictAll_wf ds sel₂ hds) X O h₂ o x ho hx hod]

/-- **selection_covers_paths ⇒ the pruned chain is exact.**  For a chain listed in a valid order
    (`ValidChain`: no discipline computes a variable read by an earlier one, dictionary keys are
    (output, input) names) and any selection containing what `traverse_add_diff_io` selects for the
    request `(X, O)`, the chain whose disciplines only return the selected partials returns, for the
    requested pairs, the blocks of the full dictionaries. -/
theorem traverse_selection_exact [BlockOne β] [LawfulOne β]
    (vars : List V) (hnd : vars.Nodup) (hall : ∀ v, v ∈ vars)
    (ds : List (Disc β)) (hds : ∀ d ∈ ds, d.jac.WF) (hv : ValidChain ds)
    (X O : List V) (sel : List (DiscIO V)) (hlen : sel.length = ds.length)
    (hsel : ∀ k, k < ds.length →
      (∀ v, v ∈ (traverseSelect (iosOf ds) X O k).1 → v ∈ (sel.getD k ([], [])).1) ∧
      (∀ v, v ∈ (traverseSelect (iosOf ds) X O k).2 → v ∈ (sel.getD k ([], [])).2))
    (o x : V) (ho : o ∈ O) (hx : x ∈ X) (hod : ∃ d ∈ ds, o ∈ d.outs) :
    chainJac vars zeroFill (restrictAll ds sel) o x = chainJac vars zeroFill ds o x :=
  pruned_eq_full vars hnd hall ds _ hds (restrictAll_wf ds sel hds) X O
    (selection_covers_paths hv X O sel hlen hsel) o x ho hx hod

/-- **Any history of requests.**  Start from a fresh `MDOChain`, replay any list of requests
    (`_compute_diff_in_outs` with its `_last_diff_inouts` cache and the cumulative
    `add_differentiated_*`), then request `(xs, os)`: the block returned for every requested pair is
    the forward-mode total derivative computed with the *full* dictionaries — it depends neither on
    the history nor on the other requested pairs. -/
theorem request_history_exact [BlockOne β] [LawfulOne β]
    (vars : List V) (hnd : vars.Nodup) (hall : ∀ v, v ∈ vars)
    (ds : List (Disc β)) (hds : ∀ d ∈ ds, d.jac.WF) (hv : ValidChain ds)
    (history : List (List V × List V)) (xs os : List V)
    (o x : V) (ho : o ∈ os) (hx : x ∈ xs) (hod : ∃ d ∈ ds, o ∈ d.outs) :
    chainJac vars zeroFill
        (restrictAll ds
          ((((ChainState.init ds.length).run (iosOf ds) history).request (iosOf ds) xs os).1.sel)) o x
      = fwd ds (seedAt x) o := by
  have hinit : (ChainState.init ds.length : ChainState V).Inv (iosOf ds) := by
    have := ChainState.init_inv (iosOf ds); simpa using this
  have hinv := ChainState.request_inv (iosOf ds) _
    (ChainState.run_inv (iosOf ds) _ hinit history) xs os
  obtain ⟨lx, lo, hlast, hlx, hlo⟩ := ChainState.request_last (iosOf ds)
    ((ChainState.init ds.length).run (iosOf ds) history) xs os
  have hsel := hinv.2 lx lo hlast
  rw [traverse_selection_exact vars hnd hall ds hds hv lx lo _ (by simpa using hinv.1)
    (fun k hk => hsel k (by simpa using hk)) o x ((hlo o).mpr ho) ((hlx x).mpr hx) hod]
  exact reverse_eq_forward_unit vars hnd hall ds hds o hod x

end

/-! ### Histories of executions and linearizations: where the disciplines are linearized

The theorems above take the Jacobian dictionaries of the disciplines as given.  `section Eval` of
the model says at which data each discipline computes its dictionary, as a function of the state
the history of the process left (data held by every discipline, contents of the caches of the
disciplines, of the chain, of the `MDAChain` wrapper).  The statements below hold for every type of
names and of values, every list of disciplines whose functions read their inputs only
(`EDisc.Local`; a discipline may overwrite any of its inputs), every cache policy of every object,
every history of `execute(x)` / `linearize(x, execute=…)` calls and every point. -/

section
variable {V D : Type} [DecidableEq V] [DecidableEq D]

/-- **History independence of the linearization points (MDOChain).**  After any history on a fresh
    chain, `linearize(x, execute=e)` makes every discipline compute its Jacobian at the data the
    sequential composition gives it from `x` (`specPoints`: no state, no cache) — also when the
    outputs of the chain at `x` are served by its cache while the disciplines hold the data of
    another point, and for a discipline whose data at its inputs are the values it has written. -/
theorem linearization_points_history (c : EChain V D) (hl : ∀ d ∈ c.kids, d.Local)
    (d0 : Env V D) (ops : List (EOp V D)) (x : Env V D) (e : Bool) :
    PointsAgree c.kids (c.lin (c.run (ChState.fresh c.kids.length d0) ops) x e).2
      (specPoints c.kids x) :=
  chain_lin_points c hl _ (chain_run_inv c hl ops _ (fresh_inv c d0)).1 x e

/-- **The same for `MDAChain(chain_linearize=True)`**, a cached wrapper of its `MDOChain`
    (whatever the `execute` argument it passes to the inner `linearize`). -/
theorem mdachain_points_history (c : EChain V D) (hl : ∀ d ∈ c.kids, d.Local) (w : CacheKind)
    (d0 : Env V D) (ops : List (EOp V D)) (x : Env V D) (e ie : Bool) :
    PointsAgree c.kids (mdaLin c w (mdaRun c w (MState.fresh c.kids.length d0) ops) x e ie).2
      (specPoints c.kids x) :=
  mda_lin_points c hl w _ (mda_run_inv c hl w ops _ (mfresh_inv c d0)) x e ie

/-- **Executions return the composed function after any history** (cache hits included): the data
    the next discipline / the enclosing process receives are the specified ones.  With
    `EChain.asDisc_local` this makes a chain a discipline of an enclosing chain (nesting). -/
theorem execution_history_exact (c : EChain V D) (hl : ∀ d ∈ c.kids, d.Local)
    (d0 : Env V D) (ops : List (EOp V D)) (x : Env V D) (v : V) (hv : v ∈ chainOuts c.kids) :
    (c.exec (c.run (ChState.fresh c.kids.length d0) ops) x).own.data v = chainFun c.kids x v :=
  chain_exec_data c hl _ (chain_run_inv c hl ops _ (fresh_inv c d0)) x v hv

end

section
variable {V D : Type} [DecidableEq V] [DecidableEq D] [Fintype V] {β : V → V → Type} [BlockOps β]
  [∀ o i, AddCommMonoid (β o i)] [LawfulBlocks β]

/-- **Any history, exact total derivative at the requested point.**  `J d p` is the Jacobian
    dictionary the discipline `d` computes at the data `p` (a function of the values of its inputs,
    `JLocal`).  After any history of executions and linearizations at any points, the block
    `MDOChain.linearize(x)` returns for `(o, i)` is the forward-mode total derivative of the
    composition of the partial derivatives *taken along the execution from `x`* — the Jacobian at
    `x` of the function the chain computes, not that of another visited point. -/
theorem chain_history_exact [BlockOne β] [LawfulOne β]
    (vars : List V) (hnd : vars.Nodup) (hall : ∀ v, v ∈ vars)
    (c : EChain V D) (hl : ∀ d ∈ c.kids, d.Local)
    (J : EDisc V D → Env V D → DJac β) (hJ : JLocal J) (hwf : ∀ d p, (J d p).WF)
    (d0 : Env V D) (ops : List (EOp V D)) (x : Env V D) (e : Bool)
    (o i : V) (ho : ∃ d ∈ c.kids, o ∈ d.outs) :
    chainJac vars zeroFill
        (discsAt J c.kids (c.lin (c.run (ChState.fresh c.kids.length d0) ops) x e).2) o i
      = fwd (discsAt J c.kids (specPoints c.kids x)) (seedAt i) o := by
  rw [discsAt_congr J hJ c.kids _ _ (linearization_points_history c hl d0 ops x e)]
  apply reverse_eq_forward_unit vars hnd hall
  · intro d' hd'
    obtain ⟨d, _, p, hp⟩ := discsAt_mem J c.kids _ d' hd'
    rw [hp]; exact hwf d p
  · exact discsAt_out J o c.kids _ (specPoints_length c.kids x) ho

end

/-! ### Non-vacuity examples and witnesses of the defects of the pinned tree -/

section Examples

theorem diamond_wf : ∀ d ∈ diamond, d.jac.WF := by
  intro d hd
  simp only [diamond, List.mem_cons, List.not_mem_nil, or_false] at hd
  rcases hd with rfl | rfl | rfl <;> exact mkDisc_wf _ _ _ (by decide)

theorem deadWrite_wf : ∀ d ∈ deadWrite, d.jac.WF := by
  intro d hd
  simp only [deadWrite, List.mem_cons, List.not_mem_nil, or_false] at hd
  rcases hd with rfl | rfl | rfl <;> exact mkDisc_wf _ _ _ (by decide)

/-- The hypotheses of `reverse_eq_forward_unit` are satisfiable by a diamond
    (`y = 2x, z = 3x, o = 5y + 7z`) and the block is the textbook value `5·2 + 7·3`. -/
example : (fwd diamond (seedAt 0) 3 : ConstBlocks (Fin 4) Int 3 0).toS = 31 := by
  rw [← reverse_eq_forward_unit [0, 1, 2, 3] (by decide) (by decide) diamond diamond_wf 3
    ⟨mkDisc [1, 2] [3] [(3, 1, 5), (3, 2, 7)], by simp [diamond], by simp [mkDisc]⟩ 0]
  decide

/-- `independent_zero` is not vacuous: in the diamond `z` does not depend on `y`… -/
example : ¬ dependsOn diamond (fun v => v = 1) 2 := by
  simp [dependsOn, reachStep, diamond, mkDisc, DJac.present]

/-- …and `o` depends on `x`. -/
example : dependsOn diamond (fun v => v = 0) 3 := by
  simp [dependsOn, reachStep, diamond, mkDisc, DJac.present]

/-- The diamond is a chain in valid order (the quantifier of the property is inhabited). -/
theorem diamond_valid : ValidChain diamond := by
  refine ⟨?_, ?_⟩
  · intro i j di dj hi hj hij v hvo hvi
    have hj3 : j < 3 := by have := lt_of_getElem? hj; simpa [diamond] using this
    have hcases : (i = 0 ∧ j = 1) ∨ (i = 0 ∧ j = 2) ∨ (i = 1 ∧ j = 2) := by omega
    rcases hcases with ⟨rfl, rfl⟩ | ⟨rfl, rfl⟩ | ⟨rfl, rfl⟩ <;>
      simp [diamond] at hi hj <;> subst hi <;> subst hj <;> simp [mkDisc] at hvo hvi <;>
      (subst hvo; simp at hvi)
  · intro d hd w v hp
    simp only [diamond, List.mem_cons, List.not_mem_nil, or_false] at hd
    rcases hd with rfl | rfl | rfl <;> exact hp

/-- `request_history_exact` is not vacuous: after the requests `(x → y)` and `(x → z)`, the request
    `(x → o)` on the diamond, with the partials selected by the traversals only, returns 31. -/
example : (chainJac (β := ConstBlocks (Fin 4) Int) [0, 1, 2, 3] zeroFill
    (restrictAll diamond
      ((((ChainState.init diamond.length).run (iosOf diamond) [([0], [1]), ([0], [2])]).request
        (iosOf diamond) [0] [3]).1.sel)) 3 0).toS = 31 := by
  have := request_history_exact (β := ConstBlocks (Fin 4) Int) [0, 1, 2, 3] (by decide) (by decide)
    diamond diamond_wf diamond_valid [([0], [1]), ([0], [2])] [0] [3] 3 0 (by simp) (by simp)
    ⟨mkDisc [1, 2] [3] [(3, 1, 5), (3, 2, 7)], by simp [diamond], by simp [mkDisc]⟩
  rw [this, ← reverse_eq_forward_unit [0, 1, 2, 3] (by decide) (by decide) diamond diamond_wf 3
    ⟨mkDisc [1, 2] [3] [(3, 1, 5), (3, 2, 7)], by simp [diamond], by simp [mkDisc]⟩ 0]
  decide

/-- The traversal prunes: for the request `(x → y)` on the diamond the third discipline is asked
    for nothing. -/
example : traverseSelect (iosOf diamond) [0] [1] 2 = ([], []) := by decide

/-- **Witness of the defect of the pinned tree (MDOChain).**  On the chain
    `A: y = 2x; B: y = 5x; C: o = 7y` (a variable computed twice, acyclic name graph, valid order)
    the pinned `reverse_chain_rule` (`chainJacOld`) returns `7·(2+5) = 49`… -/
theorem pinned_chain_wrong_on_variable_written_twice :
    (chainJacOld (β := ConstBlocks (Fin 3) Int) [0, 1, 2] (fun _ _ => (0 : Int)) deadWrite 2 0).toS
      = 49 := by decide

/-- …whereas the total derivative of the function the chain computes (`o = 35 x`), returned by
    the repaired code, is 35. -/
theorem repaired_chain_on_variable_written_twice :
    (fwd deadWrite (seedAt 0) 2 : ConstBlocks (Fin 3) Int 2 0).toS = 35 := by
  rw [← reverse_eq_forward_unit [0, 1, 2] (by decide) (by decide) deadWrite deadWrite_wf 2
    ⟨mkDisc [1] [2] [(2, 1, 7)], by simp [deadWrite], by simp [mkDisc]⟩ 0]
  decide

/-- **Witness of the defect of the pinned tree (MDOParallelChain).**  `A: s = 2x + 3z`, `B: s = 5x`
    in parallel: the value of `s` is B's, the pinned merge (`dict.update`) kept `∂s/∂z = 3`. -/
theorem pinned_parallel_wrong_on_output_written_twice :
    (parJacOld (β := ConstBlocks (Fin 3) Int) (fun _ _ => (0 : Int)) parDup 2 1).toS = 3
    ∧ (parJac (β := ConstBlocks (Fin 3) Int) (fun _ _ => (0 : Int)) parDup 2 1).toS = 0 := by
  decide

/-- `additive_sum` on the same two disciplines: the blocks are added. -/
example : (addJac (β := ConstBlocks (Fin 3) Int) (fun _ _ => (0 : Int)) [2] parDup 2 0).toS = 7
    ∧ (addJac (β := ConstBlocks (Fin 3) Int) (fun _ _ => (0 : Int)) [2] parDup 2 1).toS = 3 := by
  decide

theorem inplace2_wf : ∀ d ∈ inplace2, d.jac.WF := by
  intro d hd
  simp only [inplace2, List.mem_cons, List.not_mem_nil, or_false] at hd
  rcases hd with rfl | rfl | rfl <;> exact mkDisc_wf _ _ _ (by decide)

/-- `reverse_eq_forward_unit` on a discipline that reads and overwrites TWO variables with
    cross-dependence (`(a, b) := (5a + 7b, 11a + 13b)` between `a = 2x, b = 3x` and
    `o = 17a + 19b`): the block is `17·31 + 19·61`.  (The hypotheses of the chain theorems allow
    any overlap between the inputs and the outputs of a discipline; `ValidChain.order` only
    constrains *distinct* positions.) -/
example : (fwd inplace2 (seedAt 0) 3 : ConstBlocks (Fin 4) Int 3 0).toS = 1686 := by
  rw [← reverse_eq_forward_unit [0, 1, 2, 3] (by decide) (by decide) inplace2 inplace2_wf 3
    ⟨mkDisc [1, 2] [3] [(3, 1, 17), (3, 2, 19)], by simp [inplace2], by simp [mkDisc]⟩ 0]
  decide

/-- Composing the two overwritten variables one after the other in the SAME dictionary (popping
    `b` after `a` has been composed, instead of popping both first) gives another value: the model
    pops first (`stepRow`), as the code does. -/
example : (chainJac (β := ConstBlocks (Fin 4) Int) [0, 1, 2, 3] (fun _ _ => (0 : Int)) inplace2 3 0).toS
    = 1686 := by decide

/-- `linearization_points_history` is not vacuous: `D0: a = 3x; D1: a := a²` with a chain cache
    keeping all the evaluations; after `execute(x=2)`, `execute(x=5)`, the request at `x = 2`
    (served by the cache of the chain) linearizes `D0` at `x = 2` and `D1` at `a = 6` (values of the input of each discipline). -/
example :
    let r := ((inplaceSquare .full).lin ((inplaceSquare .full).run (ChState.fresh 2 (env2 0 0))
      [.exec (env2 2 0), .exec (env2 5 0)]) (env2 2 0) true).2
    (r.zip [0, 1]).map (fun pv => pv.1 pv.2) = [2, 6] := by decide

/-- **Witness of the defect of the pinned tree (stale linearization point).**  On the same history
    the pinned `reverse_chain_rule` (`EChain.linOld`: every discipline linearized at the data it
    currently holds) linearizes `D0` at `x = 5` — the other point — and `D1` at `a = 225`. -/
theorem pinned_chain_linearizes_at_stale_point :
    let r := ((inplaceSquare .full).linOld ((inplaceSquare .full).run (ChState.fresh 2 (env2 0 0))
      [.exec (env2 2 0), .exec (env2 5 0)]) (env2 2 0) true).2
    (r.zip [0, 1]).map (fun pv => pv.1 pv.2) = [5, 225] := by decide

/-- **Witness of the defect of the pinned tree (overwritten input).**  Without any history, the
    pinned code linearizes `D1: a := a²` at the value it has written (`a = 36`) instead of the value
    it has read (`a = 6`). -/
theorem pinned_chain_linearizes_at_overwritten_input :
    let r := ((inplaceSquare .simple).linOld (ChState.fresh 2 (env2 0 0)) (env2 2 0) true).2
    (r.zip [0, 1]).map (fun pv => pv.1 pv.2) = [2, 36] := by decide

/-- The matrix instance: blocks of shape `|o| × |i|` over `ℚ`-like semirings satisfy the laws. -/
example (sz : Fin 3 → ℕ) : LawfulBlocks (MatBlocks sz Int) := inferInstance

end Examples

end GV.C09
