/-
C15 — property theorems: grammars stay well-formed under edits and validate exactly their definition.
Only the property theorems (and the few definitions needed to state them) live here; helper lemmas
are in `Lemmas/C15.lean` (dict/set bookkeeping), `Lemmas/C15Inv.lean` (every operation preserves the
invariant), `Lemmas/C15World.lean` (lifting to the world of grammar slots, frame lemma) and
`Lemmas/C15Dict.lean` (the association lists are dictionaries).
-/
import GemseoVerif.Lemmas.C15Dict

namespace GV.C15

def emptyWorld : World := [none, none, none, none]

/-- A grammar is reachable when some finite history of operations (edits and queries, on any of
    the slots, in any order) puts it in some slot of the initially empty world. -/
def Reachable (g : Grammar) : Prop := ∃ (ops : List Op) (i : Nat), (run emptyWorld ops).get i = some g

theorem reachable_Inv (g : Grammar) (h : Reachable g) : g.Inv := by
  obtain ⟨ops, i, hg⟩ := h
  exact run_Inv emptyWorld ops emptyInv i g hg

/-! ### Well-formedness under every history -/

/-- Every single operation (23 kinds, including failing ones) keeps every grammar of the world
    well formed. -/
theorem wf_step (w : World) (op : Op) (hw : w.Inv) : ∀ i g, (step w op).1.get i = some g → g.WF :=
  fun i g h => (step_Inv w op hw i g h).1

/-- **Well-formedness invariant**: after any finite sequence of operations the required names and
    the names having a default value are element names. -/
theorem wf_invariant (g : Grammar) (h : Reachable g) :
    (∀ r ∈ g.required, r ∈ g.keys) ∧ (∀ d ∈ akeys g.defaults, d ∈ g.keys) :=
  (reachable_Inv g h).1

/-- The association lists of the model are dictionaries / sets after any history: element names,
    names with a default and required names are pairwise distinct. -/
theorem dict_invariant (g : Grammar) (h : Reachable g) :
    (akeys g.elems).Nodup ∧ (akeys g.defaults).Nodup ∧ g.required.Nodup := by
  obtain ⟨ops, i, hg⟩ := h
  exact run_Dict emptyWorld ops emptyDict emptyInv i g hg

/-! ### The lazily built schema and validator are never stale -/

/-- **No stale validator, no stale schema**: after any history the compiled validator (resp. the
    cached schema dict) is either absent or was built from the *current* elements. -/
theorem validator_never_stale (g : Grammar) (h : Reachable g) :
    (g.validC = none ∨ g.validC = some g.elems) ∧ (g.schemaC = none ∨ g.schemaC = some g.elems) :=
  ⟨(reachable_Inv g h).2.2, (reachable_Inv g h).2.1⟩

/-- The `schema` property shows the current definition: the same as `to_json()`. -/
theorem schema_view_current (g : Grammar) (h : Reachable g) : g.schemaView = (toJson g).1 := by
  have hc := (reachable_Inv g h).2
  unfold toJson Grammar.snapNow Grammar.schemaView
  simp only [Snap.mk.injEq, and_true]
  exact schemaView_props_of_cacheOK g hc

/-- `to_json()` is a pure function of the definition: all the elements, exactly the required names. -/
theorem to_json_exact (g : Grammar) :
    (toJson g).2 = g ∧ (toJson g).1.props = g.elems ∧ ∀ n, n ∈ (toJson g).1.req ↔ n ∈ g.required :=
  ⟨rfl, rfl, fun n => mem_sortNames g.required n⟩

/-! ### Validation accepts exactly what the definition allows -/

/-- The acceptance rule of the property: every required name is present and every present value has
    a type allowed by the element of that name. -/
def Accepts (g : Grammar) (data : List (Name × Val)) : Prop :=
  (∀ r ∈ g.required, r ∈ akeys data) ∧
  (∀ p ∈ g.elems, ∀ v, alookup data p.1 = some v → hasType p.2 v = true)

/-- **validate_iff** for a grammar whose lazily built objects are not stale. -/
theorem validate_iff_of_cacheOK (g : Grammar) (data : List (Name × Val)) (hc : g.CacheOK) :
    (validate g data).1 = true ↔ Accepts g data := by
  unfold validate Accepts
  cases hreq : g.required.any (· ∉ akeys data) with
  | true =>
    simp only [if_true]
    constructor
    · intro h; cases h
    · intro h
      rw [List.any_eq_true] at hreq
      obtain ⟨r, hr, hnot⟩ := hreq
      simp only [decide_eq_true_eq] at hnot
      exact absurd (h.1 r hr) hnot
  | false =>
    simp only [Bool.false_eq_true, if_false]
    have hall : ∀ r ∈ g.required, r ∈ akeys data := by
      intro r hr
      by_cases hn : r ∈ akeys data
      · exact hn
      · have : g.required.any (· ∉ akeys data) = true :=
          List.any_eq_true.mpr ⟨r, hr, by simpa using hn⟩
        rw [hreq] at this
        cases this
    cases hk : g.kind with
    | simple =>
      simp only
      rw [validateAgainst_iff]
      exact ⟨fun h => ⟨hall, h⟩, fun h => h.2⟩
    | json =>
      simp only
      have hv : (g.ensureValidator.validC.getD g.ensureValidator.elems) = g.elems := by
        have hi := CacheOK_ensureValidator g hc
        have he : g.ensureValidator.elems = g.elems := congrArg Pub.elems (ensureValidator_pub g)
        rcases hi.2 with e | e
        · rw [e, he]; rfl
        · rw [e, he]; rfl
      rw [hv, validateAgainst_iff]
      exact ⟨fun h => ⟨hall, h⟩, fun h => h.2⟩

/-- **validate_iff**: after any history, `validate` accepts a data dictionary iff it contains every
    required name and every present value has a type allowed by the *current* definition. -/
theorem validate_iff (g : Grammar) (h : Reachable g) (data : List (Name × Val)) :
    (validate g data).1 = true ↔ Accepts g data :=
  validate_iff_of_cacheOK g data (reachable_Inv g h).2

/-- The verdict depends on the public definition only (never on what was cached, when, or on the
    schema builder's internals). -/
theorem verdict_depends_on_definition_only (g1 g2 : Grammar) (h1 : Reachable g1) (h2 : Reachable g2)
    (he : g1.elems = g2.elems) (hr : ∀ n, n ∈ g1.required ↔ n ∈ g2.required) (data : List (Name × Val)) :
    (validate g1 data).1 = (validate g2 data).1 := by
  have a1 := validate_iff g1 h1 data
  have a2 := validate_iff g2 h2 data
  have : Accepts g1 data ↔ Accepts g2 data := by
    unfold Accepts
    rw [he]
    constructor
    · intro h; exact ⟨fun r hr' => h.1 r ((hr r).mpr hr'), h.2⟩
    · intro h; exact ⟨fun r hr' => h.1 r ((hr r).mp hr'), h.2⟩
  cases hv1 : (validate g1 data).1 <;> cases hv2 : (validate g2 data).1 <;> simp_all

/-! ### Read-only queries are pure -/

/-- **queries_pure**: `validate`, `schema`, `to_json`, `to_simple_grammar`, `has_names`, ... leave the
    public definition of every grammar of the world unchanged (they may only build the lazily built
    objects, which `validator_never_stale` shows harmless). -/
theorem queries_pure (w : World) (op : Op) (hw : w.Inv) (hq : op.isQuery = true) (j : Nat) :
    ((step w op).1.get j).map Grammar.pub = (w.get j).map Grammar.pub :=
  step_frame w op hw j (by rw [query_targets op hq]; simp)

/-! ### Copies and unpickled grammars are independent -/

/-- **copy_independent**: after `d := s.copy()` (or `d := pickle round trip of s`), whatever history of
    operations is applied to other slots — in particular any edits of the copy — the original keeps its
    public definition; symmetrically editing the original never changes the copy. -/
theorem copy_independent (w : World) (hw : w.Inv) (s d : Nat) (ops : List Op)
    (hops : ∀ op ∈ ops, s ∉ op.targets) (hsd : s ≠ d) :
    ((run (step w (.copy s d)).1 ops).get s).map Grammar.pub = (w.get s).map Grammar.pub ∧
    ((run (step w (.pickle s d)).1 ops).get s).map Grammar.pub = (w.get s).map Grammar.pub := by
  constructor
  · rw [run_frame _ ops (step_Inv w _ hw) s hops]
    exact step_frame w (.copy s d) hw s (by simp [Op.targets, hsd])
  · rw [run_frame _ ops (step_Inv w _ hw) s hops]
    exact step_frame w (.pickle s d) hw s (by simp [Op.targets, hsd])

theorem copy_unaffected_by_other_slots (w : World) (hw : w.Inv) (s d : Nat) (ops : List Op)
    (hops : ∀ op ∈ ops, d ∉ op.targets) :
    ((run (step w (.copy s d)).1 ops).get d).map Grammar.pub = ((step w (.copy s d)).1.get d).map Grammar.pub :=
  run_frame _ ops (step_Inv w _ hw) d hops

/-- A copy has the elements, and exactly the required names, of the original. -/
theorem copy_same_definition (g : Grammar) (h : g.WF) :
    (copyOf g).elems = g.elems ∧ (copyOf g).kind = g.kind ∧ (∀ n, n ∈ (copyOf g).required ↔ n ∈ g.required) ∧
    (copyOf g).toNs = g.toNs ∧ (copyOf g).fromNs = g.fromNs := by
  obtain ⟨k, elems, required, defaults, toNs, fromNs, breq, schemaC, validC⟩ := g
  have hreq : ∀ n, n ∈ required → n ∈ akeys elems := h.1
  cases k with
  | simple =>
    refine ⟨rfl, rfl, fun n => ?_, rfl, rfl⟩
    show n ∈ (reqAddAll _ required).required ↔ n ∈ required
    rw [mem_reqAddAll]
    simp only [Grammar.fresh, List.not_mem_nil, false_or, Grammar.keys]
    exact ⟨fun hh => hh.1, fun hh => ⟨hh, hreq n hh⟩⟩
  | json =>
    refine ⟨rfl, rfl, fun n => ?_, rfl, rfl⟩
    show n ∈ (reqAddAll _ required).required ↔ n ∈ required
    rw [mem_reqAddAll]
    simp only [Grammar.fresh, List.not_mem_nil, false_or, Grammar.keys]
    exact ⟨fun hh => hh.1, fun hh => ⟨hh, hreq n hh⟩⟩

/-- **pickle_roundtrip_same_definition**: after any history, the unpickled grammar has the same
    elements (they are rebuilt from the cached schema dict, which is never stale), the same required
    names, the same namespace maps and defaults for the same names. -/
theorem pickle_roundtrip_same_definition (g : Grammar) (h : Reachable g) :
    (pickleOf g).1.elems = g.elems ∧ (pickleOf g).1.required = g.required ∧ (pickleOf g).1.kind = g.kind ∧
    (pickleOf g).1.toNs = g.toNs ∧ (pickleOf g).1.fromNs = g.fromNs ∧
    (∀ n, n ∈ akeys (pickleOf g).1.defaults ↔ n ∈ akeys g.defaults) := by
  have hi := reachable_Inv g h
  unfold pickleOf
  cases hk : g.kind with
  | simple => exact ⟨rfl, rfl, hk, rfl, rfl, fun _ => Iff.rfl⟩
  | json =>
    have h1 := Inv_fillSchema g hi
    have hp := schemaView_props_of_cacheOK g.fillSchema h1.2
    have he : g.fillSchema.elems = g.elems := congrArg Pub.elems (fillSchema_pub g)
    refine ⟨?_, rfl, rfl, rfl, rfl, fun n => ?_⟩
    · show g.fillSchema.schemaView.props = g.elems
      rw [hp, he]
    unfold setDefaultsChecked
    simp only
    rw [mem_defaults_foldl_checked_iff]
    · simp [Grammar.fresh, akeys]
    · intro p hp'
      simp only [Grammar.keys]
      rw [hp, he]
      exact hi.1.2 p.1 (List.mem_map.mpr ⟨p, hp', rfl⟩)

/-- After any history the unpickled grammar has *the same public definition* as the pickled one
    (same elements in the same order, same required names, same defaults, same namespace maps). -/
theorem pickle_roundtrip_same_pub (g : Grammar) (h : Reachable g) : (pickleOf g).1.pub = g.pub := by
  have hi := reachable_Inv g h
  have hd := dict_invariant g h
  have hp := pickle_roundtrip_same_definition g h
  have hdef : (pickleOf g).1.defaults = g.defaults := by
    unfold pickleOf
    cases hk : g.kind with
    | simple => rfl
    | json =>
      simp only
      have h1 := Inv_fillSchema g hi
      have hp' := schemaView_props_of_cacheOK g.fillSchema h1.2
      have he : g.fillSchema.elems = g.elems := congrArg Pub.elems (fillSchema_pub g)
      apply setDefaultsChecked_eq _ _ rfl hd.2.1
      intro p hp''
      show p.1 ∈ akeys g.fillSchema.schemaView.props
      rw [hp', he]
      exact hi.1.2 p.1 (List.mem_map.mpr ⟨p, hp'', rfl⟩)
  unfold Grammar.pub
  rw [hp.1, hp.2.1, hp.2.2.1, hp.2.2.2.1, hp.2.2.2.2.1, hdef]

/-- After any history a copy has the same public definition as the original. -/
theorem copy_same_pub (g : Grammar) (h : Reachable g) : (copyOf g).pub = g.pub := by
  have hi := reachable_Inv g h
  have hd := dict_invariant g h
  have hc := copy_same_definition g hi.1
  have hreq : (copyOf g).required = g.required := by
    unfold copyOf
    show (reqAddAll _ g.required).required = g.required
    apply reqAddAll_eq _ _ _ hd.2.2
    · intro n hn
      have := hi.1.1 n hn
      cases hk : g.kind <;> simpa [Grammar.keys, hk] using this
    · cases hk : g.kind <;> rfl
  have hdef : (copyOf g).defaults = g.defaults := by
    unfold copyOf
    apply setDefaultsChecked_eq _ _ _ hd.2.1
    · intro p hp
      have := hi.1.2 p.1 (List.mem_map.mpr ⟨p, hp, rfl⟩)
      cases hk : g.kind <;> simpa [Grammar.keys, reqAddAll, hk] using this
    · cases hk : g.kind <;> rfl
  unfold Grammar.pub
  rw [hc.1, hc.2.1, hc.2.2.2.1, hc.2.2.2.2, hreq, hdef]

/-! ### SimpleGrammar and JSONGrammar agree on the definitions both can express -/

/-- Values on which `isinstance(value, type)` and the JSON type the same declaration maps to
    (`__PYTHON_TO_JSON_TYPES`) mean the same. Outside: a `bool` for `int` (a Python `bool` is an `int`,
    a JSON boolean is not an integer), an `int` for `float` (a JSON number, not a Python `float`),
    real/complex mixes, and containers of another kind than declared (every sequence is a JSON array). -/
def compatible : PyT → Val → Bool
  | .any, _ => true
  | .mapping, _ | .nonetype, _ => false
  | .ndarray, .list _ | .ndarray, .tuple _ | .list, .nd _ | .list, .tuple _
  | .tuple, .nd _ | .tuple, .list _ => false
  | .ndarray, .leaf .arr | .list, .leaf .arr | .tuple, .leaf .arr => false
  | .int, .leaf .bool => false
  | .float, .leaf .int | .float, .cpx => false
  | .complex, .leaf .flt | .complex, .leaf .int => false
  | _, _ => true

/-- Element-wise agreement of the two type systems. -/
theorem type_agree (t : PyT) (n : Node) (v : Val) (hn : ofPy t = some n) (hc : compatible t v = true) :
    hasTypePy t v = hasTypeJS n v := by
  cases t <;> simp only [ofPy, Option.some.injEq, reduceCtorEq] at hn <;> subst hn <;>
    cases v <;> (try rename_i l; cases l) <;>
    simp_all [compatible, hasTypePy, hasTypeJS, Node.isAny, Node.any, arrHas]

/-- **simple_json_agree**: a `SimpleGrammar` and a `JSONGrammar` reached by any histories, holding
    the same declarations `name : Python type` (the JSON one through `__PYTHON_TO_JSON_TYPES`) and the
    same required names, give the same verdict on every data dictionary whose values are compatible
    with the declared types. -/
theorem simple_json_agree (gs gj : Grammar) (hs : Reachable gs) (hj : Reachable gj)
    (decl : List (Name × PyT)) (hex : ∀ p ∈ decl, (ofPy p.2).isSome)
    (hes : gs.elems = decl.map (fun p => (p.1, TS.py p.2)))
    (hej : gj.elems = decl.map (fun p => (p.1, TS.js ((ofPy p.2).getD Node.any))))
    (hreq : ∀ n, n ∈ gs.required ↔ n ∈ gj.required)
    (data : List (Name × Val))
    (hcomp : ∀ p ∈ decl, ∀ v, alookup data p.1 = some v → compatible p.2 v = true) :
    (validate gs data).1 = (validate gj data).1 := by
  have a1 := validate_iff gs hs data
  have a2 := validate_iff gj hj data
  have : Accepts gs data ↔ Accepts gj data := by
    unfold Accepts
    rw [hes, hej]
    constructor
    · intro h
      refine ⟨fun r hr => h.1 r ((hreq r).mpr hr), fun q hq v hv => ?_⟩
      obtain ⟨p, hp, rfl⟩ := List.mem_map.mp hq
      have h1 := h.2 (p.1, TS.py p.2) (List.mem_map.mpr ⟨p, hp, rfl⟩) v hv
      obtain ⟨n, hn⟩ := Option.isSome_iff_exists.mp (hex p hp)
      simp only [hn, Option.getD_some, hasType] at h1 ⊢
      rw [← type_agree p.2 n v hn (hcomp p hp v hv)]
      exact h1
    · intro h
      refine ⟨fun r hr => h.1 r ((hreq r).mp hr), fun q hq v hv => ?_⟩
      obtain ⟨p, hp, rfl⟩ := List.mem_map.mp hq
      have h1 := h.2 (p.1, TS.js ((ofPy p.2).getD Node.any)) (List.mem_map.mpr ⟨p, hp, rfl⟩) v hv
      obtain ⟨n, hn⟩ := Option.isSome_iff_exists.mp (hex p hp)
      simp only [hn, Option.getD_some, hasType] at h1 ⊢
      rw [type_agree p.2 n v hn (hcomp p hp v hv)]
      exact h1
  cases hv1 : (validate gs data).1 <;> cases hv2 : (validate gj data).1 <;> simp_all

/-! ### A failing operation changes nothing -/

/-- When an operation answers an error (`KeyError`, `ValueError`, `TypeError`, `AttributeError`) no
    grammar changed — but for the three operations that Python defines item by item
    (`defaults.update(...)`, `required_names |= ...`), which keep the items applied before the failing
    one; those still preserve every invariant above (they are ordinary cases of `wf_step`). -/
theorem step_error_unchanged (w : World) (op : Op) (e : Err) (hp : op.partialOnError = false)
    (h : (step w op).2 = .err e) : (step w op).1 = w := by
  cases op <;> simp only [Op.partialOnError, Bool.true_eq_false] at hp <;>
    simp only [step] at h ⊢ <;> (repeat' split at h) <;>
    first
    | rfl
    | (cases h <;> rfl)
    | (exact liftE_err _ _ _ e h)
    | (simp_all)

/-! ### Non-vacuity: the hypotheses above are satisfied by non-trivial states -/

/-- A history with edits of every family, a validation (which builds the validator), a copy edited
    afterwards, a pickle round trip and a second grammar class. -/
def demoOps : List Op :=
  [.new 0 .json, .names 0 ["x", "y"] false, .types 0 [("a", .int)] false, .setdef 0 "a" "3",
   .reqdisc 0 "a", .val 0 [("x", .nd [.flt]), ("y", .nd [])], .copy 0 1, .rename 1 "x" "z",
   .addns 1 "y" "n", .pickle 1 2, .new 3 .simple, .types 3 [("a", .int), ("b", .ndarray)] false]

def demoG : Grammar := ((run emptyWorld demoOps).get 0).getD (Grammar.fresh .json)

/-- `Reachable` holds for a grammar with elements, required names, a default and a built validator. -/
example : Reachable demoG := ⟨demoOps, 0, by decide⟩
example : demoG.required = ["x", "y"] ∧ demoG.defaults = [("a", "3")] ∧ demoG.validC = some demoG.elems ∧
    demoG.elems.length = 3 := by decide
/-- `wf_invariant` / `validator_never_stale` apply to it (and their conclusions are not trivially true:
    the validator exists). -/
example : demoG.validC ≠ none := by decide
/-- Both sides of `validate_iff` occur: accepted data, a missing required name, a wrong type. -/
example : (validate demoG [("x", .nd [.flt]), ("y", .nd [])]).1 = true := by decide
example : (validate demoG [("x", .nd [.flt])]).1 = false := by decide
example : (validate demoG [("x", .leaf .str), ("y", .nd [])]).1 = false := by decide
example : (validate demoG [("x", .nd [.flt]), ("y", .nd []), ("a", .leaf .flt)]).1 = false := by decide
/-- `queries_pure`: its hypotheses hold for the world reached by the history and a validation query. -/
example : (run emptyWorld demoOps).Inv ∧ (Op.val 0 [("x", .nd [.flt])]).isQuery = true :=
  ⟨run_Inv emptyWorld demoOps emptyInv, rfl⟩
/-- `copy_independent`: the copy in slot 1 was renamed/namespaced after the copy, the original kept its
    names; the unpickled slot 2 equals the edited copy. -/
example : ((run emptyWorld demoOps).get 1).map (·.keys) = some ["a", "z", "n:y"] ∧
    ((run emptyWorld demoOps).get 0).map (·.keys) = some ["x", "y", "a"] ∧
    ((run emptyWorld demoOps).get 2).map Grammar.pub = ((run emptyWorld demoOps).get 1).map Grammar.pub := by
  decide
example : ∀ op ∈ [Op.del 1 "y", Op.reqdisc 1 "x", Op.clear 1], 0 ∉ op.targets := by decide
/-- `copy_same_pub` / `pickle_roundtrip_same_pub` / `dict_invariant` on the non-trivial reachable grammar
    (3 elements, 2 required names, a default, validator built). -/
example : (copyOf demoG).pub = demoG.pub ∧ (pickleOf demoG).1.pub = demoG.pub ∧
    (pickleOf demoG).1.validC = none ∧ (copyOf demoG).validC = demoG.validC := by decide
/-- `simple_json_agree`: a simple and a JSON grammar with the same declarations exist and compatible
    data exist (and incompatible ones are really excluded: `True` is an `int` but not an `integer`). -/
def demoPair : World := run emptyWorld
  [.new 0 .simple, .types 0 [("a", .int), ("b", .ndarray)] false,
   .new 1 .json, .types 1 [("a", .int), ("b", .ndarray)] false]
example : (demoPair.get 0).map (·.elems) = some ([("a", PyT.int), ("b", PyT.ndarray)].map (fun p => (p.1, TS.py p.2))) ∧
    (demoPair.get 1).map (·.elems) =
      some ([("a", PyT.int), ("b", PyT.ndarray)].map (fun p => (p.1, TS.js ((ofPy p.2).getD Node.any)))) := by decide
example : compatible .int (.leaf .int) = true ∧ compatible .ndarray (.nd [.flt]) = true ∧
    compatible .int (.leaf .bool) = false := by decide
example : hasTypePy .int (.leaf .bool) = true ∧ hasTypeJS { Node.any with num := .int } (.leaf .bool) = false := by
  decide
/-- The item-by-item operations: `defaults.update({"a": 1, "q": 2, "x": 3})` sets `a`, raises on `q`,
    never reaches `x` — and the grammar stays well formed. -/
example : (step (run emptyWorld demoOps) (.defupd 0 [("a", "1"), ("q", "2"), ("x", "3")])).2 = .err .key ∧
    ((step (run emptyWorld demoOps) (.defupd 0 [("a", "1"), ("q", "2"), ("x", "3")])).1.get 0).map (·.defaults)
      = some [("a", "1")] := by decide
/-- Restoring a snapshot of the defaults after the element was deleted is rejected and changes nothing
    (the class of the seeded mutant `defaults-update-bypasses-membership`). -/
example : (step (run emptyWorld (demoOps ++ [.del 0 "a"])) (.defassignfrom 0 1)).2 = .err .key ∧
    ((step (run emptyWorld (demoOps ++ [.del 0 "a"])) (.defupdfrom 0 1)).1.get 0).map (·.defaults) = some [] := by
  decide
/-- `step_error_unchanged`: errors do occur. -/
example : (step (run emptyWorld demoOps) (.del 0 "q")).2 = .err .key := by decide
example : (step (run emptyWorld demoOps) (.names 3 ["c"] true)).2 = .err .value := by decide
example : (step (run emptyWorld demoOps) (.upd 0 3 [] false)).2 = .err .type := by decide

end GV.C15
