/-
C20 — property theorems: serialized objects behave like the originals (partial: protocol and
attribute bookkeeping; the per-class semantic equivalence of re-created attributes is validated
differentially by `harness/c20.py`, not proved).

Model: `Model/C20.lean` (`Serializable.__getstate__/__setstate__`, class table rows, `JSONGrammar`
state, `HDF5Cache` re-attachment).  Helper lemmas: `Lemmas/C20.lean`.
`Gen/C20Table.lean` is REGENERATED from the sources of the imported gemseo on every run of `./check C20`;
`table_ok`/`custom_table_ok` below are therefore re-checked against the current code each time: a class
that excludes an attribute without re-creating it, holds a lock it does not exclude, holds a
`multiprocessing.Value` no hook re-creates, or overrides `_ATTR_NOT_TO_SERIALIZE` without inheriting the
parents' exclusions breaks the build.

All theorems quantify over every object (any number of attributes, any values), every class
specification (any exclusion set, any hooks), every shared-memory heap.  An object is a Python `__dict__`;
where a theorem needs it, `(keys o).Nodup` states that a dict has unique keys.
-/
import GemseoVerif.Lemmas.C20
import GemseoVerif.Lemmas.C20Life
import GemseoVerif.Lemmas.C20Analytic
import GemseoVerif.Lemmas.C20Reload
import GemseoVerif.Gen.C20Table

namespace GV.C20

/-! ### 1. What `setstate ∘ getstate` restores -/

/-- **roundtrip_values.**  Every attribute holding a plain value or a path that is not excluded and that no
    hook / custom `__setstate__` re-assigns is restored with an equal value. -/
theorem roundtrip_values (s : Spec) (o : Obj) (h : Heap) (a : String) (v : Val)
    (hv : get o a = some v) (hkind : (∃ x, v = .plain x) ∨ (∃ p, v = .path p))
    (hex : a ∉ s.excluded) (hb : a ∉ keys s.before) (haf : a ∉ keys s.after) (hp : a ∉ keys s.post) :
    get (restore s o h).1 a = some v := by
  unfold restore setstate
  rw [get_runHook_of_not_mem _ _ _ hp, get_runHook_of_not_mem _ _ _ haf, get_foldl_stepItem,
    get_runHook_of_not_mem _ _ _ hb, get_getstate, hv]
  rcases hkind with ⟨x, rfl⟩ | ⟨p, rfl⟩ <;> simp [get, hex, toS, fromS]

example : get (restore ⟨["lock"], [("n", .mkSync 0)], [("lock", .mkLock)], []⟩
    [("x", .plain 3), ("lock", .lock), ("n", .sync 0), ("d", .path "a/b")] [7]).1 "d" = some (.path "a/b") := by
  decide +kernel

/-- What happens to a `Value` that no hook re-creates: it comes back as a plain number (this is why
    `Row.ok` demands that every `Value` attribute is re-created by a hook). -/
theorem sync_not_recreated_degrades (s : Spec) (o : Obj) (h : Heap) (a : String) (c : Nat)
    (hv : get o a = some (.sync c))
    (hex : a ∉ s.excluded) (hb : a ∉ keys s.before) (haf : a ∉ keys s.after) (hp : a ∉ keys s.post) :
    get (restore s o h).1 a = some (.plain (h.getD c 0)) := by
  unfold restore setstate
  rw [get_runHook_of_not_mem _ _ _ hp, get_runHook_of_not_mem _ _ _ haf, get_foldl_stepItem,
    get_runHook_of_not_mem _ _ _ hb, get_getstate, hv]
  simp [get, hex, toS, fromS]

example : get (restore ⟨[], [], [], []⟩ [("n", .sync 0)] [7]).1 "n" = some (.plain 7) := by decide +kernel

/-- **sync_restored_by_value_in_fresh_cell.**  A `multiprocessing.Value` attribute that
    `_init_shared_memory_attrs_before` re-creates (and nothing re-assigns later) is restored as a `Value`
    living in a cell allocated *after* the original's cells and holding the original's value. -/
theorem sync_restored_by_value_in_fresh_cell (s : Spec) (o : Obj) (h : Heap) (a : String) (c : Nat)
    (hn : (keys o).Nodup) (hv : get o a = some (.sync c)) (hex : a ∉ s.excluded)
    (hb : a ∈ keys s.before) (hbs : ∀ ki ∈ s.before, ki.1 = a → ∃ v0, ki.2 = .mkSync v0)
    (haf : a ∉ keys s.after) (hp : a ∉ keys s.post) :
    ∃ c', h.length ≤ c' ∧ get (restore s o h).1 a = some (.sync c') ∧
      (restore s o h).2.getD c' 0 = h.getD c 0 := by
  -- after the `before` hook
  have hi0 : Inv h (runHook s.before ([], h)) := (Inv.init h).of_runHook s.before
  obtain ⟨c', hc'⟩ := get_runHook_sync s.before ([], h) a hbs (Or.inl hb)
  have hfresh := hi0.fresh a c' hc'
  -- the loop over the state
  have hst : get (getstate s o h) a = some (.num (h.getD c 0)) := by
    rw [get_getstate, hv]; simp [hex, toS]
  have hi1 := hi0.of_foldl (getstate s o h)
  have hg1 : get ((getstate s o h).foldl stepItem (runHook s.before ([], h))).1 a = some (.sync c') := by
    rw [get_foldl_stepItem, hc']
  have hcell := getD_foldl_carried (getstate s o h) hi0 a c' (h.getD c 0) hc'
    (nodup_keys_getstate s o h hn) hst
  have hlt1 := (hi1.fresh a c' hg1).2
  refine ⟨c', hfresh.1, ?_, ?_⟩
  · unfold restore setstate
    rw [get_runHook_of_not_mem _ _ _ hp, get_runHook_of_not_mem _ _ _ haf]; exact hg1
  · unfold restore setstate
    rw [getD_runHook, getD_runHook _ _ _ hlt1]
    · exact hcell
    · exact Nat.lt_of_lt_of_le hlt1 (length_runHook_le _ _)

example : ∃ c', 2 ≤ c' ∧
    get (restore ⟨[], [("n", .mkSync 0)], [], []⟩ [("x", .plain 3), ("n", .sync 1)] [5, 7]).1 "n" = some (.sync c') ∧
    (restore ⟨[], [("n", .mkSync 0)], [], []⟩ [("x", .plain 3), ("n", .sync 1)] [5, 7]).2.getD c' 0 = 7 :=
  ⟨2, by decide +kernel⟩

/-- **no_shared_sync_state (1).**  Whatever the class and the object, every shared-memory cell the
    restored object refers to was allocated after the original's cells: the copy never holds a `Value`
    of the original. -/
theorem restored_cells_fresh (s : Spec) (o : Obj) (h : Heap) (a : String) (c : Nat)
    (hc : get (restore s o h).1 a = some (.sync c)) :
    h.length ≤ c ∧ c < (restore s o h).2.length :=
  (restore_inv s o h).fresh a c hc

/-- **no_shared_sync_state (2).**  Restoring leaves every cell of the original with its value. -/
theorem no_shared_sync_state (s : Spec) (o : Obj) (h : Heap) :
    (restore s o h).2.take h.length = h :=
  (restore_inv s o h).pre

/-- **no_shared_sync_state (3).**  Two attributes of the restored object never share a cell. -/
theorem restored_cells_distinct (s : Spec) (o : Obj) (h : Heap) (a b : String) (c : Nat)
    (ha : get (restore s o h).1 a = some (.sync c)) (hb : get (restore s o h).1 b = some (.sync c)) :
    a = b :=
  (restore_inv s o h).inj a b c ha hb

example : (restore ⟨[], [("n", .mkSync 0), ("m", .mkSync 1)], [], []⟩ [("n", .sync 0), ("m", .sync 0)] [5]).2
    = [5, 5, 5] := by decide +kernel

/-- The attribute names of the restored object: the non-excluded ones of the original and whatever the
    hooks and the custom `__setstate__` assign. -/
theorem mem_keys_restore (s : Spec) (o : Obj) (h : Heap) (a : String) :
    a ∈ keys (restore s o h).1 ↔
      (a ∈ keys o ∧ a ∉ s.excluded) ∨ a ∈ keys s.before ∨ a ∈ keys s.after ∨ a ∈ keys s.post := by
  unfold restore setstate
  rw [mem_keys_runHook, mem_keys_runHook]
  have hfold : a ∈ keys ((getstate s o h).foldl stepItem (runHook s.before ([], h))).1 ↔
      a ∈ keys s.before ∨ (a ∈ keys o ∧ a ∉ s.excluded) := by
    rw [mem_keys_iff_get]
    constructor
    · rintro ⟨v, hv⟩
      rw [get_foldl_stepItem] at hv
      cases hg : get (runHook s.before ([], h)).1 a with
      | some w =>
        left
        have := (mem_keys_runHook s.before ([], h) a).1 ((mem_keys_iff_get _ _).2 ⟨w, hg⟩)
        simpa [keys] using this
      | none =>
        right
        rw [hg] at hv
        simp only [get_getstate] at hv
        by_cases he : a ∈ s.excluded
        · simp [he] at hv
        · cases ho : get o a with
          | none => simp [ho, he] at hv
          | some w => exact ⟨(mem_keys_iff_get _ _).2 ⟨w, ho⟩, he⟩
    · rintro (hb | ⟨ho, he⟩)
      · obtain ⟨w, hw⟩ := (mem_keys_iff_get _ _).1
          ((mem_keys_runHook s.before ([], h) a).2 (Or.inl hb))
        exact ⟨w, by rw [get_foldl_stepItem, hw]⟩
      · obtain ⟨w, hw⟩ := (mem_keys_iff_get _ _).1 ho
        cases hg : get (runHook s.before ([], h)).1 a with
        | some u => exact ⟨u, by rw [get_foldl_stepItem, hg]⟩
        | none => exact ⟨fromS (toS h w), by rw [get_foldl_stepItem, hg, get_getstate, hw]; simp [he]⟩
  rw [hfold]
  constructor
  · rintro (hp | ha | hb | ho)
    · exact Or.inr (Or.inr (Or.inr hp))
    · exact Or.inr (Or.inr (Or.inl ha))
    · exact Or.inr (Or.inl hb)
    · exact Or.inl ho
  · rintro (ho | hb | ha | hp)
    · exact Or.inr (Or.inr (Or.inr ho))
    · exact Or.inr (Or.inr (Or.inl hb))
    · exact Or.inr (Or.inl ha)
    · exact Or.inl hp

/-- pickle accepts the state exactly when every unpicklable member is excluded. -/
theorem picklable_iff (s : Spec) (o : Obj) (h : Heap) :
    picklable (getstate s o h) = true ↔ ∀ kv ∈ o, kv.2 = .lock → kv.1 ∈ s.excluded := by
  unfold picklable getstate
  simp only [List.all_eq_true, List.mem_map, List.mem_filter]
  constructor
  · intro hall kv hkv hl
    by_cases he : kv.1 ∈ s.excluded
    · exact he
    · have := hall (kv.1, toS h kv.2) ⟨kv, ⟨hkv, by simpa using he⟩, rfl⟩
      rw [hl] at this; simp [toS] at this
  · rintro hall st ⟨kv, ⟨hkv, hne⟩, rfl⟩
    cases hv : kv.2 with
    | lock => have := hall kv hkv hv; simp [this] at hne
    | plain x => simp [toS]
    | sync c => simp [toS]
    | path p => simp [toS]

/-! ### 2. The class table (translator-fed proof obligation) and its lifting -/

/-- **table_ok.**  Every class of the imported gemseo deriving from `Serializable` satisfies `Row.ok`:
    it keeps the base protocol, re-creates (hook or custom `__setstate__`) every excluded attribute it can
    have, re-creates every `Value` in a hook, excludes every lock, and inherits the exclusions of its
    parents.  Checked by kernel evaluation over the regenerated table. -/
theorem table_ok : Gen.table.all Row.ok = true := by decide +kernel

/-- **custom_table_ok.**  Every class with its own `__getstate__/__setstate__` pair re-creates in
    `__setstate__` each key its `__getstate__` removes from the state. -/
theorem custom_table_ok : Gen.customTable.all CustomRow.ok = true := by decide +kernel

example : Gen.table.length > 50 ∧ (Gen.table.filter (fun r => !r.excluded.isEmpty)).length > 10 := by
  decide +kernel

example : (Gen.customTable.filter (fun r => !r.dropped.isEmpty)).length ≥ 1 := by decide +kernel

/-- A row that breaks each clause of the obligation is rejected (the obligation is not vacuous). -/
example : Row.ok ⟨"X", true, ["m"], ["m"], [], [], [], ["m"], [], []⟩ = false ∧      -- excluded, never re-created
    Row.ok ⟨"X", true, [], [], [], ["l"], [], ["l"], [], ["l"]⟩ = false ∧               -- lock not excluded
    Row.ok ⟨"X", true, [], [], [], [], [], ["n"], ["n"], []⟩ = false ∧                  -- Value not re-created
    Row.ok ⟨"X", true, ["a"], ["a", "b"], ["a"], [], [], ["a", "b"], [], []⟩ = false ∧  -- exclusion not inherited
    Row.ok ⟨"X", true, ["l"], ["l"], [], ["l"], [], ["l", "n"], ["n"], ["l"]⟩ = false ∧
    Row.ok ⟨"X", true, ["l"], ["l"], ["n"], ["l"], [], ["l", "n"], ["n"], ["l"]⟩ = true := by
  decide +kernel

theorem row_ok_of_mem (r : Row) (hr : r ∈ Gen.table) : r.ok = true :=
  List.all_eq_true.1 table_ok r hr

theorem keys_toSpec_before (r : Row) (v0 : String → Rat) : keys (r.toSpec v0).before = r.before := by
  simp [Row.toSpec, keys, List.map_map, Function.comp_def]

theorem keys_toSpec_after (r : Row) (v0 : String → Rat) : keys (r.toSpec v0).after = r.after := by
  simp [Row.toSpec, keys, List.map_map, Function.comp_def]

theorem keys_toSpec_post (r : Row) (v0 : String → Rat) : keys (r.toSpec v0).post = r.post := by
  simp [Row.toSpec, keys, List.map_map, Function.comp_def]

/-- **roundtrip_total / excluded_rebuilt.**  For a class whose row is ok, whatever the hooks compute
    (`v0`), an object whose attributes are attributes of the class and that has the attributes its hooks
    re-create is restored with exactly the same set of attribute names: nothing is lost, nothing is added. -/
theorem roundtrip_total (r : Row) (hok : r.ok = true) (v0 : String → Rat) (o : Obj) (h : Heap)
    (hattrs : ∀ a ∈ keys o, a ∈ r.attrs)
    (hhooks : ∀ a, a ∈ r.before ∨ a ∈ r.after ∨ a ∈ r.post → a ∈ keys o) (a : String) :
    a ∈ keys (restore (r.toSpec v0) o h).1 ↔ a ∈ keys o := by
  rw [mem_keys_restore, keys_toSpec_before, keys_toSpec_after, keys_toSpec_post]
  have hex : ∀ a ∈ r.excluded, a ∈ r.attrs → a ∈ r.before ∨ a ∈ r.after ∨ a ∈ r.post := by
    intro a ha hat
    simp only [Row.ok, Bool.and_eq_true, List.all_eq_true] at hok
    have := hok.1.1.1.2 a ha
    simp only [Bool.or_eq_true, Bool.not_eq_true', List.contains_eq_mem, decide_eq_true_eq,
      decide_eq_false_iff_not] at this
    rcases this with ((hn | hb) | haf) | hp
    · exact absurd hat hn
    · exact Or.inl hb
    · exact Or.inr (Or.inl haf)
    · exact Or.inr (Or.inr hp)
  constructor
  · rintro (⟨ho, _⟩ | hb | haf | hp)
    · exact ho
    · exact hhooks a (Or.inl hb)
    · exact hhooks a (Or.inr (Or.inl haf))
    · exact hhooks a (Or.inr (Or.inr hp))
  · intro ho
    by_cases he : a ∈ r.excluded
    · exact Or.inr (hex a he (hattrs a ho))
    · exact Or.inl ⟨ho, he⟩

/-- `roundtrip_total` for every class of the generated table. -/
theorem table_roundtrip_total (r : Row) (hr : r ∈ Gen.table) (v0 : String → Rat) (o : Obj) (h : Heap)
    (hattrs : ∀ a ∈ keys o, a ∈ r.attrs)
    (hhooks : ∀ a, a ∈ r.before ∨ a ∈ r.after ∨ a ∈ r.post → a ∈ keys o) (a : String) :
    a ∈ keys (restore (r.toSpec v0) o h).1 ↔ a ∈ keys o :=
  roundtrip_total r (row_ok_of_mem r hr) v0 o h hattrs hhooks a

example : ∃ r ∈ Gen.table, r.name = "gemseo.core.execution_status.ExecutionStatus" ∧
    r.excluded = ["_ExecutionStatus__observers"] ∧ r.before = ["_ExecutionStatus__observers"] := by
  decide +kernel

/-- **picklable_of_ok.**  An object of a class whose row is ok, whose unpicklable members are among the
    locks the class declares, can be pickled. -/
theorem picklable_of_ok (r : Row) (hok : r.ok = true) (v0 : String → Rat) (o : Obj) (h : Heap)
    (hlocks : ∀ kv ∈ o, kv.2 = .lock → kv.1 ∈ r.locks) :
    picklable (getstate (r.toSpec v0) o h) = true := by
  rw [picklable_iff]
  intro kv hkv hl
  simp only [Row.ok, Bool.and_eq_true, List.all_eq_true] at hok
  have := hok.1.2 kv.1 (hlocks kv hkv hl)
  simpa [Row.toSpec] using this

theorem table_picklable (r : Row) (hr : r ∈ Gen.table) (v0 : String → Rat) (o : Obj) (h : Heap)
    (hlocks : ∀ kv ∈ o, kv.2 = .lock → kv.1 ∈ r.locks) :
    picklable (getstate (r.toSpec v0) o h) = true :=
  picklable_of_ok r (row_ok_of_mem r hr) v0 o h hlocks

example : ∃ r ∈ Gen.table, r.name = "gemseo.utils.directory_creator.DirectoryCreator" ∧
    r.locks = ["_DirectoryCreator__lock"] ∧
    picklable (getstate (r.toSpec (fun _ => 0))
      [("_DirectoryCreator__lock", .lock), ("_DirectoryCreator__counter", .sync 0)] [3]) = true := by
  decide +kernel

/-- For a class whose row is ok, a `Value` attribute is always restored as a `Value` in a fresh cell
    (never degraded to a plain number, never the original's cell) ... -/
theorem row_sync_fresh (r : Row) (hok : r.ok = true) (v0 : String → Rat) (o : Obj) (h : Heap) (a : String)
    (ha : a ∈ r.sync) :
    ∃ c', h.length ≤ c' ∧ get (restore (r.toSpec v0) o h).1 a = some (.sync c') := by
  have hinit : r.initOf v0 a = .mkSync (v0 a) := by
    simp [Row.initOf, ha]
  have hall : ∀ (l : List String), ∀ ki ∈ l.map (fun a => (a, r.initOf v0 a)), ki.1 = a →
      ∃ x, ki.2 = .mkSync x := by
    intro l ki hki hka
    obtain ⟨b, _, rfl⟩ := List.mem_map.1 hki
    simp only at hka; subst hka
    exact ⟨_, hinit⟩
  have hmem : a ∈ r.before ∨ a ∈ r.after := by
    simp only [Row.ok, Bool.and_eq_true, List.all_eq_true] at hok
    have := hok.1.1.2 a ha
    simpa using this
  have hsync : ∃ c', get (restore (r.toSpec v0) o h).1 a = some (.sync c') := by
    unfold restore setstate
    apply get_runHook_sync _ _ _ (hall r.post)
    by_cases hp : a ∈ keys (r.toSpec v0).post
    · exact Or.inl hp
    · right
      apply get_runHook_sync _ _ _ (hall r.after)
      by_cases haf : a ∈ keys (r.toSpec v0).after
      · exact Or.inl haf
      · right
        have hb : a ∈ keys (r.toSpec v0).before := by
          rw [keys_toSpec_after] at haf
          rw [keys_toSpec_before]
          exact hmem.resolve_right haf
        obtain ⟨c0, hc0⟩ := get_runHook_sync (r.toSpec v0).before ([], h) a (hall r.before) (Or.inl hb)
        exact ⟨c0, by rw [get_foldl_stepItem, hc0]⟩
  obtain ⟨c', hc'⟩ := hsync
  exact ⟨c', (restored_cells_fresh _ o h a c' hc').1, hc'⟩

/-- ... and, when it is re-created by `_init_shared_memory_attrs_before` only, it carries the original's
    value (counters/statistics carry over as values). -/
theorem row_sync_carried (r : Row) (v0 : String → Rat) (o : Obj) (h : Heap) (a : String) (c : Nat)
    (ha : a ∈ r.sync) (hb : a ∈ r.before) (haf : a ∉ r.after) (hp : a ∉ r.post) (hex : a ∉ r.excluded)
    (hn : (keys o).Nodup) (hv : get o a = some (.sync c)) :
    ∃ c', h.length ≤ c' ∧ get (restore (r.toSpec v0) o h).1 a = some (.sync c') ∧
      (restore (r.toSpec v0) o h).2.getD c' 0 = h.getD c 0 := by
  apply sync_restored_by_value_in_fresh_cell (r.toSpec v0) o h a c hn hv
  · simpa [Row.toSpec] using hex
  · rw [keys_toSpec_before]; exact hb
  · intro ki hki hka
    obtain ⟨b, _, rfl⟩ := List.mem_map.1 hki
    simp only at hka; subst hka
    exact ⟨v0 b, by simp [Row.initOf, ha]⟩
  · rw [keys_toSpec_after]; exact haf
  · rw [keys_toSpec_post]; exact hp

theorem table_sync_fresh (r : Row) (hr : r ∈ Gen.table) (v0 : String → Rat) (o : Obj) (h : Heap) (a : String)
    (ha : a ∈ r.sync) :
    ∃ c', h.length ≤ c' ∧ get (restore (r.toSpec v0) o h).1 a = some (.sync c') :=
  row_sync_fresh r (row_ok_of_mem r hr) v0 o h a ha

example : ∃ r ∈ Gen.table, r.name = "gemseo.core.execution_statistics.ExecutionStatistics" ∧
    "_ExecutionStatistics__n_executions" ∈ r.sync ∧ "_ExecutionStatistics__n_executions" ∈ r.before ∧
    "_ExecutionStatistics__n_executions" ∉ r.after ∧ "_ExecutionStatistics__n_executions" ∉ r.post ∧
    "_ExecutionStatistics__n_executions" ∉ r.excluded ∧
    (restore (r.toSpec (fun _ => 0)) [("_ExecutionStatistics__n_executions", .sync 0)] [4]).2 = [4, 0, 4, 0] := by
  decide +kernel

/-- Lifting of `custom_table_ok`: in every class with a custom protocol, each dropped key is re-created. -/
theorem custom_dropped_recreated (r : CustomRow) (hr : r ∈ Gen.customTable) (a : String) (ha : a ∈ r.dropped) :
    a ∈ r.recreated := by
  have := List.all_eq_true.1 custom_table_ok r hr
  simp only [CustomRow.ok, List.all_eq_true] at this
  simpa using this a ha

/-! ### 3. `JSONGrammar` state -/

/-- **grammar_state_roundtrip.**  A grammar whose defaults are bound to it (unique keys that are names of
    the grammar — the invariant of `Defaults`) is restored identically from its state: same properties,
    required names, defaults (values and order) and namespaces. -/
theorem grammar_state_roundtrip (g : Grammar) (hn : (keys g.defaults).Nodup)
    (hk : ∀ k ∈ keys g.defaults, k ∈ keys g.props) :
    Grammar.setstate g.getstate = some g := by
  unfold Grammar.setstate Grammar.getstate
  simp only []
  rw [defaultsUpdate_append g.props [] g.defaults (by simpa using hn) hk]
  simp

/-- Conversely a default value for a name the schema does not have makes the restore raise `KeyError`. -/
theorem grammar_state_keyerror (g : Grammar) (hk : ∃ k ∈ keys g.defaults, k ∉ keys g.props) :
    Grammar.setstate g.getstate = none := by
  unfold Grammar.setstate Grammar.getstate
  simp only []
  rw [defaultsUpdate_none g.props [] g.defaults hk]
  rfl

example : Grammar.setstate (Grammar.getstate ⟨[("a", 0), ("b", 2)], ["a"], [("b", 3)], [("a", "ns")]⟩)
    = some ⟨[("a", 0), ("b", 2)], ["a"], [("b", 3)], [("a", "ns")]⟩ := by decide +kernel

example : Grammar.setstate (Grammar.getstate ⟨[("a", 0)], [], [("z", 1)], []⟩) = none := by decide +kernel

/-! ### 4. `HDF5Cache` re-attachment -/

/-- **hdf5_cache_stays_attached.**  The restored cache has the original's tolerance, file, node and name,
    and reads the entries of that file and node — whatever the disk holds at that time, including ... -/
theorem hdf5_cache_stays_attached (d : Disk) (c : HCache) :
    (HCache.setstate d c.getstate).tol = c.tol ∧ (HCache.setstate d c.getstate).path = c.path ∧
    (HCache.setstate d c.getstate).node = c.node ∧ (HCache.setstate d c.getstate).name = c.name ∧
    (HCache.setstate d c.getstate).read d = c.read d := by
  simp [HCache.setstate, HCache.attach, HCache.getstate, HCache.read]

/-- ... the entries the original writes *after* it has been pickled (the state was taken on disk `d`, the
    copy is restored on the disk `d'` reached by a later write of the original) ... -/
theorem hdf5_restored_sees_later_writes (d : Disk) (c : HCache) (e : Entry) :
    (HCache.setstate (c.write d e).1 c.getstate).read (c.write d e).1 = c.read d ++ [e] := by
  have := entries_write d c e
  simpa [HCache.setstate, HCache.attach, HCache.getstate, HCache.read] using this

/-- ... and what the restored cache writes is seen by the original. -/
theorem hdf5_original_sees_restored_writes (d : Disk) (c : HCache) (e : Entry) :
    c.read ((HCache.setstate d c.getstate).write d e).1 = c.read d ++ [e] := by
  have := entries_write d (HCache.setstate d c.getstate) e
  simpa [HCache.setstate, HCache.attach, HCache.getstate, HCache.read] using this

/-- The state carries no entry and no index: it does not depend on what the cache has read or written, and
    the index of the restored cache is re-read from the file. -/
theorem hdf5_state_has_no_entries (d : Disk) (c : HCache) (idx : List Rat) :
    ({ c with index := idx }).getstate = c.getstate ∧
    (HCache.setstate d c.getstate).index = (d.entries c.path c.node).map Entry.input := by
  simp [HCache.setstate, HCache.attach, HCache.getstate]

example :
    let d : Disk := [("f", [("n", [⟨1, 2⟩])])]
    let c : HCache := HCache.attach d ⟨0, "f", "n", "nm"⟩
    (HCache.setstate (c.write d ⟨5, 6⟩).1 c.getstate).read (c.write d ⟨5, 6⟩).1 = [⟨1, 2⟩, ⟨5, 6⟩] ∧
    (HCache.setstate (c.write d ⟨5, 6⟩).1 c.getstate).index = [1, 5] := by
  decide +kernel

/-! ### 5. A `JSONGrammar` pickled at any moment of its life

`JG` (Model/C20.lean) is the grammar with what it builds lazily: the schema dict `__schema` (with the
`required` entry it was last given), the compiled validator, the schema builder's own `required`.  A *life*
is any list of operations from a fresh grammar: element edits (which reset the lazily built objects),
edits of the required names and of the defaults (which do not), reads of `schema`, validations (which
build them), round trips.  The theorems below are quantified over every life. -/

/-- **grammar_life_invariant.**  At every moment of every life the lazily built objects, when present,
    were built from the current elements, the builder's own `required` is empty and the defaults are
    bound to the grammar. -/
theorem grammar_life_invariant (ops : List GOp) : JInv (JG.fresh.run ops).1 :=
  JInv.run JInv.fresh ops

/-- **grammar_life_state_is_current.**  The pickled state is a function of the *current* definition:
    the schema dict it carries has the current elements and its `required` entry is the current required
    names — whenever the schema dict was first built, whatever was required then. -/
theorem grammar_life_state_is_current (ops : List GOp) :
    ((JG.fresh.run ops).1.getstate).1 =
      ⟨⟨(JG.fresh.run ops).1.g.props, (JG.fresh.run ops).1.g.required⟩, (JG.fresh.run ops).1.g.required,
       (JG.fresh.run ops).1.g.defaults, (JG.fresh.run ops).1.g.toNs⟩ :=
  getstate_current (grammar_life_invariant ops)

/-- **grammar_life_roundtrip.**  Pickled at any moment of its life, a grammar is restored (no `KeyError`)
    with exactly its current elements, required names, defaults and namespaces; the restored grammar has
    an empty builder-`required`, no validator, and a schema dict for the current definition.  Pickling
    leaves the definition of the original alone. -/
theorem grammar_life_roundtrip (ops : List GOp) :
    ∃ r, JG.setstate ((JG.fresh.run ops).1.getstate).1 = some r ∧ r.g = (JG.fresh.run ops).1.g ∧
      r.breq = [] ∧ r.valid = none ∧
      r.cache = some ⟨(JG.fresh.run ops).1.g.props, (JG.fresh.run ops).1.g.required⟩ ∧
      ((JG.fresh.run ops).1.getstate).2.g = (JG.fresh.run ops).1.g :=
  ⟨_, setstate_current (grammar_life_invariant ops), rfl, rfl, rfl, rfl, rfl⟩

/-- **grammar_restore_ignores_schema_required.**  Whatever `required` entry a pickled schema dict
    carries, the restored required names are the pickled `_required_names` and nothing else, and the
    builder keeps no required name of its own. -/
theorem grammar_restore_ignores_schema_required (st : JState) (r : JG) (h : JG.setstate st = some r) :
    r.g.required = st.required ∧ r.breq = [] ∧ r.g.props = st.schema.props ∧ r.g.toNs = st.toNs := by
  simp only [JG.setstate, Option.map_eq_some_iff] at h
  obtain ⟨d, _, hr⟩ := h
  subst hr
  exact ⟨rfl, rfl, rfl, rfl⟩

/-- **grammar_life_copy_indistinguishable.**  After any life `ops`, the restored grammar and the
    original (as pickling left it) answer every further life `post` identically — same `KeyError`s, same
    validation verdicts, same schema dicts — and have the same definition afterwards. -/
theorem grammar_life_copy_indistinguishable (ops post : List GOp) (r : JG)
    (h : JG.setstate ((JG.fresh.run ops).1.getstate).1 = some r) :
    (r.run post).2 = (((JG.fresh.run ops).1.getstate).2.run post).2 ∧
    (r.run post).1.g = (((JG.fresh.run ops).1.getstate).2.run post).1.g := by
  have hi := grammar_life_invariant ops
  rw [setstate_current hi] at h
  cases h
  exact run_congr (JInv.restored hi) (JInv.schemaProp hi) rfl post

/-- The verdict of a validation at any moment of a life is the one of the current definition (required
    names present, every present name of the right type) — not the one of the definition the validator
    was compiled from. -/
theorem grammar_life_validation_current (ops : List GOp) (data : List (String × Nat)) :
    ((JG.fresh.run ops).1.validate data).1 =
      (!((JG.fresh.run ops).1.g.required.any (fun r => !(keys data).contains r)) &&
        (JG.fresh.run ops).1.g.props.all (dataOk data)) :=
  validate_verdict (grammar_life_invariant ops) data

/- Non-vacuity: a grammar used (the schema dict is built with `x`, `a` required), then `a` made
   optional: the cached dict still says `a` is required, the pickled state does not, the restored grammar
   accepts `{x}` like the original. -/
example :
    let j := (JG.fresh.run [.names ["x", "a"], .validate [("x", 0), ("a", 0)], .reqDiscard "a"]).1
    j.cache = some ⟨[("x", 0), ("a", 0)], ["x", "a"]⟩ ∧ j.g.required = ["x"] ∧ j.valid.isSome ∧
    j.getstate.1.schema.req = ["x"] ∧
    (JG.setstate j.getstate.1).map (fun r => (r.g.required, (r.validate [("x", 0)]).1)) = some (["x"], true) ∧
    (j.validate [("x", 0)]).1 = true ∧ (j.validate [("a", 0)]).1 = false := by
  decide +kernel

/- Non-vacuity of the other operations: rename with a default, namespace, restriction, round trip in the
   middle of the life. -/
example :
    (JG.fresh.run [.names ["a", "b", "c"], .setDefault "b" 3, .schema, .rename "b" "z", .addNs "a" "n",
                   .pickle, .restrict ["z", "n:a"], .reqDiscard "z", .types "w" 3, .del "n:a"]).1.g
      = ⟨[("z", 0), ("w", 3)], ["w"], [("z", 3)], [("a", "n:a")]⟩ := by
  decide +kernel

/-! ### 6. An `HDF5Cache` whose settings were changed after its construction -/

/-- **hdf5_life_restored_has_current_settings.**  Whatever settings were changed and entries written
    since the cache was created with the arguments `st`, the restored cache has the *current* tolerance
    and name, and the file and node of the construction (no operation changes them). -/
theorem hdf5_life_restored_has_current_settings (d : Disk) (st : HState) (ops : List HOp) :
    (HCache.setstate (HLife.run (d, HLife.create d st) ops).1.1
        (HLife.run (d, HLife.create d st) ops).1.2.cache.getstate).tol
      = (HLife.run (d, HLife.create d st) ops).1.2.cache.tol ∧
    (HCache.setstate (HLife.run (d, HLife.create d st) ops).1.1
        (HLife.run (d, HLife.create d st) ops).1.2.cache.getstate).name
      = (HLife.run (d, HLife.create d st) ops).1.2.cache.name ∧
    (HCache.setstate (HLife.run (d, HLife.create d st) ops).1.1
        (HLife.run (d, HLife.create d st) ops).1.2.cache.getstate).path = st.path ∧
    (HCache.setstate (HLife.run (d, HLife.create d st) ops).1.1
        (HLife.run (d, HLife.create d st) ops).1.2.cache.getstate).node = st.node ∧
    (HLife.run (d, HLife.create d st) ops).1.2.init = st := by
  have hi := HInv.run (HInv.create d st) ops
  exact ⟨rfl, rfl, hi.path, hi.node, hi.init⟩

/-- **hdf5_life_lookup_same.**  After any life of the cache (the single user of its node), the restored
    cache answers every look-up — exact or within the current tolerance — like the original. -/
theorem hdf5_life_lookup_same (d : Disk) (st : HState) (ops : List HOp) (x : Rat) :
    (HCache.setstate (HLife.run (d, HLife.create d st) ops).1.1
        (HLife.run (d, HLife.create d st) ops).1.2.cache.getstate).lookup
        (HLife.run (d, HLife.create d st) ops).1.1 x
      = (HLife.run (d, HLife.create d st) ops).1.2.cache.lookup (HLife.run (d, HLife.create d st) ops).1.1 x := by
  have hi := HInv.run (HInv.create d st) ops
  have hc := hi.cons
  simp only [HCache.Consistent, HCache.read] at hc
  exact lookup_congr _ _ _ x rfl (by simp only [HCache.setstate, HCache.attach, HCache.getstate, hc]) rfl rfl

/- Non-vacuity: created with a zero tolerance, then `tolerance = 1/8`; the restored cache finds the entry
   of the neighbouring input 1 at 33/32 like the original, a cache re-created from the construction
   arguments would not. -/
example :
    let r := HLife.run ([], HLife.create [] ⟨0, "f", "n", "nm"⟩) [.write ⟨1, 2⟩, .setTol (1/8), .setName "zz", .write ⟨3, 10⟩]
    r.1.2.init.tol = 0 ∧ r.1.2.cache.tol = 1/8 ∧
    (HCache.setstate r.1.1 r.1.2.cache.getstate).lookup r.1.1 (33/32) = some 2 ∧
    (HCache.setstate r.1.1 r.1.2.cache.getstate).name = "zz" ∧
    r.1.2.cache.lookup r.1.1 (33/32) = some 2 ∧
    (HCache.attach r.1.1 r.1.2.init).lookup r.1.1 (33/32) = none ∧
    (HCache.setstate r.1.1 r.1.2.cache.getstate).lookup r.1.1 2 = none := by
  decide +kernel

/-! ### Restored by another interpreter (`spawn` workers, a later session): `AnalyticDiscipline`

The writer's interpreter `Ew` and the reader's `Er` iterate over sets in different orders (another string-hash
seed); nothing is assumed about the orders but that every member is yielded (`Env.Covers`).  A dict has unique
keys: `(keys exprs).Nodup`. -/

/-- **analytic_outputs_any_interpreter.**  Whatever the interpreter that created (or restored) it, the
    discipline returns the values of its expressions and of their derivatives: the positional arguments of
    the lambdified functions and the order in which `_run` passes the values were computed by the *same*
    interpreter. -/
theorem analytic_outputs_any_interpreter (E : Env) (hE : E.Covers) (exprs : List (String × Poly))
    (hn : (keys exprs).Nodup) (ρ : String → Rat) :
    (AD.create E exprs).run ρ = exprs.map (fun op => (op.1, op.2.eval ρ)) ∧
    ∀ o p, (o, p) ∈ exprs → ∀ n ∈ p.symbols, (AD.create E exprs).jacEntry ρ o n = some ((p.diff n).eval ρ) :=
  ⟨run_create E hE exprs hn ρ, fun o p hop n hs => jacEntry_create E hE exprs hn ρ o p hop n hs⟩

/-- **analytic_restored_by_another_interpreter.**  The discipline pickled by interpreter `Ew` and restored by
    interpreter `Er` returns, for every input, the outputs and the Jacobian entries of the original. -/
theorem analytic_restored_by_another_interpreter (Ew Er : Env) (hw : Ew.Covers) (hr : Er.Covers)
    (exprs : List (String × Poly)) (hn : (keys exprs).Nodup) (ρ : String → Rat) :
    (AD.setstate Er (AD.create Ew exprs).getstate).run ρ = (AD.create Ew exprs).run ρ ∧
    ∀ o p, (o, p) ∈ exprs → ∀ n ∈ p.symbols,
      (AD.setstate Er (AD.create Ew exprs).getstate).jacEntry ρ o n = (AD.create Ew exprs).jacEntry ρ o n := by
  have e : AD.setstate Er (AD.create Ew exprs).getstate = AD.create Er exprs := rfl
  rw [e]
  refine ⟨by rw [run_create Er hr exprs hn ρ, run_create Ew hw exprs hn ρ], fun o p hop n hs => ?_⟩
  rw [jacEntry_create Er hr exprs hn ρ o p hop n hs, jacEntry_create Ew hw exprs hn ρ o p hop n hs]

/-- **analytic_restored_generations.**  … and so does the copy of the copy of …, each restored by yet another
    interpreter (a pickle handed from worker to worker). -/
theorem analytic_restored_generations (E0 : Env) (h0 : E0.Covers) (envs : List Env) (he : ∀ E ∈ envs, E.Covers)
    (exprs : List (String × Poly)) (hn : (keys exprs).Nodup) (ρ : String → Rat) :
    (envs.foldl (fun a E => AD.setstate E a.getstate) (AD.create E0 exprs)).run ρ = (AD.create E0 exprs).run ρ ∧
    ∀ o p, (o, p) ∈ exprs → ∀ n ∈ p.symbols,
      (envs.foldl (fun a E => AD.setstate E a.getstate) (AD.create E0 exprs)).jacEntry ρ o n
        = (AD.create E0 exprs).jacEntry ρ o n := by
  have key : ∀ (envs : List Env) (E : Env), E.Covers → (∀ E' ∈ envs, E'.Covers) →
      ∃ E', E'.Covers ∧ envs.foldl (fun a E => AD.setstate E a.getstate) (AD.create E exprs) = AD.create E' exprs := by
    intro envs
    induction envs with
    | nil => intro E hE _; exact ⟨E, hE, rfl⟩
    | cons E1 r ih =>
      intro E _ hall
      have e : AD.setstate E1 (AD.create E exprs).getstate = AD.create E1 exprs := rfl
      simp only [List.foldl_cons, e]
      exact ih E1 (hall E1 List.mem_cons_self) (fun E' h' => hall E' (List.mem_cons_of_mem _ h'))
  obtain ⟨E', hE', e⟩ := key envs E0 h0 he
  rw [e]
  refine ⟨by rw [run_create E' hE' exprs hn ρ, run_create E0 h0 exprs hn ρ], fun o p hop n hs => ?_⟩
  rw [jacEntry_create E' hE' exprs hn ρ o p hop n hs, jacEntry_create E0 h0 exprs hn ρ o p hop n hs]

/-- **analytic_relambdify_same_interpreter.**  Why round trips inside one process cannot tell: restoring with
    `_lambdify_expressions` alone (the tempting shortcut, everything else being pickled) gives back exactly the
    original *when the reader is the writer's interpreter*. -/
theorem analytic_relambdify_same_interpreter (E : Env) (exprs : List (String × Poly)) :
    (AD.setstateRelambdify E (AD.create E exprs).getstate).run = (AD.create E exprs).run ∧
    (AD.setstateRelambdify E (AD.create E exprs).getstate).jac = (AD.create E exprs).jac := ⟨rfl, rfl⟩

example : Env.Covers id := fun _ _ h => h
example : Env.Covers List.reverse := fun _ _ h => List.mem_reverse.mpr h

/- Non-vacuity (the seeded change r2m3): `y = a - 2 b` written by an interpreter iterating `{a, b}` as `a, b`,
   read by one iterating it as `b, a`, evaluated at `a = 1, b = 2`: the restored discipline returns `-3` like
   the original; restoring with `_lambdify_expressions` alone pairs the pickled order `a, b` with the reader's
   positional arguments `b, a` and returns `2 - 2·1 = 0`; the Jacobian of the shortcut is still right (its
   functions take the pickled order), exactly what the seeded change showed. -/
example :
    let exprs : List (String × Poly) := [("y", [(1, ["a"]), (-2, ["b"])])]
    let ρ : String → Rat := fun n => if n = "a" then 1 else if n = "b" then 2 else 0
    (AD.create id exprs).run ρ = [("y", -3)] ∧
    (AD.setstate List.reverse (AD.create id exprs).getstate).run ρ = [("y", -3)] ∧
    (AD.setstateRelambdify List.reverse (AD.create id exprs).getstate).run ρ = [("y", 0)] ∧
    (AD.setstate List.reverse (AD.create id exprs).getstate).jacEntry ρ "y" "b" = some (-2) ∧
    (AD.setstateRelambdify List.reverse (AD.create id exprs).getstate).jacEntry ρ "y" "b" = some (-2) ∧
    (AD.setstate List.reverse (AD.create id exprs).getstate).syms = [("y", ["b", "a"])] ∧
    (AD.create id exprs).syms = [("y", ["a", "b"])] := by
  decide +kernel

/- … with a product and a square: `z = 3 a b - a²` at `a = 1/2, b = 4`. -/
example :
    let exprs : List (String × Poly) := [("z", [(3, ["a", "b"]), (-1, ["a", "a"])])]
    let ρ : String → Rat := fun n => if n = "a" then 1/2 else if n = "b" then 4 else 0
    (AD.setstate List.reverse (AD.create id exprs).getstate).run ρ = [("z", 23/4)] ∧
    (AD.setstate List.reverse (AD.create id exprs).getstate).jacEntry ρ "z" "a" = some 11 ∧
    (AD.setstate List.reverse (AD.create id exprs).getstate).jacEntry ρ "z" "b" = some (3/2) ∧
    (AD.setstateRelambdify List.reverse (AD.create id exprs).getstate).run ρ = [("z", -10)] := by
  decide +kernel

/-! ### 9. The save/load helpers used more than once in a process (`to_pickle` / `from_pickle`)

A process `Proc` = the pickle files, the shared memory, the live objects.  All theorems hold for every class
specification, every process, every path and **every list of operations** (saves, loads, attributes assigned on
any object, counters advanced on any object). -/

/-- **load_is_function_of_file.**  What `from_pickle` returns, observed (every attribute, the `Value`s read), does
    not depend on the process it is loaded into - on what was loaded, used or edited before: it is the observation
    of the same state loaded into an empty process. -/
theorem load_is_function_of_file (s : Spec) (st : PState) (h : Heap) :
    observe (fromPickle s st h).1 (fromPickle s st h).2
      = observe (fromPickle s st []).1 (fromPickle s st []).2 := by
  unfold fromPickle
  have e := setstate_shift s st h
  rw [e]
  exact observe_shift h _ _

/-- `to_pickle` writes the state of the object at that moment (counters by value). -/
theorem saved_state_is_the_state_at_saving (s : Spec) (P : Proc) (i : Nat) (p : String) (o : Obj)
    (hi : P.objs[i]? = some o) (hp : picklable (getstate s o P.heap) = true) :
    get (P.step s (.save i p)).files p = some (getstate s o P.heap) := by
  simp [Proc.step, hi, hp, get_set]

/-- **reload_equals_first_load.**  A file is loaded, then *anything* happens that does not write this file again
    (the first restoration and the original are used and edited, other files are saved and loaded), then the file
    is loaded again: each load appends a new object, and both are observed, when loaded, as the saved state. -/
theorem reload_equals_first_load (s : Spec) (P : Proc) (p : String) (st : PState)
    (hf : get P.files p = some st) (ops : List POp) (hops : ∀ op ∈ ops, ∀ i, op ≠ .save i p) :
    ∃ o1 o2,
      (P.step s (.load p)).objs = P.objs ++ [o1] ∧
      (((P.step s (.load p)).run s ops).step s (.load p)).objs = ((P.step s (.load p)).run s ops).objs ++ [o2] ∧
      observe o1 (P.step s (.load p)).heap = observe (fromPickle s st []).1 (fromPickle s st []).2 ∧
      observe o2 (((P.step s (.load p)).run s ops).step s (.load p)).heap
        = observe (fromPickle s st []).1 (fromPickle s st []).2 := by
  have hf1 : get (P.step s (.load p)).files p = some st := by rw [step_load s P p st hf]; exact hf
  have hf2 : get ((P.step s (.load p)).run s ops).files p = some st := by
    rw [files_run s _ ops p hops]; exact hf1
  refine ⟨(setstate s st P.heap).1, (setstate s st ((P.step s (.load p)).run s ops).heap).1, ?_, ?_, ?_, ?_⟩
  · rw [step_load s P p st hf]
  · rw [step_load s _ p st hf2]
  · rw [step_load s P p st hf]; exact load_is_function_of_file s st P.heap
  · rw [step_load s _ p st hf2]; exact load_is_function_of_file s st _

/-- A process made of one object whose cells exist is well formed. -/
theorem wf_single (files : Files) (h : Heap) (o : Obj)
    (hb : ∀ k c, get o k = some (.sync c) → c < h.length) : Proc.WF ⟨files, h, [o]⟩ := by
  constructor
  · intro i o' hi k c hk
    match i, hi with
    | 0, hi => simp at hi; subst hi; exact hb k c hk
    | i + 1, hi => simp at hi
  · intro i j oi oj hij hi hj
    match i, j, hi, hj with
    | 0, 0, _, _ => exact absurd rfl hij
    | 0, j + 1, _, hj => simp at hj
    | i + 1, _, hi, _ => simp at hi

/-- **objects_of_a_process_share_no_cell.**  After any history of saves, loads, uses and edits, every cell an
    object refers to exists and two objects (the original, the loads) never refer to the same cell. -/
theorem objects_of_a_process_share_no_cell (s : Spec) (P : Proc) (hwf : P.WF) (ops : List POp) :
    (P.run s ops).WF := hwf.run s ops

/-- **loaded_object_unaffected_by_the_others.**  An object is loaded; then any operations that do not mutate
    *this* object - the original and the other restorations are used and edited, files are written, the same file
    is loaded again: the object is still there and still answers every attribute as the saved state does. -/
theorem loaded_object_unaffected_by_the_others (s : Spec) (P : Proc) (hwf : P.WF) (p : String) (st : PState)
    (hf : get P.files p = some st) (ops : List POp) (hne : ∀ op ∈ ops, op.target ≠ some P.objs.length) :
    ∃ o, ((P.step s (.load p)).run s ops).objs[P.objs.length]? = some o ∧
      ∀ a, look o ((P.step s (.load p)).run s ops).heap a
        = look (fromPickle s st []).1 (fromPickle s st []).2 a := by
  have hwf1 : (P.step s (.load p)).WF := hwf.step s _
  have hj : (P.step s (.load p)).objs[P.objs.length]? = some (setstate s st P.heap).1 := by
    rw [step_load s P p st hf]; simp
  obtain ⟨h1, h2⟩ := run_keeps_other_objects s _ hwf1 ops _ _ hj hne
  refine ⟨_, h1, fun a => ?_⟩
  rw [h2 a, step_load s P p st hf]
  show look (setstate s st P.heap).1 (setstate s st P.heap).2 a = _
  unfold fromPickle
  rw [setstate_shift s st P.heap]
  exact look_shift P.heap _ _ a

/-- … and what is done to a loaded object is not seen through any other object of the process. -/
theorem use_of_one_object_not_seen_through_another (s : Spec) (P : Proc) (hwf : P.WF) (ops : List POp)
    (j : Nat) (oj : Obj) (hj : P.objs[j]? = some oj) (hne : ∀ op ∈ ops, op.target ≠ some j) :
    (P.run s ops).objs[j]? = some oj ∧ ∀ a, look oj (P.run s ops).heap a = look oj P.heap a :=
  run_keeps_other_objects s P hwf ops j oj hj hne

/- Non-vacuity (the seeded change r3m1).  A discipline-like object (`x` a default value, `n` an execution counter
   re-created by the `before` hook) is saved when `x = 3, n = 5`; the file is loaded; the first restoration is
   executed (`n` advances) and its default edited (`x = 100`); the file is loaded again: the second restoration
   shows `x = 3, n = 5`, the first one `x = 100, n = 6`, the original is untouched, no cell is shared.
   A `from_pickle` that remembered the first restoration (NOT the code: `MemoProc`) would hand out `x = 100, n = 6`. -/
example :
    let s : Spec := ⟨[], [("n", .mkSync 0)], [], []⟩
    let P0 : Proc := ⟨[], [5], [[("x", .plain 3), ("n", .sync 0)]]⟩
    let ops := [POp.save 0 "f", .load "f", .bump 1 "n", .assign 1 "x" 100, .load "f"]
    let Q := P0.run s ops
    Q.objs.map (fun o => observe o Q.heap)
      = [[("x", .num 3), ("n", .num 5)], [("n", .num 6), ("x", .num 100)], [("n", .num 5), ("x", .num 3)]] ∧
    Q.objs.map cellsOf = [[0], [1], [2]] ∧
    (let M := ops.foldl (MemoProc.step s) ⟨P0, []⟩
     (M.loaded "f").map (fun o => observe o M.proc.heap) = some [("n", .num 6), ("x", .num 100)] ∧
     M.proc.objs.length = 2) := by
  decide +kernel

example : Proc.WF ⟨[], [5], [[("x", .plain 3), ("n", .sync 0)]]⟩ :=
  wf_single _ _ _ (by
    intro k c hk
    simp only [get] at hk
    split at hk
    · cases hk
    · split at hk
      · cases hk; decide
      · cases hk)

end GV.C20
