/-
C07 — property theorems: coupled total derivatives satisfy the implicit-function equations.

Two layers:
* algebra over an arbitrary field and arbitrary finite index types (any number and size of
  couplings, variables, functions): what the direct and the adjoint computations return is the
  closed form `F_x - F_y R_y⁻¹ R_x`, which is the derivative of the converged coupled solution;
  sub-requests give sub-blocks; couplings that are not between the requested inputs and outputs
  can be dropped;
* the executable model (`Model/C07.lean`, lists of rows over ℚ): block placement by prefix sums of
  the sizes, `-I` on the residual diagonal, `split_jac`, certified solves, and the bridge
  "what the model's direct/adjoint mode returns is the closed form".
Only property theorems (and the few definitions needed to state them) live here.
-/
import GemseoVerif.Lemmas.C07
import GemseoVerif.Lemmas.C07Alg
import Mathlib.Tactic.NormNum
import Mathlib.LinearAlgebra.Matrix.Notation
import Mathlib.LinearAlgebra.Matrix.Determinant.Basic

namespace GV.C07

open Matrix GV.C07.Alg

set_option linter.unusedSectionVars false

variable {K : Type*} [Field K]
variable {n p m : Type*} [Fintype n] [DecidableEq n] [Fintype p] [DecidableEq p]
  [Fintype m] [DecidableEq m]

/-! ### Direct mode, adjoint mode, closed form -/

/-- Direct mode: solve `R_y X = -R_x`, return `F_x + F_y X`; this is `F_x - F_y R_y⁻¹ R_x`. -/
theorem direct_eq_implicit (Fx : Matrix m p K) (Fy : Matrix m n K) (Ry : Matrix n n K)
    (Rx X : Matrix n p K) (h : IsUnit Ry.det) (hX : Ry * X = -Rx) :
    Fx + Fy * X = Fx - Fy * Ry⁻¹ * Rx :=
  Alg.direct_eq_implicit Fx Fy Ry Rx X h hX

/-- Adjoint mode: solve `R_yᵀ Λ = -F_yᵀ`, return `F_x + (R_xᵀ Λ)ᵀ`; the same closed form. -/
theorem adjoint_eq_implicit (Fx : Matrix m p K) (Fy : Matrix m n K) (Ry : Matrix n n K)
    (Rx : Matrix n p K) (L : Matrix n m K) (h : IsUnit Ry.det) (hL : Ryᵀ * L = -Fyᵀ) :
    Fx + (Rxᵀ * L)ᵀ = Fx - Fy * Ry⁻¹ * Rx :=
  Alg.adjoint_eq_implicit Fx Fy Ry Rx L h hL

/-- The result does not depend on the derivation mode. -/
theorem direct_eq_adjoint (Fx : Matrix m p K) (Fy : Matrix m n K) (Ry : Matrix n n K)
    (Rx X : Matrix n p K) (L : Matrix n m K) (h : IsUnit Ry.det)
    (hX : Ry * X = -Rx) (hL : Ryᵀ * L = -Fyᵀ) :
    Fx + Fy * X = Fx + (Rxᵀ * L)ᵀ := by
  rw [direct_eq_implicit Fx Fy Ry Rx X h hX, adjoint_eq_implicit Fx Fy Ry Rx L h hL]

/-- Non-vacuity: an invertible, non-symmetric residual Jacobian with its direct and adjoint
    solutions (2 couplings, 1 variable, 1 function). -/
example :
    let Ry : Matrix (Fin 2) (Fin 2) ℚ := !![-1, 1/2; 1/4, -1]
    let Rx : Matrix (Fin 2) (Fin 1) ℚ := !![1; 0]
    let Fy : Matrix (Fin 1) (Fin 2) ℚ := !![0, 1]
    let X : Matrix (Fin 2) (Fin 1) ℚ := !![8/7; 2/7]
    let L : Matrix (Fin 2) (Fin 1) ℚ := !![2/7; 8/7]
    IsUnit Ry.det ∧ Ry * X = -Rx ∧ Ryᵀ * L = -Fyᵀ := by
  refine ⟨?_, ?_, ?_⟩
  · simp [Matrix.det_fin_two]; norm_num
  · ext i j; fin_cases i <;> fin_cases j <;> simp [Matrix.mul_apply, Fin.sum_univ_two] <;> norm_num
  · ext i j; fin_cases i <;> fin_cases j <;>
      simp [Matrix.mul_apply, Fin.sum_univ_two, Matrix.transpose_apply] <;> norm_num

/-- **The closed form is the derivative of the converged coupled solution** (affine systems, the
    ones the harness generates; for them finite differences are exact): if `(x, y)` and `(x', y')`
    both satisfy the coupled equations `R_y y + R_x x + r₀ = 0`, the functions
    `F = F_x x + F_y y + f₀` differ by `(F_x - F_y R_y⁻¹ R_x) (x' - x)`. -/
theorem closed_form_is_derivative_of_solution (Fx : Matrix m p K) (Fy : Matrix m n K)
    (Ry : Matrix n n K) (Rx : Matrix n p K) (r0 : n → K) (f0 : m → K) (h : IsUnit Ry.det)
    (x x' : p → K) (y y' : n → K)
    (hy : Ry *ᵥ y + Rx *ᵥ x + r0 = 0) (hy' : Ry *ᵥ y' + Rx *ᵥ x' + r0 = 0) :
    (Fx *ᵥ x' + Fy *ᵥ y' + f0) - (Fx *ᵥ x + Fy *ᵥ y + f0) =
      (Fx - Fy * Ry⁻¹ * Rx) *ᵥ (x' - x) :=
  Alg.affine_solution_derivative Fx Fy Ry Rx r0 f0 h x x' y y' hy hy'

/-- Non-vacuity of `closed_form_is_derivative_of_solution`: the hypotheses hold for the solution
    map `y(x) = -R_y⁻¹ (R_x x + r₀)` of every system with an invertible `R_y`. -/
example (Ry : Matrix n n K) (Rx : Matrix n p K) (r0 : n → K) (h : IsUnit Ry.det) (x : p → K) :
    Ry *ᵥ (-(Ry⁻¹ *ᵥ (Rx *ᵥ x + r0))) + Rx *ᵥ x + r0 = 0 := by
  rw [Matrix.mulVec_neg, Matrix.mulVec_mulVec, Matrix.mul_nonsing_inv _ h, Matrix.one_mulVec]
  abel

/-! ### Sub-requests -/

/-- Requesting fewer functions (`r`) and fewer variables (`c`) yields the corresponding
    sub-blocks of the full answer. -/
theorem subset_rows_cols {m' p' : Type*} [Fintype m'] [DecidableEq m'] [Fintype p']
    [DecidableEq p'] (Fx : Matrix m p K) (Fy : Matrix m n K) (Ry : Matrix n n K)
    (Rx : Matrix n p K) (r : m' → m) (c : p' → p) :
    (Fx - Fy * Ry⁻¹ * Rx).submatrix r c =
      Fx.submatrix r c - Fy.submatrix r id * Ry⁻¹ * Rx.submatrix id c :=
  Alg.implicit_submatrix Fx Fy Ry Rx r c

/-! ### Requested inputs / functions that are independent of the rest of the request (round 3) -/

variable {p₂ m₂ : Type*} [Fintype p₂] [DecidableEq p₂] [Fintype m₂] [DecidableEq m₂]

/-- **A requested input on which no requested function depends.**  Split the requested variables in
    `p` (any) and `p₂` (no function and no residual of the request has a partial derivative with respect
    to them: the blocks are zero, `p₂` columns wide — as many as the VALUE of the input has components,
    whatever index type that is).  Then the block of the total derivatives with respect to `p₂` is the
    zero block with `p₂` columns, and the blocks with respect to the other inputs are exactly those of
    the request without `p₂`: requesting an independent input changes nothing else. -/
theorem independent_inputs_zero_block (Fx₁ : Matrix m p K) (Fy : Matrix m n K) (Ry : Matrix n n K)
    (Rx₁ : Matrix n p K) :
    fromCols Fx₁ (0 : Matrix m p₂ K) - Fy * Ry⁻¹ * fromCols Rx₁ (0 : Matrix n p₂ K) =
      fromCols (Fx₁ - Fy * Ry⁻¹ * Rx₁) (0 : Matrix m p₂ K) := by
  rw [Matrix.mul_fromCols, Matrix.mul_zero]
  ext i (j | j) <;> simp

/-- **A requested function that depends on no requested input** (neither directly nor through the
    couplings of the request: its rows of `F_x` and `F_y` are zero): its rows of the total derivatives
    are zero and the rows of the other functions are those of the request without it. -/
theorem independent_functions_zero_rows (Fx₁ : Matrix m p K) (Fy₁ : Matrix m n K) (Ry : Matrix n n K)
    (Rx : Matrix n p K) :
    fromRows Fx₁ (0 : Matrix m₂ p K) - fromRows Fy₁ (0 : Matrix m₂ n K) * Ry⁻¹ * Rx =
      fromRows (Fx₁ - Fy₁ * Ry⁻¹ * Rx) (0 : Matrix m₂ p K) := by
  rw [Matrix.fromRows_mul, Matrix.fromRows_mul, Matrix.zero_mul, Matrix.zero_mul]
  ext (i | i) j <;> simp

/-- Instance: one function, one dependent input and an independent input given with THREE components
    (whatever the length of its default value): the block w.r.t. it is the `1 × 3` zero block, the other
    block is the one of the request without it (`2/7` for the system of the examples above). -/
example (j : Fin 3) :
    let Ry : Matrix (Fin 2) (Fin 2) ℚ := !![-1, 1/2; 1/4, -1]
    let Rx : Matrix (Fin 2) (Fin 1) ℚ := !![1; 0]
    let Fx : Matrix (Fin 1) (Fin 1) ℚ := !![0]
    let Fy : Matrix (Fin 1) (Fin 2) ℚ := !![0, 1]
    (fromCols Fx (0 : Matrix (Fin 1) (Fin 3) ℚ) - Fy * Ry⁻¹ * fromCols Rx (0 : Matrix (Fin 2) (Fin 3) ℚ))
        0 (Sum.inr j) = 0 ∧
      (fromCols Fx (0 : Matrix (Fin 1) (Fin 3) ℚ) - Fy * Ry⁻¹ * fromCols Rx (0 : Matrix (Fin 2) (Fin 3) ℚ))
        0 (Sum.inl 0) = (Fx - Fy * Ry⁻¹ * Rx) 0 0 := by
  intro Ry Rx Fx Fy
  rw [independent_inputs_zero_block]
  exact ⟨rfl, rfl⟩

/-! ### Units: the result is equivariant under a change of variables -/

/-- **Change of variables.**  With the functions in coordinates `F' = P F`, the design variables
    `x = Qi x'`, the couplings `y' = S y` (`Si * S = 1`) and any invertible combination `T` of the
    residuals, the closed form of the transformed partial Jacobians is the transformed closed form
    (in particular `subset_rows_cols` for selections `P`, `Qi`, and every rescaling). -/
theorem change_of_variables {m' p' : Type*} [Fintype m'] [DecidableEq m'] [Fintype p']
    [DecidableEq p'] (Fx : Matrix m p K) (Fy : Matrix m n K) (Ry : Matrix n n K)
    (Rx : Matrix n p K) (P : Matrix m' m K) (Qi : Matrix p p' K) (S Si T : Matrix n n K)
    (hS : Si * S = 1) (hT : IsUnit T.det) (hR : IsUnit Ry.det) :
    (P * Fx * Qi) - (P * Fy * Si) * (T * Ry * Si)⁻¹ * (T * Rx * Qi) =
      P * (Fx - Fy * Ry⁻¹ * Rx) * Qi :=
  Alg.implicit_change_of_variables Fx Fy Ry Rx P Qi S Si T hS hT hR

/-- **Rescaling of the variables (units).**  If every function `i` is multiplied by `a i ≠ 0`,
    every design variable `j` by `b j ≠ 0`, every coupling/state `k` by `c k ≠ 0` and every residual
    `k` by `r k ≠ 0` — the partial Jacobians become `a i · ∂F_i/∂x_j / b j`, … — the total
    derivative `(i, j)` is multiplied by `a i / b j`, whatever the magnitudes: a right-hand side of
    norm `10⁻¹³` is not a zero right-hand side, no absolute threshold is compatible with the property. -/
theorem scale_equivariant (Fx : Matrix m p K) (Fy : Matrix m n K) (Ry : Matrix n n K)
    (Rx : Matrix n p K) (a : m → K) (b : p → K) (c r : n → K)
    (hc : ∀ k, c k ≠ 0) (hr : ∀ k, r k ≠ 0) (hR : IsUnit Ry.det) :
    (Matrix.of fun i j => a i * Fx i j / b j) -
        (Matrix.of fun i k => a i * Fy i k / c k) * (Matrix.of fun k l => r k * Ry k l / c l)⁻¹ *
          (Matrix.of fun k j => r k * Rx k j / b j) =
      Matrix.of fun i j => a i * (Fx - Fy * Ry⁻¹ * Rx) i j / b j := by
  have hS : diagonal (fun k => (c k)⁻¹) * diagonal c = 1 := by
    rw [Matrix.diagonal_mul_diagonal, ← Matrix.diagonal_one]
    congr 1; funext k; exact inv_mul_cancel₀ (hc k)
  have hT : IsUnit (diagonal r).det := by
    rw [Matrix.det_diagonal]
    exact (Finset.prod_ne_zero_iff.mpr fun k _ => hr k).isUnit
  have key := change_of_variables Fx Fy Ry Rx (diagonal a) (diagonal fun j => (b j)⁻¹)
    (diagonal c) (diagonal fun k => (c k)⁻¹) (diagonal r) hS hT hR
  have e1 : (Matrix.of fun i j => a i * Fx i j / b j) = diagonal a * Fx * diagonal fun j => (b j)⁻¹ := by
    ext i j; rw [Alg.diagonal_mul_mul_diagonal_apply]; simp [div_eq_mul_inv]
  have e2 : (Matrix.of fun i k => a i * Fy i k / c k) = diagonal a * Fy * diagonal fun k => (c k)⁻¹ := by
    ext i j; rw [Alg.diagonal_mul_mul_diagonal_apply]; simp [div_eq_mul_inv]
  have e3 : (Matrix.of fun k l => r k * Ry k l / c l) = diagonal r * Ry * diagonal fun k => (c k)⁻¹ := by
    ext i j; rw [Alg.diagonal_mul_mul_diagonal_apply]; simp [div_eq_mul_inv]
  have e4 : (Matrix.of fun k j => r k * Rx k j / b j) = diagonal r * Rx * diagonal fun j => (b j)⁻¹ := by
    ext i j; rw [Alg.diagonal_mul_mul_diagonal_apply]; simp [div_eq_mul_inv]
  rw [e1, e2, e3, e4, key]
  ext i j; rw [Alg.diagonal_mul_mul_diagonal_apply]; simp [div_eq_mul_inv]

/-- Non-vacuity of `scale_equivariant`: a "compliance" of `2⁻⁴⁰` on the design variable and a
    "stiffness" of `2⁴⁰` on the function (the situation of the rescaled stream of the harness):
    all the hypotheses hold and the total derivative is the one of the well-scaled system, `2/7`,
    although the right-hand side of the direct system is `2⁻⁴⁰`. -/
example :
    let Ry : Matrix (Fin 2) (Fin 2) ℚ := !![-1, 1/2; 1/4, -1]
    let Rx : Matrix (Fin 2) (Fin 1) ℚ := !![1; 0]
    let Fx : Matrix (Fin 1) (Fin 1) ℚ := !![0]
    let Fy : Matrix (Fin 1) (Fin 2) ℚ := !![0, 1]
    IsUnit Ry.det ∧ (∀ k : Fin 2, ((fun _ => (2:ℚ)^(-40 : ℤ)) : Fin 2 → ℚ) k ≠ 0) ∧
      (Fx - Fy * Ry⁻¹ * Rx) 0 0 = 2/7 := by
  refine ⟨?_, ?_, ?_⟩
  · simp [Matrix.det_fin_two]; norm_num
  · intro k; positivity
  · have hdet : IsUnit (!![-1, 1/2; 1/4, -1] : Matrix (Fin 2) (Fin 2) ℚ).det := by
      simp [Matrix.det_fin_two]; norm_num
    have hX : (!![-1, 1/2; 1/4, -1] : Matrix (Fin 2) (Fin 2) ℚ) *
        (!![8/7; 2/7] : Matrix (Fin 2) (Fin 1) ℚ) = -(!![1; 0] : Matrix (Fin 2) (Fin 1) ℚ) := by
      ext i j; fin_cases i <;> fin_cases j <;> simp [Matrix.mul_apply, Fin.sum_univ_two] <;> norm_num
    rw [← direct_eq_implicit (!![0] : Matrix (Fin 1) (Fin 1) ℚ) (!![0, 1] : Matrix (Fin 1) (Fin 2) ℚ)
      _ _ _ hdet hX]
    simp

/-! ### Couplings outside the request can be dropped (minimal couplings) -/

variable {n₁ n₂ : Type*} [Fintype n₁] [DecidableEq n₁] [Fintype n₂] [DecidableEq n₂]

/-- Couplings downstream of the request (the kept couplings and the functions do not depend on
    them) can be dropped from the residual system. -/
theorem weakly_coupled_elimination_downstream (Fx : Matrix m p K) (Fy₁ : Matrix m n₁ K)
    (A : Matrix n₁ n₁ K) (C : Matrix n₂ n₁ K) (D : Matrix n₂ n₂ K)
    (Rx₁ : Matrix n₁ p K) (Rx₂ : Matrix n₂ p K) (hA : IsUnit A.det) (hD : IsUnit D.det) :
    Fx - fromCols Fy₁ (0 : Matrix m n₂ K) * (fromBlocks A 0 C D)⁻¹ * fromRows Rx₁ Rx₂ =
      Fx - Fy₁ * A⁻¹ * Rx₁ :=
  Alg.eliminate_downstream Fx Fy₁ A C D Rx₁ Rx₂ hA hD

/-- Couplings upstream of the request (they depend neither on the requested variables nor on the
    kept couplings) can be dropped from the residual system. -/
theorem weakly_coupled_elimination_upstream (Fx : Matrix m p K) (Fy₁ : Matrix m n₁ K)
    (Fy₂ : Matrix m n₂ K) (A : Matrix n₁ n₁ K) (B : Matrix n₁ n₂ K) (D : Matrix n₂ n₂ K)
    (Rx₁ : Matrix n₁ p K) (hA : IsUnit A.det) (hD : IsUnit D.det) :
    Fx - fromCols Fy₁ Fy₂ * (fromBlocks A B 0 D)⁻¹ * fromRows Rx₁ (0 : Matrix n₂ p K) =
      Fx - Fy₁ * A⁻¹ * Rx₁ :=
  Alg.eliminate_upstream Fx Fy₁ Fy₂ A B D Rx₁ hA hD

/-- Disciplines with residual/state variables: the same closed form with the residual system
    `[[∂Y/∂y - I, ∂Y/∂w], [∂r/∂y, ∂r/∂w]]` and the functions differentiated with respect to the
    couplings *and the states* (direct mode written blockwise). -/
theorem states_residual_form (Fx : Matrix m p K) (Fy : Matrix m n₁ K) (Fw : Matrix m n₂ K)
    (Yy : Matrix n₁ n₁ K) (Yw : Matrix n₁ n₂ K) (ry : Matrix n₂ n₁ K) (rw' : Matrix n₂ n₂ K)
    (Yx : Matrix n₁ p K) (rx : Matrix n₂ p K) (Xy : Matrix n₁ p K) (Xw : Matrix n₂ p K)
    (h : IsUnit (fromBlocks (Yy - 1) Yw ry rw').det)
    (h₁ : (Yy - 1) * Xy + Yw * Xw = -Yx) (h₂ : ry * Xy + rw' * Xw = -rx) :
    Fx + Fy * Xy + Fw * Xw =
      Fx - fromCols Fy Fw * (fromBlocks (Yy - 1) Yw ry rw')⁻¹ * fromRows Yx rx := by
  have hsol : fromBlocks (Yy - 1) Yw ry rw' * fromRows Xy Xw = -fromRows Yx rx := by
    rw [fromBlocks_mul_fromRows, fromRows_neg, h₁, h₂]
  rw [← direct_eq_implicit Fx _ _ _ (fromRows Xy Xw) h hsol, fromCols_mul_fromRows, add_assoc]

/-! ### The executable model: assembly -/

section model
variable (jac : String → String → Option Mat) (sz : String → Nat)

/-- **Block placement.** For well-shaped discipline Jacobians, entry `(off_i + a, off_j + b)` of
    `assemble_jacobian(functions, variables)` is entry `(a, b)` of block `(functions[i],
    variables[j])`; the offsets are the prefix sums of the sizes (whatever the sizes). -/
theorem assemble_entry (hj : JacWF jac sz) (isRes : Bool) (fs vs : List String)
    (i j a b : Nat) (hi : i < fs.length) (hjv : j < vs.length)
    (ha : a < sz (fs.getD i "")) (hb : b < sz (vs.getD j "")) :
    entry (assemble jac sz isRes fs vs) (offset sz fs i + a) (offset sz vs j + b) =
      entry (blockOf jac sz isRes (fs.getD i "") (vs.getD j "")) a b :=
  assemble_entry' jac sz isRes (rowWF_of_jacWF jac sz hj isRes) fs vs i j a b hi hjv ha hb

/-- The assembled matrix has `Σ sizes(functions)` lines of width `Σ sizes(variables)`. -/
theorem assemble_shape (hj : JacWF jac sz) (isRes : Bool) (fs vs : List String) :
    (assemble jac sz isRes fs vs).length = dim sz fs ∧
      ∀ i a, i < fs.length → a < sz (fs.getD i "") →
        ((assemble jac sz isRes fs vs).getD (offset sz fs i + a) []).length = dim sz vs := by
  refine ⟨assemble_length jac sz isRes fs vs, fun i a hi ha => ?_⟩
  rw [assemble_getD jac sz isRes fs vs i a hi ha]
  exact blockRowLine_length jac sz isRes (rowWF_of_jacWF jac sz hj isRes) _ vs a

/-- **`-I` on the residual diagonal**, the discipline's block elsewhere. -/
theorem residual_diag (hj : JacWF jac sz) (f : String) (a b : Nat) (ha : a < sz f) (hb : b < sz f) :
    entry (blockOf jac sz true f f) a b =
      (match jac f f with | some m => entry m a b | none => 0) - if a = b then 1 else 0 :=
  blockOf_residual_diag jac sz hj f a b ha hb

theorem off_diagonal_block (isRes : Bool) (f v : String) (h : (isRes && f == v) = false)
    (a b : Nat) :
    entry (blockOf jac sz isRes f v) a b = match jac f v with | some m => entry m a b | none => 0 :=
  blockOf_plain jac sz isRes f v h a b

/-- **`split_jac`** cuts the columns at the same prefix-sum offsets. -/
theorem split_concat_blocks (vs : List String) (M : Mat) (j a b : Nat) (hjv : j < vs.length)
    (hb : b < sz (vs.getD j "")) :
    entry (((splitJac sz vs M).getD j ("", [])).2) a b = entry M a (offset sz vs j + b) :=
  splitJac_entry sz vs M j a b hjv hb

/-- **Rescaled variables, model level.**  Running the assembly on the partial Jacobians expressed
    in the rescaled variables `v' = w v · v` (`scaledJac`, driver field `E=`) multiplies entry
    `(off_i + a, off_j + b)` of every assembled matrix — `∂R/∂y` with its `-I`, `∂R/∂x`, `∂F/∂x`,
    `∂F/∂y` — by `w f_i / w v_j`: the assembled matrices of the rescaled system are
    `D_f · M · D_v⁻¹`, the situation of `scale_equivariant`. -/
theorem assemble_scaled_entry (hj : JacWF jac sz) (w : String → Rat) (hw : ∀ s, w s ≠ 0)
    (isRes : Bool) (fs vs : List String) (i j a b : Nat) (hi : i < fs.length) (hjv : j < vs.length)
    (ha : a < sz (fs.getD i "")) (hb : b < sz (vs.getD j "")) :
    entry (assemble (scaledJac w jac) sz isRes fs vs) (offset sz fs i + a) (offset sz vs j + b) =
      w (fs.getD i "") / w (vs.getD j "") *
        entry (assemble jac sz isRes fs vs) (offset sz fs i + a) (offset sz vs j + b) := by
  rw [assemble_entry (scaledJac w jac) sz (scaledJac_wf jac sz w hj) isRes fs vs i j a b hi hjv ha hb,
    assemble_entry jac sz hj isRes fs vs i j a b hi hjv ha hb]
  exact blockOf_scaled jac sz w hj hw isRes _ _ a b ha hb

end model

/-- Every solve executed by the model is certified: a returned vector solves the system. -/
theorem solve_certified {a : Mat} {b x : List Rat} (h : solveChecked a b = some x) :
    mulVec a x = b :=
  (solveChecked_sound h).1

/-! Non-vacuity of the model-level statements: asymmetric sizes (1 and 2), a self-coupled block,
    a missing block; the assembled residual matrix and a certified solve. -/

def exJac : String → String → Option Mat
  | "a", "b" => some [[1/2, 1/4]]
  | "b", "a" => some [[1], [2]]
  | "b", "b" => some [[1/8, 0], [0, 1/8]]
  | "a", "x" => some [[3]]
  | _, _ => none

def exSz : String → Nat
  | "a" => 1 | "b" => 2 | "x" => 1 | _ => 0

example : assemble exJac exSz true ["a", "b"] ["a", "b", "x"] =
    [[-1, 1/2, 1/4, 3], [1, -7/8, 0, 0], [2, 0, -7/8, 0]] := by decide +kernel

example : JacWF exJac exSz := by
  intro f v m h
  unfold exJac at h
  split at h
  all_goals first
    | (cases h; simp [exSz])
    | simp at h

example : solveChecked [[-1, 1/2], [1/4, -1]] [-1, 0] = some [8/7, 2/7] := by decide +kernel

/-- Non-vacuity of `assemble_scaled_entry`: the residual matrix of the example system with the
    coupling `b` in a unit `2⁻⁴⁰` times smaller and the design variable `x` in a unit `2⁴⁰` times
    larger (`weightOf`, as the driver builds it from the `E=` field). -/
example : assemble (scaledJac (weightOf [("b", -3), ("x", 2)]) exJac) exSz true ["a", "b"] ["a", "b", "x"] =
    [[-1, 4, 2, 3/4], [1/8, -7/8, 0, 0], [1/4, 0, -7/8, 0]] := by decide +kernel

example : ∀ s, weightOf [("b", -3), ("x", 2)] s ≠ 0 := by
  intro s
  unfold weightOf
  split
  · rename_i p hp
    have := List.mem_of_find?_eq_some hp
    simp only [List.mem_cons, List.not_mem_nil, or_false] at this
    rcases this with rfl | rfl <;> decide +kernel
  · decide +kernel

/-! ### Sizes of the differentiation variables (round 3) -/

/-- **The size used to place the blocks of a requested input is the length of its value.**  If every
    Jacobian block a discipline holds with respect to `v` has as many columns as the current value of `v`
    has components (`n`), and `v` has such a block or such a value, then `compute_sizes` returns `n` —
    also when no requested function depends on `v` (no block is held: the value decides), and whatever the
    lengths of the grammar defaults, which the computation never reads. -/
theorem variable_size_is_length_of_value (held : List ((String × String) × Mat))
    (values : List (String × List Rat)) (v : String) (n : Nat)
    (hheld : ∀ b ∈ held, b.1.2 = v → width b.2 = n)
    (hval : ∀ e ∈ values, e.1 = v → e.2.length = n)
    (hex : (∃ b ∈ held, b.1.2 = v) ∨ (∃ e ∈ values, e.1 = v)) :
    variableSize held values v = some n := by
  unfold variableSize
  cases hf : held.find? (fun b => b.1.2 == v) with
  | some b =>
    have hb := List.find?_some hf
    have hm := List.mem_of_find?_eq_some hf
    simp only [beq_iff_eq] at hb
    simp [hheld b hm hb]
  | none =>
    have hnone : ∀ b ∈ held, ¬ b.1.2 = v := by
      intro b hb hbv
      have := List.find?_eq_none.mp hf b hb
      simp [hbv] at this
    rcases hex with ⟨b, hb, hbv⟩ | ⟨e, he, hev⟩
    · exact absurd hbv (hnone b hb)
    · cases hv : values.find? (fun e => e.1 == v) with
      | some e' =>
        have h1 := List.find?_some hv
        have h2 := List.mem_of_find?_eq_some hv
        simp only [beq_iff_eq] at h1
        simp [hval e' h2 h1]
      | none =>
        have := List.find?_eq_none.mp hv e he
        simp [hev] at this

/-- Non-vacuity: one block `∂f/∂x` (two columns) is held, `p` (no function depends on it) has a value with
    three components: the sizes are 2 (from the block) and 3 (from the value). -/
example : variableSize [(("f", "x"), [[1, 2]])] [("x", [0, 0]), ("p", [0, 0, 0])] "p" = some 3 ∧
    variableSize [(("f", "x"), [[1, 2]])] [("x", [0, 0]), ("p", [0, 0, 0])] "x" = some 2 := by decide

end GV.C07
