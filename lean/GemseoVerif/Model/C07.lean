/-
C07 — model of `JacobianAssembly` (block assembly of the disciplines' partial Jacobians with the
`-I` of the residual form, as a matrix and as a matrix-free operator), of
`CoupledSystem.direct_mode / adjoint_mode` (LU or iterative: the same algebra behind an exact
solve), of the mode selection, of `split_jac` and of the selection of the couplings needed by a
request (`traverse_add_diff_io_mda`).

Code anchored: src/gemseo/core/derivatives/jacobian_assembly.py
(`_get_jacobian_generator`, `_assemble_jacobian_as_matrix`, `AssembledJacobianOperator`,
`total_derivatives`, `split_jac`, `CoupledSystem._direct_mode/_adjoint_mode[_lu]`),
src/gemseo/core/derivatives/mda_derivatives.py, src/gemseo/mda/base_mda.py (`_compute_jacobian`).

Matrices are lists of rows over ℚ.  The disciplines' partial Jacobians are a *parameter*
`jac : String → String → Option Mat` (`self.disciplines[f].jac[f].get(v)`), the variable sizes a
parameter `sz : String → Nat` (`self.sizes`).
Import-free (core Lean only) so that the driver can run it.
-/
import GemseoVerif.Model.Common

namespace GV.C07

abbrev Mat := List (List Rat)

/-! ### Dense linear algebra on lists of rows -/

def zeroRow (n : Nat) : List Rat := List.replicate n 0

def zeros (r c : Nat) : Mat := List.replicate r (zeroRow c)

/-- Entry `(i, j)`, `0` outside the stored shape. -/
def entry (m : Mat) (i j : Nat) : Rat := (m.getD i []).getD j 0

def dot : List Rat → List Rat → Rat
  | a :: u, b :: v => a * b + dot u v
  | _, _ => 0

def mulVec (m : Mat) (v : List Rat) : List Rat := m.map (fun row => dot row v)

/-- Column `j` of a matrix. -/
def column (m : Mat) (j : Nat) : List Rat := m.map (fun row => row.getD j 0)

/-- Transpose of a matrix with `c` columns. -/
def transpose (m : Mat) (c : Nat) : Mat := (List.range c).map (column m)

/-- Product `a * b` where `b` has `c` columns. -/
def mul (a b : Mat) (c : Nat) : Mat :=
  a.map (fun row => (List.range c).map (fun j => dot row (column b j)))

def addRow : List Rat → List Rat → List Rat
  | a :: u, b :: v => (a + b) :: addRow u v
  | _, _ => []

def add : Mat → Mat → Mat
  | r :: a, s :: b => addRow r s :: add a b
  | _, _ => []

def negRow (v : List Rat) : List Rat := v.map (fun x => -x)

/-- `-I` of size `n` (`-eye(variable_size)`). -/
def negIdentity (n : Nat) : Mat :=
  (List.range n).map (fun i => (List.range n).map (fun j => if i = j then (-1 : Rat) else 0))

/-- `fill_diagonal(copy, diagonal - 1)`: subtract the identity. -/
def shiftDiag (m : Mat) : Mat :=
  (List.zipIdx m).map (fun (row, i) => (List.zipIdx row).map (fun (x, j) => if i = j then x - 1 else x))

/-! ### Block assembly (`_get_jacobian_generator`, `_assemble_jacobian_as_matrix`) -/

section assembly
variable (jac : String → String → Option Mat) (sz : String → Nat)

/-- The block yielded by `_get_jacobian_generator` for `(function, variable)`:
    the discipline's block, shifted by `-I` for a residual `Y_i - y_i`; `-I` when the discipline
    has no such block; nothing (a zero block in the assembled matrix) otherwise. -/
def genBlock (isResidual : Bool) (f v : String) : Option Mat :=
  if isResidual && f == v then
    match jac f v with
    | some m => some (shiftDiag m)
    | none => some (negIdentity (sz v))
  else jac f v

/-- Block `(f, v)` of the assembled matrix: `bmat` fills the missing blocks with zeros of the
    shape given by the first row / first column of blocks, i.e. by the sizes. -/
def blockOf (isResidual : Bool) (f v : String) : Mat :=
  match genBlock jac sz isResidual f v with
  | some m => m
  | none => zeros (sz f) (sz v)

/-- Row `a` of the block row of function `f`: the concatenation of the rows `a` of its blocks. -/
def blockRowLine (isResidual : Bool) (f : String) (vs : List String) (a : Nat) : List Rat :=
  vs.flatMap (fun v => (blockOf jac sz isResidual f v).getD a (zeroRow (sz v)))

/-- The block row of function `f` (`sz f` lines). -/
def blockRow (isResidual : Bool) (f : String) (vs : List String) : Mat :=
  (List.range (sz f)).map (blockRowLine jac sz isResidual f vs)

/-- `assemble_jacobian(functions, variables, is_residual)` as a dense matrix (`bmat`). -/
def assemble (isResidual : Bool) (fs vs : List String) : Mat :=
  fs.flatMap (fun f => blockRow jac sz isResidual f vs)

/-- Offsets used by the matrix-free operator (`row += sizes[function]`, `column += size`). -/
def offset (names : List String) (k : Nat) : Nat := ((names.take k).map sz).sum

def dim (names : List String) : Nat := (names.map sz).sum

/-- One product of `AssembledJacobianOperator._matvec`: `result[row_slice] += J.dot(x[col_slice])`
    for every yielded block, with the running offsets of the generator. -/
def opMatvec (isResidual : Bool) (fs vs : List String) (x : List Rat) : List Rat :=
  (List.range fs.length).flatMap (fun i =>
    let f := fs.getD i ""
    (List.range (sz f)).map (fun a =>
      ((List.range vs.length).map (fun j =>
        let v := vs.getD j ""
        match genBlock jac sz isResidual f v with
        | none => (0 : Rat)
        | some m => dot (m.getD a []) ((x.drop (offset sz vs j)).take (sz v)))).sum))

/-- `_rmatvec`: `result[col_slice] += J.T.dot(x[row_slice])`. -/
def opRmatvec (isResidual : Bool) (fs vs : List String) (x : List Rat) : List Rat :=
  (List.range vs.length).flatMap (fun j =>
    let v := vs.getD j ""
    (List.range (sz v)).map (fun b =>
      ((List.range fs.length).map (fun i =>
        let f := fs.getD i ""
        match genBlock jac sz isResidual f v with
        | none => (0 : Rat)
        | some m => dot (column m b) ((x.drop (offset sz fs i)).take (sz f)))).sum))

end assembly

/-! ### Exact linear solve (stands for SuperLU / the Krylov solvers) -/

/-- Find the first row at or after `k` with a non-zero entry in column `k`. -/
def findPivot (m : Mat) (k : Nat) : Option Nat :=
  ((List.range m.length).filter (fun r => k ≤ r && (entry m r k != 0))).head?

def swapRows (m : Mat) (i j : Nat) : Mat :=
  (List.range m.length).map (fun r =>
    if r = i then m.getD j [] else if r = j then m.getD i [] else m.getD r [])

def scaleRow (c : Rat) (v : List Rat) : List Rat := v.map (fun x => c * x)

def subScaled (u : List Rat) (c : Rat) (v : List Rat) : List Rat :=
  (List.zipWith (fun a b => a - c * b) u v)

/-- One Gauss–Jordan elimination step on the augmented matrix for pivot column `k`. -/
def gjStep (aug : Option Mat) (k : Nat) : Option Mat :=
  match aug with
  | none => none
  | some m =>
    match findPivot m k with
    | none => none
    | some p =>
      let m1 := swapRows m k p
      let prow := m1.getD k []
      let pv := prow.getD k 0
      let prow' := scaleRow (1 / pv) prow
      some ((List.zipIdx m1).map (fun (row, r) =>
        if r = k then prow' else subScaled row (row.getD k 0) prow'))

/-- Gauss–Jordan on `[A | b]`: a candidate solution of `A x = b` (`none`: no pivot found). -/
def gaussJordan (a : Mat) (b : List Rat) : Option (List Rat) :=
  let n := a.length
  let aug : Mat := (List.zipIdx a).map (fun (row, i) => row ++ [b.getD i 0])
  match (List.range n).foldl gjStep (some aug) with
  | none => none
  | some m => some (m.map (fun row => row.getD n 0))

/-- The solve used by the model: a result is returned only after checking `A x = b`
    (and the shapes), so that every executed solve is certified. -/
def solveChecked (a : Mat) (b : List Rat) : Option (List Rat) :=
  match gaussJordan a b with
  | none => none
  | some x => if x.length = b.length ∧ a.length = b.length ∧ mulVec a x = b then some x else none

/-! ### Direct and adjoint modes (`CoupledSystem`) -/

/-- Matrix whose columns are the given vectors (`dy_dx[:, var_index] = solution`), `n` rows. -/
def fromColumns (cols : List (List Rat)) (n : Nat) : Mat :=
  (List.range n).map (fun i => cols.map (fun c => c.getD i 0))

/-- `_direct_mode[_lu]`: `dres_dy . dy_dx[:, j] = -dres_dx[:, j]` for every variable component,
    then `jac[fun] = dfun_dx[fun] + dfun_dy[fun] . dy_dx`. -/
def directMode (fs : List String) (nVars nCpl : Nat) (dresDx dresDy : Mat)
    (dfunDx dfunDy : String → Mat) : Option (List (String × Mat)) :=
  match (List.range nVars).mapM (fun j => solveChecked dresDy (negRow (column dresDx j))) with
  | none => none
  | some cols =>
    let dydx := fromColumns cols nCpl
    some (fs.map (fun f => (f, add (dfunDx f) (mul (dfunDy f) dydx nVars))))

/-- `_adjoint_mode[_lu]`: for every function component, `dres_dy^T . adjoint = -dfun_dy[comp, :]^T`,
    then `jac[fun][comp, :] = dfun_dx[fun][comp, :] + (dres_dx^T . adjoint)^T`. -/
def adjointMode (fs : List String) (nVars nCpl : Nat) (dresDx dresDy : Mat)
    (dfunDx dfunDy : String → Mat) : Option (List (String × Mat)) :=
  let dresDyT := transpose dresDy nCpl
  let dresDxT := transpose dresDx nVars
  fs.mapM (fun f =>
    ((List.zip (dfunDx f) (dfunDy f)).mapM (fun (rx, ry) =>
      match solveChecked dresDyT (negRow ry) with
      | none => none
      | some adj => some (addRow rx (mulVec dresDxT adj)))).map (fun rows => (f, rows)))

inductive Mode where
  | direct | adjoint | auto
  deriving Repr, DecidableEq

/-- `_get_derivation_mode`. -/
def resolveMode (m : Mode) (nVars nFuns : Nat) : Mode :=
  match m with
  | .auto => if nVars ≤ nFuns then .direct else .adjoint
  | m => m

/-- `split_jac`: columns of each function's Jacobian cut at the variables' sizes. -/
def splitJac (sz : String → Nat) (vs : List String) (m : Mat) : List (String × Mat) :=
  (List.range vs.length).map (fun j =>
    let v := vs.getD j ""
    (v, m.map (fun row => (row.drop (offset sz vs j)).take (sz v))))

/-- `total_derivatives` once the couplings of the request are known.
    `cpl`: the (sorted) minimal couplings; `res`: `(residual, state)` pairs. -/
def totalDerivatives (jac : String → String → Option Mat) (sz : String → Nat) (mode : Mode)
    (fs vs cpl : List String) (res : List (String × String)) :
    Option (List (String × List (String × Mat))) :=
  let cplRes := cpl ++ res.map (·.1)
  let cplStates := cpl ++ res.map (·.2)
  let nVars := dim sz vs
  let nFuns := dim sz fs
  let nRes := dim sz cplRes
  let dresDx := assemble jac sz true cplRes vs
  let dresDy := assemble jac sz true cplRes cplStates
  let dfunDx := fun f => assemble jac sz false [f] vs
  let dfunDy := fun f => assemble jac sz false [f] cplStates
  let out :=
    match resolveMode mode nVars nFuns with
    | .adjoint => adjointMode fs nVars nRes dresDx dresDy dfunDx dfunDy
    | _ => directMode fs nVars nRes dresDx dresDy dfunDx dfunDy
  out.map (fun l => l.map (fun (f, m) => (f, splitJac sz vs m)))

/-! ### Sizes of the differentiation variables (`compute_sizes`, round 3) -/

/-- Number of columns of a Jacobian block (`shape[1]`). -/
def width (m : Mat) : Nat := (m.headD []).length

/-- `JacobianAssembly.compute_sizes` for one differentiation variable `v`.
    `held`: the Jacobian blocks `((f, x), M)` the disciplines hold after their linearization, in
    discipline order; `values`: the current input values `(name, value)` of the disciplines, in
    discipline order.  The size is the number of columns of the first block with respect to `v`;
    when no discipline has been linearized with respect to `v` (no requested function depends on it)
    it is the length of the current VALUE of `v`.  The grammar defaults are not an argument. -/
def variableSize (held : List ((String × String) × Mat)) (values : List (String × List Rat))
    (v : String) : Option Nat :=
  match held.find? (fun b => b.1.2 == v) with
  | some b => some (width b.2)
  | none => (values.find? (fun e => e.1 == v)).map (fun e => e.2.length)

/-! ### Exact rescaling of the variables (units)

The same coupled system expressed in the variables `v' = w(v) · v` (`w(v) ≠ 0`, in the harness
powers of two `2^-45 … 2^45`): every partial Jacobian block `∂f/∂v` is multiplied by `w f / w v`.
Nothing in `JacobianAssembly` / `CoupledSystem` depends on the absolute size of the entries: the
model runs the very same `totalDerivatives` on the rescaled blocks (driver field `E=`). -/

/-- `2^n`. -/
def pow2Nat : Nat → Rat
  | 0 => 1
  | n + 1 => 2 * pow2Nat n

/-- `2^e` for an integer exponent. -/
def pow2 (e : Int) : Rat :=
  if 0 ≤ e then pow2Nat e.toNat else 1 / pow2Nat (-e).toNat

def scaleMat (c : Rat) (m : Mat) : Mat := m.map (fun row => row.map (fun x => c * x))

/-- The disciplines' partial Jacobians in the rescaled variables. -/
def scaledJac (w : String → Rat) (jac : String → String → Option Mat) : String → String → Option Mat :=
  fun f v => (jac f v).map (scaleMat (w f / w v))

/-- The weights given by a table of exponents (`1` for a variable that is not rescaled). -/
def weightOf (es : List (String × Int)) : String → Rat :=
  fun n => match es.find? (fun p => p.1 == n) with | some p => pow2 p.2 | none => 1

end GV.C07

/-! ### Couplings needed by a request (`traverse_add_diff_io_mda`, `_compute_diff_ios_and_couplings`) -/

namespace GV.C07

/-- A discipline seen by the coupling structure: its input and output grammars
    (a state variable is an input and an output, a residual is an output). -/
structure Disc where
  name : String
  ins : List String
  outs : List String
  deriving Repr

def inter (a b : List String) : List String := a.filter (fun x => b.contains x)

def union (a b : List String) : List String := a ++ b.filter (fun x => !a.contains x)

def diffL (a b : List String) : List String := a.filter (fun x => !b.contains x)

/-- Insertion sort of names (Python's `sorted` on distinct strings). -/
def insertSorted (x : String) : List String → List String
  | [] => [x]
  | y :: l => if x < y then x :: y :: l else if x = y then y :: l else y :: insertSorted x l

def sortNames (l : List String) : List String := l.foldr insertSorted []

section graph
variable (ds : List Disc)

/-- `DependencyGraph`: an edge `i → j` (`i ≠ j`) when an output of `i` is an input of `j`. -/
def edgeIO (a b : Disc) : List String := inter a.outs b.ins

def hasEdge (i j : Nat) : Bool :=
  i != j && match ds[i]?, ds[j]? with
    | some a, some b => !(edgeIO a b).isEmpty
    | _, _ => false

/-- Nodes reachable from a set of nodes along the edges (`n` rounds suffice for `n` nodes). -/
def reachFrom (edge : Nat → Nat → Bool) (n : Nat) (start : List Nat) : List Nat :=
  (List.range n).foldl (fun acc _ =>
    acc ++ (List.range n).filter (fun j => !acc.contains j && acc.any (fun i => edge i j))) start

/-- `is_self_coupled`: an output is also an input, states excluded. -/
def selfCoupled (states : List String) (d : Disc) : Bool :=
  !(diffL (inter d.ins d.outs) states).isEmpty

/-- The strongly coupled group of discipline `i` (its strongly connected component), as indices. -/
def sccOf (i : Nat) : List Nat :=
  let n := ds.length
  let fwd := reachFrom (hasEdge ds) n [i]
  let bwd := reachFrom (fun a b => hasEdge ds b a) n [i]
  (List.range n).filter (fun j => fwd.contains j && bwd.contains j)

/-- Is discipline `i` in a group solved by an MDA (cycle of ≥ 2 disciplines, or self-coupled)? -/
def isStrong (states : List String) (i : Nat) : Bool :=
  (sccOf ds i).length > 1 || match ds[i]? with | some d => selfCoupled states d | none => false

/-- `strong_couplings`: per group, inputs of the group that are outputs of the group. -/
def strongCouplings (states : List String) : List String :=
  (List.range ds.length).foldl (fun acc i =>
    if isStrong ds states i then
      let grp := (sccOf ds i).filterMap (fun j => ds[j]?)
      union acc (inter (grp.flatMap (·.ins)) (grp.flatMap (·.outs)))
    else acc) []

/-- `all_couplings`: inputs of disciplines that are outputs of disciplines. -/
def allCouplings : List String :=
  inter (ds.foldl (fun acc d => union acc d.ins) []) (ds.foldl (fun acc d => union acc d.outs) [])

/-- `_replace_strongly_coupled`: the reduced disciplines; a strong group becomes one node whose
    inputs lose the strong couplings *of the group* (those of the other groups remain
    dependencies).  A group is represented once, by its smallest index. -/
def reduced (states : List String) : List (Disc × List Nat) :=
  let sc := strongCouplings ds states
  (List.range ds.length).filterMap (fun i =>
    match ds[i]? with
    | none => none
    | some d =>
      if isStrong ds states i then
        let grp := sccOf ds i
        if grp.head? = some i then
          let members := grp.filterMap (fun j => ds[j]?)
          let outs := members.foldl (fun acc m => union acc m.outs) []
          -- only the group's own strong couplings stop being dependencies of the group
          some (⟨"grp" ++ toString i,
                 diffL (members.foldl (fun acc m => union acc m.ins) []) (inter sc outs),
                 outs⟩, grp)
        else none
      else some (d, [i]))

end graph

/-- `traverse_add_diff_io` on the reduced graph followed by the expansion of the strong groups and
    the addition of states and residuals: the names (inputs and outputs) recorded in
    `diff_ios_merged`, then `∩ all_couplings − states` (`_compute_diff_ios_and_couplings`). -/
def minimalCouplings (ds : List Disc) (res : List (String × String))
    (variables functions : List String) : List String :=
  let states := res.map (·.2)
  let red := reduced ds states
  let rd := red.map (·.1)
  let n := rd.length
  let sc := strongCouplings ds states
  let edge := hasEdge rd
  let inSrc := (List.range n).filter (fun i => match rd[i]? with
    | some d => !(inter variables d.ins).isEmpty | none => false)
  let outSrc := (List.range n).filter (fun i => match rd[i]? with
    | some d => !(inter functions d.outs).isEmpty | none => false)
  let fwd := reachFrom edge n inSrc
  let bwd := reachFrom (fun a b => edge b a) n outSrc
  -- direct traversal: every edge whose origin is reachable from an input source
  let dIns (k : Nat) : List String := (List.range n).flatMap (fun u =>
    if fwd.contains u && edge u k then match rd[u]?, rd[k]? with
      | some a, some b => edgeIO a b | _, _ => [] else [])
  let dOuts (k : Nat) : List String := if fwd.contains k then (List.range n).flatMap (fun v =>
    if edge k v then match rd[k]?, rd[v]? with
      | some a, some b => edgeIO a b | _, _ => [] else []) else []
  let dMem (k : Nat) : Bool := !(dIns k).isEmpty || !(dOuts k).isEmpty
  -- reverse traversal: every edge whose destination reaches an output source
  let rOuts (k : Nat) : List String := (List.range n).flatMap (fun v =>
    if bwd.contains v && edge k v then match rd[k]?, rd[v]? with
      | some a, some b => edgeIO a b | _, _ => [] else [])
  let rIns (k : Nat) : List String := if bwd.contains k then (List.range n).flatMap (fun u =>
    if edge u k then match rd[u]?, rd[k]? with
      | some a, some b => edgeIO a b | _, _ => [] else []) else []
  let rMem (k : Nat) : Bool := !(rIns k).isEmpty || !(rOuts k).isEmpty
  let merged : List (Nat × List String × List String) := (List.range n).filterMap (fun k =>
    match rd[k]? with
    | none => none
    | some d =>
      let initIn := inter variables d.ins
      let initOut := inter functions d.outs
      let both := dMem k && rMem k
      let mi := if both then inter (dIns k) (rIns k) else []
      let mo := if both then inter (dOuts k) (rOuts k) else []
      let mi2 := if both && !mo.isEmpty then union mi initIn else mi
      let mo2 := if both && !mi.isEmpty then union mo initOut else mo
      let special := !initIn.isEmpty && !initOut.isEmpty
      let mi3 := if special then union mi2 initIn else mi2
      let mo3 := if special then union mo2 initOut else mo2
      if both || special then some (k, mi3, mo3) else none)
  let names := merged.flatMap (fun (k, mi, mo) =>
    match red[k]? with
    | none => []
    | some (rdisc, members) =>
      let base := union mi mo
      if members.length > 1 || members.any (isStrong ds states) then
        let groupSc := inter sc rdisc.outs
        base ++ members.flatMap (fun j => match ds[j]? with
          | some m => inter (union (union mi mo) groupSc) (union m.ins m.outs)
          | none => [])
      else base)
  sortNames (diffL (inter (allCouplings ds) names) states)

end GV.C07
