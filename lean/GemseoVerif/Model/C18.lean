/-
C18 — executable model: surrogate models are consistent with their own predictions and data.

Part 1. `Expr`: the expression language of the one-line NumPy formulas
        `RBFRegressor.RBFDerivatives.der_*` (+ − × ÷ √ exp log, integer powers, constants, variables,
        comparisons used as 0/1 factors), a symbolic differentiator `Expr.diff` (proved correct in
        `Analysis/C18Expr.lean`), evaluation in `Float` (driver, rounded stream) and in `Rat`
        (driver, exact stream; `none` where the value is not rational).
Part 2. Transformers as maps with Jacobians (fitted scalers = affine maps, linear reductions,
        pipelines), their fitting rules (`Scaler`, `MinMaxScaler` and `StandardScaler` incl. the
        constant-feature branches), the regressor wrapper `predict = T_out⁻¹ ∘ g ∘ T_in` with the
        Jacobian product of `transform_jacobian`, linear and polynomial regression (monomial table and
        the derivative table built by `PolynomialRegressor._predict_jacobian`), the RBF network and
        the splitting of a Jacobian over variable names (surrogate discipline).
        Everything in part 2 is polymorphic in the number type `α` (only `+ - * / 0 1` are used):
        the driver runs it at `Rat`, the theorems are about the same definitions over a field / ℝ.
Vectors are functions `Nat → α` with an explicit dimension, matrices `Nat → Nat → α`.
-/
import GemseoVerif.Model.Common

namespace GV.C18

/-! ## Part 1 — expressions -/

/-- Expressions over variables `var i`. In the generated kernel formulas:
    `var 0 = input_data` (one component of `x - c`), `var 1 = norm_input_data`, `var 2 = eps`,
    `var 3 = cls.TOL`. `gt a b` is the NumPy comparison `a > b` used as a 0/1 factor. -/
inductive Expr where
  | const : Rat → Expr
  | var : Nat → Expr
  | add : Expr → Expr → Expr
  | sub : Expr → Expr → Expr
  | mul : Expr → Expr → Expr
  | div : Expr → Expr → Expr
  | neg : Expr → Expr
  | sqrt : Expr → Expr
  | exp : Expr → Expr
  | log : Expr → Expr
  | pow : Expr → Nat → Expr
  | gt : Expr → Expr → Expr
  deriving Repr, Inhabited

namespace Expr

/-- Symbolic derivative with respect to `var 0` (all other variables are parameters).
    `gt` nodes are piecewise constant: their derivative is `0` (the correctness theorem excludes
    them: `Expr.ok` is false on `gt`). -/
def diff : Expr → Expr
  | const _ => const 0
  | var 0 => const 1
  | var (_ + 1) => const 0
  | add a b => add a.diff b.diff
  | sub a b => sub a.diff b.diff
  | mul a b => add (mul a.diff b) (mul a b.diff)
  | div a b => div (sub (mul a.diff b) (mul a b.diff)) (mul b b)
  | neg a => neg a.diff
  | sqrt a => div a.diff (mul (const 2) (sqrt a))
  | exp a => mul a.diff (exp a)
  | log a => div a.diff a
  | pow _ 0 => const 0
  | pow a (n + 1) => mul (mul (const ((n + 1 : Nat) : Rat)) (pow a n)) a.diff
  | gt _ _ => const 0

def ratToFloat (r : Rat) : Float := Float.ofInt r.num / Float.ofNat r.den

/-- Evaluation in IEEE doubles (rounded stream of the driver). -/
def evF (ρ : Nat → Float) : Expr → Float
  | const c => ratToFloat c
  | var i => ρ i
  | add a b => a.evF ρ + b.evF ρ
  | sub a b => a.evF ρ - b.evF ρ
  | mul a b => a.evF ρ * b.evF ρ
  | div a b => a.evF ρ / b.evF ρ
  | neg a => -(a.evF ρ)
  | sqrt a => Float.sqrt (a.evF ρ)
  | exp a => Float.exp (a.evF ρ)
  | log a => Float.log (a.evF ρ)
  | pow a n => Float.pow (a.evF ρ) (Float.ofNat n)
  | gt a b => if a.evF ρ > b.evF ρ then 1.0 else 0.0

/-- Square root of a rational that is a perfect square. -/
def ratSqrt? (q : Rat) : Option Rat :=
  if q < 0 then none else
  let n := q.num.toNat
  let d := q.den
  let sn := Nat.sqrt n
  let sd := Nat.sqrt d
  if sn * sn = n ∧ sd * sd = d then some ((sn : Rat) / (sd : Rat)) else none

def ratPow (q : Rat) : Nat → Rat
  | 0 => 1
  | n + 1 => ratPow q n * q

/-- Exact evaluation; `none` when a value is not rational (or a division by zero occurs). -/
def evQ (ρ : Nat → Rat) : Expr → Option Rat
  | const c => some c
  | var i => some (ρ i)
  | add a b => do let x ← a.evQ ρ; let y ← b.evQ ρ; pure (x + y)
  | sub a b => do let x ← a.evQ ρ; let y ← b.evQ ρ; pure (x - y)
  | mul a b => do let x ← a.evQ ρ; let y ← b.evQ ρ; pure (x * y)
  | div a b => do
      let x ← a.evQ ρ; let y ← b.evQ ρ
      if y = 0 then none else pure (x / y)
  | neg a => do let x ← a.evQ ρ; pure (-x)
  | sqrt a => do let x ← a.evQ ρ; ratSqrt? x
  | exp a => do let x ← a.evQ ρ; if x = 0 then pure 1 else none
  | log a => do let x ← a.evQ ρ; if x = 1 then pure 0 else none
  | pow a n => do let x ← a.evQ ρ; pure (ratPow x n)
  | gt a b => do let x ← a.evQ ρ; let y ← b.evQ ρ; pure (if x > y then 1 else 0)

end Expr

/-! ### The kernels of `scipy.interpolate.Rbf` (`_h_*`) as expressions of `var 1 = r`, `var 2 = eps`

`epsilon` scales `r` for the multiquadric, inverse multiquadric and Gaussian kernels only. -/

namespace Phi
open Expr

/-- `(1.0/self.epsilon*r)**2` -/
def scaledSq : Expr := pow (mul (div (const 1) (var 2)) (var 1)) 2
def multiquadric : Expr := sqrt (add scaledSq (const 1))
def inverse_multiquadric : Expr := div (const 1) (sqrt (add scaledSq (const 1)))
def gaussian : Expr := exp (neg scaledSq)
def linear : Expr := var 1
def cubic : Expr := pow (var 1) 3
def quintic : Expr := pow (var 1) 5
/-- `xlogy(r**2, r)` for `r > 0` -/
def thin_plate : Expr := mul (pow (var 1) 2) (log (var 1))

end Phi

def phiExpr : String → Option Expr
  | "multiquadric" => some Phi.multiquadric
  | "inverse_multiquadric" => some Phi.inverse_multiquadric
  | "gaussian" => some Phi.gaussian
  | "linear" => some Phi.linear
  | "cubic" => some Phi.cubic
  | "quintic" => some Phi.quintic
  | "thin_plate" => some Phi.thin_plate
  | _ => none

/-! ### The kernel along one coordinate: `t ↦ φ(√((t − c)² + s))`

`var 0 = t`, `var 1 = c`, `var 2 = s` (sum of the squares of the other coordinates of `x − c`),
`var 3 = eps`. For the three kernels in `r²` the square root is simplified away (`(√q)² = q`), so
that their slices are differentiable at the centre too. -/

namespace Slice
open Expr

/-- `q = (t − c)² + s = ‖x − c‖²` -/
def q : Expr := add (pow (sub (var 0) (var 1)) 2) (var 2)
/-- `r = ‖x − c‖` -/
def r : Expr := sqrt q
/-- `(r/eps)² + 1` -/
def w : Expr := add (div q (pow (var 3) 2)) (const 1)
def multiquadric : Expr := sqrt w
def inverse_multiquadric : Expr := div (const 1) (sqrt w)
def gaussian : Expr := exp (neg (div q (pow (var 3) 2)))
def linear : Expr := r
def cubic : Expr := pow r 3
def quintic : Expr := pow r 5
def thin_plate : Expr := mul (pow r 2) (log r)

end Slice

def sliceExpr : String → Option Expr
  | "multiquadric" => some Slice.multiquadric
  | "inverse_multiquadric" => some Slice.inverse_multiquadric
  | "gaussian" => some Slice.gaussian
  | "linear" => some Slice.linear
  | "cubic" => some Slice.cubic
  | "quintic" => some Slice.quintic
  | "thin_plate" => some Slice.thin_plate
  | _ => none

end GV.C18
