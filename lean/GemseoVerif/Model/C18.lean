/-
C18 — executable model: surrogate models are consistent with their own predictions and data.

Part 1. `Expr`: the expression language of the one-line NumPy formulas
        `RBFRegressor.RBFDerivatives.der_*` (+ − × ÷ √ exp log, integer powers, constants, variables,
        comparisons used as 0/1 factors), a symbolic differentiator `Expr.diff` (proved correct in
        `Analysis/C18Expr.lean`), evaluation in `Float` (driver, rounded stream) and in `Rat`
        (driver, exact stream; `none` where the value is not rational).
Part 2. Transformers as maps with Jacobians (fitted scalers = affine maps, linear reductions,
        pipelines), their fitting rules (`Scaler`, `MinMaxScaler` and `StandardScaler` incl. the
        constant-feature branches), the regressor wrapper `predict = T_out⁻¹ ∘ g ∘ T_in` with the
        Jacobian product of `transform_jacobian`, linear and polynomial regression (monomial table and
        the derivative table built by `PolynomialRegressor._predict_jacobian`), the RBF network and
        the splitting of a Jacobian over variable names (surrogate discipline).
        Everything in part 2 is polymorphic in the number type `α` (only `+ - * / 0 1` are used):
        the driver runs it at `Rat`, the theorems are about the same definitions over a field / ℝ.
Vectors are functions `Nat → α` with an explicit dimension, matrices `Nat → Nat → α`.
-/
import GemseoVerif.Model.Common

namespace GV.C18

/-! ## Part 1 — expressions -/

/-- Expressions over variables `var i`. In the generated kernel formulas:
    `var 0 = input_data` (one component of `x - c`), `var 1 = norm_input_data`, `var 2 = eps`,
    `var 3 = cls.TOL`. `gt a b` is the NumPy comparison `a > b` used as a 0/1 factor. -/
inductive Expr where
  | const : Rat → Expr
  | var : Nat → Expr
  | add : Expr → Expr → Expr
  | sub : Expr → Expr → Expr
  | mul : Expr → Expr → Expr
  | div : Expr → Expr → Expr
  | neg : Expr → Expr
  | sqrt : Expr → Expr
  | exp : Expr → Expr
  | log : Expr → Expr
  | pow : Expr → Nat → Expr
  | gt : Expr → Expr → Expr
  deriving Repr, Inhabited

namespace Expr

/-- Symbolic derivative with respect to `var 0` (all other variables are parameters).
    `gt` nodes are piecewise constant: their derivative is `0` (the correctness theorem excludes
    them: `Expr.ok` is false on `gt`). -/
def diff : Expr → Expr
  | const _ => const 0
  | var 0 => const 1
  | var (_ + 1) => const 0
  | add a b => add a.diff b.diff
  | sub a b => sub a.diff b.diff
  | mul a b => add (mul a.diff b) (mul a b.diff)
  | div a b => div (sub (mul a.diff b) (mul a b.diff)) (mul b b)
  | neg a => neg a.diff
  | sqrt a => div a.diff (mul (const 2) (sqrt a))
  | exp a => mul a.diff (exp a)
  | log a => div a.diff a
  | pow _ 0 => const 0
  | pow a (n + 1) => mul (mul (const ((n + 1 : Nat) : Rat)) (pow a n)) a.diff
  | gt _ _ => const 0

def ratToFloat (r : Rat) : Float := Float.ofInt r.num / Float.ofNat r.den

/-- Evaluation in IEEE doubles (rounded stream of the driver). -/
def evF (ρ : Nat → Float) : Expr → Float
  | const c => ratToFloat c
  | var i => ρ i
  | add a b => a.evF ρ + b.evF ρ
  | sub a b => a.evF ρ - b.evF ρ
  | mul a b => a.evF ρ * b.evF ρ
  | div a b => a.evF ρ / b.evF ρ
  | neg a => -(a.evF ρ)
  | sqrt a => Float.sqrt (a.evF ρ)
  | exp a => Float.exp (a.evF ρ)
  | log a => Float.log (a.evF ρ)
  | pow a n => Float.pow (a.evF ρ) (Float.ofNat n)
  | gt a b => if a.evF ρ > b.evF ρ then 1.0 else 0.0

/-- Square root of a rational that is a perfect square. -/
def ratSqrt? (q : Rat) : Option Rat :=
  if q < 0 then none else
  let n := q.num.toNat
  let d := q.den
  let sn := Nat.sqrt n
  let sd := Nat.sqrt d
  if sn * sn = n ∧ sd * sd = d then some ((sn : Rat) / (sd : Rat)) else none

def ratPow (q : Rat) : Nat → Rat
  | 0 => 1
  | n + 1 => ratPow q n * q

/-- Exact evaluation; `none` when a value is not rational (or a division by zero occurs). -/
def evQ (ρ : Nat → Rat) : Expr → Option Rat
  | const c => some c
  | var i => some (ρ i)
  | add a b => do let x ← a.evQ ρ; let y ← b.evQ ρ; pure (x + y)
  | sub a b => do let x ← a.evQ ρ; let y ← b.evQ ρ; pure (x - y)
  | mul a b => do let x ← a.evQ ρ; let y ← b.evQ ρ; pure (x * y)
  | div a b => do
      let x ← a.evQ ρ; let y ← b.evQ ρ
      if y = 0 then none else pure (x / y)
  | neg a => do let x ← a.evQ ρ; pure (-x)
  | sqrt a => do let x ← a.evQ ρ; ratSqrt? x
  | exp a => do let x ← a.evQ ρ; if x = 0 then pure 1 else none
  | log a => do let x ← a.evQ ρ; if x = 1 then pure 0 else none
  | pow a n => do let x ← a.evQ ρ; pure (ratPow x n)
  | gt a b => do let x ← a.evQ ρ; let y ← b.evQ ρ; pure (if x > y then 1 else 0)

end Expr

/-! ### The kernels of `scipy.interpolate.Rbf` (`_h_*`) as expressions of `var 1 = r`, `var 2 = eps`

`epsilon` scales `r` for the multiquadric, inverse multiquadric and Gaussian kernels only. -/

namespace Phi
open Expr

/-- `(1.0/self.epsilon*r)**2` -/
def scaledSq : Expr := pow (mul (div (const 1) (var 2)) (var 1)) 2
def multiquadric : Expr := sqrt (add scaledSq (const 1))
def inverse_multiquadric : Expr := div (const 1) (sqrt (add scaledSq (const 1)))
def gaussian : Expr := exp (neg scaledSq)
def linear : Expr := var 1
def cubic : Expr := pow (var 1) 3
def quintic : Expr := pow (var 1) 5
/-- `xlogy(r**2, r)` for `r > 0` -/
def thin_plate : Expr := mul (pow (var 1) 2) (log (var 1))

end Phi

def phiExpr : String → Option Expr
  | "multiquadric" => some Phi.multiquadric
  | "inverse_multiquadric" => some Phi.inverse_multiquadric
  | "gaussian" => some Phi.gaussian
  | "linear" => some Phi.linear
  | "cubic" => some Phi.cubic
  | "quintic" => some Phi.quintic
  | "thin_plate" => some Phi.thin_plate
  | _ => none

/-! ### The kernel along one coordinate: `t ↦ φ(√((t − c)² + s))`

`var 0 = t`, `var 1 = c`, `var 2 = s` (sum of the squares of the other coordinates of `x − c`),
`var 3 = eps`. For the three kernels in `r²` the square root is simplified away (`(√q)² = q`), so
that their slices are differentiable at the centre too. -/

namespace Slice
open Expr

/-- `q = (t − c)² + s = ‖x − c‖²` -/
def q : Expr := add (pow (sub (var 0) (var 1)) 2) (var 2)
/-- `r = ‖x − c‖` -/
def r : Expr := sqrt q
/-- `(r/eps)² + 1` -/
def w : Expr := add (div q (pow (var 3) 2)) (const 1)
def multiquadric : Expr := sqrt w
def inverse_multiquadric : Expr := div (const 1) (sqrt w)
def gaussian : Expr := exp (neg (div q (pow (var 3) 2)))
def linear : Expr := r
def cubic : Expr := pow r 3
def quintic : Expr := pow r 5
def thin_plate : Expr := mul (pow r 2) (log r)

end Slice

def sliceExpr : String → Option Expr
  | "multiquadric" => some Slice.multiquadric
  | "inverse_multiquadric" => some Slice.inverse_multiquadric
  | "gaussian" => some Slice.gaussian
  | "linear" => some Slice.linear
  | "cubic" => some Slice.cubic
  | "quintic" => some Slice.quintic
  | "thin_plate" => some Slice.thin_plate
  | _ => none

/-! ## Part 2 — transformers, regressors, surrogate discipline (polymorphic in the number type) -/

section Num

variable {α : Type} [Add α] [Sub α] [Mul α] [Div α] [Neg α] [OfNat α 0] [OfNat α 1]

/-- `f 0 + … + f (n-1)` -/
def sumTo : Nat → (Nat → α) → α
  | 0, _ => 0
  | n + 1, f => sumTo n f + f n

/-- `f 0 * … * f (n-1)` -/
def prodTo : Nat → (Nat → α) → α
  | 0, _ => 1
  | n + 1, f => prodTo n f * f n

def npow (x : α) : Nat → α
  | 0 => 1
  | n + 1 => npow x n * x

/-- The number `n` in `α`. -/
def ofNat' (n : Nat) : α := sumTo n (fun _ => 1)

abbrev Vec (α : Type) := Nat → α
abbrev Mat (α : Type) := Nat → Nat → α

/-- `A v` with `n` columns. -/
def mulVec (n : Nat) (A : Mat α) (v : Vec α) : Vec α := fun i => sumTo n (fun j => A i j * v j)

/-- `A B` with inner dimension `n`. -/
def matMul (n : Nat) (A B : Mat α) : Mat α := fun i j => sumTo n (fun l => A i l * B l j)

def idMat : Mat α := fun i j => if i = j then 1 else 0
def diagMat (c : Vec α) : Mat α := fun i j => if i = j then c i else 0
def transpose (A : Mat α) : Mat α := fun i j => A j i

/-- A fitted transformer.
* `affine d coef off`: `Scaler`/`MinMaxScaler`/`StandardScaler` after `fit`:
  `transform = data @ diag(coef) + off`, `inverse_transform = (data - off) @ diag(1/coef)`.
* `linear d k mean W`: a linear reduction such as `PCA` (`W` is `k × d`):
  `transform = (data - mean) @ W.T`, `inverse_transform = data @ W + mean`. -/
inductive Step (α : Type) where
  | affine (d : Nat) (coef off : Vec α)
  | linear (d k : Nat) (mean : Vec α) (W : Mat α)

namespace Step

def inDim : Step α → Nat
  | affine d _ _ => d
  | linear d _ _ _ => d

def outDim : Step α → Nat
  | affine d _ _ => d
  | linear _ k _ _ => k

def transform : Step α → Vec α → Vec α
  | affine _ c o, x => fun i => x i * c i + o i
  | linear d _ μ W, x => fun i => sumTo d (fun j => W i j * (x j - μ j))

def inverse : Step α → Vec α → Vec α
  | affine _ c o, y => fun i => (y i - o i) * (1 / c i)
  | linear _ k μ W, y => fun j => sumTo k (fun i => y i * W i j) + μ j

/-- `compute_jacobian` (constant for these maps). -/
def jac : Step α → Mat α
  | affine _ c _ => diagMat c
  | linear _ _ _ W => W

/-- `compute_jacobian_inverse`. -/
def jacInv : Step α → Mat α
  | affine _ c _ => diagMat (fun i => 1 / c i)
  | linear _ _ _ W => transpose W

end Step

/-- `Pipeline.transform`: the steps in order. -/
def pipeTransform (steps : List (Step α)) (x : Vec α) : Vec α :=
  steps.foldl (fun v s => s.transform v) x

/-- `Pipeline.inverse_transform`: the inverse steps in reverse order. -/
def pipeInverse (steps : List (Step α)) (y : Vec α) : Vec α :=
  steps.reverse.foldl (fun v s => s.inverse v) y

/-- `Pipeline.compute_jacobian`: `jacobian = eye; for t: jacobian = t.compute_jacobian(data) @ jacobian`. -/
def pipeJac (steps : List (Step α)) : Mat α :=
  steps.foldl (fun J s => matMul s.inDim s.jac J) idMat

/-- `Pipeline.compute_jacobian_inverse`: same with the inverse steps in reverse order. -/
def pipeJacInv (steps : List (Step α)) : Mat α :=
  steps.reverse.foldl (fun J s => matMul s.outDim s.jacInv J) idMat

def pipeOutDim (steps : List (Step α)) (d : Nat) : Nat :=
  steps.foldl (fun _ s => s.outDim) d

/-! ### Fitting rules of the scalers -/

section Fit
variable [LT α] [DecidableRel (α := α) (· < ·)] [DecidableEq α]

def minOf (n : Nat) (f : Nat → α) : α :=
  match n with
  | 0 => 0
  | n + 1 => (List.range n).foldl (fun m i => if f (i + 1) < m then f (i + 1) else m) (f 0)

def maxOf (n : Nat) (f : Nat → α) : α :=
  match n with
  | 0 => 0
  | n + 1 => (List.range n).foldl (fun m i => if m < f (i + 1) then f (i + 1) else m) (f 0)

def half : α := (1 : α) / ((1 : α) + 1)

/-- `MinMaxScaler._fit` for one feature with minimum `lb` and range `delta`. -/
def minMaxCoef (lb delta : α) : α :=
  if delta = 0 then 1 / (if lb = 0 then 1 else lb) else 1 / delta

def minMaxOff (lb delta : α) : α :=
  if delta = 0 then (if lb = 0 then half else -half) else -lb / delta

/-- `StandardScaler._fit` for one feature with mean `mean` and standard deviation `std`. -/
def standardCoef (mean std : α) : α :=
  if std = 0 then 1 / (if mean = 0 then 1 else mean) else 1 / std

def standardOff (mean std : α) : α :=
  if std = 0 then (if mean = 0 then 0 else -1) else -mean / std

/-- `MinMaxScaler.fit` on `n` samples `data s j` of dimension `d`. -/
def fitMinMax (n d : Nat) (data : Nat → Nat → α) : Step α :=
  let lb : Vec α := fun j => minOf n (fun s => data s j)
  let delta : Vec α := fun j => maxOf n (fun s => data s j) - lb j
  Step.affine d (fun j => minMaxCoef (lb j) (delta j)) (fun j => minMaxOff (lb j) (delta j))

def meanOf (n : Nat) (f : Nat → α) : α := sumTo n f / ofNat' n

/-- Population variance (`numpy.std(0) ** 2`). -/
def varOf (n : Nat) (f : Nat → α) : α :=
  let m := meanOf n f
  sumTo n (fun s => (f s - m) * (f s - m)) / ofNat' n

/-- `StandardScaler.fit` given the standard deviations `std j` (the square roots of `varOf`). -/
def fitStandard (n d : Nat) (data : Nat → Nat → α) (std : Vec α) : Step α :=
  let mean : Vec α := fun j => meanOf n (fun s => data s j)
  Step.affine d (fun j => standardCoef (mean j) (std j)) (fun j => standardOff (mean j) (std j))

end Fit

/-! ### Regressor wrapper: `predict = T_out⁻¹ ∘ g ∘ T_in` and `transform_jacobian` -/

/-- `BaseMLSupervisedAlgo.predict` with group transformers `tin` (inputs), `tout` (outputs). -/
def regPredict (tin tout : List (Step α)) (g : Vec α → Vec α) (x : Vec α) : Vec α :=
  pipeInverse tout (g (pipeTransform tin x))

/-- `BaseRegressor.predict_jacobian` (`transform_jacobian`):
    `J_{T_out⁻¹} @ (J_g(T_in x) @ J_{T_in})`; `k` = transformed input dimension,
    `m` = transformed output dimension. -/
def regJac (tin tout : List (Step α)) (k m : Nat) (Jg : Vec α → Mat α) (x : Vec α) : Mat α :=
  matMul m (pipeJacInv tout) (matMul k (Jg (pipeTransform tin x)) (pipeJac tin))

/-- Linear regression `g z = W z + b` (`k` inputs). -/
def linPredict (k : Nat) (W : Mat α) (b : Vec α) (z : Vec α) : Vec α :=
  fun i => sumTo k (fun j => W i j * z j) + b i

/-- `LinearRegressor._predict_jacobian`: the coefficients. -/
def linJac (W : Mat α) : Vec α → Mat α := fun _ => W

/-! ### Polynomial regression -/

/-- The monomial `z^p = Π_j z_j^(p j)` of `k` inputs. -/
def mono (k : Nat) (p : Nat → Nat) (z : Vec α) : α := prodTo k (fun j => npow (z j) (p j))

/-- `PolynomialRegressor._predict`: `Σ_p coef i p * z^(pw p) + b i` over the `P` rows of the table
    `pw` (`PolynomialFeatures.powers_`, without the bias). -/
def polyPredict (P k : Nat) (pw : Nat → Nat → Nat) (coef : Mat α) (b : Vec α) (z : Vec α) : Vec α :=
  fun i => sumTo P (fun p => coef i p * mono k (pw p) z) + b i

/-- Row `p` minus one in column `idx` is the zero row (`mask_zero`). -/
def decIsZero (k : Nat) (pw : Nat → Nat → Nat) (p idx : Nat) : Bool :=
  pw p idx == 1 && (List.range k).all (fun j => j == idx || pw p j == 0)

/-- Row `q` is row `p` minus one in column `idx` (`(powers == dpowers[i]).prod(axis=1) == 1`). -/
def decMatches (k : Nat) (pw : Nat → Nat → Nat) (p q idx : Nat) : Bool :=
  decide (1 ≤ pw p idx) &&
    (List.range k).all (fun j => if j = idx then pw q j + 1 == pw p j else pw q j == pw p j)

/-- `PolynomialRegressor._predict_jacobian`: for each input `idx`, the coefficients
    `powers[:, idx] * coefs` of the differentiated monomials are moved to the row of the table that
    holds the decremented powers (`jac_coefs`), or to the constant term (`jac_intercept`) when the
    decremented row is zero; then `jac_intercept + Σ_q jac_coefs[:, q, idx] * z^(pw q)`. -/
def polyJac (P k : Nat) (pw : Nat → Nat → Nat) (coef : Mat α) (z : Vec α) : Mat α :=
  fun i idx =>
    sumTo P (fun p => if decIsZero k pw p idx then ofNat' (pw p idx) * coef i p else 0)
    + sumTo P (fun q =>
        sumTo P (fun p =>
          if !decIsZero k pw p idx && decMatches k pw p q idx then ofNat' (pw p idx) * coef i p else 0)
        * mono k (pw q) z)

/-! ### Surrogate discipline: projection of the Jacobian onto variable names -/

/-- Offset of the `n`-th variable for the sizes `sizes` (prefix sum). -/
def offsetOf (sizes : List Nat) (n : Nat) : Nat := (sizes.take n).foldl (· + ·) 0

/-- `split_array_to_dict_of_arrays(jacobian, sizes, output_names, input_names)[o][i]`:
    block of the `o`-th output variable and `i`-th input variable. -/
def splitBlock (outSizes inSizes : List Nat) (J : Mat α) (o i : Nat) : Mat α :=
  fun a b => J (offsetOf outSizes o + a) (offsetOf inSizes i + b)

/-- `split_array_to_dict_of_arrays(prediction, sizes, output_names)[o]`. -/
def splitVec (outSizes : List Nat) (v : Vec α) (o : Nat) : Vec α :=
  fun a => v (offsetOf outSizes o + a)

/-! ### Surrogate discipline built with explicit name lists

`SurrogateDiscipline(model, input_names=…, output_names=…)`: the grammars hold the requested names
(a reordering of the model's inputs, any sub-list of the model's outputs in any order) while the model
keeps its own layout. A requested name is given by its position in `model.output_names` /
`model.input_names`; the prediction array and the Jacobian are laid out by the MODEL's names. -/

/-- `execute()[name]` for the `n`-th requested output: the window of the model's prediction that belongs
    to this variable *in the model's layout* (`predict` returns a dictionary split by
    `model.output_names`; the discipline keeps the requested names). -/
def surOutput (outSizes : List Nat) (v : Vec α) (selOut : List Nat) (n : Nat) : Vec α :=
  splitVec outSizes v (selOut.getD n 0)

/-- `linearize()[out][in]` for the `n`-th requested output and the `m`-th requested input. -/
def surBlock (outSizes inSizes : List Nat) (J : Mat α) (selOut selIn : List Nat) (n m : Nat) : Mat α :=
  splitBlock outSizes inSizes J (selOut.getD n 0) (selIn.getD m 0)

/-- The output data of the discipline as one array, in the order of its output grammar. -/
def concatSel (outSizes : List Nat) (v : Vec α) : List Nat → Vec α
  | [] => fun _ => 0
  | o :: rest => fun r =>
      if r < outSizes.getD o 0 then v (offsetOf outSizes o + r)
      else concatSel outSizes v rest (r - outSizes.getD o 0)

/-- Sizes of the requested variables, in the requested order. -/
def selSizes (sizes : List Nat) (sel : List Nat) : List Nat := sel.map (fun o => sizes.getD o 0)

/-! ### Training sessions: the same model object trained several times

`BaseMLSupervisedAlgo.learn(samples, fit_transformers)` can be called again on a trained object
(other samples, new data). `_learn` refits the transformers only when `fit_transformers` is true and
`_fit` always replaces the parameters of the core model; `predict` and `predict_jacobian` read the
parameters in force, nothing else survives a training. The fitting procedures are not modelled: the
fitted transformers and core parameters of every training are inputs. -/

/-- The core model after `_fit`: linear regression (`coef_`, `intercept_`) or polynomial regression
    (monomial table of the refitted `PolynomialFeatures`, coefficients, intercept). -/
inductive Core (α : Type) where
  | lin (W : Mat α) (b : Vec α)
  | poly (P : Nat) (pw : Nat → Nat → Nat) (coef : Mat α) (b : Vec α)

namespace Core

/-- `_predict` on `k` transformed inputs. -/
def predict (k : Nat) : Core α → Vec α → Vec α
  | lin W b => linPredict k W b
  | poly P pw c b => polyPredict P k pw c b

/-- `_predict_jacobian` on `k` transformed inputs: built from the parameters in force at the call. -/
def jac (k : Nat) : Core α → Vec α → Mat α
  | lin W _ => linJac W
  | poly P pw c _ => polyJac P k pw c

end Core

/-- What a supervised model object remembers from its trainings. -/
structure Sess (α : Type) where
  trained : Bool
  tin : List (Step α)
  tout : List (Step α)
  core : Core α

/-- Operations on the object: a training (with the transformers and core parameters this training
    fits) or a query `predict(x)`, `predict_jacobian(x)`. -/
inductive SOp (α : Type) where
  | learn (fitTr : Bool) (tin tout : List (Step α)) (core : Core α)
  | query (x : Vec α)

namespace Sess

/-- `learn(samples, fit_transformers)`. -/
def learn (s : Sess α) (fitTr : Bool) (tin tout : List (Step α)) (core : Core α) : Sess α :=
  { trained := true
    tin := if fitTr then tin else s.tin
    tout := if fitTr then tout else s.tout
    core := core }

/-- `predict` of the object in state `s` (`d` inputs). -/
def predict (s : Sess α) (d : Nat) (x : Vec α) : Vec α :=
  regPredict s.tin s.tout (s.core.predict (pipeOutDim s.tin d)) x

/-- `predict_jacobian` of the object in state `s` (`d` inputs, `dout` outputs). -/
def jacobian (s : Sess α) (d dout : Nat) (x : Vec α) : Mat α :=
  regJac s.tin s.tout (pipeOutDim s.tin d) (pipeOutDim s.tout dout)
    (s.core.jac (pipeOutDim s.tin d)) x

/-- One operation: new state and, for a query, the prediction and the Jacobian. -/
def step (d dout : Nat) (s : Sess α) : SOp α → Sess α × Option (Vec α × Mat α)
  | SOp.learn ft tin tout core => (s.learn ft tin tout core, none)
  | SOp.query x => (s, some (s.predict d x, s.jacobian d dout x))

/-- The state after a history. -/
def run (d dout : Nat) (s : Sess α) (ops : List (SOp α)) : Sess α :=
  ops.foldl (fun s op => (step d dout s op).1) s

/-- The answers of a history, one per operation. -/
def answers (d dout : Nat) : Sess α → List (SOp α) → List (Option (Vec α × Mat α))
  | _, [] => []
  | s, op :: rest => (step d dout s op).2 :: answers d dout (step d dout s op).1 rest

end Sess

/-! ### Mixture of experts: a public attribute selects the formula

`MOERegressor.hard` is a documented public attribute of the model object, initialised from the settings
and free to be assigned by the user after the training. `_predict` passes the value it reads *at the
call* to `classifier.predict_proba(input_data, hard=self.hard)` and sums the local predictions weighted
by these probabilities; `_predict_jacobian` reads the same attribute at the call: hard → the Jacobian of
the local model of the predicted class, soft → `NotImplementedError`. The clustering, the classifier and
the fits of the local models are not modelled: the classifier is the pair of functions it computes, the
local models are their prediction and Jacobian functions (objects of their own, covered by the regressor
theorems). -/

/-- A trained mixture of experts. -/
structure Moe (α : Type) where
  /-- fitted input / output transformers of the mixture -/
  tin : List (Step α)
  tout : List (Step α)
  /-- number of clusters -/
  K : Nat
  /-- `regress_models[c].predict`, `regress_models[c].predict_jacobian` (on the transformed inputs) -/
  expert : Nat → Vec α → Vec α
  expertJac : Nat → Vec α → Mat α
  /-- `classifier.predict` and `classifier.predict_proba(·, hard=False)` -/
  cls : Vec α → Nat
  proba : Vec α → Nat → α
  /-- the CURRENT value of the public attribute `hard` -/
  hard : Bool

/-- Operations on the trained object: the user assigns `hard`, or asks `predict(x)` and
    `predict_jacobian(x)`. -/
inductive MOp (α : Type) where
  | setHard (b : Bool)
  | query (x : Vec α)

namespace Moe

/-- `classifier.predict_proba(z, hard)`: the indicator of the predicted class, or the probabilities. -/
def weights (m : Moe α) (hard : Bool) (z : Vec α) (c : Nat) : α :=
  if hard then (if c = m.cls z then 1 else 0) else m.proba z c

/-- `_predict`: `(probas * local_outputs).sum(axis=1)` with the probabilities selected by the value of
    `hard` read at the call (`k` transformed inputs are not needed: the local models read what they read). -/
def corePredict (m : Moe α) (z : Vec α) : Vec α :=
  fun i => sumTo m.K (fun c => m.weights m.hard z c * m.expert c z i)

/-- `_predict_jacobian_hard`: the Jacobian of the local model of the predicted class. -/
def coreJacHard (m : Moe α) (z : Vec α) : Mat α := m.expertJac (m.cls z) z

/-- `predict`. -/
def predict (m : Moe α) (x : Vec α) : Vec α := regPredict m.tin m.tout m.corePredict x

/-- `predict_jacobian`: dispatches on the value of `hard` read at the call; `none` = the soft formula
    raises `NotImplementedError` (`d` inputs, `dout` outputs). -/
def jacobian (m : Moe α) (d dout : Nat) (x : Vec α) : Option (Mat α) :=
  if m.hard then
    some (regJac m.tin m.tout (pipeOutDim m.tin d) (pipeOutDim m.tout dout) m.coreJacHard x)
  else none

/-- One operation: the new state and, for a query, the prediction and the Jacobian (if offered). -/
def step (d dout : Nat) (m : Moe α) : MOp α → Moe α × Option (Vec α × Option (Mat α))
  | MOp.setHard b => ({ m with hard := b }, none)
  | MOp.query x => (m, some (m.predict x, m.jacobian d dout x))

def run (d dout : Nat) (m : Moe α) (ops : List (MOp α)) : Moe α :=
  ops.foldl (fun m op => (step d dout m op).1) m

def answers (d dout : Nat) : Moe α → List (MOp α) → List (Option (Vec α × Option (Mat α)))
  | _, [] => []
  | m, op :: rest => (step d dout m op).2 :: answers d dout (step d dout m op).1 rest

/-- The value of `hard` after a history: the last assignment, the initial value if there is none. -/
def lastHard (h0 : Bool) : List (MOp α) → Bool
  | [] => h0
  | MOp.setHard b :: rest => lastHard b rest
  | MOp.query _ :: rest => lastHard h0 rest

end Moe

end Num

/-! ### RBF network in `Float` (driver only; the real-analysis statement is in `Analysis/`) -/

def normF (d : Nat) (x c : Nat → Float) : Float :=
  Float.sqrt ((List.range d).foldl (fun acc j => acc + (x j - c j) * (x j - c j)) 0.0)

/-- `Rbf.__call__ + y_average`: `Σ_k w_k φ(‖x − c_k‖) + avg`. -/
def rbfPredictF (phi : Expr) (eps : Float) (n d : Nat) (centres : Nat → Nat → Float)
    (w : Nat → Nat → Float) (avg : Nat → Float) (x : Nat → Float) (i : Nat) : Float :=
  (List.range n).foldl (fun acc k =>
    acc + w k i * phi.evF (fun v => match v with | 1 => normF d x (centres k) | 2 => eps | _ => 0.0)) 0.0
  + avg i

/-- `RBFRegressor._predict_jacobian`: `Σ_k w_k der(x − c_k, ‖x − c_k‖, eps)`. -/
def rbfJacF (der : Expr) (eps tol : Float) (n d : Nat) (centres : Nat → Nat → Float)
    (w : Nat → Nat → Float) (x : Nat → Float) (i j : Nat) : Float :=
  (List.range n).foldl (fun acc k =>
    acc + w k i * der.evF (fun v => match v with
      | 0 => x j - centres k j
      | 1 => normF d x (centres k)
      | 2 => eps
      | _ => tol)) 0.0

end GV.C18
