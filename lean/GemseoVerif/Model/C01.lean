/-
C01 — model of `ProblemFunction` (evaluation of a preprocessed problem function through the
database) on top of the C02 design-space model.  Code anchored:
src/gemseo/algos/problem_function.py (_compute_output[_db[_norm]], _compute_jacobian[_db[_norm]]),
src/gemseo/algos/evaluation_problem.py (_preprocess_function), src/gemseo/algos/database.py (store).

The user's original functions are *parameters*: `val n x` (output vector) and `jac n x`
(Jacobian rows) for a function name `n` and a physical point `x`.
Import-free apart from the C02 model.
-/
import GemseoVerif.Model.C02

namespace GV.C01
open GV.C02

/-- Preprocessing switches (`preprocess_functions`). -/
structure Cfg where
  normalized : Bool   -- is_function_input_normalized
  useDb : Bool        -- use_database
  storeJac : Bool     -- store_jacobian
  roundInts : Bool    -- round_ints (kept only if the space has an integer variable)
  deriving Repr, DecidableEq

abbrev Mat := List (List Rat)

inductive Kind where
  | value | jacobian
  deriving Repr, DecidableEq

/-- Name of a recorded output: the function name, and whether it is its value or its Jacobian
    (`Database.get_gradient_name` prefixes the name with `@`). -/
abbrev OutName := String × Kind

/-- A database entry: the key (physical point) and the recorded outputs, in recording order. -/
structure Entry where
  key : List Rat
  outs : List (OutName × Mat)
  deriving Repr, DecidableEq

/-- A call of an original callable: function, kind, database key of the request, physical point. -/
structure Call where
  name : String
  kind : Kind
  key : List Rat
  point : List Rat
  deriving Repr, DecidableEq

/-- State: the database (insertion order) and the log of calls to the original callables. -/
structure St where
  db : List Entry
  calls : List Call
  deriving Repr

def St.init : St := ⟨[], []⟩

def lookupEntry (db : List Entry) (k : List Rat) : Option Entry := db.find? (fun e => e.key == k)

def lookupOut (db : List Entry) (k : List Rat) (n : OutName) : Option Mat :=
  match lookupEntry db k with
  | none => none
  | some e => (e.outs.find? (fun p => p.1 == n)).map (·.2)

def setOut (outs : List (OutName × Mat)) (n : OutName) (v : Mat) : List (OutName × Mat) :=
  if outs.any (fun p => p.1 == n) then outs.map (fun p => if p.1 == n then (n, v) else p)
  else outs ++ [(n, v)]

/-- `Database.store(key, {n: v})`: update the entry of the key, or append a new entry. -/
def store (db : List Entry) (k : List Rat) (n : OutName) (v : Mat) : List Entry :=
  if db.any (fun e => e.key == k) then
    db.map (fun e => if e.key == k then { e with outs := setOut e.outs n v } else e)
  else db ++ [⟨k, [(n, v)]⟩]

section
variable (ds : DS) (cfg : Cfg) (val : String → List Rat → List Rat) (jac : String → List Rat → Mat)

/-- The integer rounding really applied: `round_ints` is kept only with integer variables. -/
def roundOn : Bool := cfg.roundInts && ds.intMask.any id

/-- Physical point at which the original function is evaluated for the caller's `x`. -/
def phys (x : List Rat) : List Rat :=
  if cfg.normalized then ds.unnormalizeVect true x
  else if roundOn ds cfg then ds.roundVect x else x

/-- Database key used for the caller's `x` (`hashed_xu`). -/
def keyOf (x : List Rat) : List Rat :=
  if cfg.normalized then ds.unnormalizeVect true x else x

/-- Physical point as a function of the database key. -/
def physOfKey (k : List Rat) : List Rat :=
  if cfg.normalized then k else if roundOn ds cfg then ds.roundVect k else k

/-- Jacobian in the caller's coordinates: `normalize_grad` of each row in normalised mode. -/
def jacCaller (n : String) (x : List Rat) : Mat :=
  let j := jac n (phys ds cfg x)
  if cfg.normalized then j.map ds.normalizeGrad else j

/-- Jacobian recorded in the database: `unnormalize_grad` of the caller-side Jacobian in
    normalised mode (physical-space Jacobian, zero on components with `lb = ub`). -/
def jacRecorded (n : String) (x : List Rat) : Mat :=
  if cfg.normalized then (jacCaller ds cfg jac n x).map ds.unnormalizeGrad
  else jacCaller ds cfg jac n x

/-- `evaluate(x)` of a preprocessed function: returns the new state and the output vector. -/
def evalValue (st : St) (n : String) (x : List Rat) : St × List Rat :=
  let p := phys ds cfg x
  let k := keyOf ds cfg x
  if !cfg.useDb then
    ({ st with calls := st.calls ++ [⟨n, .value, k, p⟩] }, val n p)
  else
    match lookupOut st.db k (n, .value) with
    | some [row] => (st, row)
    | _ =>
      let v := val n p
      ({ db := store st.db k (n, .value) [v], calls := st.calls ++ [⟨n, .value, k, p⟩] }, v)

/-- `jac(x)` of a preprocessed function. -/
def evalJac (st : St) (n : String) (x : List Rat) : St × Mat :=
  let p := phys ds cfg x
  let k := keyOf ds cfg x
  if !cfg.useDb then
    ({ st with calls := st.calls ++ [⟨n, .jacobian, k, p⟩] }, jacCaller ds cfg jac n x)
  else
    match lookupOut st.db k (n, .jacobian) with
    | some ju => (st, if cfg.normalized then ju.map ds.normalizeGrad else ju)
    | none =>
      let jn := jacCaller ds cfg jac n x
      let st' : St := { db := if cfg.storeJac then store st.db k (n, .jacobian) (jacRecorded ds cfg jac n x)
                              else st.db,
                        calls := st.calls ++ [⟨n, .jacobian, k, p⟩] }
      (st', jn)

/-- A request of the caller. -/
structure Req where
  name : String
  kind : Kind
  x : List Rat
  deriving Repr

def step (st : St) (r : Req) : St :=
  match r.kind with
  | .value => (evalValue ds cfg val st r.name r.x).1
  | .jacobian => (evalJac ds cfg jac st r.name r.x).1

def run (st : St) (rs : List Req) : St := rs.foldl (step ds cfg val jac) st

end

/-! ### Containers of the user's Jacobian

The user's Jacobian callable returns a dense array or a scipy sparse matrix (CSR, CSC, COO, LIL …).
A sparse matrix is abstracted to its list of stored entries `(row, column, value)` (duplicates add
up in `todense`) and the compressed format it is in; the format only decides what the scipy
attribute `indices` means (column indices for CSR, row indices for CSC, absent for COO).
`_preprocess_function` builds the Jacobian sequence `jac → [to_dense] → normalize_grad`
(`to_dense` is dropped with `support_sparse_jacobian`), `ProblemFunction._compute_jacobian_db_norm`
then applies `unnormalize_grad` to what the sequence returned to get the recorded Jacobian. -/

inductive SpFmt where
  | csr | csc | coo
  deriving Repr, DecidableEq

structure Sparse where
  fmt : SpFmt
  nrows : Nat
  ncols : Nat
  entries : List (Nat × Nat × Rat)
  deriving Repr

/-- Coefficient `(i, j)` of the matrix a sparse container denotes (duplicate entries add up). -/
def Sparse.coef (s : Sparse) (i j : Nat) : Rat :=
  ((s.entries.filter (fun e => e.1 == i && e.2.1 == j)).map (fun e => e.2.2)).sum

/-- `todense()` / `toarray()`. -/
def Sparse.toDense (s : Sparse) : Mat :=
  (List.range s.nrows).map (fun i => (List.range s.ncols).map (fun j => s.coef i j))

/-- Sparse branch of `DesignSpace.unnormalize_vect` / `normalize_vect` on a gradient: the container
    is brought to CSR (whose `indices` are the column indices), then `data *= factor[indices]`. -/
def Sparse.scaleCols (f : Nat → Rat) (s : Sparse) : Sparse :=
  { s with fmt := .csr, entries := s.entries.map (fun e => (e.1, e.2.1, e.2.2 * f e.2.1)) }

/-- What the user's Jacobian callable returns, and what the Jacobian sequence returns. -/
inductive UserJac where
  | dense (m : Mat)
  | sparse (s : Sparse)
  deriving Repr

/-- The matrix a container denotes. -/
def UserJac.view : UserJac → Mat
  | .dense m => m
  | .sparse s => s.toDense

/-- `_norm_factor[j]` on the normalisable components, 1 elsewhere: the factor `normalize_grad`
    applies to column `j`. -/
def colFactor (ds : DS) (j : Nat) : Rat :=
  match ds.normMask[j]?, ds.flatLb[j]?, ds.flatUb[j]? with
  | some true, some l, some u => scaleOf l u
  | _, _, _ => 1

/-- `_norm_factor_inv[j]` on the normalisable components, 1 elsewhere (`unnormalize_grad`). -/
def colFactorInv (ds : DS) (j : Nat) : Rat :=
  match ds.normMask[j]?, ds.flatLb[j]?, ds.flatUb[j]? with
  | some true, some l, some u => invScaleOf l u
  | _, _, _ => 1

/-- The Jacobian evaluation sequence after the user's callable:
    `[to_dense unless support_sparse_jacobian] → [normalize_grad with normalized inputs]`. -/
def jacSeq (ds : DS) (normalized supportSparse : Bool) (u : UserJac) : UserJac :=
  match u with
  | .dense m => .dense (if normalized then m.map ds.normalizeGrad else m)
  | .sparse s =>
    if supportSparse then .sparse (if normalized then s.scaleCols (colFactor ds) else s)
    else .dense (if normalized then s.toDense.map ds.normalizeGrad else s.toDense)

/-- `unnormalize_grad` of what the sequence returned (normalized mode): the recorded Jacobian. -/
def recSeq (ds : DS) (normalized : Bool) (jn : UserJac) : UserJac :=
  if normalized then
    match jn with
    | .dense m => .dense (m.map ds.unnormalizeGrad)
    | .sparse s => .sparse (s.scaleCols (colFactorInv ds))
  else jn

section
variable (ds : DS) (cfg : Cfg) (ssj : Bool) (val : String → List Rat → List Rat)
  (ujac : String → List Rat → UserJac)

/-- Container-level Jacobian in the caller's coordinates (what the sequence returns, viewed as a matrix). -/
def jacCallerC (n : String) (x : List Rat) : Mat :=
  (jacSeq ds cfg.normalized ssj (ujac n (phys ds cfg x))).view

/-- Container-level recorded Jacobian. -/
def jacRecordedC (n : String) (x : List Rat) : Mat :=
  (recSeq ds cfg.normalized (jacSeq ds cfg.normalized ssj (ujac n (phys ds cfg x)))).view

/-- `jac(x)` of a preprocessed function whose user Jacobian comes in a container. -/
def evalJacC (st : St) (n : String) (x : List Rat) : St × Mat :=
  let p := phys ds cfg x
  let k := keyOf ds cfg x
  if !cfg.useDb then
    ({ st with calls := st.calls ++ [⟨n, .jacobian, k, p⟩] }, jacCallerC ds cfg ssj ujac n x)
  else
    match lookupOut st.db k (n, .jacobian) with
    | some ju => (st, if cfg.normalized then ju.map ds.normalizeGrad else ju)
    | none =>
      let jn := jacCallerC ds cfg ssj ujac n x
      let st' : St := { db := if cfg.storeJac then store st.db k (n, .jacobian) (jacRecordedC ds cfg ssj ujac n x)
                              else st.db,
                        calls := st.calls ++ [⟨n, .jacobian, k, p⟩] }
      (st', jn)

def stepC (st : St) (r : Req) : St :=
  match r.kind with
  | .value => (evalValue ds cfg val st r.name r.x).1
  | .jacobian => (evalJacC ds cfg ssj ujac st r.name r.x).1

def runC (st : St) (rs : List Req) : St := rs.foldl (stepC ds cfg ssj val ujac) st

end

/-! ### Function roles

`EvaluationProblem.preprocess_functions(cfg)` wraps, with `_preprocess_function`, every function of
every role: the constraints, the observables, the observables of the new-iteration list (the same
user functions as the observables, wrapped a second time) and the objective (the attribute named in
`_function_names`).  Every role receives the caller's switches; the only role-dependent switch is
`is_function_input_normalized`, forced to `False` for the new-iteration list (the database listener
calls these functions with the physical point of the new entry).  All the wrapped functions share
the one database of the problem. -/

inductive Role where
  | objective | constraint | observable | newIterObservable
  deriving Repr, DecidableEq

/-- The switches `preprocess_functions` hands to `_preprocess_function` for a function of a role. -/
def roleCfg (cfg : Cfg) : Role → Cfg
  | .newIterObservable => { cfg with normalized := false }
  | _ => cfg

/-- A request made through the accessor of a role (`problem.objective`, `problem.constraints[i]`,
    `problem.observables[i]`, `problem.new_iter_observables[i]`). -/
structure RReq where
  role : Role
  req : Req
  deriving Repr

section
variable (ds : DS) (cfg : Cfg) (ssj : Bool) (val : String → List Rat → List Rat)
  (ujac : String → List Rat → UserJac)

def stepR (st : St) (r : RReq) : St := stepC ds (roleCfg cfg r.role) ssj val ujac st r.req

def runR (st : St) (rs : List RReq) : St := rs.foldl (stepR ds cfg ssj val ujac) st

end

/-- Edit prefix: the design space of a session is the result of a history of public edits. -/
def spaceOf (tol : Rat) (ops : List Op) : DS := DS.run tol DS.empty ops

/-! ### Polynomial function family used by the driver -/

/-- One output row `c + a·x + q·x²` (component-wise square). -/
structure Row where
  c : Rat
  a : List Rat
  q : List Rat
  deriving Repr

def dot (a b : List Rat) : Rat := (List.zipWith (· * ·) a b).sum

def Row.val (r : Row) (x : List Rat) : Rat := r.c + dot r.a x + dot r.q (x.map (fun t => t * t))

def Row.grad (r : Row) (x : List Rat) : List Rat :=
  GV.C02.zipWith3 (fun ai qi xi => ai + 2 * qi * xi) r.a r.q x

structure Fn where
  name : String
  rows : List Row
  deriving Repr

def fnVal (fs : List Fn) (n : String) (x : List Rat) : List Rat :=
  match fs.find? (·.name == n) with
  | some f => f.rows.map (·.val x)
  | none => []

def fnJac (fs : List Fn) (n : String) (x : List Rat) : Mat :=
  match fs.find? (·.name == n) with
  | some f => f.rows.map (·.grad x)
  | none => []

/-- The polynomial Jacobian in the container format the harness function returns: the non-zero
    coefficients as stored entries (row-major for CSR/COO, column-major for CSC). -/
def fnJacC (fs : List Fn) (fmts : List (String × Option SpFmt)) (dim : Nat) (n : String) (x : List Rat) : UserJac :=
  let m := fnJac fs n x
  match (fmts.find? (·.1 == n)).bind (·.2) with
  | none => .dense m
  | some fmt =>
    let rowMajor : List (Nat × Nat × Rat) :=
      (m.zipIdx.map (fun (row, i) => (row.zipIdx.filter (fun (v, _) => v != 0)).map (fun (v, j) => (i, j, v)))).flatten
    let entries := match fmt with
      | .csc => (List.range dim).flatMap (fun j => rowMajor.filter (fun e => e.2.1 == j))
      | _ => rowMajor
    .sparse ⟨fmt, m.length, dim, entries⟩

/-- `MDOLinearFunction.normalize`: coefficients scaled by the range on normalisable components,
    value at zero = original function at the shift (lower bounds on normalisable components). -/
def linNormalize (ds : DS) (r : Row) : Row :=
  let scale := GV.C02.zipWith3 (fun n l u => if n then scaleOf l u else (1 : Rat)) ds.normMask ds.flatLb ds.flatUb
  let shift := List.zipWith (fun n (l : Option Rat) => if n then l.getD 0 else (0 : Rat)) ds.normMask ds.flatLb
  { c := r.c + dot r.a shift, a := List.zipWith (· * ·) r.a scale, q := r.a.map (fun _ => 0) }

end GV.C01
