/-
C09 — model of the Jacobian accumulation of GEMSEO's composite processes.

Code anchored:
  src/gemseo/core/chains/chain.py            MDOChain.reverse_chain_rule / _compute_jacobian /
                                             _compute_diff_in_outs (`_last_diff_inouts`)
  src/gemseo/core/derivatives/chain_rule.py  traverse_add_diff_io (two-way BFS, merge, special case)
  src/gemseo/core/chains/parallel_chain.py   MDOParallelChain._compute_jacobian (merge + zero fill)
  src/gemseo/core/chains/additive_chain.py   MDOAdditiveChain._compute_jacobian (sum of blocks)
  src/gemseo/core/discipline/discipline.py   linearize (restriction to the differentiated
                                             inputs/outputs), add_differentiated_inputs/outputs
                                             (cumulative sets), _init_jacobian (zero filling)

Blocks are elements of a family `β o i` ("the type of ∂o/∂i"): the code multiplies
`jac[out][m] @ disc.jac[m][i]` and adds blocks with the same (out, i) only, which is exactly what
the dependent typing expresses.  The driver instantiates `β` with lists of lists of `Rat`, the
theorems with Mathlib matrices `Matrix (Fin (sz o)) (Fin (sz i)) R` (and any semiring).

Import-free (core Lean only) so that the driver can run it.
-/
import GemseoVerif.Model.Common

namespace GV.C09

/-- Operations on Jacobian blocks (`numpy`/`scipy.sparse`/`JacobianOperator` `+` and `@`). -/
class BlockOps {V : Type} (β : V → V → Type) where
  add : {o i : V} → β o i → β o i → β o i
  mul : {o m i : V} → β o m → β m i → β o i

section Core
variable {V : Type} [DecidableEq V] {β : V → V → Type}

/-! ### Python dictionaries `{input_name: block}` of one output and `{out: {in: block}}` -/

/-- `jac[o]`: a dictionary from input names to blocks; `none` = key absent.
    (A structure, not a bare function, so that the compiled driver evaluates an update once, when
    the dictionary is built, and not at every later lookup.) -/
structure Row (β : V → V → Type) (o : V) where
  get : (v : V) → Option (β o v)

def Row.empty {o : V} : Row β o := ⟨fun _ => none⟩

/-- `del row[k]` / `row.pop(k)`. -/
def Row.erase {o : V} (r : Row β o) (k : V) : Row β o := ⟨fun v => if v = k then none else r.get v⟩

/-- `row[k] = x`. -/
def Row.set {o : V} (r : Row β o) (k : V) (x : β o k) : Row β o :=
  ⟨fun v => if h : k = v then some (h ▸ x) else r.get v⟩

/-- `row[k] += x` if the key is present, `row[k] = x` otherwise. -/
def Row.addAt [BlockOps β] {o : V} (r : Row β o) (k : V) (x : β o k) : Row β o :=
  match r.get k with
  | some old => r.set k (BlockOps.add old x)
  | none => r.set k x

/-- `discipline.jac` after `discipline.linearize`: the keys (in dictionary order) and the blocks. -/
structure DJac (β : V → V → Type) where
  rows : List V
  cols : V → List V
  val : (w v : V) → β w v

/-- A discipline as the chain sees it: grammars and the Jacobian dictionary it returns. -/
structure Disc (β : V → V → Type) where
  ins : List V
  outs : List V
  jac : DJac β

/-- `copy_jacs(discipline.jac[o])` (empty dictionary when the key is absent). -/
def DJac.row (j : DJac β) (o : V) : Row β o :=
  ⟨fun v => if o ∈ j.rows ∧ v ∈ j.cols o then some (j.val o v) else none⟩

/-- The deletion loop of `Discipline.linearize(compute_all_jacobians=False)`: only the
    differentiated outputs × differentiated inputs are kept; with no differentiated input or no
    differentiated output nothing is computed. -/
def DJac.restrict (j : DJac β) (dIn dOut : List V) : DJac β :=
  if dIn.isEmpty || dOut.isEmpty then { rows := [], cols := fun _ => [], val := j.val }
  else { rows := j.rows.filter (fun w => decide (w ∈ dOut)),
         cols := fun w => (j.cols w).filter (fun v => decide (v ∈ dIn)),
         val := j.val }

/-! ### `MDOChain.reverse_chain_rule` -/

/-- PINNED TREE (before the repair, kept for the Lean witnesses of the defect): inner loop
    `for new_in, new_jac in discipline.jac[input_name].items()` with the
    `new_in in self.jac[output_name] and input_name != new_in` branch. -/
def innerOld [BlockOps β] {o : V} (j : DJac β) (w : V) (curr : β o w) :
    List V → Row β o → Row β o
  | [], r => r
  | v :: vs, r =>
    let loc := BlockOps.mul curr (j.val w v)
    match r.get v with
    | some old =>
      if w ≠ v then innerOld j w curr vs (r.set v (BlockOps.add old loc))
      else innerOld j w curr vs (r.set v loc)
    | none => innerOld j w curr vs (r.set v loc)

/-- PINNED TREE: one output of one `reverse_chain_rule` call: the dictionary is mutated in place,
    in the order `sorted(set(jac[o]) & set(discipline.jac))`; composed keys are never removed. -/
def stepRowOld [BlockOps β] {o : V} (vars : List V) (d : Disc β) (r : Row β o) : Row β o :=
  let common := vars.filter (fun w => decide (w ∈ d.jac.rows) && (r.get w).isSome)
  common.foldl (fun acc w =>
    match acc.get w with
    | some curr => innerOld d.jac w curr (d.jac.cols w) acc
    | none => acc) r

def stepOptOld [BlockOps β] {o : V} (vars : List V) (d : Disc β) : Option (Row β o) → Option (Row β o)
  | some r => some (stepRowOld vars d r)
  | none => if o ∈ d.jac.rows then some (d.jac.row o) else none

/-- REPAIRED TREE: inner loop: `row[new_in] (+)= curr @ new_jac`. -/
def inner [BlockOps β] {o : V} (j : DJac β) (w : V) (curr : β o w) :
    List V → Row β o → Row β o
  | [], r => r
  | v :: vs, r => inner j w curr vs (r.addAt v (BlockOps.mul curr (j.val w v)))

/-- The names `sorted(set(row) & set(discipline.io.output_grammar))`. `vars` is the sorted list
    of all the variable names. -/
def consumedKeys {o : V} (vars : List V) (outs : List V) (r : Row β o) : List V :=
  vars.filter (fun w => decide (w ∈ outs) && (r.get w).isSome)

/-- REPAIRED TREE: one output of one `reverse_chain_rule` call.  The derivatives with respect to
    the variables the discipline computes are popped from the dictionary (the discipline
    overwrites these variables) and replaced by their composition with the discipline's
    partials. -/
def stepRow [BlockOps β] {o : V} (vars : List V) (d : Disc β) (r : Row β o) : Row β o :=
  let consumed := consumedKeys vars d.outs r
  let r0 := consumed.foldl Row.erase r
  consumed.foldl (fun acc w =>
    match r.get w with
    | some curr => if w ∈ d.jac.rows then inner d.jac w curr (d.jac.cols w) acc else acc
    | none => acc) r0

/-- REPAIRED TREE: `if output_name in self.jac: … elif output_name in discipline.io.output_grammar:
    self.jac[output_name] = copy(discipline.jac.get(output_name, {}))`. -/
def stepOpt [BlockOps β] {o : V} (vars : List V) (d : Disc β) : Option (Row β o) → Option (Row β o)
  | some r => some (stepRow vars d r)
  | none => if o ∈ d.outs then some (d.jac.row o) else none

/-- `MDOChain._compute_jacobian`, one requested output: the disciplines are visited from the last
    one to the first one. -/
def chainRow [BlockOps β] (vars : List V) (ds : List (Disc β)) (o : V) : Option (Row β o) :=
  ds.foldr (fun d acc => stepOpt vars d acc) none

def chainRowOld [BlockOps β] (vars : List V) (ds : List (Disc β)) (o : V) : Option (Row β o) :=
  ds.foldr (fun d acc => stepOptOld vars d acc) none

/-- Final pruning/zero-filling (`_init_jacobian(fill_missing_keys=True)`): the block returned for
    a requested pair. `fill o x` is the zero block of shape `|o| × |x|`. -/
def finishRow {o : V} (fill : (o x : V) → β o x) (row : Option (Row β o)) (x : V) : β o x :=
  match row with
  | some r => (match r.get x with | some b => b | none => fill o x)
  | none => fill o x

def chainJac [BlockOps β] (vars : List V) (fill : (o x : V) → β o x) (ds : List (Disc β))
    (o x : V) : β o x :=
  finishRow fill (chainRow vars ds o) x

def chainJacOld [BlockOps β] (vars : List V) (fill : (o x : V) → β o x) (ds : List (Disc β))
    (o x : V) : β o x :=
  finishRow fill (chainRowOld vars ds o) x

/-! ### `MDOParallelChain._compute_jacobian` and `MDOAdditiveChain._compute_jacobian` -/

/-- PINNED TREE: `chain_jacobian.update(output_jacobian)` for every discipline in order: a later
    writer of the same output overrides the common keys only. -/
def parRowOld (ds : List (Disc β)) (o : V) : Row β o :=
  ds.foldl (fun acc d => ⟨fun v => match (d.jac.row o).get v with | some b => some b | none => acc.get v⟩) Row.empty

/-- REPAIRED TREE: the row of an output is the row of the last discipline computing it. -/
def parRow (ds : List (Disc β)) (o : V) : Option (Row β o) :=
  ds.foldl (fun acc d => if o ∈ d.outs then some (d.jac.row o) else acc) none

def parJac (fill : (o x : V) → β o x) (ds : List (Disc β)) (o x : V) : β o x :=
  finishRow fill (parRow ds o) x

def parJacOld (fill : (o x : V) → β o x) (ds : List (Disc β)) (o x : V) : β o x :=
  finishRow fill (some (parRowOld ds o)) x

/-- REPAIRED TREE, an output to sum: the sum of the blocks of the disciplines having one; `none`
    (then zero-filled) when no discipline has a block for the pair. -/
def addStep [BlockOps β] (o x : V) (acc : Option (β o x)) (d : Disc β) : Option (β o x) :=
  match (d.jac.row o).get x with
  | some b => (match acc with | some a => some (BlockOps.add a b) | none => some b)
  | none => acc

def addBlock [BlockOps β] (ds : List (Disc β)) (o x : V) : Option (β o x) :=
  ds.foldl (addStep o x) none

def addJac [BlockOps β] (fill : (o x : V) → β o x) (sums : List V) (ds : List (Disc β))
    (o x : V) : β o x :=
  if o ∈ sums then (match addBlock ds o x with | some b => b | none => fill o x)
  else parJac fill ds o x

end Core

/-! ### `traverse_add_diff_io`: which partials each discipline is asked for -/

section Traverse
variable {V : Type} [DecidableEq V]

/-- Grammars of the disciplines of a chain: (input names, output names). -/
abbrev DiscIO (V : Type) := List V × List V

def inter (a b : List V) : List V := a.filter (fun v => decide (v ∈ b))
def union (a b : List V) : List V := a ++ b.filter (fun v => !decide (v ∈ a))

/-- `DependencyGraph`: edge `i → j` (i ≠ j) labelled `outputs_i ∩ inputs_j` when not empty. -/
def edgeIO (ios : List (DiscIO V)) (i j : Nat) : List V :=
  if i = j then [] else inter (ios.getD i ([], [])).2 (ios.getD j ([], [])).1

def hasEdge (ios : List (DiscIO V)) (i j : Nat) : Bool := !(edgeIO ios i j).isEmpty

/-- One relaxation round of a reachability computation. -/
def expand (n : Nat) (next : Nat → Nat → Bool) (s : List Nat) : List Nat :=
  s ++ (List.range n).filter (fun j => !decide (j ∈ s) && s.any (fun i => next i j))

/-- Nodes reachable from `srcs` (reflexively) along `next`; `fuel` rounds. -/
def reach (n : Nat) (next : Nat → Nat → Bool) : Nat → List Nat → List Nat
  | 0, s => s
  | fuel + 1, s => reach n next fuel (expand n next s)

/-- `_initialize_add_diff_io`. -/
def initIO (ios : List (DiscIO V)) (xs os : List V) (k : Nat) : DiscIO V :=
  (inter xs (ios.getD k ([], [])).1, inter os (ios.getD k ([], [])).2)

def unions (ls : List (List V)) : List V := ls.foldl union []

/-- Disciplines having a requested input (`input_sources`). -/
def srcIn (ios : List (DiscIO V)) (xs os : List V) : List Nat :=
  (List.range ios.length).filter (fun i => !(initIO ios xs os i).1.isEmpty)

/-- Disciplines having a requested output (`output_sources`). -/
def srcOut (ios : List (DiscIO V)) (xs os : List V) : List Nat :=
  (List.range ios.length).filter (fun i => !(initIO ios xs os i).2.isEmpty)

/-- Disciplines reachable from an input source (tails of the edges `edge_bfs` yields). -/
def reachF (ios : List (DiscIO V)) (xs os : List V) : List Nat :=
  reach ios.length (hasEdge ios) ios.length (srcIn ios xs os)

/-- Disciplines from which an output source is reachable (reverse view). -/
def reachB (ios : List (DiscIO V)) (xs os : List V) : List Nat :=
  reach ios.length (fun a b => hasEdge ios b a) ios.length (srcOut ios xs os)

/-- Direct BFS: every edge `i → k` with `i` reachable from an input source adds its couplings to the
    inputs of `k`… -/
def dirIn (ios : List (DiscIO V)) (xs os : List V) (k : Nat) : List V :=
  unions ((List.range ios.length).map
    (fun i => if decide (i ∈ reachF ios xs os) then edgeIO ios i k else []))

/-- …and every edge `k → j` with `k` reachable adds its couplings to the outputs of `k`. -/
def dirOut (ios : List (DiscIO V)) (xs os : List V) (k : Nat) : List V :=
  if decide (k ∈ reachF ios xs os) then
    unions ((List.range ios.length).map (fun j => edgeIO ios k j))
  else []

/-- Reverse BFS: every edge `i → k` with `k` co-reachable from an output source. -/
def revIn (ios : List (DiscIO V)) (xs os : List V) (k : Nat) : List V :=
  if decide (k ∈ reachB ios xs os) then
    unions ((List.range ios.length).map (fun i => edgeIO ios i k))
  else []

def revOut (ios : List (DiscIO V)) (xs os : List V) (k : Nat) : List V :=
  unions ((List.range ios.length).map
    (fun j => if decide (j ∈ reachB ios xs os) then edgeIO ios k j else []))

/-- The differentiated (inputs, outputs) `traverse_add_diff_io` adds to discipline `k` for the
    chain request `(xs, os)`: `_merge_diff_ios` (intersection of the two sweeps + the special case of
    the initial step) then `_merge_diff_io_special`. -/
def traverseSelect (ios : List (DiscIO V)) (xs os : List V) (k : Nat) : DiscIO V :=
  let mIn := inter (dirIn ios xs os k) (revIn ios xs os k)
  let mOut := inter (dirOut ios xs os k) (revOut ios xs os k)
  let ini := initIO ios xs os k
  let in1 := if !mOut.isEmpty then union mIn ini.1 else mIn
  let out1 := if !mIn.isEmpty then union mOut ini.2 else mOut
  if decide (k ∈ srcIn ios xs os) && decide (k ∈ srcOut ios xs os) then
    (union in1 ini.1, union out1 ini.2)
  else (in1, out1)

/-- Same set of names (Python `set` equality of `_last_diff_inouts`). -/
def sameSet (a b : List V) : Bool := a.all (fun v => decide (v ∈ b)) && b.all (fun v => decide (v ∈ a))

/-- State of an `MDOChain` between two linearizations. -/
structure ChainState (V : Type) where
  last : Option (List V × List V)   -- `_last_diff_inouts`
  sel : List (DiscIO V)                 -- cumulative differentiated (inputs, outputs) of every discipline

instance : Inhabited (ChainState V) := ⟨⟨none, []⟩⟩

def ChainState.init (n : Nat) : ChainState V := ⟨none, List.replicate n ([], [])⟩

/-- `_compute_diff_in_outs`: traverse unless the request is the one of the previous call; the
    selections are added (`add_differentiated_inputs/outputs` take unions). Returns the new state
    and, per discipline, what was added by this call. -/
def ChainState.sameAsLast (st : ChainState V) (xs os : List V) : Bool :=
  match st.last with
  | some (lx, lo) => sameSet lx xs && sameSet lo os
  | none => false

def ChainState.request (ios : List (DiscIO V)) (st : ChainState V) (xs os : List V) :
    ChainState V × List (DiscIO V) :=
  if st.sameAsLast xs os then (st, List.replicate ios.length ([], []))
  else
    let added := (List.range ios.length).map (traverseSelect ios xs os)
    let sel := (st.sel.zip added).map (fun p => (union p.1.1 p.2.1, union p.1.2 p.2.2))
    (⟨some (xs, os), sel⟩, added)

end Traverse

/-! ### At which data the disciplines of a chain are linearized

`MDOChain._compute_jacobian` composes the Jacobians `discipline.jac`, and a discipline computes its
Jacobian at the data it currently holds (`discipline.io.data`).  What these data are depends on the
history of the process: which points were executed, which executions were served by a cache (of the
chain: then the disciplines are not executed; of a discipline), which variables a discipline
overwrites.  This section models that state:

  src/gemseo/core/discipline/base_discipline.py  BaseDiscipline.execute (cache look-up, `_execute`,
                                                 cache storage), caches (none / one entry / all entries)
  src/gemseo/core/discipline/discipline.py       Discipline.linearize: optional execution, then
                                                 `self.io.data.update(input_data)`
  src/gemseo/core/chains/chain.py                MDOChain._execute, the forward sweep of
                                                 MDOChain._compute_jacobian and the
                                                 `discipline.linearize(input_data, execute=False)` of
                                                 reverse_chain_rule
  src/gemseo/mda/mda_chain.py                    MDAChain._execute / _compute_jacobian
                                                 (chain_linearize=True): a cached wrapper of its MDOChain

Data are total environments `V → D` over an arbitrary type of values `D`; only the values of the
names of the grammars are ever looked at.  A discipline is what the chain sees of it when it
executes it: grammars, cache policy and the function `f` its `_execute` computes (for a sub-process:
the function its own `_execute` computes). -/

section Eval
variable {V D : Type} [DecidableEq V] [DecidableEq D]

abbrev Env (V D : Type) := V → D

/-- `a.update({v: b[v] for v in names})`. -/
def Env.over (a b : Env V D) (names : List V) : Env V D := fun v => if v ∈ names then b v else a v

/-- Equality of the values of the names `names` (the comparison of a cache look-up). -/
def agreeOn (names : List V) (a b : Env V D) : Bool := names.all (fun v => decide (a v = b v))

/-- `CacheType.NONE`, `SimpleCache` (last evaluation), `MemoryFullCache`/`HDF5Cache` (all). -/
inductive CacheKind where
  | none | simple | full
  deriving DecidableEq, Repr, Inhabited

structure EDisc (V D : Type) where
  ins : List V
  outs : List V
  f : Env V D → Env V D
  cache : CacheKind

/-- State of a discipline: `io.data` and the entries (input data, output data) of its cache. -/
structure EState (V D : Type) where
  data : Env V D
  entries : List (Env V D × Env V D)

/-- `cache[input_data].outputs`: the output data of the first entry with these input values. -/
def cacheFind (ins : List V) (entries : List (Env V D × Env V D)) (inp : Env V D) :
    Option (Env V D) :=
  (entries.find? (fun e => agreeOn ins e.1 inp)).map (·.2)

/-- `cache.cache_outputs(input_data, output_data)` (only called after a miss). -/
def cacheStore (k : CacheKind) (entries : List (Env V D × Env V D)) (inp out : Env V D) :
    List (Env V D × Env V D) :=
  match k with
  | .none => []
  | .simple => [(inp, out)]
  | .full => (inp, out) :: entries

/-- `BaseDiscipline.execute(input_data)`: on a cache hit the data are restored from the cache and
    `_execute` is not called; otherwise `io.data` is initialized with the input data, `_execute`
    adds the output data and the evaluation is stored. -/
def EDisc.exec (d : EDisc V D) (st : EState V D) (inp : Env V D) : EState V D :=
  match cacheFind d.ins st.entries inp with
  | some out => { st with data := Env.over inp out d.outs }
  | none =>
    let out := d.f inp
    { data := Env.over inp out d.outs, entries := cacheStore d.cache st.entries inp out }

/-- `Discipline.linearize(input_data, execute=…)` up to the call of `_compute_jacobian`: optional
    execution, then `self.io.data.update(input_data)` (an input that is also an output gets its
    input value back).  The Jacobian is computed at the resulting `data`. -/
def EDisc.prepLin (d : EDisc V D) (st : EState V D) (inp : Env V D) (execute : Bool) : EState V D :=
  let st := if execute then d.exec st inp else st
  { st with data := Env.over st.data inp d.ins }

/-- Input names of an `MDOChain` (`_initialize_grammars`): the names a discipline reads and that no
    earlier discipline computes. -/
def chainIns : List (EDisc V D) → List V
  | [] => []
  | d :: ds => d.ins ++ (chainIns ds).filter (fun v => !decide (v ∈ d.outs))

/-- Output names of an `MDOChain`: everything a discipline computes. -/
def chainOuts (ds : List (EDisc V D)) : List V := ds.flatMap (·.outs)

/-- State of a chain: its own data and cache, the states of its disciplines. -/
structure ChState (V D : Type) where
  own : EState V D
  kids : List (EState V D)

/-- `MDOChain._execute`: `for discipline in self.disciplines:
    self.io.data.update(discipline.execute(self.io.data))`. -/
def runKids : List (EDisc V D) → List (EState V D) → Env V D → List (EState V D) × Env V D
  | d :: ds, s :: ss, data =>
    let s' := d.exec s data
    let r := runKids ds ss (Env.over data s'.data (d.ins ++ d.outs))
    (s' :: r.1, r.2)
  | _, _, data => ([], data)

structure EChain (V D : Type) where
  kids : List (EDisc V D)
  cache : CacheKind

/-- `MDOChain.execute(x)` (`BaseDiscipline.execute` of the chain): on a hit in the cache of the
    chain the disciplines are NOT executed and keep the data of their last execution. -/
def EChain.exec (c : EChain V D) (st : ChState V D) (x : Env V D) : ChState V D :=
  match cacheFind (chainIns c.kids) st.own.entries x with
  | some out => { st with own := { st.own with data := Env.over x out (chainOuts c.kids) } }
  | none =>
    let r := runKids c.kids st.kids x
    { own := { data := r.2, entries := cacheStore c.cache st.own.entries x r.2 }, kids := r.1 }

/-- REPAIRED `MDOChain._compute_jacobian`, the part that decides where the disciplines are
    linearized: forward sweep `discipline_input_data = prepare_input_data(data);
    data.update(discipline.execute(discipline_input_data))`, then (reverse pass)
    `discipline.linearize(discipline_input_data, execute=False)`.  Returns the new states and, for
    every discipline, the data at which its Jacobian is computed. -/
def sweep : List (EDisc V D) → List (EState V D) → Env V D → List (EState V D) × List (Env V D)
  | d :: ds, s :: ss, data =>
    let s1 := d.exec s data
    let r := sweep ds ss (Env.over data s1.data (d.ins ++ d.outs))
    let s2 := d.prepLin s1 data false
    (s2 :: r.1, s2.data :: r.2)
  | _, _, _ => ([], [])

/-- PINNED `reverse_chain_rule`: `discipline.linearize(discipline.io.get_input_data(),
    execute=False)`: every discipline is linearized at the data it currently holds. -/
def sweepOld : List (EDisc V D) → List (EState V D) → List (EState V D) × List (Env V D)
  | d :: ds, s :: ss =>
    let r := sweepOld ds ss
    let s2 := d.prepLin s s.data false
    (s2 :: r.1, s2.data :: r.2)
  | _, _ => ([], [])

/-- `MDOChain.linearize(x, execute=…)` up to the accumulation: optional execution (possibly served
    by the cache of the chain), `self.io.data.update(x)`, then the sweep from the input data of the
    chain. -/
def EChain.lin (c : EChain V D) (st : ChState V D) (x : Env V D) (execute : Bool) :
    ChState V D × List (Env V D) :=
  let st := if execute then c.exec st x else st
  let own : EState V D := { st.own with data := Env.over st.own.data x (chainIns c.kids) }
  let r := sweep c.kids st.kids own.data
  ({ own := own, kids := r.1 }, r.2)

def EChain.linOld (c : EChain V D) (st : ChState V D) (x : Env V D) (execute : Bool) :
    ChState V D × List (Env V D) :=
  let st := if execute then c.exec st x else st
  let own : EState V D := { st.own with data := Env.over st.own.data x (chainIns c.kids) }
  let r := sweepOld c.kids st.kids
  ({ own := own, kids := r.1 }, r.2)

/-- The data the disciplines receive when the chain is executed from `data`: the SPECIFICATION of
    the linearization points (no state, no cache). -/
def specPoints : List (EDisc V D) → Env V D → List (Env V D)
  | [], _ => []
  | d :: ds, data => data :: specPoints ds (Env.over data (d.f data) d.outs)

/-- The function a chain computes (its data after the sequential execution from `data`). -/
def chainFun : List (EDisc V D) → Env V D → Env V D
  | [], data => data
  | d :: ds, data => chainFun ds (Env.over data (d.f data) d.outs)

/-- Operations of a history on one chain object. -/
inductive EOp (V D : Type) where
  | exec (x : Env V D)
  | lin (x : Env V D) (execute : Bool)

def EChain.step (c : EChain V D) (st : ChState V D) : EOp V D → ChState V D
  | .exec x => c.exec st x
  | .lin x e => (c.lin st x e).1

def EChain.run (c : EChain V D) (st : ChState V D) (ops : List (EOp V D)) : ChState V D :=
  ops.foldl c.step st

/-- A fresh chain: empty caches, arbitrary data. -/
def ChState.fresh (n : Nat) (d0 : Env V D) : ChState V D :=
  ⟨⟨d0, []⟩, List.replicate n ⟨d0, []⟩⟩

/-! `MDAChain(chain_linearize=True)`: a discipline with its own cache whose `_execute` executes its
    `mdo_chain` and whose `_compute_jacobian` is `self.mdo_chain.linearize(inputs, execute=…)`
    (`execute=True` in the code; the theorem holds for both values). -/

structure MState (V D : Type) where
  own : EState V D
  inner : ChState V D

def mdaExec (c : EChain V D) (wcache : CacheKind) (st : MState V D) (x : Env V D) : MState V D :=
  match cacheFind (chainIns c.kids) st.own.entries x with
  | some out => { st with own := { st.own with data := Env.over x out (chainOuts c.kids) } }
  | none =>
    let inner := c.exec st.inner x
    { own := { data := inner.own.data, entries := cacheStore wcache st.own.entries x inner.own.data },
      inner := inner }

def mdaLin (c : EChain V D) (wcache : CacheKind) (st : MState V D) (x : Env V D)
    (execute innerExecute : Bool) : MState V D × List (Env V D) :=
  let st := if execute then mdaExec c wcache st x else st
  let own : EState V D := { st.own with data := Env.over st.own.data x (chainIns c.kids) }
  let r := c.lin st.inner own.data innerExecute
  ({ own := own, inner := r.1 }, r.2)

def mdaStep (c : EChain V D) (wcache : CacheKind) (st : MState V D) : EOp V D → MState V D
  | .exec x => mdaExec c wcache st x
  | .lin x e => (mdaLin c wcache st x e true).1

def mdaRun (c : EChain V D) (wcache : CacheKind) (st : MState V D) (ops : List (EOp V D)) :
    MState V D :=
  ops.foldl (mdaStep c wcache) st

def MState.fresh (n : Nat) (d0 : Env V D) : MState V D := ⟨⟨d0, []⟩, ChState.fresh n d0⟩

end Eval

/-! ### Concrete blocks of the driver: matrices as lists of rows over `Rat` -/

abbrev Mat := List (List Rat)

def Mat.zeros (m n : Nat) : Mat := List.replicate m (List.replicate n 0)

def Mat.add (a b : Mat) : Mat := List.zipWith (fun r s => List.zipWith (· + ·) r s) a b

def dot (r c : List Rat) : Rat := (List.zipWith (· * ·) r c).foldl (· + ·) 0

def Mat.col (b : Mat) (j : Nat) : List Rat := b.map (fun r => r.getD j 0)

/-- `a @ b`; `n` is the number of columns of `b` (needed when `b` has no row). -/
def Mat.mulN (n : Nat) (a b : Mat) : Mat :=
  a.map (fun r => (List.range n).map (fun j => dot r (b.col j)))

def Mat.ncols (b : Mat) : Nat := match b with | [] => 0 | r :: _ => r.length

def Mat.mul (a b : Mat) : Mat := Mat.mulN b.ncols a b

instance : BlockOps (fun (_ _ : String) => Mat) where
  add := Mat.add
  mul := Mat.mul

/-! ### `Discipline._init_jacobian`: the sizes of the zero blocks are read in the CURRENT data

`_init_jacobian(input_names, output_names, fill_missing_keys=True)` — called by every composite process at
the end of its `_compute_jacobian` — asks the data converters for the sizes of the requested names *in
`self.io.data`* (`compute_names_to_sizes(names, self.io.data)`) at every call and adds, for every requested
pair without a block, `zeros((size[o], size[x]))`.  Grammars do not fix sizes: the sizes are data of the
input point, a later point may be made of vectors of other lengths.  Nothing is kept between two calls. -/

section Sizes
variable {V : Type} [DecidableEq V]

/-- `compute_names_to_sizes(names, data)`: the size of a named variable is the length of its current
    value. -/
def namesToSizes {D : Type} (len : D → Nat) (data : V → D) (names : List V) : List (V × Nat) :=
  names.map (fun n => (n, len (data n)))

/-- Look-up in a `names_to_sizes` dictionary. -/
def sizeIn (tab : List (V × Nat)) (v : V) : Nat :=
  match tab.find? (fun e => e.1 == v) with
  | some e => e.2
  | none => 0

/-- The zero block added for a missing `(o, x)` key. -/
def zeroFillOf (inSizes outSizes : List (V × Nat)) : (o x : V) → Mat :=
  fun o x => Mat.zeros (sizeIn outSizes o) (sizeIn inSizes x)

/-- A linearization request as `_init_jacobian` sees it: the current data of the process (values of any
    type `D`, `len` gives their length) and the requested input and output names. -/
structure SizedReq (V D : Type) where
  data : V → D
  xs : List V
  os : List V

/-- The zero blocks of a request are formed from the sizes of ITS data. -/
def SizedReq.fill {D : Type} (len : D → Nat) (r : SizedReq V D) : (o x : V) → Mat :=
  zeroFillOf (namesToSizes len r.data r.xs) (namesToSizes len r.data r.os)

/-- The answers of ONE chain object to a history of requests at points whose vectors may have different
    lengths from one request to the next: request `k` is answered from the dictionaries its disciplines
    computed at its point (`ds`) and the zero blocks of its own data — there is no size state. -/
def sizedAnswers {D : Type} [BlockOps (fun (_ _ : V) => Mat)] (len : D → Nat) (vars : List V)
    (history : List (SizedReq V D × List (Disc (fun (_ _ : V) => Mat)))) : List (V → V → Mat) :=
  history.map (fun e => fun o x => chainJac vars (e.1.fill len) e.2 o x)

/-- SEEDED VARIANT (not the code; class of the seeded change "memoized variable sizes"): the sizes are
    computed once per name and remembered by the object; only the names not seen yet are computed from the
    current data.  Returns the sizes used for the request and the new memo. -/
def memoSizes {D : Type} (len : D → Nat) (memo : List (V × Nat)) (data : V → D) (names : List V) :
    List (V × Nat) :=
  memo ++ namesToSizes len data (names.filter (fun n => !(memo.any (fun e => e.1 == n))))

end Sizes

end GV.C09
