/-
C03 — model of the evaluation-budget protocol of drivers:
`ProblemFunction._compute_*_db*` (database lookup, `MaxIterReachedException` before evaluating
an unseen point, store), `Database.store` (a first non-empty store into an absent/empty entry is a
*new iteration* event), `BaseDriverLibrary._new_iteration_callback` (`current += 1`, then time
limit, then tolerance testers), `BaseDriverLibrary.execute` (termination exceptions are turned
into a result) and the sequential DOE loop.

The model works in *key space* (physical points): how a caller's `x` maps to its key and what the
values are is C01's business. The algorithm is an arbitrary sequence of requests; NaN results,
the time limit and the tolerance testers are adversarial inputs attached to each request.
Import-free.
-/
import GemseoVerif.Model.Common

namespace GV.C03

abbrev Key := List Rat

inductive Kind where
  | value | jacobian
  deriving Repr, DecidableEq

abbrev OutName := String × Kind

/-- A database entry: the point and the names recorded there (values do not matter here).
    An entry may be empty (parallel DOE pre-seeds empty entries). -/
structure Entry where
  key : Key
  outs : List OutName
  deriving Repr, DecidableEq

/-- Why a run stops (the `TerminationCriterion` family). -/
inductive Term where
  | maxIter | functionIsNan | desvarIsNan | maxTime | ftol | xtol | kkt
  deriving Repr, DecidableEq

/-- One request of the algorithm, with the adversarial environment of that request. -/
structure Req where
  name : String
  kind : Kind
  key : Key
  isNan : Bool := false      -- the original function returns a NaN at this point
  raises : Bool := false     -- the original function raises a (non-termination) exception here
  timeUp : Bool := false     -- the time limit is exceeded when the new-iteration callback runs
  tolStop : Option Term := none  -- a tolerance tester fires in the new-iteration callback
  deriving Repr

structure Call where
  name : String
  kind : Kind
  key : Key
  deriving Repr, DecidableEq

structure St where
  db : List Entry
  current : Nat
  maximum : Nat
  calls : List Call
  deriving Repr

structure Cfg where
  storeJac : Bool := true
  stopIfNan : Bool := true
  deriving Repr

def lookupEntry (db : List Entry) (k : Key) : Option Entry := db.find? (fun e => e.key == k)

/-- `database.get_function_value(name, x) is not None`. -/
def recorded (db : List Entry) (k : Key) (n : OutName) : Bool :=
  match lookupEntry db k with
  | none => false
  | some e => e.outs.contains n

/-- `not database.get(x)`: the point is absent or its entry is empty. -/
def unseen (db : List Entry) (k : Key) : Bool :=
  match lookupEntry db k with
  | none => true
  | some e => e.outs.isEmpty

def maximumIsReached (st : St) : Bool := st.maximum != 0 && st.current ≥ st.maximum

/-- `Database.store(k, {n: _})`. -/
def store (db : List Entry) (k : Key) (n : OutName) : List Entry :=
  if db.any (fun e => e.key == k) then
    db.map (fun e => if e.key == k then
      { e with outs := if e.outs.contains n then e.outs else e.outs ++ [n] } else e)
  else db ++ [⟨k, [n]⟩]

inductive Outcome where
  | served                 -- from the database, no call
  | computed               -- original function called (and recorded if applicable)
  | raised                 -- original function called and raised: nothing recorded
  | stop (t : Term)        -- a termination exception propagates to `execute`
  deriving Repr, DecidableEq

/-- One request through a preprocessed problem function with the database on. -/
def step (cfg : Cfg) (st : St) (r : Req) : St × Outcome :=
  let n : OutName := (r.name, r.kind)
  if recorded st.db r.key n then (st, .served)
  else if unseen st.db r.key && maximumIsReached st then (st, .stop .maxIter)
  else
    let st1 : St := { st with calls := st.calls ++ [⟨r.name, r.kind, r.key⟩] }
    if r.raises then (st1, .raised)
    else if r.isNan && cfg.stopIfNan then (st1, .stop .functionIsNan)
    else
      let doStore := r.kind == .value || cfg.storeJac
      if !doStore then (st1, .computed)
      else
        let newIter := unseen st.db r.key
        let st2 : St := { st1 with db := store st.db r.key n }
        if !newIter then (st2, .computed)
        else
          -- new-iteration listeners: the driver's callback
          let st3 : St := { st2 with current := st2.current + 1 }
          if r.timeUp then (st3, .stop .maxTime)
          else match r.tolStop with
            | some t => (st3, .stop t)
            | none => (st3, .computed)

/-- `execute`: requests are issued until one raises a termination exception (the remaining
    requests are never issued) or the algorithm stops by itself. -/
def runUntilStop (cfg : Cfg) : St → List Req → St × Option Term
  | st, [] => (st, none)
  | st, r :: rs =>
    match step cfg st r with
    | (st', .stop t) => (st', some t)
    | (st', _) => runUntilStop cfg st' rs

/-- Start of `execute`: the budget is installed and the counter is reset or kept. -/
def start (db : List Entry) (maxIter : Nat) (previous : Nat) (reset : Bool) : St :=
  { db := db, current := if reset then 0 else previous, maximum := maxIter, calls := [] }

def nonEmptyCount (db : List Entry) : Nat := (db.filter (fun e => !e.outs.isEmpty)).length

/-- Sequential DOE loop: every sample is requested for every output function, in order.
    (`max_iter` is the number of samples; a NaN skips... the DOE sets `stop_if_nan` as configured.) -/
def doeRequests (fnames : List String) (samples : List Key) : List Req :=
  samples.flatMap (fun s => fnames.map (fun f => { name := f, kind := .value, key := s }))

end GV.C03
