/-
C19 — executable model of `gemseo.algos.parameter_space.ParameterSpace`:
a design space (the C02 model) + the list `uncertain_variables` + the dict `distributions`
(name ↦ one marginal per component) + the stored joint distribution.

The *marginals are parameters of the model*: a marginal is identified by its class name and the
keyword arguments GEMSEO passes to that class (`MargSpec`), and an environment `Env` gives, for
every such specification, the CDF, the inverse CDF, the mathematical support and the mean
(SciPy/OpenTURNS numerics: trusted, universally quantified in the theorems, finite tables in the
driver).  What is modelled statement by statement is GEMSEO's own logic:

* `add_random_vector`: name check, library-family check, `__get_random_vector_size`,
  `__get_random_vector_parameter_value` (broadcast of one-element parameter lists), one marginal
  per component, `uncertain_variables.append`, joint distribution rebuilt, design variable added
  with bounds = support and value = mean;
* `remove_variable`, `rename_variable` (list position kept, dict entry re-inserted at the end);
* `evaluate_cdf` (loop over `uncertain_variables`, `zip(value, marginals)`, 1-D and 2-D);
* `normalize_vect` / `unnormalize_vect` (`use_dist` false: the design-space map; true:
  split by sizes, geometric map for the whole vector, CDF / inverse CDF for the uncertain
  variables, "missing names" taken from the geometric result, concatenation in variable order);
  `transform_vect` / `untransform_vect`; the same calls with the `out` argument over a store of
  mutable arrays (`dsVectOut`, `distVectOut`, `PS.normalizeVectOut`, ...: `out` absent, another
  array or the input array itself);
* `compute_samples(as_dict=True)` splitting, `extract_uncertain_space`, `to_design_space`.

Code anchored: src/gemseo/algos/parameter_space.py, src/gemseo/utils/data_conversion.py,
src/gemseo/uncertainty/distributions/base_joint.py.  Import-free apart from the models.
-/
import GemseoVerif.Model.Common
import GemseoVerif.Model.C02

namespace GV.C19
open GV GV.C02

/-- What identifies a marginal: the GEMSEO class and the keyword arguments of its constructor
    (for `SPDistribution`/`OTDistribution` the interfaced name is part of `cls` and the interfaced
    parameters are listed among `params`). -/
structure MargSpec where
  cls : String
  params : List (String × Rat)
  deriving Repr, DecidableEq, BEq

/-- The library side, as parameters of the model. -/
structure Env where
  cdf : MargSpec → Rat → Rat
  icdf : MargSpec → Rat → Rat
  lb : MargSpec → Option Rat      -- math_lower_bound, none = -inf
  ub : MargSpec → Option Rat      -- math_upper_bound, none = +inf
  mean : MargSpec → Rat

structure PS where
  ds : DS := DS.empty
  unc : List String := []                       -- uncertain_variables
  dists : List (String × List MargSpec) := []   -- distributions (insertion-ordered dict)
  joint : List MargSpec := []                   -- marginals of the stored joint distribution
  fam : Option String := none                   -- __distribution_family_id ("SP"/"OT")
  deriving Repr, DecidableEq

def PS.empty : PS := {}

/-! ### Small dict helpers (insertion-ordered, as Python's `dict`) -/

def dget {β : Type} (m : List (String × β)) (k : String) : Option β :=
  (m.find? (fun p => p.1 == k)).map (·.2)

/-- `d[k] = v`: replace in place when the key exists, append otherwise. -/
def dset {β : Type} (m : List (String × β)) (k : String) (v : β) : List (String × β) :=
  if m.any (fun p => p.1 == k) then m.map (fun p => if p.1 == k then (k, v) else p)
  else m ++ [(k, v)]

def ddel {β : Type} (m : List (String × β)) (k : String) : List (String × β) :=
  m.filter (fun p => !(p.1 == k))

def PS.margsOf (p : PS) (n : String) : List MargSpec := (dget p.dists n).getD []

/-- `build_joint_distribution`: marginals of the uncertain variables, in the order of
    `uncertain_variables`. -/
def PS.derivedJoint (p : PS) : List MargSpec := p.unc.flatMap p.margsOf

def PS.rebuildJoint (p : PS) : PS :=
  if p.unc.isEmpty then p else { p with joint := p.derivedJoint }

def PS.isUncertain (p : PS) (n : String) : Bool := p.unc.contains n
def PS.deterministic (p : PS) : List String := p.ds.names.filter (fun n => !p.unc.contains n)

/-! ### `add_random_vector` -/

def dedup : List Nat → List Nat
  | [] => []
  | a :: l => a :: (dedup l).filter (fun b => !(b == a))

/-- `__get_random_vector_size`: the size of the vector from the lengths of the parameter
    collections (`size = 0`: deduce it), `none` when the lengths are not consistent. -/
def vectorSize (lens : List Nat) (size : Nat) : Option Nat :=
  let sizes := dedup lens
  let n := sizes.length
  let size := if size = 0 then (if sizes.isEmpty then 1 else sizes.foldl max 0) else size
  let eqSet := sizes.all (fun s => s == 1 || s == size) && sizes.contains 1 && sizes.contains size
  let subSet := sizes.all (fun s => s == 1 || s == size)
  if n > 2 || (n == 2 && !eqSet) || (n == 1 && !subSet) then none else some size

/-- `__get_random_vector_parameter_value`. -/
def bcast (size : Nat) (v : List Rat) : List Rat :=
  if v.length == 1 && size != 1 then List.replicate size (v.headD 0) else v

/-- The keyword arguments of the marginal of component `i`. -/
def margAt (cls : String) (params : List (String × List Rat)) (size i : Nat) : MargSpec :=
  ⟨cls, params.map (fun kv => (kv.1, ((bcast size kv.2)[i]?).getD 0))⟩

def margsFor (cls : String) (params : List (String × List Rat)) (size : Nat) : List MargSpec :=
  (List.range size).map (margAt cls params size)

/-- The design variable created for a random vector: bounds = support, value = mean. -/
def randomVar (env : Env) (name : String) (ms : List MargSpec) : Var :=
  ⟨name, false, ms.map env.lb, ms.map env.ub, some (ms.map env.mean)⟩

/-- `add_random_vector(name, cls, size, **params)`; the Boolean tells whether the call returned
    normally.  The statements before a `raise` are kept (the family identifier is recorded before
    the size check; lists and dicts are updated before `add_variable`). -/
def PS.addRandomVector (p : PS) (env : Env) (tol : Rat) (name cls fam : String) (size : Nat)
    (params : List (String × List Rat)) : PS × Bool :=
  if p.ds.contains name then (p, false)
  else
    match p.fam with
    | some f => if f != fam then (p, false) else go p
    | none => go { p with fam := some fam }
where
  go (p : PS) : PS × Bool :=
    match vectorSize (params.map (fun kv => kv.2.length)) size with
    | none => (p, false)
    | some d =>
      let ms := margsFor cls params d
      let p1 : PS := { p with dists := dset p.dists name ms, unc := p.unc ++ [name] }
      let p2 := p1.rebuildJoint
      match p2.ds.addVariable tol (randomVar env name ms) with
      | some d' => ({ p2 with ds := d' }, true)
      | none => (p2, false)

/-- `add_variable` of a deterministic variable (DesignSpace). -/
def PS.addVariable (p : PS) (tol : Rat) (v : Var) : PS × Bool :=
  match p.ds.addVariable tol v with
  | some d => ({ p with ds := d }, true)
  | none => (p, false)

/-- `remove_variable`. -/
def PS.removeVariable (p : PS) (name : String) : PS × Bool :=
  let p1 : PS :=
    if p.unc.contains name then
      let q : PS := { p with dists := ddel p.dists name, unc := p.unc.erase name }
      q.rebuildJoint
    else p
  match p1.ds.removeVariable name with
  | some d => ({ p1 with ds := d }, true)
  | none => (p1, false)

def replaceFirst (l : List String) (a b : String) : List String :=
  match l with
  | [] => []
  | x :: xs => if x == a then b :: xs else x :: replaceFirst xs a b

/-- `rename_variable`. -/
def PS.renameVariable (p : PS) (cur new : String) : PS × Bool :=
  match p.ds.renameVariable cur new with
  | none => (p, false)
  | some d =>
    let p1 : PS := { p with ds := d }
    if p.unc.contains cur then
      ({ p1 with unc := replaceFirst p.unc cur new,
                 dists := dset (ddel p.dists cur) new (p.margsOf cur) }, true)
    else (p1, true)

/-! ### Histories -/

inductive Op where
  | addDet (v : Var)
  | addRnd (name cls fam : String) (size : Nat) (params : List (String × List Rat))
  | remove (n : String)
  | rename (cur new : String)
  deriving Repr

def PS.apply (env : Env) (tol : Rat) (p : PS) : Op → PS × Bool
  | .addDet v => p.addVariable tol v
  | .addRnd n c f s ps => p.addRandomVector env tol n c f s ps
  | .remove n => p.removeVariable n
  | .rename c n => p.renameVariable c n

def PS.run (env : Env) (tol : Rat) (p : PS) (ops : List Op) : PS :=
  ops.foldl (fun q op => (q.apply env tol op).1) p

/-! ### `evaluate_cdf` -/

def applyMarg (env : Env) (inverse : Bool) (m : MargSpec) (x : Rat) : Rat :=
  if inverse then env.icdf m x else env.cdf m x

/-- `BaseJointDistribution.compute_cdf/compute_inverse_cdf`: `zip(value, marginals)`. -/
def jointApply (env : Env) (inverse : Bool) (ms : List MargSpec) (x : List Rat) : List Rat :=
  List.zipWith (fun v m => applyMarg env inverse m v) x ms

/-- `evaluate_cdf(value, inverse)` on 1-D values: one entry per *uncertain* variable, in the order
    of `uncertain_variables` (a missing key is a `KeyError`: `none`). -/
def PS.evaluateCdf (p : PS) (env : Env) (inverse : Bool) (value : List (String × List Rat)) :
    Option (List (String × List Rat)) :=
  p.unc.mapM (fun n => (dget value n).map (fun x => (n, jointApply env inverse (p.margsOf n) x)))

/-- The same on 2-D values (one list of rows per variable): `list(map(compute, rows))`. -/
def PS.evaluateCdf2 (p : PS) (env : Env) (inverse : Bool) (value : List (String × List (List Rat))) :
    Option (List (String × List (List Rat))) :=
  p.unc.mapM (fun n => (dget value n).map (fun rows =>
    (n, rows.map (jointApply env inverse (p.margsOf n)))))

/-- `__check_dict_of_array` (only called for `inverse=True`): for the uncertain variables the last
    dimension is the variable size and all the components are in `[0,1]`. -/
def PS.checkUnit (p : PS) (value : List (String × List Rat)) : Bool :=
  value.all (fun kv =>
    !p.unc.contains kv.1 ||
      (kv.2.length == ((p.ds.find? kv.1).map Var.size).getD 0 &&
        kv.2.all (fun c => 0 ≤ c && c ≤ 1)))

/-! ### (Un)normalisation, 1-D -/

/-- `{name: block}` in variable order, entries of the uncertain variables taken from `xu`, the
    others ("missing names") from the geometric result, concatenated in variable order. -/
def assemble (names : List String) (xu geom : List (String × List Rat)) : List Rat :=
  names.flatMap (fun n => match dget xu n with
    | some v => v
    | none => (dget geom n).getD [])

/-- `normalize_vect(x, minus_lb, use_dist)` (1-D).  `use_dist = false`: the design-space map. -/
def PS.normalizeVect (p : PS) (env : Env) (minusLb useDist : Bool) (x : List Rat) :
    Option (List Rat) :=
  if !useDist then some (p.ds.normalizeVect minusLb x)
  else
    let dictSample := p.ds.names.zip (splitBySizes p.ds.sizes x)
    let geom := p.ds.names.zip (splitBySizes p.ds.sizes (p.ds.normalizeVect minusLb x))
    (p.evaluateCdf env false dictSample).map (fun xn => assemble p.ds.names xn geom)

/-- `unnormalize_vect(u, minus_lb, use_dist)` (1-D); `none`: the code raises (a probability outside
    `[0,1]` for an uncertain variable). -/
def PS.unnormalizeVect (p : PS) (env : Env) (minusLb useDist : Bool) (u : List Rat) :
    Option (List Rat) :=
  if !useDist then some (p.ds.unnormalizeVect minusLb u)
  else
    let geom := p.ds.names.zip (splitBySizes p.ds.sizes (p.ds.unnormalizeVect minusLb u))
    let dictU := p.ds.names.zip (splitBySizes p.ds.sizes u)
    if !p.checkUnit dictU then none
    else (p.evaluateCdf env true dictU).map (fun xu => assemble p.ds.names xu geom)

def PS.transformVect (p : PS) (env : Env) (x : List Rat) : Option (List Rat) :=
  p.normalizeVect env true true x

def PS.untransformVect (p : PS) (env : Env) (u : List Rat) : Option (List Rat) :=
  p.unnormalizeVect env true true u

/-! ### (Un)normalisation, 2-D (one sample per row; split and concatenation on the last axis) -/

/-- `split_array_to_dict_of_arrays` on a 2-D array: per variable, the rows restricted to its
    columns. -/
def splitCols : List Nat → List (List Rat) → List (List (List Rat))
  | [], _ => []
  | s :: ss, rows => rows.map (·.take s) :: splitCols ss (rows.map (·.drop s))

/-- `concatenate(..., axis=-1)` of per-variable 2-D blocks with `n` rows. -/
def concatCols (n : Nat) (blocks : List (List (List Rat))) : List (List Rat) :=
  (List.range n).map (fun r => blocks.flatMap (fun b => (b[r]?).getD []))

def assemble2 (n : Nat) (names : List String) (xu geom : List (String × List (List Rat))) :
    List (List Rat) :=
  concatCols n (names.map (fun nm => match dget xu nm with
    | some v => v
    | none => (dget geom nm).getD []))

def PS.normalizeVect2 (p : PS) (env : Env) (minusLb useDist : Bool) (rows : List (List Rat)) :
    Option (List (List Rat)) :=
  if !useDist then some (rows.map (p.ds.normalizeVect minusLb))
  else
    let dictSample := p.ds.names.zip (splitCols p.ds.sizes rows)
    let geom := p.ds.names.zip (splitCols p.ds.sizes (rows.map (p.ds.normalizeVect minusLb)))
    (p.evaluateCdf2 env false dictSample).map (fun xn => assemble2 rows.length p.ds.names xn geom)

def PS.checkUnit2 (p : PS) (value : List (String × List (List Rat))) : Bool :=
  value.all (fun kv =>
    !p.unc.contains kv.1 ||
      kv.2.all (fun row => row.length == ((p.ds.find? kv.1).map Var.size).getD 0 &&
        row.all (fun c => 0 ≤ c && c ≤ 1)))

def PS.unnormalizeVect2 (p : PS) (env : Env) (minusLb useDist : Bool) (rows : List (List Rat)) :
    Option (List (List Rat)) :=
  if !useDist then some (rows.map (p.ds.unnormalizeVect minusLb))
  else
    let geom := p.ds.names.zip (splitCols p.ds.sizes (rows.map (p.ds.unnormalizeVect minusLb)))
    let dictU := p.ds.names.zip (splitCols p.ds.sizes rows)
    if !p.checkUnit2 dictU then none
    else (p.evaluateCdf2 env true dictU).map (fun xu => assemble2 rows.length p.ds.names xu geom)

/-! ### Samples and derived spaces -/

/-- Sizes of the uncertain variables in the order of `uncertain_variables`. -/
def PS.uncSizes (p : PS) : List Nat := p.unc.map (fun n => ((p.ds.find? n).map Var.size).getD 0)

/-- `compute_samples(as_dict=True)`: one sample (a row of the joint sample) split by the sizes of
    the uncertain variables in the order of `uncertain_variables`. -/
def PS.sampleDict (p : PS) (row : List Rat) : List (String × List Rat) :=
  p.unc.zip (splitBySizes p.uncSizes row)

/-- The support of every column of `compute_samples` (columns follow the stored joint). -/
def PS.sampleSupport (p : PS) (env : Env) : List (Option Rat × Option Rat) :=
  p.joint.map (fun m => (env.lb m, env.ub m))

/-- `extract_uncertain_space()` = `filter(uncertain_variables, copy=True)`: the deterministic
    variables are removed one by one from a copy. -/
def PS.extractUncertain (p : PS) : PS :=
  p.deterministic.foldl (fun q n => (q.removeVariable n).1) p

/-- `extract_deterministic_space()`: a plain design space with the deterministic variables. -/
def PS.extractDeterministic (p : PS) : DS :=
  { vars := p.ds.vars.filter (fun v => !p.unc.contains v.name) }

/-- `to_design_space()`: deterministic variables first, then the uncertain ones (in the order of
    `uncertain_variables`) as deterministic variables with the same bounds and current value. -/
def PS.toDesignSpace (p : PS) : DS :=
  { vars := (p.extractDeterministic).vars ++ p.unc.filterMap p.ds.find? }

/-! ### The `out` argument of the vector maps: arrays are mutable objects

`x_vect` and `out` are references to array objects that may be the *same* object (in-place call),
and `split_array_to_dict_of_arrays` returns views on `x_vect`, read only when `evaluate_cdf` runs.
The calls are therefore modelled over a store of arrays, statement by statement:

* `DesignSpace.normalize_vect(x, minus_lb, out)` / `unnormalize_vect(x, minus_lb, no_check, out)`:
  `out = x_vect.copy()` (no `out`) or `out[...] = x_vect`, then the affine operations in place on
  `out`, `return out` (an all-integer space with `minus_lb` returns `out.astype(int)`: a new array
  with the same values — the model returns `out`);
* `ParameterSpace.__normalize_vect/__unnormalize_vect(x, minus_lb[, no_check], out)`:
  the geometric map of the whole vector in a new array, `evaluate_cdf` on the views of `x_vect`
  (read at that moment), the blocks concatenated in a new array, `out[...] = result; return out`
  when `out` is given.
`α` is `List Rat` for 1-D arrays and `List (List Rat)` for 2-D arrays. -/

abbrev Heap (α : Type) := List α

def Heap.read {α : Type} [Inhabited α] (h : Heap α) (a : Nat) : α := (h[a]?).getD default

/-- `arr[...] = v` -/
def Heap.write {α : Type} (h : Heap α) (a : Nat) (v : α) : Heap α := List.set h a v

/-- a new array object holding `v`: the store and the address of the new array -/
def Heap.alloc {α : Type} (h : Heap α) (v : α) : Heap α × Nat := (h ++ [v], h.length)

/-- `DesignSpace.(un)normalize_vect(x_vect, ..., out)` on the store; `f` is the value-level map. -/
def dsVectOut {α : Type} [Inhabited α] (f : α → α) (h : Heap α) (ax : Nat) :
    Option Nat → Heap α × Nat
  | none =>
    let r := h.alloc (h.read ax)                    -- out = x_vect.copy()
    (r.1.write r.2 (f (r.1.read r.2)), r.2)         -- in-place operations on out; return out
  | some ao =>
    let h1 := h.write ao (h.read ax)                -- out[...] = x_vect
    (h1.write ao (f (h1.read ao)), ao)              -- in-place operations on out; return out

/-- `ParameterSpace.__(un)normalize_vect(x_vect, ..., out)` on the store: `f` is the geometric map,
    `comb xs geom` what is assembled from the views on `x_vect` (content `xs` *when `evaluate_cdf`
    runs*) and from the geometric result. -/
def distVectOut {α : Type} [Inhabited α] (f : α → α) (comb : α → α → Option α) (h : Heap α)
    (ax : Nat) (out : Option Nat) : Option (Heap α × Nat) :=
  let g := dsVectOut f h ax none                    -- x_geom = super().normalize_vect(x_vect, minus_lb)
  (comb (g.1.read ax) (g.1.read g.2)).map (fun y =>
    let r := g.1.alloc y                            -- concatenate_dict_of_arrays_to_array(...)
    match out with
    | none => r                                     -- return x_n
    | some ao => (r.1.write ao (r.1.read r.2), ao)) -- out[...] = x_n; return out

/-- What `__normalize_vect` assembles from the content `xs` of `x_vect` and the geometric result. -/
def PS.normComb (p : PS) (env : Env) (xs geom : List Rat) : Option (List Rat) :=
  let dictSample := p.ds.names.zip (splitBySizes p.ds.sizes xs)
  let g := p.ds.names.zip (splitBySizes p.ds.sizes geom)
  (p.evaluateCdf env false dictSample).map (fun xn => assemble p.ds.names xn g)

def PS.unnormComb (p : PS) (env : Env) (us geom : List Rat) : Option (List Rat) :=
  let g := p.ds.names.zip (splitBySizes p.ds.sizes geom)
  let dictU := p.ds.names.zip (splitBySizes p.ds.sizes us)
  if !p.checkUnit dictU then none
  else (p.evaluateCdf env true dictU).map (fun xu => assemble p.ds.names xu g)

def PS.normComb2 (p : PS) (env : Env) (rows geom : List (List Rat)) : Option (List (List Rat)) :=
  let dictSample := p.ds.names.zip (splitCols p.ds.sizes rows)
  let g := p.ds.names.zip (splitCols p.ds.sizes geom)
  (p.evaluateCdf2 env false dictSample).map (fun xn => assemble2 rows.length p.ds.names xn g)

def PS.unnormComb2 (p : PS) (env : Env) (rows geom : List (List Rat)) : Option (List (List Rat)) :=
  let g := p.ds.names.zip (splitCols p.ds.sizes geom)
  let dictU := p.ds.names.zip (splitCols p.ds.sizes rows)
  if !p.checkUnit2 dictU then none
  else (p.evaluateCdf2 env true dictU).map (fun xu => assemble2 rows.length p.ds.names xu g)

/-- `normalize_vect(x_vect, minus_lb, use_dist, out)` (1-D) on the store: the new store and the
    address of the returned array; `none`: the call raises. -/
def PS.normalizeVectOut (p : PS) (env : Env) (minusLb useDist : Bool) (h : Heap (List Rat))
    (ax : Nat) (out : Option Nat) : Option (Heap (List Rat) × Nat) :=
  if !useDist then some (dsVectOut (p.ds.normalizeVect minusLb) h ax out)
  else distVectOut (p.ds.normalizeVect minusLb) (p.normComb env) h ax out

def PS.unnormalizeVectOut (p : PS) (env : Env) (minusLb useDist : Bool) (h : Heap (List Rat))
    (ax : Nat) (out : Option Nat) : Option (Heap (List Rat) × Nat) :=
  if !useDist then some (dsVectOut (p.ds.unnormalizeVect minusLb) h ax out)
  else distVectOut (p.ds.unnormalizeVect minusLb) (p.unnormComb env) h ax out

def PS.normalizeVect2Out (p : PS) (env : Env) (minusLb useDist : Bool) (h : Heap (List (List Rat)))
    (ax : Nat) (out : Option Nat) : Option (Heap (List (List Rat)) × Nat) :=
  if !useDist then some (dsVectOut (List.map (p.ds.normalizeVect minusLb)) h ax out)
  else distVectOut (List.map (p.ds.normalizeVect minusLb)) (p.normComb2 env) h ax out

def PS.unnormalizeVect2Out (p : PS) (env : Env) (minusLb useDist : Bool)
    (h : Heap (List (List Rat))) (ax : Nat) (out : Option Nat) :
    Option (Heap (List (List Rat)) × Nat) :=
  if !useDist then some (dsVectOut (List.map (p.ds.unnormalizeVect minusLb)) h ax out)
  else distVectOut (List.map (p.ds.unnormalizeVect minusLb)) (p.unnormComb2 env) h ax out

def PS.transformVectOut (p : PS) (env : Env) (h : Heap (List Rat)) (ax : Nat) (out : Option Nat) :=
  p.normalizeVectOut env true true h ax out

def PS.untransformVectOut (p : PS) (env : Env) (h : Heap (List Rat)) (ax : Nat) (out : Option Nat) :=
  p.unnormalizeVectOut env true true h ax out

end GV.C19
