/-
C12 — model of a scenario run with a history backup, of its death inside a discipline execution
and of the restart from the backup file.

Code anchored:
* src/gemseo/scenarios/base_scenario.py — `set_optimization_history_backup` (listener attached to
  the store events and/or the new-iteration events, `load`: `update_from_hdf` then
  `evaluation_counter.current := len(database)`), `_execute_backup_callback`
  (`to_hdf(append=True)`), the last export of `execute`;
* src/gemseo/algos/problem_function.py — `_compute_*_db*`: look-up, `MaxIterReachedException`
  before evaluating an unseen point when the budget is spent, evaluation, `database.store`;
* src/gemseo/algos/database.py — `store`: the point becomes pending, the dict is updated, the store
  listeners are notified, then (first non-empty store at the point) the new-iteration listeners;
* src/gemseo/algos/base_driver_library.py — `_init_iter_observer` (budget, counter reset or kept),
  `_new_iteration_callback` (`current += 1`, attached *after* the backup listener);
* src/gemseo/algos/_hdf_database.py, optimization_problem.py `to_hdf` — the file: this is the C11
  model (`GV.C11.State`: database, pending buffer, file), imported, not re-modelled.

A run is a sequence of *requests* (function name — `f` or `@f` for a Jacobian —, point, number of
discipline executions the evaluation performs) issued by the algorithm; the original callables are
a parameter `val`.  Each request emits the events `Call … | Store x n v | NewIter x | Export` it
causes.  The process can die inside any `Call`: nothing of that evaluation is stored, so the state
left behind is the state reached by the requests before it; what survives is `h.file`.
`snap` is a ghost field: the database as it was at the last export (initially what the file holds).
Import-free (core Lean only, on top of the C11 and C04 models) so that the driver can run it.
-/
import GemseoVerif.Model.C11
import GemseoVerif.Model.C04

namespace GV.C12
open GV.C11

/-- `set_optimization_history_backup(at_each_function_call, at_each_iteration)`. -/
structure Cfg where
  eachCall : Bool
  eachIter : Bool
  deriving Repr, DecidableEq

/-- A request of the algorithm to a preprocessed problem function. `ncalls` is the number of
    discipline executions the evaluation performs when it is not served from the database
    (0 when the disciplines' caches already hold the point): the crash points. -/
structure Req where
  name : String
  p : Pt
  ncalls : Nat
  deriving Repr, DecidableEq

inductive Ev where
  | call (name : String) (p : Pt)
  | store (p : Pt) (name : String) (v : Val)
  | newIter (p : Pt)
  | export
  deriving Repr, DecidableEq

structure St (κ : Type) where
  /-- database, pending buffer, backup file (C11) -/
  h : State κ
  /-- ghost: the database at the last export (initially: the content of the file) -/
  snap : Db
  /-- `evaluation_counter.current` -/
  counter : Nat
  /-- `evaluation_counter.maximum` (0 = no limit) -/
  maximum : Nat
  /-- log of the invocations of the original callables: (function, point) -/
  calls : List (String × Pt)
  /-- `false` once an export has raised -/
  ok : Bool

/-- Fresh problem, no backup file. -/
def St.init {κ : Type} : St κ :=
  { h := State.init, snap := [], counter := 0, maximum := 0, calls := [], ok := true }

/-- `database.get_function_value(name, x)`. -/
def recorded (db : Db) (p : Pt) (n : String) : Option Val :=
  match alook p db with
  | none => none
  | some o => alook n o

/-- `not database.get(x)`: the point is absent or its entry is empty. -/
def unseen (db : Db) (p : Pt) : Bool :=
  match alook p db with
  | none => true
  | some o => o.isEmpty

/-- `evaluation_counter.maximum_is_reached`. -/
def maxReached {κ : Type} (s : St κ) : Bool := s.maximum != 0 && decide (s.maximum ≤ s.counter)

/-- `_execute_backup_callback`: `OptimizationProblem.to_hdf(path, append=True)`; its database part
    is C11's append export.  An exception propagates to the caller (`ok := false`). -/
def backup {κ : Type} (s : St κ) : St κ :=
  match doExport s.h true with
  | some h' => { s with h := h', snap := h'.db }
  | none => { s with ok := false }

inductive Outcome where
  | served (v : Val)
  | computed (v : Val)
  | maxIter
  deriving Repr, DecidableEq

/-- The events of a computed request. -/
def events (cfg : Cfg) (r : Req) (v : Val) (newIt : Bool) : List Ev :=
  List.replicate r.ncalls (.call r.name r.p) ++ [.store r.p r.name v] ++
    (if cfg.eachCall then [.export] else []) ++
    (if newIt then [.newIter r.p] ++ (if cfg.eachIter then [.export] else []) else [])

section
variable {κ : Type} [DecidableEq κ] (H : Pt → κ) (cfg : Cfg) (val : String → Pt → Val)

/-- `database.store(x, {name: v})` after the original callable has run (the disciplines have been
    executed: the crash points are before this). -/
def storeSt (s : St κ) (r : Req) (v : Val) : St κ :=
  { s with h := doStore H s.h r.p [(r.name, v)], calls := s.calls ++ [(r.name, r.p)] }

/-- `notify_store_listeners`: the backup callback when attached to the store events. -/
def notifyStore (s : St κ) : St κ := if cfg.eachCall then backup s else s

/-- `notify_new_iter_listeners`, in attachment order: the backup callback (attached by
    `set_optimization_history_backup`, before `execute`), then the driver's
    `_new_iteration_callback` (`current += 1`). -/
def notifyNewIter (s : St κ) : St κ :=
  let s' := if cfg.eachIter then backup s else s
  { s' with counter := s'.counter + 1 }

/-- The state after a request that is computed with result `v`: store, store listeners, then — when
    the point had no recorded output — new-iteration listeners. -/
def computedSt (s : St κ) (r : Req) (v : Val) : St κ :=
  let s2 := notifyStore cfg (storeSt H s r v)
  if unseen s.h.db r.p then notifyNewIter cfg s2 else s2

/-- One request through `ProblemFunction._compute_*_db*` with the backup listeners attached. -/
def step (s : St κ) (r : Req) : St κ × Outcome × List Ev :=
  match recorded s.h.db r.p r.name with
  | some v => (s, .served v, [])
  | none =>
    let newIt := unseen s.h.db r.p
    if newIt && maxReached s then (s, .maxIter, [])
    else
      let v := val r.name r.p
      (computedSt H cfg s r v, .computed v, events cfg r v newIt)

/-- `execute`: the requests are issued until one raises `MaxIterReachedException`. Returns the
    final state, the event trace and whether the budget stopped the run. -/
def run : St κ → List Req → St κ × List Ev × Bool
  | s, [] => (s, [], false)
  | s, r :: rs =>
    match step H cfg val s r with
    | (s', .maxIter, _) => (s', [], true)
    | (s', _, evs) =>
      let (s'', evs', b) := run s' rs
      (s'', evs ++ evs', b)

/-- The state reached by a list of requests. -/
def runSt (s : St κ) (rs : List Req) : St κ := (run H cfg val s rs).1

/-- An algorithm: the next request as a function of the requests made so far and their answers
    (`none`: the algorithm stops by itself). -/
abbrev Strategy := List (Req × Val) → Option Req

/-- An algorithm running through the problem functions: the state, what the algorithm has
    observed so far, and whether it is still running. -/
structure RunCfg (κ : Type) where
  s : St κ
  hist : List (Req × Val)
  live : Bool

/-- One step of an algorithm: it chooses its next request from what it has observed, the request
    goes through the problem function, the answer is appended to the observations; the run ends
    when the algorithm stops or `MaxIterReachedException` is raised. -/
def stratStep (strat : Strategy) (c : RunCfg κ) : RunCfg κ :=
  if !c.live then c else
  match strat c.hist with
  | none => { c with live := false }
  | some r =>
    match step H cfg val c.s r with
    | (s', .maxIter, _) => { s := s', hist := c.hist, live := false }
    | (s', .served v, _) => { s := s', hist := c.hist ++ [(r, v)], live := true }
    | (s', .computed v, _) => { s := s', hist := c.hist ++ [(r, v)], live := true }

/-- `n` steps of an algorithm. -/
def stratRun (strat : Strategy) : Nat → RunCfg κ → RunCfg κ
  | 0, c => c
  | n + 1, c => stratStep H cfg val strat (stratRun strat n c)

end

/-- `_init_iter_observer`: the budget is installed, the counter is reset or kept. -/
def start {κ : Type} (s : St κ) (maximum : Nat) (reset : Bool) : St κ :=
  { s with maximum := maximum, counter := if reset then 0 else s.counter }

/-- End of `BaseScenario.execute`: one more export `if 0 < n_x < n_x_a` (`n_x`: number of entries
    when `execute` started). -/
def finish {κ : Type} (s : St κ) (n0 : Nat) : St κ :=
  if 0 < n0 && decide (n0 < s.h.db.length) then backup s else s

/-! ### Crash and restart -/

/-- A new process with `set_optimization_history_backup(path, load=True)`:
    `database.update_from_hdf(path)` into the empty database of the new problem is C11's `doReload`
    (the database is the content of the file, every loaded point is pending again, the stores made
    after the last export are lost); the counter is the number of loaded entries. An absent file is
    the empty file: nothing is loaded. Only the file of the dead process `h` matters. -/
def restart {κ : Type} [DecidableEq κ] (H : Pt → κ) (h : State κ) : Option (St κ) :=
  (doReload H h).map (fun h' =>
    { h := h', snap := h'.db, counter := h'.db.length, maximum := 0, calls := [], ok := true })

/-- OUTSIDE the property (probe only): a new process that finds a file left by another run and
    neither erases nor loads it: empty database, empty pending buffer, the old file. -/
def restartStale {κ : Type} (h : State κ) : St κ :=
  { h := { db := [], pend := [], file := h.file }, snap := [], counter := 0, maximum := 0, calls := [], ok := true }

/-- The events before the `k`-th `Call` (`k ≥ 1`): what happened before the process died inside
    its `k`-th discipline execution. The whole trace when there are fewer than `k` calls. -/
def truncateAtCall : Nat → List Ev → List Ev
  | _, [] => []
  | k, .call n p :: t => if k ≤ 1 then [] else .call n p :: truncateAtCall (k - 1) t
  | k, e :: t => e :: truncateAtCall k t

/-- What an event does to the database, the pending buffer and the file. -/
def applyEv {κ : Type} [DecidableEq κ] (H : Pt → κ) (h : State κ) : Ev → State κ
  | .store p n v => doStore H h p [(n, v)]
  | .export => (doExport h true).getD h
  | _ => h

def replay {κ : Type} [DecidableEq κ] (H : Pt → κ) (h : State κ) (evs : List Ev) : State κ :=
  evs.foldl (applyEv H) h

def countCalls : List Ev → Nat
  | [] => 0
  | .call _ _ :: t => countCalls t + 1
  | _ :: t => countCalls t

/-! ### The recorded history as C04 sees it -/

def convVal : Val → C04.Val
  | .scalar r => .num [r]
  | .arr a => .num a.data

def toHist (db : Db) : List C04.Entry :=
  db.map (fun po => { x := po.1.xs, outs := po.2.map (fun nv => (nv.1, convVal nv.2)) })

/-- The optimum the scenario reports: `OptimizationHistory.optimum` on the database. -/
def reportedOptimum (c : C04.Cfg) (db : Db) : Option C04.Solution := C04.optimum c (toHist db)

end GV.C12
