/-
C15 — executable model of GEMSEO grammars (`BaseGrammar` bookkeeping + the `SimpleGrammar`
and `JSONGrammar` back-ends) as a state machine over a small world of grammar slots.

Code anchored: src/gemseo/core/grammars/{base_grammar,simple_grammar,json_grammar,json_schema,
required_names,defaults}.py, src/gemseo/core/namespaces.py (and genson's node/strategy merge rules
as far as the generated fragment needs them).

What is modelled statement by statement
* `BaseGrammar`: `update` (grammar, excluded names, merge), `update_from_names/types/data`,
  `restrict_to`, `rename_element`, `__delitem__`, `add_namespace`, `clear`, `copy`, `defaults`
  setter, `Defaults.__setitem__`/`pop`, `RequiredNames.add/discard`, `validate`,
  `to_simple_grammar`, pickling.
* `JSONGrammar`: the genson schema builder seen as an ordered map `name ↦ Node` (a node is the set
  of active genson strategies), the builder's *own* `required` set (`breq`, `none` = the builder has
  no root object yet), the lazily built schema dict (`schemaC`) and compiled validator (`validC`)
  with their reset (`__init_dependencies`), `update_from_schema`, `to_json`, `schema`.
* `SimpleGrammar`: ordered map `name ↦ Python type`, `isinstance` validation.

Import-free (core Lean only) so that the driver can run it.
-/
import GemseoVerif.Model.Common

namespace GV.C15

abbrev Name := String

/-! ### Element types -/

/-- Python types a `SimpleGrammar` element can be bound to (`any` is `None`). -/
inductive PyT where
  | any | ndarray | list | tuple | str | int | float | complex | bool | mapping | nonetype
  deriving DecidableEq, Repr

/-- genson `Number` strategy: absent, `integer`, or `number`. -/
inductive NumK where
  | no | int | num
  deriving DecidableEq, Repr

/-- The node of the items of an array (one nesting level; `arr` = an untyped nested array). -/
structure Flat where
  null : Bool
  bool : Bool
  str : Bool
  obj : Bool
  arr : Bool
  num : NumK
  deriving DecidableEq, Repr

/-- genson `List` strategy: absent, array without `items`, array with an items node. -/
inductive ArrK where
  | no | untyped | items (f : Flat)
  deriving DecidableEq, Repr

/-- A JSON property node = the set of its active genson strategies. No strategy at all (or only the
    typeless one) is the schema `{}` which accepts everything. -/
structure Node where
  null : Bool
  bool : Bool
  str : Bool
  obj : Bool
  num : NumK
  arr : ArrK
  deriving DecidableEq, Repr

inductive TS where
  | py (t : PyT)
  | js (n : Node)
  deriving DecidableEq, Repr

def NumK.merge : NumK → NumK → NumK
  | .no, b => b
  | a, .no => a
  | .int, .int => .int
  | _, _ => .num

def Flat.any : Flat := ⟨false, false, false, false, false, .no⟩
def Flat.isAny (f : Flat) : Bool := f == Flat.any

def Flat.merge (a b : Flat) : Flat :=
  ⟨a.null || b.null, a.bool || b.bool, a.str || b.str, a.obj || b.obj, a.arr || b.arr, a.num.merge b.num⟩

/-- `items {}` is indistinguishable from no `items` (both by the validators and by later merges). -/
def ArrK.norm : ArrK → ArrK
  | .items f => if f.isAny then .untyped else .items f
  | a => a

def ArrK.merge : ArrK → ArrK → ArrK
  | .no, b => b
  | a, .no => a
  | .untyped, b => b
  | a, .untyped => a
  | .items f, .items g => .items (f.merge g)

/-- Number of strategies of an items node. -/
def Flat.count (f : Flat) : Nat :=
  (if f.null then 1 else 0) + (if f.bool then 1 else 0) + (if f.str then 1 else 0) +
  (if f.obj then 1 else 0) + (if f.arr then 1 else 0) + (if f.num != .no then 1 else 0)

def Node.any : Node := ⟨false, false, false, false, .no, .no⟩
def Node.isAny (n : Node) : Bool := n == Node.any

/-- genson merge of two nodes: union of the strategies (the typeless node is absorbed). -/
def Node.merge (a b : Node) : Node :=
  ⟨a.null || b.null, a.bool || b.bool, a.str || b.str, a.obj || b.obj, a.num.merge b.num, a.arr.merge b.arr⟩

/-! ### Values -/

inductive Leaf where
  | null | bool | int | flt | str | map | arr
  deriving DecidableEq, Repr

/-- A data value: a scalar leaf, a complex number, a NumPy array, a list or a tuple of leaves. -/
inductive Val where
  | leaf (l : Leaf)
  | cpx
  | nd (items : List Leaf)
  | list (items : List Leaf)
  | tuple (items : List Leaf)
  deriving DecidableEq, Repr

/-- `isinstance(value, type)` for the types of `PyT` (note `bool` is a subclass of `int`). -/
def hasTypePy : PyT → Val → Bool
  | .any, _ => true
  | .ndarray, .nd _ => true
  | .list, .list _ => true
  | .tuple, .tuple _ => true
  | .str, .leaf .str => true
  | .int, .leaf .int => true
  | .int, .leaf .bool => true
  | .float, .leaf .flt => true
  | .complex, .cpx => true
  | .bool, .leaf .bool => true
  | .mapping, .leaf .map => true
  | .nonetype, .leaf .null => true
  | _, _ => false

def flatHas (f : Flat) : Leaf → Bool
  | .null => f.isAny || f.null
  | .bool => f.isAny || f.bool
  | .int => f.isAny || f.num != .no
  | .flt => f.isAny || f.num == .num
  | .str => f.isAny || f.str
  | .map => f.isAny || f.obj
  | .arr => f.isAny || f.arr

def arrHas (a : ArrK) (items : List Leaf) : Bool :=
  match a with
  | .no => false
  | .untyped => true
  | .items f => items.all (flatHas f)

/-- JSON-schema acceptance of a (cast) value by a node: `{}` accepts everything, otherwise the
    value must match one of the strategies (`type` list / `anyOf` are unions). Complex numbers are
    cast to their real part, arrays/tuples to lists. -/
def hasTypeJS (n : Node) : Val → Bool
  | .leaf .null => n.isAny || n.null
  | .leaf .bool => n.isAny || n.bool
  | .leaf .int => n.isAny || n.num != .no
  | .leaf .flt => n.isAny || n.num == .num
  | .cpx => n.isAny || n.num == .num
  | .leaf .str => n.isAny || n.str
  | .leaf .map => n.isAny || n.obj
  | .leaf .arr => n.isAny || n.arr != .no
  | .nd items => n.isAny || arrHas n.arr items
  | .list items => n.isAny || arrHas n.arr items
  | .tuple items => n.isAny || arrHas n.arr items

def hasType : TS → Val → Bool
  | .py t, v => hasTypePy t v
  | .js n, v => hasTypeJS n v

/-! ### Conversions between the two back-ends -/

/-- `JSONGrammar.__PYTHON_TO_JSON_TYPES` (`none` = `KeyError`). -/
def ofPy : PyT → Option Node
  | .any => some Node.any
  | .ndarray | .list | .tuple => some { Node.any with arr := .untyped }
  | .str => some { Node.any with str := true }
  | .int => some { Node.any with num := .int }
  | .bool => some { Node.any with bool := true }
  | .complex | .float => some { Node.any with num := .num }
  | .mapping | .nonetype => none

inductive Err where
  | key | value | type | attr
  deriving DecidableEq, Repr

def Err.show : Err → String
  | .key => "E:key" | .value => "E:value" | .type => "E:type" | .attr => "E:attr"

/-- Number of strategies a node shows in its schema (`type` is a string iff exactly one simple one). -/
def Node.simpleCount (n : Node) : Nat :=
  (if n.null then 1 else 0) + (if n.bool then 1 else 0) + (if n.str then 1 else 0) +
  (if n.obj then 1 else 0) + (if n.num != .no then 1 else 0) + (if n.arr != .no then 1 else 0)

/-- `JSONGrammar._get_names_to_types` for one property: `property_description["type"]` raises
    `KeyError` for `{}` and for `anyOf`, a list of types is unhashable (`TypeError`);
    `__JSON_TO_PYTHON_TYPES` otherwise, `None` for the types it does not know. -/
def toPy (n : Node) : Except Err PyT :=
  if n.isAny then .error .key
  else if n.simpleCount ≥ 2 then
    -- several strategies: `{"type": [..]}` when all are bare types, `anyOf` when an array has items
    (match n.arr with
     | .items _ => .error .key
     | _ => .error .type)
  else if n.arr != .no then
    -- `__warn_for_array` looks the items type up in a set: a list of types is unhashable
    (match n.arr with
     | .items f => if f.count ≥ 2 then .error .type else .ok .ndarray
     | _ => .ok .ndarray)
  else if n.str then .ok .str
  else if n.num == .int then .ok .int
  else if n.bool then .ok .bool
  else if n.num == .num then .ok .complex
  else .ok .any

/-- `type(value)` as stored by `SimpleGrammar.update_from_data` (`dict` is generalised to `Mapping`). -/
def typeOfVal : Val → PyT
  | .leaf .null => .nonetype
  | .leaf .bool => .bool
  | .leaf .int => .int
  | .leaf .flt => .float
  | .leaf .str => .str
  | .leaf .map => .mapping
  | .leaf .arr => .list
  | .cpx => .complex
  | .nd _ => .ndarray
  | .list _ => .list
  | .tuple _ => .tuple

def flatOfLeaf : Leaf → Flat
  | .null => { Flat.any with null := true }
  | .bool => { Flat.any with bool := true }
  | .int => { Flat.any with num := .int }
  | .flt => { Flat.any with num := .num }
  | .str => { Flat.any with str := true }
  | .map => { Flat.any with obj := true }
  | .arr => { Flat.any with arr := true }

/-- The items node genson builds from the items of a list, processed left to right. In update mode
    GEMSEO's `_SchemaNode` clears the items node before *every* item (so only the last item counts);
    in merge mode all items are merged. Adding a `dict` item runs a nested `_MergeStrategy` whose
    context manager resets the class-level update switch: from then on everything is merged. -/
def itemsFold (upd : Bool) (items : List Leaf) : Flat × Bool :=
  items.foldl (fun (acc : Flat × Bool) l =>
    ((if acc.2 then flatOfLeaf l else acc.1.merge (flatOfLeaf l)), acc.2 && l != Leaf.map)) (Flat.any, upd)

def itemsOf (upd : Bool) (items : List Leaf) : ArrK × Bool :=
  match items with
  | [] => (.untyped, upd)
  | _ => let r := itemsFold upd items; ((ArrK.items r.1).norm, r.2)

/-- genson `add_object` on a fresh node for a (cast) value, and the update switch afterwards. -/
def nodeOfVal (upd : Bool) : Val → Node × Bool
  | .leaf .null => ({ Node.any with null := true }, upd)
  | .leaf .bool => ({ Node.any with bool := true }, upd)
  | .leaf .int => ({ Node.any with num := .int }, upd)
  | .leaf .flt => ({ Node.any with num := .num }, upd)
  | .cpx => ({ Node.any with num := .num }, upd)
  | .leaf .str => ({ Node.any with str := true }, upd)
  | .leaf .map => ({ Node.any with obj := true }, false)
  | .leaf .arr => ({ Node.any with arr := .untyped }, upd)
  | .nd items => let r := itemsOf upd items; ({ Node.any with arr := r.1 }, r.2)
  | .list items => let r := itemsOf upd items; ({ Node.any with arr := r.1 }, r.2)
  | .tuple items => let r := itemsOf upd items; ({ Node.any with arr := r.1 }, r.2)

/-- Does adding this node as a schema run a nested object strategy (which resets the update switch)? -/
def Node.touchesObj (n : Node) : Bool :=
  n.obj || (match n.arr with | .items f => f.obj | _ => false)

/-- `{"type": "array", "items": {"type": "number"}}`, what `update_from_names` binds names to. -/
def arrNum : Node := { Node.any with arr := .items { Flat.any with num := .num } }

/-! ### Association lists with Python `dict` order -/

def akeys {α : Type} (l : List (Name × α)) : List Name := l.map (·.1)

def alookup {α : Type} (l : List (Name × α)) (n : Name) : Option α :=
  match l with
  | [] => none
  | (k, v) :: t => if k = n then some v else alookup t n

/-- `d[n] = v`: an existing key keeps its position, a new key is appended. -/
def aset {α : Type} (l : List (Name × α)) (n : Name) (v : α) : List (Name × α) :=
  if n ∈ akeys l then l.map (fun p => if p.1 = n then (n, v) else p) else l ++ [(n, v)]

def aerase {α : Type} (l : List (Name × α)) (n : Name) : List (Name × α) :=
  l.filter (fun p => p.1 ≠ n)

def sinsert (l : List Name) (n : Name) : List Name := if n ∈ l then l else l ++ [n]

def serase (l : List Name) (n : Name) : List Name := l.filter (· ≠ n)

def sunion (l m : List Name) : List Name := m.foldl sinsert l

def insertSorted (n : Name) : List Name → List Name
  | [] => [n]
  | h :: t => if n < h then n :: h :: t else if n = h then h :: t else h :: insertSorted n t

def sortNames (l : List Name) : List Name := l.foldr insertSorted []

/-! ### Grammar state -/

inductive Kind where
  | simple | json
  deriving DecidableEq, Repr

/-- A namespace map value: a single name or a list of names (`update_namespaces`). -/
inductive NsV where
  | one (s : Name)
  | many (l : List Name)
  deriving DecidableEq, Repr

/-- A schema dict as shown by `schema` / `to_json()`: its `properties` and its `required` list. -/
structure Snap where
  props : List (Name × TS)
  req : List Name
  deriving DecidableEq, Repr

structure Grammar where
  kind : Kind
  elems : List (Name × TS)
  required : List Name
  defaults : List (Name × String)
  toNs : List (Name × NsV)
  fromNs : List (Name × NsV)
  /-- JSON: the schema builder's own `required` set; `none` = no root object strategy yet. -/
  breq : Option (List Name)
  /-- JSON: the `properties` of the cached `__schema` dict (`none` = `{}`); its `required` entry is
      rewritten from the required names at every access, so it is not part of the state. -/
  schemaC : Option (List (Name × TS))
  /-- JSON: `__validator`, the schema it was compiled from (`none` = `None`). -/
  validC : Option (List (Name × TS))
  deriving DecidableEq, Repr

def Grammar.fresh (k : Kind) : Grammar :=
  ⟨k, [], [], [], [], [], none, none, none⟩

def Grammar.keys (g : Grammar) : List Name := akeys g.elems

/-- `JSONGrammar.__init_dependencies` (a `SimpleGrammar` has no lazily built object: its two fields
    are always `none`, resetting them is a no-op). -/
def Grammar.resetCaches (g : Grammar) : Grammar :=
  { g with schemaC := none, validC := none }

/-- The well-formedness invariant of the property. -/
def Grammar.WF (g : Grammar) : Prop :=
  (∀ r ∈ g.required, r ∈ g.keys) ∧ (∀ d ∈ akeys g.defaults, d ∈ g.keys)

/-- The lazily built objects are absent or were built from the current elements. -/
def Grammar.CacheOK (g : Grammar) : Prop :=
  (g.schemaC = none ∨ g.schemaC = some g.elems) ∧
  (g.validC = none ∨ g.validC = some g.elems)

instance (g : Grammar) : Decidable g.WF := by unfold Grammar.WF; exact inferInstance

/-! ### Element-level updates -/

/-- Bind `n` to a JSON node: replace in update mode, genson-merge in merge mode. -/
def jsSet (upd : Bool) (elems : List (Name × TS)) (n : Name) (node : Node) : List (Name × TS) :=
  if upd then aset elems n (.js node)
  else match alookup elems n with
    | some (.js old) => aset elems n (.js (old.merge node))
    | _ => aset elems n (.js node)

/-- Add a list of property schemas in order, threading the update switch (an object schema resets it). -/
def jsSetAll (upd : Bool) (elems : List (Name × TS)) (props : List (Name × Node)) : List (Name × TS) :=
  (props.foldl (fun (st : List (Name × TS) × Bool) (p : Name × Node) =>
    (jsSet st.2 st.1 p.1 p.2, st.2 && !p.2.touchesObj)) (elems, upd)).1

/-- Add name/value pairs in order (genson `add_object`), threading the update switch. -/
def jsSetData (upd : Bool) (elems : List (Name × TS)) (l : List (Name × Val)) : List (Name × TS) :=
  (l.foldl (fun (st : List (Name × TS) × Bool) (p : Name × Val) =>
    let nv := nodeOfVal st.2 p.2
    (jsSet st.2 st.1 p.1 nv.1, nv.2)) (elems, upd)).1

/-- The builder's `required` after genson `add_schema`: a schema without the key leaves it alone
    (`None` stays `None`), one with the key sets it (when `None`) or *intersects* it. -/
def breqAddSchema (b : Option (List Name)) (req : Option (List Name)) : Option (List Name) :=
  match req, b with
  | none, b => b
  | some r, none => some r
  | some r, some l => some (l.filter (· ∈ r))

/-- `builder.required.clear()`: clears the set when it exists (the getter returns a temporary set otherwise). -/
def breqClear (b : Option (List Name)) : Option (List Name) := b.map (fun _ => [])

/-- `RequiredNames.__ior__`: `add` each name (each `add` checks the name is an element). -/
def reqAddAll (g : Grammar) (names : List Name) : Grammar :=
  { g with required := sunion g.required (names.filter (· ∈ g.keys)) }

def setDefaultsChecked (g : Grammar) (l : List (Name × String)) : Grammar :=
  { g with defaults := l.foldl (fun d p => if p.1 ∈ g.keys then aset d p.1 p.2 else d) g.defaults }

/-! ### Operations on one grammar -/

def updateFromNames (g : Grammar) (names : List Name) (merge : Bool) : Except Err Grammar :=
  if names = [] then .ok g
  else match g.kind with
    | .simple =>
      if merge then .error .value
      else .ok (reqAddAll { g with elems := names.foldl (fun e n => aset e n (.py .ndarray)) g.elems }.resetCaches names)
    | .json =>
      let g1 := { g with elems := names.foldl (fun e n => jsSet (!merge) e n arrNum) g.elems,
                         breq := some [] }.resetCaches
      .ok (reqAddAll g1 names)

def updateFromTypes (g : Grammar) (l : List (Name × PyT)) (merge : Bool) : Except Err Grammar :=
  if l = [] then .ok g
  else match g.kind with
    | .simple =>
      if merge then .error .value
      else .ok (reqAddAll { g with elems := l.foldl (fun e (p : Name × PyT) => aset e p.1 (.py p.2)) g.elems }.resetCaches (akeys l))
    | .json =>
      if l.any (fun p => (ofPy p.2).isNone) then .error .key
      else
        let g1 := { g with elems := l.foldl (fun e (p : Name × PyT) => jsSet (!merge) e p.1 ((ofPy p.2).getD Node.any)) g.elems,
                           breq := breqAddSchema g.breq none }.resetCaches
        .ok (reqAddAll g1 (akeys l))

def updateFromData (g : Grammar) (l : List (Name × Val)) (merge : Bool) : Except Err Grammar :=
  if l = [] then .ok g
  else match g.kind with
    | .simple =>
      if merge then .error .value
      else .ok (reqAddAll { g with elems := l.foldl (fun e (p : Name × Val) => aset e p.1 (.py (typeOfVal p.2))) g.elems }.resetCaches (akeys l))
    | .json =>
      let g1 := { g with elems := jsSetData (!merge) g.elems l, breq := some [] }.resetCaches
      .ok (reqAddAll g1 (akeys l))

/-- `JSONGrammar.update_from_schema` (not an API of `SimpleGrammar`). The names the schema requires
    become required only as far as genson's own merge of `required` keeps them. -/
def updateFromSchema (g : Grammar) (props : List (Name × Node)) (req : Option (List Name)) (merge : Bool) :
    Except Err Grammar :=
  match g.kind with
  | .simple => .error .attr
  | .json =>
    let elems := jsSetAll (!merge) g.elems props
    let b := breqAddSchema g.breq req
    if (b.getD []).any (fun r => r ∉ akeys elems) then .error .key
    else
      let g1 := { g with elems := elems, breq := breqClear b }.resetCaches
      .ok (reqAddAll g1 (b.getD []))

def restrictTo (g : Grammar) (names : List Name) : Except Err Grammar :=
  if names.any (· ∉ g.keys) then .error .key
  else
    let g1 := { g with defaults := g.defaults.filter (fun p => p.1 ∈ names),
                       required := g.required.filter (· ∈ names),
                       elems := g.elems.filter (fun p => p.1 ∈ names) }
    .ok g1.resetCaches

/-- `d[new] = d.pop(cur)`. -/
def amove {α : Type} (l : List (Name × α)) (cur new : Name) : List (Name × α) :=
  match alookup l cur with
  | none => l
  | some v => aset (aerase l cur) new v

/-- `rename_element`, required names part: `remove(cur)` then `add(new)` when `cur` was required. -/
def renameRequired (g : Grammar) (cur new : Name) : Grammar :=
  if cur ∈ g.required then reqAddAll { g with required := serase g.required cur } [new] else g

/-- `rename_element`, defaults part: `pop(cur)` and, when there was a default, `defaults[new] = it`. -/
def renameDefault (g : Grammar) (cur new : Name) : Grammar :=
  match alookup g.defaults cur with
  | none => g
  | some v => setDefaultsChecked { g with defaults := aerase g.defaults cur } [(new, v)]

def renameElement (g : Grammar) (cur new : Name) : Except Err Grammar :=
  if cur ∉ g.keys then .error .key
  else
    .ok (renameDefault (renameRequired { g with elems := amove g.elems cur new }.resetCaches cur new) cur new)

def delItem (g : Grammar) (n : Name) : Except Err Grammar :=
  if n ∉ g.keys then .error .key
  else
    let g1 := { g with defaults := aerase g.defaults n, required := serase g.required n,
                       elems := aerase g.elems n }
    .ok g1.resetCaches

def hasSep (n : Name) : Bool := n.toList.contains ':'

def addNamespace (g : Grammar) (n ns : Name) : Except Err Grammar :=
  if n ∉ g.keys then .error .key
  else if hasSep n then .error .value
  else
    let new := ns ++ ":" ++ n
    match renameElement g n new with
    | .error e => .error e
    | .ok g1 => .ok { g1 with toNs := aset g1.toNs n (.one new), fromNs := aset g1.fromNs new (.one n) }

def setDefault (g : Grammar) (n : Name) (v : String) : Except Err Grammar :=
  if n ∈ g.keys then .ok { g with defaults := aset g.defaults n v } else .error .key

def popDefault (g : Grammar) (n : Name) : Grammar :=
  { g with defaults := aerase g.defaults n }

/-- `grammar.defaults = data`: a new `Defaults` is built (every name checked) and then bound. -/
def assignDefaults (g : Grammar) (l : List (Name × String)) : Except Err Grammar :=
  if l.any (fun p => p.1 ∉ g.keys) then .error .key
  else .ok { g with defaults := l.foldl (fun d p => aset d p.1 p.2) [] }

def reqAdd (g : Grammar) (n : Name) : Except Err Grammar :=
  if n ∈ g.keys then .ok { g with required := sinsert g.required n } else .error .key

def reqDiscard (g : Grammar) (n : Name) : Grammar :=
  { g with required := serase g.required n }

/-- `defaults.update(items)` (`MutableMapping.update`): the items are set one by one, each through the
    checking `__setitem__`; the first name that is not an element raises `KeyError` and what was set
    before stays. Returns the grammar and whether the call succeeded. -/
def updateDefaults (g : Grammar) : List (Name × String) → Grammar × Bool
  | [] => (g, true)
  | p :: t =>
    if p.1 ∈ g.keys then updateDefaults { g with defaults := aset g.defaults p.1 p.2 } t
    else (g, false)

def clearDefaults (g : Grammar) : Grammar := { g with defaults := [] }

/-- `required_names.remove(name)`: `KeyError` when the name is not required. -/
def reqRemove (g : Grammar) (n : Name) : Except Err Grammar :=
  if n ∈ g.required then .ok { g with required := serase g.required n } else .error .key

def reqClear (g : Grammar) : Grammar := { g with required := [] }

/-- `required_names |= names` (`MutableSet.__ior__`): `add` one by one, stops at the first name that
    is not an element, keeping what was added before. -/
def reqUpdate (g : Grammar) : List Name → Grammar × Bool
  | [] => (g, true)
  | n :: t =>
    if n ∈ g.keys then reqUpdate { g with required := sinsert g.required n } t
    else (g, false)

/-- `required_names -= names`. -/
def reqSub (g : Grammar) (names : List Name) : Grammar :=
  { g with required := g.required.filter (· ∉ names) }

/-- `required_names &= names`. -/
def reqAnd (g : Grammar) (names : List Name) : Grammar :=
  { g with required := g.required.filter (· ∈ names) }

/-! ### Lazily built schema and validator (JSON) -/

/-- The schema dict built from the builder and the required names of the grammar (repaired:
    the builder's own required set is not used). -/
def Grammar.snapNow (g : Grammar) : Snap := ⟨g.elems, sortNames g.required⟩

/-- The `schema` property: build and cache the dict when the cache is empty. -/
def Grammar.fillSchema (g : Grammar) : Grammar :=
  match g.kind, g.schemaC with
  | .json, none => { g with schemaC := some g.elems }
  | _, _ => g

/-- What the `schema` property returns: the cached properties with the *current* required names. -/
def Grammar.schemaView (g : Grammar) : Snap :=
  ⟨g.fillSchema.schemaC.getD g.elems, sortNames g.required⟩

/-- `_create_validator` when there is no validator: compiles a copy of the `schema` dict
    (without `required`, which `BaseGrammar.validate` checks itself). -/
def Grammar.ensureValidator (g : Grammar) : Grammar :=
  match g.kind, g.validC with
  | .json, none =>
    let g1 := g.fillSchema
    { g1 with validC := some (g1.schemaC.getD g1.elems) }
  | _, _ => g

def validateAgainst (elems : List (Name × TS)) (data : List (Name × Val)) : Bool :=
  elems.all (fun p => match alookup data p.1 with
                      | none => true
                      | some v => hasType p.2 v)

/-- `BaseGrammar.validate(data, raise_exception=False)`: verdict and the grammar afterwards
    (the validator may have been created). -/
def validate (g : Grammar) (data : List (Name × Val)) : Bool × Grammar :=
  if g.required.any (· ∉ akeys data) then (false, g)
  else match g.kind with
    | .simple => (validateAgainst g.elems data, g)
    | .json =>
      let g1 := g.ensureValidator
      (validateAgainst (g1.validC.getD g1.elems) data, g1)

/-- `to_json()`: always rebuilt from the builder and the required names of the grammar. -/
def toJson (g : Grammar) : Snap × Grammar := (g.snapNow, g)

/-- Conversion of one element for `to_simple_grammar()` (`_get_names_to_types`). -/
def convType : TS → Except Err TS
  | .js n => (toPy n).map TS.py
  | .py t => .ok (.py t)

/-- An element with its converted type (unchanged when the conversion fails). -/
def convElem (p : Name × TS) : Name × TS :=
  (p.1, match convType p.2 with
        | .ok t => t
        | .error _ => p.2)

/-- The exception raised by the first element that cannot be converted, if any. -/
def firstConvError (props : List (Name × TS)) : Option Err :=
  props.findSome? (fun p => match convType p.2 with
                            | .error e => some e
                            | .ok _ => none)

/-- `to_simple_grammar()`: the new `SimpleGrammar` (or the grammar itself when it is simple) and the
    source afterwards (`_get_names_to_types` reads the `schema` property). -/
def toSimple (g : Grammar) : Except Err (Grammar × Grammar) :=
  match g.kind with
  | .simple => .ok (g, g)
  | .json =>
    let g1 := g.fillSchema
    let props := g1.schemaView.props
    match firstConvError props with
    | some e => .error e
    | none =>
      let el := props.map convElem
      let s0 : Grammar := { Grammar.fresh .simple with elems := el }
      let s1 := reqAddAll s0 g.required
      .ok (setDefaultsChecked s1 g.defaults, g1)

/-! ### Operations involving two grammars -/

/-- `update_namespaces`. -/
def nsUpdate (cur other : List (Name × NsV)) : List (Name × NsV) :=
  other.foldl (fun acc p =>
    match alookup acc p.1, p.2 with
    | none, v => aset acc p.1 v
    | some (.one c), .one o => aset acc p.1 (.many [c, o])
    | some (.one c), .many os => aset acc p.1 (.many (c :: os))
    | some (.many cs), .one o => aset acc p.1 (.many (cs ++ [o]))
    | some (.many cs), .many os => aset acc p.1 (.many (cs ++ os))) cur

/-- The class-specific part `_update` of `dst.update(src, excluded_names, merge)`; returns the new
    `dst` and the new `src` (a JSON source converted for a simple destination gets its schema cached). -/
def updateSpecific (dst src : Grammar) (excl : List Name) (merge : Bool) : Except Err (Grammar × Grammar) :=
  match dst.kind with
  | .simple =>
    if merge then .error .value
    else match toSimple src with
      | .error e => .error e
      | .ok p =>
        .ok ({ dst with elems := (p.1.elems.filter (fun (q : Name × TS) => q.1 ∉ excl)).foldl
                                    (fun e (q : Name × TS) => aset e q.1 q.2) dst.elems }.resetCaches, p.2)
  | .json =>
    if src.kind ≠ .json then .error .type
    else
      let incoming := src.elems.filter (fun p => p.1 ∉ excl)
      let req : Option (List Name) := match src.breq with
        | some (r :: rs) => some (r :: rs)
        | _ => none
      let props := incoming.filterMap (fun p => match p.2 with
                                                | .js n => some (p.1, n)
                                                | .py _ => none)
      .ok ({ dst with elems := jsSetAll (!merge) dst.elems props,
                      breq := breqAddSchema dst.breq req }.resetCaches, src)

/-- The common part of `BaseGrammar.update`: namespaces, defaults and required names of the source
    (but for the excluded names). -/
def updateCommon (d1 src : Grammar) (excl : List Name) : Grammar :=
  let d2 := { d1 with toNs := if src.toNs = [] then d1.toNs else nsUpdate d1.toNs src.toNs,
                      fromNs := if src.fromNs = [] then d1.fromNs else nsUpdate d1.fromNs src.fromNs }
  let d3 := setDefaultsChecked d2 (src.defaults.filter (fun p => p.1 ∉ excl))
  let names := (src.keys.filter (· ∉ excl)).filter (fun n => n ∈ src.required ∧ n ∉ excl)
  reqAddAll d3 names

/-- `dst.update(src, excluded_names, merge)`; returns the new `dst` and the new `src`. -/
def updateFrom (dst src : Grammar) (excl : List Name) (merge : Bool) : Except Err (Grammar × Grammar) :=
  if src.elems = [] then .ok (dst, src)
  else match updateSpecific dst src excl merge with
    | .error e => .error e
    | .ok p => .ok (updateCommon p.1 src excl, p.2)

/-- `grammar.copy()` (repaired: the copy owns its required names). -/
def copyOf (src : Grammar) : Grammar :=
  let base : Grammar := { Grammar.fresh src.kind with toNs := src.toNs, fromNs := src.fromNs }
  let g1 : Grammar :=
    match src.kind with
    | .simple => { base with elems := src.elems }
    | .json =>
      let req : Option (List Name) := match src.breq with
        | some (r :: rs) => some (r :: rs)
        | _ => none
      { base with elems := src.elems, breq := breqAddSchema none req,
                  schemaC := src.schemaC, validC := src.validC }
  let g2 := reqAddAll g1 src.required
  setDefaultsChecked g2 src.defaults

/-- `pickle.loads(pickle.dumps(src))`: the new grammar and the source afterwards
    (`__getstate__` reads the `schema` property). The JSON elements are rebuilt from the *cached*
    schema dict. -/
def pickleOf (src : Grammar) : Grammar × Grammar :=
  match src.kind with
  | .simple => (src, src)
  | .json =>
    let s1 := src.fillSchema
    let snap := s1.schemaView
    let d0 : Grammar := { Grammar.fresh .json with
      elems := snap.props, toNs := src.toNs, fromNs := src.fromNs, required := src.required,
      breq := (if snap.req = [] then none else some []), schemaC := s1.schemaC, validC := none }
    (setDefaultsChecked d0 src.defaults, s1)

/-! ### The world: a few grammar slots -/

abbrev World := List (Option Grammar)

def World.get (w : World) (i : Nat) : Option Grammar := (w[i]?).join

def World.put (w : World) (i : Nat) (g : Grammar) : World :=
  if i < w.length then w.set i (some g) else w

inductive Op where
  | new (s : Nat) (k : Kind)
  | upd (dst src : Nat) (excl : List Name) (merge : Bool)
  | names (s : Nat) (names : List Name) (merge : Bool)
  | types (s : Nat) (l : List (Name × PyT)) (merge : Bool)
  | data (s : Nat) (l : List (Name × Val)) (merge : Bool)
  | schema (s : Nat) (props : List (Name × Node)) (req : Option (List Name)) (merge : Bool)
  | restrict (s : Nat) (names : List Name)
  | rename (s : Nat) (cur new : Name)
  | del (s : Nat) (n : Name)
  | addns (s : Nat) (n ns : Name)
  | clear (s : Nat)
  | copy (src dst : Nat)
  | pickle (src dst : Nat)
  | setdef (s : Nat) (n : Name) (v : String)
  | deldef (s : Nat) (n : Name)
  | defaults (s : Nat) (l : List (Name × String))
  | reqadd (s : Nat) (n : Name)
  | reqdisc (s : Nat) (n : Name)
  -- the other public ways of writing defaults and required names
  | defupd (s : Nat) (l : List (Name × String))      -- `g.defaults.update(dict)`
  | defupdfrom (dst src : Nat)                         -- `dst.defaults.update(src.defaults)` (a `Defaults` object)
  | defassignfrom (dst src : Nat)                      -- `dst.defaults = src.defaults`
  | defclear (s : Nat)                                 -- `g.defaults.clear()`
  | reqremove (s : Nat) (n : Name)
  | reqclear (s : Nat)
  | requpd (s : Nat) (names : List Name)               -- `rn = g.required_names; rn |= names`
  | reqsub (s : Nat) (names : List Name)               -- `rn -= names`
  | reqand (s : Nat) (names : List Name)               -- `rn &= names`
  | reqassign (s : Nat) (names : List Name)            -- `g.required_names = names`: the property has no setter
  -- read-only queries
  | val (s : Nat) (data : List (Name × Val))
  | qschema (s : Nat)
  | qjson (s : Nat)
  | qsimple (s : Nat)
  | qmisc (s : Nat) (names : List Name)
  deriving Repr

/-- Answer of an operation besides the new world. -/
inductive Out where
  | ok
  | err (e : Err)
  | badSlot
  | verdict (b : Bool)
  | snap (s : Snap)
  | simple (g : Grammar)
  | misc (hasNames : Bool) (noNs : List Name) (len : Nat)
  deriving DecidableEq, Repr

def liftE (w : World) (s : Nat) (r : Except Err Grammar) : World × Out :=
  match r with
  | .ok g => (w.put s g, .ok)
  | .error e => (w, .err e)

def stripNs (n : Name) : Name :=
  match (n.splitOn ":").getLast? with
  | some t => t
  | none => n

def step (w : World) (op : Op) : World × Out :=
  match op with
  | .new s k => if s < w.length then (w.put s (Grammar.fresh k), .ok) else (w, .badSlot)
  | .upd d s excl merge =>
    (match w.get d, w.get s with
     | some gd, some gs =>
       (match updateFrom gd gs excl merge with
        | .error e => (w, .err e)
        | .ok (gd', gs') => if d = s then (w.put d gd', .ok) else ((w.put s gs').put d gd', .ok))
     | _, _ => (w, .badSlot))
  | .names s l m => (match w.get s with | some g => liftE w s (updateFromNames g l m) | none => (w, .badSlot))
  | .types s l m => (match w.get s with | some g => liftE w s (updateFromTypes g l m) | none => (w, .badSlot))
  | .data s l m => (match w.get s with | some g => liftE w s (updateFromData g l m) | none => (w, .badSlot))
  | .schema s p r m => (match w.get s with | some g => liftE w s (updateFromSchema g p r m) | none => (w, .badSlot))
  | .restrict s l => (match w.get s with | some g => liftE w s (restrictTo g l) | none => (w, .badSlot))
  | .rename s c n => (match w.get s with | some g => liftE w s (renameElement g c n) | none => (w, .badSlot))
  | .del s n => (match w.get s with | some g => liftE w s (delItem g n) | none => (w, .badSlot))
  | .addns s n ns => (match w.get s with | some g => liftE w s (addNamespace g n ns) | none => (w, .badSlot))
  | .clear s => (match w.get s with | some g => (w.put s (Grammar.fresh g.kind), .ok) | none => (w, .badSlot))
  | .copy s d =>
    (match w.get s with
     | some g => if d < w.length then (w.put d (copyOf g), .ok) else (w, .badSlot)
     | none => (w, .badSlot))
  | .pickle s d =>
    (match w.get s with
     | some g =>
       if d < w.length then
         let (gd, gs) := pickleOf g
         ((w.put s gs).put d gd, .ok)
       else (w, .badSlot)
     | none => (w, .badSlot))
  | .setdef s n v => (match w.get s with | some g => liftE w s (setDefault g n v) | none => (w, .badSlot))
  | .deldef s n => (match w.get s with | some g => (w.put s (popDefault g n), .ok) | none => (w, .badSlot))
  | .defaults s l => (match w.get s with | some g => liftE w s (assignDefaults g l) | none => (w, .badSlot))
  | .reqadd s n => (match w.get s with | some g => liftE w s (reqAdd g n) | none => (w, .badSlot))
  | .reqdisc s n => (match w.get s with | some g => (w.put s (reqDiscard g n), .ok) | none => (w, .badSlot))
  | .defupd s l =>
    (match w.get s with
     | some g => let r := updateDefaults g l; (w.put s r.1, if r.2 then .ok else .err .key)
     | none => (w, .badSlot))
  | .defupdfrom d s =>
    (match w.get d, w.get s with
     | some gd, some gs => let r := updateDefaults gd gs.defaults; (w.put d r.1, if r.2 then .ok else .err .key)
     | _, _ => (w, .badSlot))
  | .defassignfrom d s =>
    (match w.get d, w.get s with
     | some gd, some gs => liftE w d (assignDefaults gd gs.defaults)
     | _, _ => (w, .badSlot))
  | .defclear s => (match w.get s with | some g => (w.put s (clearDefaults g), .ok) | none => (w, .badSlot))
  | .reqremove s n => (match w.get s with | some g => liftE w s (reqRemove g n) | none => (w, .badSlot))
  | .reqclear s => (match w.get s with | some g => (w.put s (reqClear g), .ok) | none => (w, .badSlot))
  | .requpd s l =>
    (match w.get s with
     | some g => let r := reqUpdate g l; (w.put s r.1, if r.2 then .ok else .err .key)
     | none => (w, .badSlot))
  | .reqsub s l => (match w.get s with | some g => (w.put s (reqSub g l), .ok) | none => (w, .badSlot))
  | .reqand s l => (match w.get s with | some g => (w.put s (reqAnd g l), .ok) | none => (w, .badSlot))
  | .reqassign s _ => (match w.get s with | some _ => (w, .err .attr) | none => (w, .badSlot))
  | .val s data =>
    (match w.get s with
     | some g => let (b, g') := validate g data; (w.put s g', .verdict b)
     | none => (w, .badSlot))
  | .qschema s =>
    (match w.get s with
     | some g => (w.put s g.fillSchema, .snap g.schemaView)
     | none => (w, .badSlot))
  | .qjson s =>
    (match w.get s with
     | some g => let (sn, g') := toJson g; (w.put s g', .snap sn)
     | none => (w, .badSlot))
  | .qsimple s =>
    (match w.get s with
     | some g =>
       (match toSimple g with
        | .error e => (w, .err e)
        | .ok (sg, g') => (w.put s g', .simple sg))
     | none => (w, .badSlot))
  | .qmisc s l =>
    (match w.get s with
     | some g => (w, .misc (l.all (· ∈ g.keys)) (g.keys.map stripNs) g.keys.length)
     | none => (w, .badSlot))

def run (w : World) (ops : List Op) : World := ops.foldl (fun w op => (step w op).1) w

/-- Which operations are read-only queries. -/
def Op.isQuery : Op → Bool
  | .val .. | .qschema .. | .qjson .. | .qsimple .. | .qmisc .. => true
  | _ => false

/-- Operations that apply their items one by one and keep what was applied before a failing item
    (Python's `MutableMapping.update` / `MutableSet.__ior__`). -/
def Op.partialOnError : Op → Bool
  | .defupd .. | .defupdfrom .. | .requpd .. => true
  | _ => false

/-- The public definition of a grammar (what `keys()`, `required_names`, `defaults`, the namespace
    maps show); the lazily built objects and the builder internals are not part of it. -/
structure Pub where
  kind : Kind
  elems : List (Name × TS)
  required : List Name
  defaults : List (Name × String)
  toNs : List (Name × NsV)
  fromNs : List (Name × NsV)
  deriving DecidableEq, Repr

def Grammar.pub (g : Grammar) : Pub := ⟨g.kind, g.elems, g.required, g.defaults, g.toNs, g.fromNs⟩

end GV.C15
