/-
C04 — model of `OptimizationHistory.optimum`, `feasible_points`,
`check_design_point_is_feasible`, `last_point`, the sign restoration of
`OptimizationResult.from_optimization_problem` and `compute_pareto_optimal_points`.

Code anchored: src/gemseo/algos/optimization_history.py,
src/gemseo/core/mdo_functions/collections/constraints.py,
src/gemseo/algos/optimization_result.py, src/gemseo/algos/pareto/utils.py.

Import-free (core Lean only) so that the driver can run it.
-/
import GemseoVerif.Model.Common

namespace GV.C04

/-- A recorded output value: a numeric vector, or "contains a NaN". -/
inductive Val where
  | num (v : List Rat)
  | nan
  deriving Repr, DecidableEq

inductive CType where
  | eq | ineq
  deriving Repr, DecidableEq

structure Cstr where
  name : String
  ty : CType
  deriving Repr, DecidableEq

/-- One database entry: the point and its recorded outputs (association list, first match wins,
    names are unique because the source is a dict). -/
structure Entry where
  x : List Rat
  outs : List (String × Val)
  deriving Repr

structure Cfg where
  obj : String
  cstrs : List Cstr
  tolEq : Rat
  tolIneq : Rat
  deriving Repr

def lookup (outs : List (String × Val)) (n : String) : Option Val :=
  (outs.find? (fun p => p.1 == n)).map (·.2)

def absR (r : Rat) : Rat := if r < 0 then -r else r

/-- `Constraints.is_constraint_satisfied` (a NaN compares false, so it is unsatisfied). -/
def satisfied (cfg : Cfg) (ty : CType) : Val → Bool
  | .nan => false
  | .num v =>
    match ty with
    | .eq => v.all (fun c => absR c ≤ cfg.tolEq)
    | .ineq => v.all (fun c => c ≤ cfg.tolIneq)

/-- `Constraints.is_point_feasible`: a missing value makes the point infeasible. -/
def isFeasible (cfg : Cfg) (e : Entry) : Bool :=
  cfg.cstrs.all (fun c =>
    match lookup e.outs c.name with
    | none => false
    | some v => satisfied cfg c.ty v)

/-- Contribution of one unsatisfied numeric constraint value to the violation measure:
    sum over the components above the tolerance of `(c - tol)^2` (absolute value for equalities). -/
def violTerm (cfg : Cfg) (ty : CType) (v : List Rat) : Rat :=
  match ty with
  | .ineq => ((v.filter (fun c => cfg.tolIneq < c)).map (fun c => (c - cfg.tolIneq) * (c - cfg.tolIneq))).sum
  | .eq => (((v.map absR).filter (fun c => cfg.tolEq < c)).map (fun c => (c - cfg.tolEq) * (c - cfg.tolEq))).sum

/-- `check_design_point_is_feasible` violation measure, `none` = `+inf`.
    Mirrors the code: the loop stops (`break`) at the first constraint without a recorded value. -/
def violationAux (cfg : Cfg) (outs : List (String × Val)) : List Cstr → Rat → Option Rat
  | [], acc => some acc
  | c :: cs, acc =>
    match lookup outs c.name with
    | none => some acc
    | some v =>
      if satisfied cfg c.ty v then violationAux cfg outs cs acc
      else match v with
        | .nan => none
        | .num l => violationAux cfg outs cs (acc + violTerm cfg c.ty l)

def violation (cfg : Cfg) (e : Entry) : Option Rat :=
  violationAux cfg e.outs cfg.cstrs 0

/-- Boolean returned by `check_design_point_is_feasible` (first component): false as soon as an
    unsatisfied constraint is met before the first missing value. -/
def checkFlagAux (cfg : Cfg) (outs : List (String × Val)) : List Cstr → Bool
  | [] => true
  | c :: cs =>
    match lookup outs c.name with
    | none => true
    | some v => if satisfied cfg c.ty v then checkFlagAux cfg outs cs else false

def checkFlag (cfg : Cfg) (e : Entry) : Bool := checkFlagAux cfg e.outs cfg.cstrs

/-- `a ≤ b` on violation measures with `none = +inf`. -/
def vle : Option Rat → Option Rat → Bool
  | _, none => true
  | none, some _ => false
  | some a, some b => a ≤ b

def vlt (a b : Option Rat) : Bool := !(vle b a)

/-- Comparison key of an objective value: a scalar, or the *squared* Euclidean norm of a vector of
    size > 1 (the code compares norms; squaring is monotone on non-negatives). -/
inductive Key where
  | scalar (r : Rat)
  | normSq (r : Rat)
  deriving Repr, DecidableEq

def sumSq (v : List Rat) : Rat := (v.map (fun c => c * c)).sum

def keyOf : Val → Option Key
  | .nan => none
  | .num [r] => some (.scalar r)
  | .num v => some (.normSq (sumSq v))

/-- Strict order `a < b` on keys, exact without square roots.
    `normSq n` stands for the real number `sqrt n` (n ≥ 0). -/
def Key.lt : Key → Key → Bool
  | .scalar a, .scalar b => a < b
  | .normSq a, .normSq b => a < b
  | .scalar a, .normSq b => a < 0 || a * a < b
  | .normSq a, .scalar b => 0 < b && a < b * b

/-- Objective key of an entry (none when absent or NaN: such a value is never selected because
    `nan < f_opt` is false). -/
def objKey (cfg : Cfg) (e : Entry) : Option Key :=
  match lookup e.outs cfg.obj with
  | none => none
  | some v => keyOf v

/-- Scan keeping the first strictly smallest key (`if k < best then best := k`), as both the
    feasible-optimum loop and `numpy.argmin` do. `i` is the index of the head of the list. -/
def firstMinAux {κ : Type} (lt : κ → κ → Bool) :
    List (Option κ) → Nat → Option (Nat × κ) → Option (Nat × κ)
  | [], _, best => best
  | none :: cs, i, best => firstMinAux lt cs (i + 1) best
  | some k :: cs, i, none => firstMinAux lt cs (i + 1) (some (i, k))
  | some k :: cs, i, some (ib, kb) =>
    if lt k kb then firstMinAux lt cs (i + 1) (some (i, k))
    else firstMinAux lt cs (i + 1) (some (ib, kb))

def firstMin {κ : Type} (lt : κ → κ → Bool) (cs : List (Option κ)) : Option (Nat × κ) :=
  firstMinAux lt cs 0 none

/-- Candidate key of an entry in the feasible case: feasible entries with a usable objective. -/
def cand (cfg : Cfg) (e : Entry) : Option Key :=
  if isFeasible cfg e then objKey cfg e else none

def bestFeas (cfg : Cfg) (h : List Entry) : Option (Nat × Key) :=
  firstMin Key.lt (h.map (cand cfg))

/-- `argmin` of the violation measures (first minimal index, `inf` allowed). -/
def argminViol (cfg : Cfg) (h : List Entry) : Option Nat :=
  (firstMin vlt (h.map (fun e => some (violation cfg e)))).map (·.1)

/-- The reported solution: which entry and the feasibility flag. -/
structure Solution where
  idx : Option Nat
  feasible : Bool
  deriving Repr, DecidableEq

/-- `OptimizationHistory.optimum` (`none` = the code raises `ValueError` on an empty history). -/
def optimum (cfg : Cfg) (h : List Entry) : Option Solution :=
  if h.isEmpty then none
  else if h.any (isFeasible cfg) then
    some { idx := match bestFeas cfg h with
                  | some b => some b.1
                  | none => h.findIdx? (isFeasible cfg),  -- no usable objective: first feasible point
           feasible := true }
  else
    some { idx := argminViol cfg h, feasible := false }

/-- `OptimizationHistory.last_point`: last entry, flagged with its own feasibility. -/
def lastPoint (cfg : Cfg) (h : List Entry) : Option Solution :=
  match h.getLast? with
  | none => none
  | some e => some { idx := some (h.length - 1), feasible := isFeasible cfg e }

/-- Sign restoration of `from_optimization_problem`: the database holds the standardized
    (minimized) objective; the original-sense value is its opposite when maximizing and
    not reporting the standardized objective. -/
def reportedObjective (minimize standardized : Bool) (f : Rat) : Rat :=
  if !minimize && !standardized then -f else f

/-- `compute_pareto_optimal_points`: point `i` is kept iff it is feasible and every *other* feasible
    point is strictly worse in at least one objective. -/
def paretoMask (objs : List (List Rat)) (feas : List Bool) : List Bool :=
  let idx := List.range objs.length
  idx.map (fun i =>
    feas.getD i false &&
    idx.all (fun j =>
      j == i || !(feas.getD j false) ||
        ((objs.getD j []).zip (objs.getD i [])).any (fun p => p.2 < p.1)))

end GV.C04
