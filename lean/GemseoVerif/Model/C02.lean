/-
C02 — executable model (spec layer) of `gemseo.algos.design_space.DesignSpace`:
an ordered list of variables; every vector view is *derived* from that one list
(index ranges are prefix sums, bound/normalisation arrays are concatenations), so the
model has no caches that could go stale.  Code anchored: src/gemseo/algos/design_space.py,
src/gemseo/algos/_variable.py, src/gemseo/utils/data_conversion.py.

Bounds: `none` is the infinite bound of that side.  Numbers are exact rationals.
Import-free (core Lean only).
-/
import GemseoVerif.Model.Common

namespace GV.C02

structure Var where
  name : String
  isInt : Bool
  lb : List (Option Rat)          -- none = -inf
  ub : List (Option Rat)          -- none = +inf
  value : Option (List Rat)       -- current value (absent or one number per component)
  deriving Repr, DecidableEq

def Var.size (v : Var) : Nat := v.lb.length

structure DS where
  vars : List Var
  intNorm : Bool := false         -- enable_integer_variables_normalization
  deriving Repr, DecidableEq

def DS.empty : DS := { vars := [] }

/-! ### Views -/

def DS.names (d : DS) : List String := d.vars.map (·.name)
def DS.sizes (d : DS) : List Nat := d.vars.map (·.size)
def DS.dimension (d : DS) : Nat := d.sizes.sum
def DS.find? (d : DS) (n : String) : Option Var := d.vars.find? (·.name == n)
def DS.contains (d : DS) (n : String) : Bool := d.vars.any (·.name == n)

/-- Index ranges `(name, start, stop)` as prefix sums of the sizes in variable order. -/
def rangesAux : List Var → Nat → List (String × Nat × Nat)
  | [], _ => []
  | v :: vs, off => (v.name, off, off + v.size) :: rangesAux vs (off + v.size)

def DS.ranges (d : DS) : List (String × Nat × Nat) := rangesAux d.vars 0

def DS.flatLb (d : DS) : List (Option Rat) := d.vars.flatMap (·.lb)
def DS.flatUb (d : DS) : List (Option Rat) := d.vars.flatMap (·.ub)

/-- Per-component "is integer" mask. -/
def DS.intMask (d : DS) : List Bool := d.vars.flatMap (fun v => List.replicate v.size v.isInt)

/-- `_add_norm_policy`: a component is normalisable iff both bounds are finite and the variable is
    float (or integer normalisation is enabled). -/
def Var.normMask (intNorm : Bool) (v : Var) : List Bool :=
  (v.lb.zip v.ub).map (fun p => (!v.isInt || intNorm) && p.1.isSome && p.2.isSome)

def DS.normMask (d : DS) : List Bool := d.vars.flatMap (Var.normMask d.intNorm)

def DS.hasCurrentValue (d : DS) : Bool := !d.vars.isEmpty && d.vars.all (·.value.isSome)

/-- Flat current value (only when every variable has one). -/
def DS.currentValue (d : DS) : Option (List Rat) :=
  if d.hasCurrentValue then some (d.vars.flatMap (fun v => v.value.getD [])) else none

/-! ### Views restricted to a list of variable names (in the *requested* order) -/

/-- `get_lower_bounds(names)`: concatenation of the variables' lower bounds in the requested order. -/
def DS.subLb (d : DS) (ns : List String) : List (Option Rat) :=
  ns.flatMap (fun n => match d.find? n with | some v => v.lb | none => [])
def DS.subUb (d : DS) (ns : List String) : List (Option Rat) :=
  ns.flatMap (fun n => match d.find? n with | some v => v.ub | none => [])

/-- `get_current_value(names)` (array): requested order; defined when each named variable has a value. -/
def DS.subCur (d : DS) (ns : List String) : Option (List Rat) :=
  if ns.all (fun n => match d.find? n with | some v => v.value.isSome | none => false) then
    some (ns.flatMap (fun n => match d.find? n with | some v => v.value.getD [] | none => []))
  else none

def rangeOf (d : DS) (n : String) : List Nat :=
  match d.ranges.find? (·.1 == n) with
  | some r => (List.range (r.2.2 - r.2.1)).map (· + r.2.1)
  | none => []

/-- `get_variables_indexes(names, use_design_space_order)`. -/
def DS.subIdx (d : DS) (ns : List String) (dsOrder : Bool) : List Nat :=
  let names := if dsOrder then d.names.filter (fun n => ns.contains n) else ns
  names.flatMap (rangeOf d)

/-! ### Component-wise normalisation -/

/-- Scale factor of a component: `ub - lb` (0 when `lb = ub`). Only used on normalisable ones. -/
def scaleOf (lb ub : Option Rat) : Rat :=
  match lb, ub with
  | some l, some u => u - l
  | _, _ => 1

/-- `_norm_factor_inv`: `1/(ub-lb)` with the `lb == ub ↦ 1` guard. -/
def invScaleOf (lb ub : Option Rat) : Rat :=
  let s := scaleOf lb ub
  if s = 0 then 1 else 1 / s

def normComp (minusLb : Bool) (norm : Bool) (lb ub : Option Rat) (x : Rat) : Rat :=
  if norm then
    ((if minusLb then x - lb.getD 0 else x)) * invScaleOf lb ub
  else x

def unnormComp (minusLb : Bool) (norm : Bool) (lb ub : Option Rat) (u : Rat) : Rat :=
  if norm then
    u * scaleOf lb ub + (if minusLb then lb.getD 0 else 0)
  else u

def zipWith4 {α β γ δ ε : Type} (f : α → β → γ → δ → ε) :
    List α → List β → List γ → List δ → List ε
  | a :: as, b :: bs, c :: cs, d :: ds => f a b c d :: zipWith4 f as bs cs ds
  | _, _, _, _ => []

/-- `normalize_vect(x, minus_lb)` on one vector of length `dimension`. -/
def DS.normalizeVect (d : DS) (minusLb : Bool) (x : List Rat) : List Rat :=
  zipWith4 (fun n l u xi => normComp minusLb n l u xi) d.normMask d.flatLb d.flatUb x

def roundIf (isInt : Bool) (x : Rat) : Rat := if isInt then (GV.roundHalfEven x : Rat) else x

/-- `unnormalize_vect(u, minus_lb)`: affine map back; for points (`minus_lb = true`) integer
    components are then rounded (half to even). Scaled vectors such as gradients
    (`minus_lb = false`) are not rounded. -/
def DS.unnormalizeVect (d : DS) (minusLb : Bool) (u : List Rat) : List Rat :=
  let raw := zipWith4 (fun n l b ui => unnormComp minusLb n l b ui) d.normMask d.flatLb d.flatUb u
  if minusLb then List.zipWith roundIf d.intMask raw else raw

/-- `normalize_grad g = unnormalize_vect(g, minus_lb=False, no_check=True)`. -/
def DS.normalizeGrad (d : DS) (g : List Rat) : List Rat := d.unnormalizeVect false g
/-- `unnormalize_grad g = normalize_vect(g, minus_lb=False)`. -/
def DS.unnormalizeGrad (d : DS) (g : List Rat) : List Rat := d.normalizeVect false g

def DS.roundVect (d : DS) (x : List Rat) : List Rat := List.zipWith roundIf d.intMask x

/-! ### Membership and projection -/

def geLb (tol : Rat) (lb : Option Rat) (x : Rat) : Bool :=
  match lb with | none => true | some l => l - tol ≤ x
def leUb (tol : Rat) (ub : Option Rat) (x : Rat) : Bool :=
  match ub with | none => true | some u => x ≤ u + tol

def zipWith3 {α β γ δ : Type} (f : α → β → γ → δ) : List α → List β → List γ → List δ
  | a :: as, b :: bs, c :: cs => f a b c :: zipWith3 f as bs cs
  | _, _, _ => []

/-- `check_membership(array)`: right size and every component within the bounds (tolerance `tol`). -/
def DS.isMember (d : DS) (tol : Rat) (x : List Rat) : Bool :=
  x.length == d.dimension &&
    (zipWith3 (fun l u xi => geLb tol l xi && leUb tol u xi) d.flatLb d.flatUb x).all id

def projComp (lb ub : Option Rat) (x : Rat) : Rat :=
  let x1 := match lb with | some l => if x < l then l else x | none => x
  match ub with | some u => if x1 > u then u else x1 | none => x1

/-- `project_into_bounds(x)` (physical coordinates). -/
def DS.project (d : DS) (x : List Rat) : List Rat := zipWith3 projComp d.flatLb d.flatUb x

/-! ### dict <-> array conversions -/

/-- `convert_array_to_dict`: split by the sizes in variable order. -/
def splitBySizes : List Nat → List Rat → List (List Rat)
  | [], _ => []
  | s :: ss, x => x.take s :: splitBySizes ss (x.drop s)

def DS.arrayToDict (d : DS) (x : List Rat) : List (String × List Rat) :=
  d.names.zip (splitBySizes d.sizes x)

/-- `convert_dict_to_array`: concatenate in variable order. -/
def DS.dictToArray (d : DS) (m : List (String × List Rat)) : List Rat :=
  d.names.flatMap (fun n => ((m.find? (·.1 == n)).map (·.2)).getD [])

/-! ### Edits (all return the new design space; invalid arguments are rejected with `none`) -/

def boundsOk (lb ub : List (Option Rat)) : Bool :=
  lb.length == ub.length && lb.length > 0 &&
    (lb.zip ub).all (fun p => match p.1, p.2 with | some l, some u => l ≤ u | _, _ => true)

def isIntegral (r : Rat) : Bool := r.den == 1

def intBoundsOk (isInt : Bool) (b : List (Option Rat)) : Bool :=
  !isInt || b.all (fun o => match o with | none => true | some r => isIntegral r)

def valueOk (tol : Rat) (isInt : Bool) (lb ub : List (Option Rat)) (v : List Rat) : Bool :=
  v.length == lb.length &&
    (zipWith3 (fun l u xi => geLb tol l xi && leUb tol u xi) lb ub v).all id &&
    (!isInt || v.all isIntegral)

/-- `add_variable`. -/
def DS.addVariable (d : DS) (tol : Rat) (v : Var) : Option DS :=
  if d.contains v.name then none
  else if !boundsOk v.lb v.ub then none
  else if !(intBoundsOk v.isInt v.lb && intBoundsOk v.isInt v.ub) then none
  else match v.value with
    | some x => if valueOk tol v.isInt v.lb v.ub x then some { d with vars := d.vars ++ [v] } else none
    | none => some { d with vars := d.vars ++ [v] }

/-- `remove_variable`. -/
def DS.removeVariable (d : DS) (n : String) : Option DS :=
  if d.contains n then some { d with vars := d.vars.filter (fun v => !(v.name == n)) } else none

/-- `filter(keep)`: keep a subset of the variables, in the design-space order. -/
def DS.filter (d : DS) (keep : List String) : Option DS :=
  if keep.all d.contains then some { d with vars := d.vars.filter (fun v => keep.contains v.name) }
  else none

def pick {α : Type} (l : List α) (idx : List Nat) : List α := idx.filterMap (fun i => l[i]?)

/-- `filter_dimensions(name, dims)`: keep the listed components of one variable
    (bounds, current value; the normalisation policy is derived, hence filtered too). -/
def DS.filterDimensions (d : DS) (n : String) (dims : List Nat) : Option DS :=
  match d.find? n with
  | none => none
  | some v0 =>
    if dims.isEmpty || dims.any (fun i => i ≥ v0.size) then none
    else some { d with vars := d.vars.map (fun v =>
      if v.name == n then
        { v with lb := pick v.lb dims, ub := pick v.ub dims, value := v.value.map (fun x => pick x dims) }
      else v) }

/-- `rename_variable`: in place — position, bounds, type, policy and current value are kept. -/
def DS.renameVariable (d : DS) (old new : String) : Option DS :=
  if !d.contains old then none
  else if d.contains new then none
  else some { d with vars := d.vars.map (fun v => if v.name == old then { v with name := new } else v) }

/-- `extend(other)`: add the other space's variables in its order. -/
def DS.extend (d : DS) (tol : Rat) (other : List Var) : Option DS :=
  other.foldlM (fun acc v => acc.addVariable tol v) d

def updVar (d : DS) (n : String) (f : Var → Var) : DS :=
  { d with vars := d.vars.map (fun v => if v.name == n then f v else v) }

/-- `set_lower_bound` / `set_upper_bound` (pydantic re-validates the variable). -/
def DS.setLowerBound (d : DS) (n : String) (lb : List (Option Rat)) : Option DS :=
  match d.find? n with
  | none => none
  | some v => if lb.length == v.size && boundsOk lb v.ub && intBoundsOk v.isInt lb
              then some (updVar d n (fun v => { v with lb := lb })) else none

def DS.setUpperBound (d : DS) (n : String) (ub : List (Option Rat)) : Option DS :=
  match d.find? n with
  | none => none
  | some v => if ub.length == v.size && boundsOk v.lb ub && intBoundsOk v.isInt ub
              then some (updVar d n (fun v => { v with ub := ub })) else none

/-- `set_current_value(array)`. -/
def DS.setCurrentArray (d : DS) (tol : Rat) (x : List Rat) : Option DS :=
  if x.length != d.dimension then none
  else
    let parts := splitBySizes d.sizes x
    let vars := List.zipWith (fun (v : Var) p => { v with value := some p }) d.vars parts
    if vars.all (fun v => valueOk tol v.isInt v.lb v.ub (v.value.getD [])) then
      some { d with vars := vars } else none

/-- `set_current_value(dict)`: variables missing from the dict lose their current value,
    unknown names are ignored. The code then requires every variable to be present
    (`_check_current_names`) unless the dict selects no variable at all. -/
def DS.setCurrentDict (d : DS) (tol : Rat) (m : List (String × List Rat)) : Option DS :=
  let vars := d.vars.map (fun v => { v with value := (m.find? (·.1 == v.name)).map (·.2) })
  let anyKnown := vars.any (·.value.isSome)
  if !anyKnown then some { d with vars := vars }
  else if vars.all (fun v => match v.value with
      | some x => valueOk tol v.isInt v.lb v.ub x
      | none => false) then some { d with vars := vars }
  else none

/-- `set_current_variable(name, value)` (no check in the code). -/
def DS.setCurrentVariable (d : DS) (n : String) (x : List Rat) : Option DS :=
  if d.contains n then some (updVar d n (fun v => { v with value := some x })) else none

def initComp (lb ub : Option Rat) : Rat :=
  match lb, ub with
  | none, none => 0
  | none, some u => u
  | some l, none => l
  | some l, some u => (l + u) / 2

/-- `initialize_missing_current_values` (integer variables: the centre is truncated toward zero by
    the int64 cast of the code). -/
def truncToInt (r : Rat) : Rat := if r < 0 then -(((-r).floor : Int) : Rat) else ((r.floor : Int) : Rat)

def DS.initMissing (d : DS) : DS :=
  { d with vars := d.vars.map (fun v =>
      match v.value with
      | some _ => v
      | none =>
        let c := (v.lb.zip v.ub).map (fun p => initComp p.1 p.2)
        { v with value := some (if v.isInt then c.map truncToInt else c) }) }

def DS.setIntNorm (d : DS) (b : Bool) : DS := { d with intNorm := b }

/-- `to_scalar_variables`: one variable per component, named `x` (size 1) or `x[i]`. -/
def DS.toScalar (d : DS) : DS :=
  { vars := d.vars.flatMap (fun v =>
      (List.range v.size).map (fun i =>
        { name := if v.size == 1 then v.name else v.name ++ "[" ++ toString i ++ "]",
          isInt := v.isInt,
          lb := [(v.lb[i]?).getD none], ub := [(v.ub[i]?).getD none],
          value := v.value.bind (fun x => (x[i]?).map (fun t => [t])) })),
    intNorm := false }

/-! ### Histories of edits -/

/-- The public edits of a design space. -/
inductive Op where
  | add (v : Var)
  | remove (n : String)
  | filter (keep : List String)
  | filterDim (n : String) (dims : List Nat)
  | rename (old new : String)
  | extend (vs : List Var)
  | setLb (n : String) (b : List (Option Rat))
  | setUb (n : String) (b : List (Option Rat))
  | setArr (x : List Rat)
  | setDict (m : List (String × List Rat))
  | setVar (n : String) (x : List Rat)
  | initMissing
  | intNorm (b : Bool)
  deriving Repr

/-- One edit; a rejected edit (`none`: the code raises) leaves the design space unchanged.
    `set_current_variable` performs no check in the code: giving it an array of the wrong size is
    outside the property's quantifier and is skipped here. -/
def DS.apply (tol : Rat) (d : DS) : Op → DS
  | .add v => (d.addVariable tol v).getD d
  | .remove n => (d.removeVariable n).getD d
  | .filter keep => (d.filter keep).getD d
  | .filterDim n dims => (d.filterDimensions n dims).getD d
  | .rename o n => (d.renameVariable o n).getD d
  | .extend vs => (d.extend tol vs).getD d
  | .setLb n b => (d.setLowerBound n b).getD d
  | .setUb n b => (d.setUpperBound n b).getD d
  | .setArr x => (d.setCurrentArray tol x).getD d
  | .setDict m => (d.setCurrentDict tol m).getD d
  | .setVar n x =>
    match d.find? n with
    | some v => if x.length == v.size then (d.setCurrentVariable n x).getD d else d
    | none => d
  | .initMissing => d.initMissing
  | .intNorm b => d.setIntNorm b

def DS.run (tol : Rat) (d : DS) (ops : List Op) : DS := ops.foldl (DS.apply tol) d

/-! ### Protocol parsing shared by the drivers (I/O glue, not used in theorems) -/

def parseOList? (s : String) : Option (List (Option Rat)) :=
  if s = "[]" then some [] else (s.splitOn ",").mapM parseORat?

def showOList (l : List (Option Rat)) : String :=
  if l.isEmpty then "[]" else ",".intercalate (l.map showORat)

/-- varspec = name:f|i:lb:ub:val -/
def parseVar? (s : String) : Option Var :=
  match s.splitOn ":" with
  | [n, t, lb, ub, v] => do
    let lb ← parseOList? lb
    let ub ← parseOList? ub
    let isInt ← (if t = "i" then some true else if t = "f" then some false else none)
    let val ← (if v = "_" then some none else (parseRatList? v).map some)
    some ⟨n, isInt, lb, ub, val⟩
  | _ => none

end GV.C02
