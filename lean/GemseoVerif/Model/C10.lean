/-
C10 — executable model of the function algebra of GEMSEO.

Code anchored (repaired tree): src/gemseo/core/mdo_functions/_operations.py
(`_AdditionFunctionMaker`, `_MultiplicationFunctionMaker` and its `__scale_rows`),
mdo_function.py (`__neg__`, `offset`), mdo_linear_function.py (`_func_to_wrap`, `_jac_to_wrap`,
`__neg__`, `offset`, `restrict`, `normalize`), mdo_quadratic_function.py, function_restriction.py,
linear_composite_function.py, concatenate.py, taylor_polynomials.py, convex_linear_approx.py,
algos/aggregation/core.py (sum of squares, positive sum of squares, max).

Everything is polymorphic in the number type `α` (only the arithmetic operations are used), so
that the very same definitions are run by the driver at `α = Rat` and reasoned about in
`Props/C10.lean` at an arbitrary nontrivially normed field (ℝ, ℂ, ℚ).

Representation: a vector is a function `Nat → α` together with its length kept separately,
a matrix a function `Nat → Nat → α` (row, column); entries outside the shape are never read by
the theorems. A *dual vector* `DV` is the pair (value, Jacobian) of a function at one point:
this is what `MDOFunction.evaluate` / `MDOFunction.jac` return.

Import-free apart from `Model.Common` (no Mathlib) so that the driver can run it.
-/
import GemseoVerif.Model.Common

namespace GV.C10

/-- `+ - * /` of `MDOFunction`. -/
inductive BinOp where
  | add | sub | mul | div
  deriving Repr, DecidableEq


/-! ### Arithmetic-only part (no order needed) -/

section Algebra

variable {α : Type} [Add α] [Mul α] [Sub α] [Neg α] [Div α] [OfNat α 0] [OfNat α 1]

/-- `sum_{j < k} f j` (NumPy `sum`, `@`, `dot`). -/
def sumTo : Nat → (Nat → α) → α
  | 0, _ => 0
  | k + 1, f => sumTo k f + f k

/-- A list as a vector (0 beyond its length). -/
def vec (l : List α) : Nat → α := fun j => l.getD j 0

/-- A list of rows as a matrix. -/
def mat (l : List (List α)) : Nat → Nat → α := fun i j => (l.getD i []).getD j 0

/-- Value and Jacobian of an `m`-valued function at one point (the input dimension is given by
    the context). `val i` for `i < m`, `jac i j` for `i < m`, `j < n`. -/
structure DV (α : Type) where
  m : Nat
  val : Nat → α
  jac : Nat → Nat → α

/-- NumPy broadcasting of an operand with one component against `m` components. -/
def bi (m i : Nat) : Nat := if m = 1 then 0 else i

/-- `_AdditionFunctionMaker`: `f(x) + g(x)`, Jacobian `f'(x) + g'(x)`. -/
def DV.add (a b : DV α) : DV α :=
  { m := max a.m b.m
    val := fun i => a.val (bi a.m i) + b.val (bi b.m i)
    jac := fun i j => a.jac (bi a.m i) j + b.jac (bi b.m i) j }

/-- `_AdditionFunctionMaker(inverse=True)`. -/
def DV.sub (a b : DV α) : DV α :=
  { m := max a.m b.m
    val := fun i => a.val (bi a.m i) - b.val (bi b.m i)
    jac := fun i j => a.jac (bi a.m i) j - b.jac (bi b.m i) j }

/-- `_MultiplicationFunctionMaker`: `scale_rows(f', g) + scale_rows(g', f)`. -/
def DV.mul (a b : DV α) : DV α :=
  { m := max a.m b.m
    val := fun i => a.val (bi a.m i) * b.val (bi b.m i)
    jac := fun i j => a.jac (bi a.m i) j * b.val (bi b.m i) + b.jac (bi b.m i) j * a.val (bi a.m i) }

/-- `_MultiplicationFunctionMaker(inverse=True)`:
    `scale_rows(scale_rows(f', g) - scale_rows(g', f), 1 / g**2)`. -/
def DV.div (a b : DV α) : DV α :=
  { m := max a.m b.m
    val := fun i => a.val (bi a.m i) / b.val (bi b.m i)
    jac := fun i j =>
      (a.jac (bi a.m i) j * b.val (bi b.m i) - b.jac (bi b.m i) j * a.val (bi a.m i))
        * (1 / (b.val (bi b.m i) * b.val (bi b.m i))) }

/-- Second operand a number (`c.length = 1`) or an array: the Jacobian is the first operand's. -/
def DV.addC (a : DV α) (c : List α) : DV α :=
  { m := a.m, val := fun i => a.val i + vec c (bi c.length i), jac := a.jac }

def DV.subC (a : DV α) (c : List α) : DV α :=
  { m := a.m, val := fun i => a.val i - vec c (bi c.length i), jac := a.jac }

/-- `f * c`: the Jacobian is `f' * c` for a number, `f' * tile(c, (n, 1)).T` for an array. -/
def DV.mulC (a : DV α) (c : List α) : DV α :=
  { m := a.m
    val := fun i => a.val i * vec c (bi c.length i)
    jac := fun i j => a.jac i j * vec c (bi c.length i) }

def DV.divC (a : DV α) (c : List α) : DV α :=
  { m := a.m
    val := fun i => a.val i / vec c (bi c.length i)
    jac := fun i j => a.jac i j / vec c (bi c.length i) }

/-- Dispatch of the four operators (function operand). -/
def DV.bin (op : BinOp) (a b : DV α) : DV α :=
  match op with
  | .add => a.add b
  | .sub => a.sub b
  | .mul => a.mul b
  | .div => a.div b

/-- Dispatch of the four operators (number or array operand). -/
def DV.binC (op : BinOp) (a : DV α) (c : List α) : DV α :=
  match op with
  | .add => a.addC c
  | .sub => a.subC c
  | .mul => a.mulC c
  | .div => a.divC c

/-- `MDOFunction.__neg__` (`_min_pt`, `_min_jac`). -/
def DV.neg (a : DV α) : DV α :=
  { m := a.m, val := fun i => - a.val i, jac := fun i j => - a.jac i j }

/-- `Concatenate`: `concatenate([atleast_1d(f(x)), ...])`, `vstack([atleast_2d(f'(x)), ...])`. -/
def DV.concat (a b : DV α) : DV α :=
  { m := a.m + b.m
    val := fun i => if i < a.m then a.val i else b.val (i - a.m)
    jac := fun i j => if i < a.m then a.jac i j else b.jac (i - a.m) j }

/-! #### Restriction to some inputs (`FunctionRestriction`) -/

/-- `active_indexes = [i for i in range(N) if i not in frozen_indexes]`. -/
def activeIdx (N : Nat) (frozen : List Nat) : List Nat :=
  (List.range N).filter (fun i => !frozen.contains i)

/-- `__extend_subvect`: `x_vect[active] = x_sub; x_vect[frozen_indexes] = frozen_values`. -/
def extendPt (N : Nat) (frozen : List Nat) (vals : List α) (x : Nat → α) : Nat → α :=
  fun i =>
    if i < N then
      if frozen.contains i then vec vals (frozen.idxOf i)
      else x ((activeIdx N frozen).idxOf i)
    else 0

/-- `mdo_function.jac(extended x)[..., active_indexes]`. -/
def DV.restrictCols (d : DV α) (N : Nat) (frozen : List Nat) : DV α :=
  { m := d.m, val := d.val, jac := fun i j => d.jac i ((activeIdx N frozen).getD j 0) }

/-! #### Composition with a linear map (`LinearCompositeFunction`) -/

/-- `matrix.dot(x)` for a `K x n` matrix. -/
def matVec (n : Nat) (A : Nat → Nat → α) (x : Nat → α) : Nat → α :=
  fun k => sumTo n (fun j => A k j * x j)

/-- `function.jac(A x) @ A`. -/
def DV.rightMul (d : DV α) (K : Nat) (A : Nat → Nat → α) : DV α :=
  { m := d.m, val := d.val, jac := fun i j => sumTo K (fun k => d.jac i k * A k j) }

/-! #### Linear functions (`MDOLinearFunction`) -/

/-- `A x + b` with `A` of shape `m x n`. -/
structure LinF (α : Type) where
  m : Nat
  n : Nat
  A : Nat → Nat → α
  b : Nat → α

/-- `_func_to_wrap` / `_jac_to_wrap`. -/
def LinF.eval (L : LinF α) (x : Nat → α) : DV α :=
  { m := L.m, val := fun i => sumTo L.n (fun j => L.A i j * x j) + L.b i, jac := L.A }

/-- `MDOLinearFunction.__neg__`. -/
def LinF.neg (L : LinF α) : LinF α :=
  { L with A := fun i j => - L.A i j, b := fun i => - L.b i }

/-- `MDOLinearFunction.offset` (`_value_at_zero + value`). -/
def LinF.offset (L : LinF α) (c : List α) : LinF α :=
  { L with b := fun i => L.b i + vec c (bi c.length i) }

/-- `MDOLinearFunction.restrict`: `A[:, active]`, `A[:, frozen] @ frozen_values + b`. -/
def LinF.restrict (L : LinF α) (frozen : List Nat) (vals : List α) : LinF α :=
  { m := L.m
    n := L.n - frozen.length
    A := fun i j => L.A i ((activeIdx L.n frozen).getD j 0)
    b := fun i => sumTo frozen.length (fun k => L.A i (frozen.getD k 0) * vec vals k) + L.b i }

/-- `MDOLinearFunction.normalize`: `A * (ub - lb)` on the normalised inputs, value at the shift. -/
def normFactor (lb ub : List α) (mask : List Bool) : Nat → α :=
  fun j => if mask.getD j false then vec ub j - vec lb j else 1

def normShift (lb : List α) (mask : List Bool) : Nat → α :=
  fun j => if mask.getD j false then vec lb j else 0

def LinF.normalize (L : LinF α) (lb ub : List α) (mask : List Bool) : LinF α :=
  { L with
    A := fun i j => L.A i j * normFactor lb ub mask j
    b := (L.eval (normShift lb mask)).val }

/-- `compute_linear_approximation`: coefficients `f'(x̂)`, value at zero `f(x̂) - f'(x̂) x̂`. -/
def taylor1 (n : Nat) (d : DV α) (xh : Nat → α) : LinF α :=
  { m := d.m, n := n, A := d.jac, b := fun i => d.val i - sumTo n (fun j => d.jac i j * xh j) }

/-! #### Quadratic functions (`MDOQuadraticFunction`) -/

/-- `x' Q x + b' x + c`. -/
structure QuadF (α : Type) where
  n : Nat
  Q : Nat → Nat → α
  b : Nat → α
  c : α

/-- `_func_to_wrap`: `x.T @ (Q @ x) + lin(x) + c`; `_jac_to_wrap`: `(Q + Q.T) @ x + b`. -/
def QuadF.eval (q : QuadF α) (x : Nat → α) : DV α :=
  { m := 1
    val := fun _ => sumTo q.n (fun i => x i * sumTo q.n (fun j => q.Q i j * x j))
                    + sumTo q.n (fun j => q.b j * x j) + q.c
    jac := fun _ i => sumTo q.n (fun j => (q.Q i j + q.Q j i) * x j) + q.b i }

def half : α := 1 / (1 + 1)

/-- `compute_quadratic_approximation(f, x̂, H)`:
    `Q = H/2`, `b = f'(x̂) - H x̂`, `c = (H x̂ / 2 - f'(x̂)) . x̂ + f(x̂)`. -/
def taylor2 (n : Nat) (d : DV α) (xh : Nat → α) (H : Nat → Nat → α) : QuadF α :=
  { n := n
    Q := fun i j => half * H i j
    b := fun i => d.jac 0 i - matVec n H xh i
    c := sumTo n (fun i => (half * matVec n H xh i - d.jac 0 i) * xh i) + d.val 0 }

/-! #### Polynomial user functions (the leaves driven by the harness) -/

/-- A monomial `c * prod_k x_k ^ e_k`. -/
abbrev Mono (α : Type) := α × List Nat

def npow (a : α) : Nat → α
  | 0 => 1
  | k + 1 => npow a k * a

/-- `prod_k x_(k0+k) ^ e_k`. -/
def monoEvalFrom (k0 : Nat) : List Nat → (Nat → α) → α
  | [], _ => 1
  | e :: r, x => npow (x k0) e * monoEvalFrom (k0 + 1) r x

def natCast (k : Nat) : α :=
  match k with
  | 0 => 0
  | k + 1 => natCast k + 1

/-- Formal derivative `e a^(e-1)` of `a^e`. -/
def npowDeriv (a : α) : Nat → α
  | 0 => 0
  | e + 1 => natCast (e + 1) * npow a e

/-- Formal partial derivative of `prod_k x_(k0+k)^e_k` with respect to `x_j`. -/
def monoDerivFrom (k0 : Nat) (j : Nat) : List Nat → (Nat → α) → α
  | [], _ => 0
  | e :: r, x =>
    (if k0 = j then npowDeriv (x k0) e * monoEvalFrom (k0 + 1) r x else 0)
    + npow (x k0) e * monoDerivFrom (k0 + 1) j r x

def polyEval (p : List (Mono α)) (x : Nat → α) : α :=
  match p with
  | [] => 0
  | (c, e) :: r => c * monoEvalFrom 0 e x + polyEval r x

def polyDeriv (p : List (Mono α)) (j : Nat) (x : Nat → α) : α :=
  match p with
  | [] => 0
  | (c, e) :: r => c * monoDerivFrom 0 j e x + polyDeriv r j x

/-- A vector of polynomials evaluated with its formal Jacobian. -/
def polyDV (ps : List (List (Mono α))) (x : Nat → α) : DV α :=
  { m := ps.length
    val := fun i => polyEval (ps.getD i []) x
    jac := fun i j => polyDeriv (ps.getD i []) j x }

/-! #### Sum-of-squares aggregation (`compute_sum_square_agg` and its total Jacobian) -/

/-- The selected components: all of them, or `orig_val[indices]`. -/
def selIdx (idx : Option (List Nat)) (k : Nat) : Nat :=
  match idx with
  | none => k
  | some l => l.getD k 0

def selLen (idx : Option (List Nat)) (m : Nat) : Nat :=
  match idx with
  | none => m
  | some l => l.length

/-- `sum(scale * g**2)`, Jacobian `sum((2 * scale * g) * g'.T, axis=1)`. -/
def aggSumSq (d : DV α) (idx : Option (List Nat)) (scale : List α) : DV α :=
  let K := selLen idx d.m
  { m := 1
    val := fun _ => sumTo K (fun k => vec scale (bi scale.length k) * (d.val (selIdx idx k) * d.val (selIdx idx k)))
    jac := fun _ j =>
      sumTo K (fun k => ((1 + 1) * vec scale (bi scale.length k) * d.val (selIdx idx k)) * d.jac (selIdx idx k) j) }

/-- The object built for a tree: an `MDOLinearFunction` (whose `__neg__`, `offset`, `restrict`,
    `normalize` return linear functions again) or any other `MDOFunction`. -/
inductive Obj (α : Type) where
  | linear (L : LinF α)
  | generic (f : (Nat → α) → DV α)

def Obj.eval (o : Obj α) (x : Nat → α) : DV α :=
  match o with
  | .linear L => L.eval x
  | .generic f => f x

end Algebra

/-! ### Order-dependent part (convex linearisation, positive sum of squares, max) -/

section Ordered

variable {α : Type} [Add α] [Mul α] [Sub α] [Neg α] [Div α] [OfNat α 0] [OfNat α 1]
variable [LT α] [DecidableRel (α := α) (· < ·)]

def absV (a : α) : α := if a < 0 then -a else a

/-- `ConvexLinearApprox` built at `x̂` from the Jacobian `J0 = f'(x̂)`; `fm` is the value/Jacobian
    of `f` at the merged point `where(mask, x̂, x)`. -/
def convexLin (n : Nat) (thr : α) (J0 : Nat → Nat → α) (xh : Nat → α) (mask : Nat → Bool)
    (fm : DV α) (x : Nat → α) : DV α :=
  let direct : Nat → Nat → α := fun i j => if thr < J0 i j then J0 i j else 0
  let recipr : Nat → Nat → α := fun i j => (-(if thr < - J0 i j then J0 i j else 0)) * (xh j * xh j)
  let step : Nat → α := fun j => x j - xh j
  let inv : Nat → α := fun j => if thr < absV (step j) then 1 / step j else 0
  { m := fm.m
    val := fun i =>
      fm.val i + sumTo n (fun j => if mask j then direct i j * step j else 0)
               + sumTo n (fun j => if mask j then recipr i j * inv j else 0)
    jac := fun i j =>
      if mask j then direct i j + recipr i j * (-(inv j * inv j)) else fm.jac i j }

/-- `where(mask, x̂, x)`. -/
def mergePt (mask : Nat → Bool) (xh x : Nat → α) : Nat → α := fun j => if mask j then xh j else x j

/-- `heaviside(v, 0)`. -/
def heavi (v : α) : α := if 0 < v then 1 else 0

/-- `compute_sum_positive_square_agg` and its total Jacobian. -/
def aggPosSumSq (d : DV α) (idx : Option (List Nat)) (scale : List α) : DV α :=
  let K := selLen idx d.m
  { m := 1
    val := fun _ => sumTo K (fun k =>
      vec scale (bi scale.length k) * (d.val (selIdx idx k) * d.val (selIdx idx k)) * heavi (d.val (selIdx idx k)))
    jac := fun _ j =>
      sumTo K (fun k => ((1 + 1) * vec scale (bi scale.length k) * d.val (selIdx idx k)
        * heavi (d.val (selIdx idx k))) * d.jac (selIdx idx k) j) }

/-- First index of the maximum among `g 0 .. g (K-1)` (`numpy.argmax`), `K >= 1`. -/
def argmaxTo : Nat → (Nat → α) → Nat
  | 0, _ => 0
  | 1, _ => 0
  | k + 2, g => let b := argmaxTo (k + 1) g; if g b < g (k + 1) then k + 1 else b

/-- `compute_max_agg` / `compute_max_agg_jac`: the values and the rows are scaled first. -/
def aggMax (d : DV α) (idx : Option (List Nat)) (scale : List α) : DV α :=
  let K := selLen idx d.m
  let g : Nat → α := fun k => d.val (selIdx idx k) * vec scale (bi scale.length k)
  let b := argmaxTo K g
  { m := 1
    val := fun _ => g b
    jac := fun _ j => vec scale (bi scale.length b) * d.jac (selIdx idx b) j }

/-! ### Expression trees and the objects they build -/

inductive AggKind where
  | sumsq | possumsq | max
  deriving Repr, DecidableEq

/-- The trees the harness builds with the public API. `user` leaves are the user callables
    (parameters of the model: `env id n x` is their value/Jacobian pair at `x`). -/
inductive Expr (α : Type) where
  | user (id : Nat)
  | poly (ps : List (List (Mono α)))
  | lin (m : Nat) (A : List (List α)) (b : List α)
  | quad (Q : List (List α)) (b : List α) (c : α)
  | bin (op : BinOp) (a b : Expr α)
  | binC (op : BinOp) (a : Expr α) (c : List α)
  | neg (a : Expr α)
  | offset (a : Expr α) (c : List α)
  | restrict (N : Nat) (frozen : List Nat) (vals : List α) (a : Expr α)
  | lrestrict (frozen : List Nat) (vals : List α) (a : Expr α)
  | lincomp (K : Nat) (A : List (List α)) (a : Expr α)
  | concat (a b : Expr α)
  | normalize (lb ub : List α) (mask : List Bool) (a : Expr α)
  | taylor1 (xh : List α) (a : Expr α)
  | taylor2 (xh : List α) (H : List (List α)) (a : Expr α)
  | convexLin (xh : List α) (mask : Option (List Bool)) (a : Expr α)
  | agg (kind : AggKind) (idx : Option (List Nat)) (scale : List α) (a : Expr α)

/-- Build the object of a tree whose input dimension is `n` (dynamic dispatch on linear
    functions as in the code). `thr` is the sign threshold of the convex linearisation. -/
def build (env : Nat → Nat → (Nat → α) → DV α) (thr : α) : Nat → Expr α → Obj α
  | n, .user id => .generic (env id n)
  | _, .poly ps => .generic (polyDV ps)
  | n, .lin m A b => .linear { m := m, n := n, A := mat A, b := vec b }
  | n, .quad Q b c => .generic (QuadF.eval { n := n, Q := mat Q, b := vec b, c := c })
  | n, .bin op a b => let fa := build env thr n a; let fb := build env thr n b
                      .generic (fun x => DV.bin op (fa.eval x) (fb.eval x))
  | n, .binC op a c => let fa := build env thr n a; .generic (fun x => DV.binC op (fa.eval x) c)
  | n, .neg a =>
    match build env thr n a with
    | .linear L => .linear L.neg
    | .generic f => .generic (fun x => (f x).neg)
  | n, .offset a c =>
    match build env thr n a with
    | .linear L => .linear (L.offset c)
    | .generic f => .generic (fun x => (f x).addC c)
  | _, .restrict N frozen vals a =>
    let fa := build env thr N a
    .generic (fun x => (fa.eval (extendPt N frozen vals x)).restrictCols N frozen)
  | n, .lrestrict frozen vals a =>
    match build env thr (n + frozen.length) a with
    | .linear L => .linear (L.restrict frozen vals)
    | .generic f =>  -- not reachable through the API (only linear functions have `restrict`)
      .generic (fun x => (f (extendPt (n + frozen.length) frozen vals x)).restrictCols (n + frozen.length) frozen)
  | n, .lincomp K A a =>
    let fa := build env thr K a
    .generic (fun x => (fa.eval (matVec n (mat A) x)).rightMul K (mat A))
  | n, .concat a b => let fa := build env thr n a; let fb := build env thr n b
                      .generic (fun x => (fa.eval x).concat (fb.eval x))
  | n, .normalize lb ub mask a =>
    match build env thr n a with
    | .linear L => .linear (L.normalize lb ub mask)
    | .generic f => .generic f  -- not reachable through the API
  | n, .taylor1 xh a =>
    let fa := build env thr n a
    .linear (taylor1 n (fa.eval (vec xh)) (vec xh))
  | n, .taylor2 xh H a =>
    let fa := build env thr n a
    .generic (QuadF.eval (taylor2 n (fa.eval (vec xh)) (vec xh) (mat H)))
  | n, .convexLin xh mask a =>
    let fa := build env thr n a
    let mk : Nat → Bool := match mask with
      | none => fun _ => true
      | some l => fun j => l.getD j false
    let J0 := (fa.eval (vec xh)).jac
    .generic (fun x => convexLin n thr J0 (vec xh) mk (fa.eval (mergePt mk (vec xh) x)) x)
  | n, .agg kind idx scale a =>
    let fa := build env thr n a
    .generic (fun x =>
      match kind with
      | .sumsq => aggSumSq (fa.eval x) idx scale
      | .possumsq => aggPosSumSq (fa.eval x) idx scale
      | .max => aggMax (fa.eval x) idx scale)

/-- Value and Jacobian of the tree at `x`: what `evaluate(x)` and `jac(x)` return. -/
def evalTree (env : Nat → Nat → (Nat → α) → DV α) (thr : α) (n : Nat) (e : Expr α) (x : Nat → α) : DV α :=
  (build env thr n e).eval x

/-! ### Sessions: function objects whose public parameters are edited after construction,
    trees built on them, and a point buffer owned by the caller

`MDOLinearFunction.coefficients` / `.value_at_zero`, `MDOQuadraticFunction.quad_coeffs` /
`.linear_coeffs` and `MDOFunction.func` / `.jac` are public read/write attributes (the array
getters hand out the internal arrays, which can be edited in place). The state of such an object
in the code is *exactly* these attributes: `_func_to_wrap` / `_jac_to_wrap` read them at every
call and nothing derived from them is kept. The operation makers, `FunctionRestriction`,
`LinearCompositeFunction`, `Concatenate`, the aggregation wrappers call their operands at every
call as well and keep nothing about the points they were called at. Hence a session
  (construct / set / edit in place)*  interleaved with  (write the point buffer | evaluate | jac)*
is a state machine whose state is the current parameters and the current content of the buffer. -/

/-- A function object with settable public parameters. -/
inductive FnObj (α : Type) where
  /-- `MDOLinearFunction`: `coefficients` (m x n), `value_at_zero` (m). -/
  | linear (A : List (List α)) (b : List α)
  /-- `MDOQuadraticFunction`: `quad_coeffs`, `linear_coeffs`, zero-order coefficient. -/
  | quadratic (Q : List (List α)) (b : List α) (c : α)
  /-- `MDOFunction` wrapping user callables `func` / `jac` (polynomials in the driver). -/
  | callable (ps : List (List (Mono α)))

/-- The leaf a tree built on the object evaluates: the object with its *current* parameters. -/
def FnObj.leaf : FnObj α → Expr α
  | .linear A b => .lin A.length A b
  | .quadratic Q b c => .quad Q b c
  | .callable ps => .poly ps

/-- The tree that is evaluated when a tree built on the objects is called: a reference
    `user id` to a registered object is the object as it is *now*. -/
def subst (objs : Nat → Option (FnObj α)) : Expr α → Expr α
  | .user id => match objs id with
    | some o => o.leaf
    | none => .user id
  | .poly ps => .poly ps
  | .lin m A b => .lin m A b
  | .quad Q b c => .quad Q b c
  | .bin op a b => .bin op (subst objs a) (subst objs b)
  | .binC op a c => .binC op (subst objs a) c
  | .neg a => .neg (subst objs a)
  | .offset a c => .offset (subst objs a) c
  | .restrict N fz vals a => .restrict N fz vals (subst objs a)
  | .lrestrict fz vals a => .lrestrict fz vals (subst objs a)
  | .lincomp K A a => .lincomp K A (subst objs a)
  | .concat a b => .concat (subst objs a) (subst objs b)
  | .normalize lb ub mask a => .normalize lb ub mask (subst objs a)
  | .taylor1 xh a => .taylor1 xh (subst objs a)
  | .taylor2 xh H a => .taylor2 xh H (subst objs a)
  | .convexLin xh mask a => .convexLin xh mask (subst objs a)
  | .agg kind idx scale a => .agg kind idx scale (subst objs a)

/-- In-place assignment `M[i, j] = v`. -/
def setEntry (M : List (List α)) (i j : Nat) (v : α) : List (List α) :=
  M.set i ((M.getD i []).set j v)

/-- State of a session: the registered objects and the content of the caller's point buffer. -/
structure Sess (α : Type) where
  objs : Nat → Option (FnObj α)
  x : List α

def Sess.empty : Sess α := { objs := fun _ => none, x := [] }

def Sess.put (s : Sess α) (id : Nat) (o : FnObj α) : Sess α :=
  { s with objs := fun k => if k = id then some o else s.objs k }

/-- Operations of a session. -/
inductive SOp (α : Type) where
  /-- `MDOLinearFunction(A, name, value_at_zero=b)` -/
  | newLin (id : Nat) (A : List (List α)) (b : List α)
  /-- `MDOQuadraticFunction(Q, name, linear_coeffs=b, value_at_zero=c)` -/
  | newQuad (id : Nat) (Q : List (List α)) (b : List α) (c : α)
  /-- `MDOFunction(func, name, jac=jac)` -/
  | newCallable (id : Nat) (ps : List (List (Mono α)))
  /-- `q.quad_coeffs = Q` (2-dimensional square array, else `ValueError`) -/
  | setQuadCoeffs (id : Nat) (Q : List (List α))
  /-- `q.linear_coeffs = b` (as many as inputs, else `ValueError`) -/
  | setQuadLinCoeffs (id : Nat) (b : List α)
  /-- `f.coefficients = A` -/
  | setLinCoeffs (id : Nat) (A : List (List α))
  /-- `f.value_at_zero = b` (array with one entry per output, else `ValueError`) -/
  | setLinValueAtZero (id : Nat) (b : List α)
  /-- `f.value_at_zero = c` (a number: replicated) -/
  | setLinValueAtZeroNum (id : Nat) (c : α)
  /-- `f.func = ...; f.jac = ...` -/
  | setCallables (id : Nat) (ps : List (List (Mono α)))
  /-- `q.quad_coeffs[i, j] = v` (the getter returns the internal array) -/
  | editQuadCoeff (id i j : Nat) (v : α)
  /-- `q.linear_coeffs[0, j] = v` -/
  | editQuadLinCoeff (id j : Nat) (v : α)
  /-- `f.coefficients[i, j] = v` -/
  | editLinCoeff (id i j : Nat) (v : α)
  /-- `f.value_at_zero[i] = v` -/
  | editLinValueAtZero (id i : Nat) (v : α)
  /-- the caller writes its point buffer (in place, or by taking another array) -/
  | writeX (xs : List α)
  /-- `evaluate(x)` and `jac(x)` of a tree of `n` inputs built on the objects, `x` the buffer -/
  | call (n : Nat) (e : Expr α)

/-- One step: new state and, for a call, the (value, Jacobian) pair returned. A setter that
    raises leaves the state unchanged. -/
def step (env : Nat → Nat → (Nat → α) → DV α) (thr : α) (s : Sess α) : SOp α → Sess α × Option (DV α)
  | .newLin id A b => (s.put id (.linear A b), none)
  | .newQuad id Q b c =>
    -- `linear_coeffs=None` (or empty): the first-order part is created with zero coefficients
    (s.put id (.quadratic Q (if b.isEmpty then List.replicate Q.length 0 else b) c), none)
  | .newCallable id ps => (s.put id (.callable ps), none)
  | .setQuadCoeffs id Q =>
    match s.objs id with
    | some (.quadratic _ b c) =>
      if Q.all (fun r => r.length == Q.length) then (s.put id (.quadratic Q b c), none) else (s, none)
    | _ => (s, none)
  | .setQuadLinCoeffs id b =>
    match s.objs id with
    | some (.quadratic Q _ c) =>
      if b.length = Q.length then (s.put id (.quadratic Q b c), none) else (s, none)
    | _ => (s, none)
  | .setLinCoeffs id A =>
    match s.objs id with
    | some (.linear _ b) => (s.put id (.linear A b), none)
    | _ => (s, none)
  | .setLinValueAtZero id b =>
    match s.objs id with
    | some (.linear A _) => if b.length = A.length then (s.put id (.linear A b), none) else (s, none)
    | _ => (s, none)
  | .setLinValueAtZeroNum id c =>
    match s.objs id with
    | some (.linear A _) => (s.put id (.linear A (List.replicate A.length c)), none)
    | _ => (s, none)
  | .setCallables id ps =>
    match s.objs id with
    | some (.callable _) => (s.put id (.callable ps), none)
    | _ => (s, none)
  | .editQuadCoeff id i j v =>
    match s.objs id with
    | some (.quadratic Q b c) => (s.put id (.quadratic (setEntry Q i j v) b c), none)
    | _ => (s, none)
  | .editQuadLinCoeff id j v =>
    match s.objs id with
    | some (.quadratic Q b c) => (s.put id (.quadratic Q (b.set j v) c), none)
    | _ => (s, none)
  | .editLinCoeff id i j v =>
    match s.objs id with
    | some (.linear A b) => (s.put id (.linear (setEntry A i j v) b), none)
    | _ => (s, none)
  | .editLinValueAtZero id i v =>
    match s.objs id with
    | some (.linear A b) => (s.put id (.linear A (b.set i v)), none)
    | _ => (s, none)
  | .writeX xs => ({ s with x := xs }, none)
  | .call n e => (s, some (evalTree env thr n (subst s.objs e) (vec s.x)))

/-- The state after a history. -/
def Sess.after (env : Nat → Nat → (Nat → α) → DV α) (thr : α) (s : Sess α) (ops : List (SOp α)) : Sess α :=
  ops.foldl (fun s op => (step env thr s op).1) s

/-- What `op` returns when it is issued after the history `ops`. -/
def Sess.answer (env : Nat → Nat → (Nat → α) → DV α) (thr : α) (s : Sess α) (ops : List (SOp α))
    (op : SOp α) : Option (DV α) :=
  (step env thr (s.after env thr ops) op).2

end Ordered

/-! ### Storage of the value path (which arrays are new, which are views) -/

section Storage

variable {α : Type} [Add α] [Mul α] [Sub α] [Neg α] [Div α] [OfNat α 0] [OfNat α 1]

/-- An array as its holder sees it: the storage cell it lives in and, for each of its components,
    the position of the cell it shows (`none`: out of range, reads 0). A new array shows its whole
    cell; a basic-slice view (`x[1:]`, `x[::-1]`, `x` itself) shows positions of the cell of `x`. -/
structure Arr where
  cell : Nat
  idx : List (Option Nat)
  deriving Repr

/-- The storage: the content of every allocated cell. Cell 0 is the caller's point buffer. -/
abbrev Store (α : Type) := List (List α)

def Store.at (h : Store α) (c : Nat) (o : Option Nat) : α :=
  match o with
  | some i => (h.getD c []).getD i 0
  | none => 0

/-- The numbers an array shows now. -/
def Store.read (h : Store α) (a : Arr) : List α := a.idx.map (h.at a.cell)

/-- Allocation of a new array with the given content (`empty`/`array`/the result of a NumPy
    arithmetic operation): a new cell, never an existing one. -/
def Store.new (h : Store α) (v : List α) : Store α × Arr :=
  (h ++ [v], ⟨h.length, (List.range v.length).map some⟩)

/-- A value vector as a `DV` (to reuse the operator semantics of the tree model). -/
def valDV (u : List α) : DV α := { m := u.length, val := vec u, jac := fun _ _ => 0 }

/-- `f(x) op g(x)` on value vectors, with the broadcasting of `DV.bin`. -/
def binVal (op : BinOp) (u v : List α) : List α :=
  (List.range (max u.length v.length)).map (DV.bin op (valDV u) (valDV v)).val

/-- The value path of the nodes whose result storage matters. -/
inductive SExpr (α : Type) where
  /-- user function returning the components `sel` of its input as a view (`lambda x: x`, `x[1:]`, `x[::-1]`) -/
  | view (sel : List Nat)
  /-- user function computing a new array -/
  | fresh (f : List α → List α)
  /-- `FunctionRestriction` -/
  | restrict (N : Nat) (frozen : List Nat) (vals : List α) (a : SExpr α)
  /-- `LinearCompositeFunction` -/
  | lincomp (A : List (List α)) (a : SExpr α)
  /-- `f + g`, `f - g`, `f * g`, `f / g` -/
  | bin (op : BinOp) (a b : SExpr α)
  /-- `-f` -/
  | neg (a : SExpr α)
  /-- `Concatenate` -/
  | concat (a b : SExpr α)

/-- Pure semantics on values (the value part of `evalTree` on this fragment: same `extendPt`,
    `matVec`, `DV.bin`). -/
def SExpr.sem : SExpr α → List α → List α
  | .view sel, x => sel.map (fun i => x.getD i 0)
  | .fresh f, x => f x
  | .restrict N frozen vals a, x => a.sem ((List.range N).map (extendPt N frozen vals (vec x)))
  | .lincomp A a, x => a.sem ((List.range A.length).map (matVec x.length (mat A) (vec x)))
  | .bin op a b, x => binVal op (a.sem x) (b.sem x)
  | .neg a, x => (a.sem x).map (fun t => - t)
  | .concat a b, x => a.sem x ++ b.sem x

/-- Evaluation with the storage made explicit, allocation points transcribed from the code:
    `__extend_subvect` builds a NEW vector at every call (`empty(N)`, two assignments), `A @ x` is a
    new array, the operators read both operand arrays once BOTH have been evaluated and build a new
    array, `-f(x)` and `concatenate` build new arrays; a view leaf allocates nothing. -/
def SExpr.run : SExpr α → Store α → Arr → Store α × Arr
  | .view sel, h, x => (h, ⟨x.cell, sel.map (fun i => x.idx.getD i none)⟩)
  | .fresh f, h, x => h.new (f (h.read x))
  | .restrict N frozen vals a, h, x =>
      a.run (h.new ((List.range N).map (extendPt N frozen vals (vec (h.read x))))).1
        (h.new ((List.range N).map (extendPt N frozen vals (vec (h.read x))))).2
  | .lincomp A a, h, x =>
      a.run (h.new ((List.range A.length).map (matVec (h.read x).length (mat A) (vec (h.read x))))).1
        (h.new ((List.range A.length).map (matVec (h.read x).length (mat A) (vec (h.read x))))).2
  | .bin op a b, h, x =>
      (b.run (a.run h x).1 x).1.new
        (binVal op ((b.run (a.run h x).1 x).1.read (a.run h x).2) ((b.run (a.run h x).1 x).1.read (b.run (a.run h x).1 x).2))
  | .neg a, h, x => (a.run h x).1.new (((a.run h x).1.read (a.run h x).2).map (fun t => - t))
  | .concat a b, h, x =>
      (b.run (a.run h x).1 x).1.new
        ((b.run (a.run h x).1 x).1.read (a.run h x).2 ++ (b.run (a.run h x).1 x).1.read (b.run (a.run h x).1 x).2)

/-- What a caller does with one tree: it rewrites its point buffer (cell 0) or calls the function
    on the buffer and KEEPS the returned array. -/
inductive HOp (α : Type) where
  | write (p : List α)
  | call (e : SExpr α)

/-- Storage + the arrays returned so far, each with the numbers it showed when it was returned. -/
structure Hist (α : Type) where
  store : Store α
  kept : List (Arr × List α)

/-- The caller's buffer as an array. -/
def Store.buffer (h : Store α) : Arr := ⟨0, (List.range (h.getD 0 []).length).map some⟩

def Hist.step (s : Hist α) : HOp α → Hist α
  | .write p => { s with store := s.store.set 0 p }
  | .call e =>
      { store := (e.run s.store s.store.buffer).1
        kept := s.kept ++ [((e.run s.store s.store.buffer).2, (e.run s.store s.store.buffer).1.read (e.run s.store s.store.buffer).2)] }

def Hist.after (s : Hist α) (ops : List (HOp α)) : Hist α := ops.foldl Hist.step s

end Storage

end GV.C10
