/-
C11 — model of the HDF export/append/reload of an evaluation `Database`
(`HDFDatabase.to_file`, `__append_hdf_output`, `__get_missing_hdf_output_dataset`,
`__add_hdf_output_dataset`, `__create_hdf_input_output`, `update_from_file`,
`add_pending_array`, `Database.store`) and of the design-space file formats
(`DesignSpace.to_hdf/from_hdf`, the row structure of `to_csv/from_csv`).

Code anchored: src/gemseo/algos/_hdf_database.py, src/gemseo/algos/database.py,
src/gemseo/algos/design_space.py.

The HDF file is a tree: group `x` (index ↦ point), group `k` (index ↦ list of output names),
group `v` (index ↦ scalar list; `arr_<index>` ↦ (sub-index ↦ array)).  The three groups are
created together by the code, so the model keeps one record per index (`FEntry`).
Import-free (core Lean only) so that the driver can run it.
-/
import GemseoVerif.Model.Common

namespace GV.C11

/-! ### Values, points, database -/

/-- A NumPy array value: shape and row-major data. -/
structure Arr where
  shape : List Nat
  data : List Rat
  deriving Repr, DecidableEq

/-- A recorded output value: a Python scalar (goes to the scalar dataset `v/<i>`) or an
    `ndarray`/`list` (goes to the sub-group `v/arr_<i>`): `isinstance(value, (ndarray, list))`. -/
inductive Val where
  | scalar (r : Rat)
  | arr (a : Arr)
  deriving Repr, DecidableEq

/-- A database key: the bytes of the array, i.e. its dtype (integer or float) and its values
    (`HashableNdarray` hashes `array.view(uint8)`; `[1, 2]` and `[1., 2.]` are different keys). -/
structure Pt where
  isInt : Bool
  xs : List Rat
  deriving Repr, DecidableEq

/-- The outputs recorded at a point: a Python `dict` (insertion ordered, unique names). -/
abbrev Outs := List (String × Val)

/-- The database: an insertion-ordered `dict` from points to outputs. -/
abbrev Db := List (Pt × Outs)

/-- Association-list lookup (first match). -/
def alook {α β : Type} [DecidableEq α] (k : α) : List (α × β) → Option β
  | [] => none
  | (a, b) :: t => if a = k then some b else alook k t

/-- All the options are `some`: the list of their contents (an exception in a comprehension
    aborts the whole comprehension). -/
def optAll {α : Type} : List (Option α) → Option (List α)
  | [] => some []
  | none :: _ => none
  | some a :: t =>
    match optAll t with
    | some r => some (a :: r)
    | none => none

/-- `dict[n] = v`: replace in place when the key exists, append otherwise. -/
def setOut (cur : Outs) (n : String) (v : Val) : Outs :=
  match cur with
  | [] => [(n, v)]
  | (m, w) :: t => if m = n then (m, v) :: t else (m, w) :: setOut t n v

/-- `dict.update`. -/
def updateOuts (cur : Outs) : Outs → Outs
  | [] => cur
  | (n, v) :: t => updateOuts (setOut cur n v) t

/-- `Database.store` on the data: a new point is appended with the given dict,
    an existing point has its dict updated. -/
def dbStore : Db → Pt → Outs → Db
  | [], p, o => [(p, o)]
  | (q, c) :: t, p, o => if q = p then (q, updateOuts c o) :: t else (q, c) :: dbStore t p o

/-- `HDFDatabase.add_pending_array`: the buffer is a dict keyed by the *hash* of the point; an
    entry with the same hash is replaced (in place) by the new point when the arrays differ and
    left alone when they are equal — in both cases the slot then holds `p`. -/
def addPending {κ : Type} [DecidableEq κ] (H : Pt → κ) (pend : List (κ × Pt)) (p : Pt) :
    List (κ × Pt) :=
  match pend with
  | [] => [(H p, p)]
  | (h, q) :: t => if h = H p then (h, p) :: t else (h, q) :: addPending H t p

/-! ### The file -/

/-- What the file holds for one index `i`: dataset `x/i`, dataset `k/i`, scalar dataset `v/i`
    (absent ⇔ empty: it is created only `if values:`), sub-group `v/arr_i`. -/
structure FEntry where
  x : Pt
  keys : List String
  scal : List Rat
  arrs : List (Nat × Arr)
  deriving Repr, DecidableEq

/-- The file (one node): an HDF group is a map from names to members; insertion never overwrites. -/
abbrev File := List (Nat × FEntry)

/-- Insert a pair into a list sorted by name (before the first strictly greater name). -/
def insertOut (nv : String × Val) : Outs → Outs
  | [] => [nv]
  | mw :: t => if nv.1 ≤ mw.1 then nv :: mw :: t else mw :: insertOut nv t

/-- `sorted(output_values.keys())` followed by the look-ups `output_values[name]`: the pairs
    sorted by name (code-point lexicographic order, as Python compares `str`). Insertion sort by
    structural recursion (names are unique, so every sorting algorithm gives the same list). -/
def sortOuts : Outs → Outs
  | [] => []
  | nv :: t => insertOut nv (sortOuts t)

def hasIdx (arrs : List (Nat × Arr)) (j : Nat) : Bool := arrs.any (fun ja => ja.1 == j)

/-- The loop of `__add_hdf_output_dataset` over the sorted names: `idx_value =
    output_name_to_idx[name]` (`KeyError` ⇒ `none`) is evaluated for every name; arrays go to
    `arr_<i>/<idx_value>` (`ValueError` ⇒ `none` when that dataset exists); scalars are collected.
    Returns the final sub-group and the *new* scalars. -/
def placeOutputs (mapping : List (String × Nat)) :
    List (Nat × Arr) → Outs → Option (List (Nat × Arr) × List Rat)
  | arrs, [] => some (arrs, [])
  | arrs, (n, v) :: t =>
    match alook n mapping with
    | none => none
    | some j =>
      match v with
      | .scalar r => (placeOutputs mapping arrs t).map (fun as => (as.1, r :: as.2))
      | .arr a => if hasIdx arrs j then none else placeOutputs mapping (arrs ++ [(j, a)]) t

/-- `__add_hdf_output_dataset(index, keys_group, values_group, output_values, mapping)`:
    the sorted names are appended to `k/i`; with an empty/absent mapping the positions are
    `0..len-1` in sorted order. -/
def addOutputs (e : FEntry) (outs : Outs) (mapping : List (String × Nat)) : Option FEntry :=
  let sorted := sortOuts outs
  let mapping := if mapping.isEmpty then (sorted.map (·.1)).zip (List.range outs.length) else mapping
  match placeOutputs mapping e.arrs sorted with
  | none => none
  | some (arrs, vals) =>
    some { x := e.x, keys := e.keys ++ sorted.map (·.1), scal := e.scal ++ vals, arrs := arrs }

/-- `__create_hdf_input_output` (the caller guarantees that the index is new). -/
def createEntry (p : Pt) (outs : Outs) : Option FEntry :=
  addOutputs { x := p, keys := [], scal := [], arrs := [] } outs []

/-- `__append_hdf_output`: `__get_missing_hdf_output_dataset` keeps the outputs whose name is
    not yet in `k/i` and numbers them `len(existing) .. len(output_values)-1` in sorted order. -/
def appendOutput (e : FEntry) (outs : Outs) : Option FEntry :=
  let missing := outs.filter (fun nv => !(e.keys.contains nv.1))
  if missing.isEmpty then some e
  else
    let ids := List.range' e.keys.length (outs.length - e.keys.length)
    addOutputs e missing (((sortOuts missing).map (·.1)).zip ids)

/-- Replace the member `i` of a group. -/
def setEntry (F : File) (i : Nat) (e : FEntry) : File :=
  F.map (fun ie => if ie.1 = i then (i, e) else ie)

/-- Index of a point in `database.keys()`. -/
def dbIndex (p : Pt) : Db → Option Nat
  | [] => none
  | (q, _) :: t => if q = p then some 0 else (dbIndex p t).map (· + 1)

/-- One iteration of the append loop: `if str(index) in x_group: __append_hdf_output(...)
    else: __create_hdf_input_output(...)`. -/
def appendOne (F : File) (i : Nat) (p : Pt) (outs : Outs) : Option File :=
  match alook i F with
  | some e => (appendOutput e outs).map (fun e' => setEntry F i e')
  | none => (createEntry p outs).map (fun e' => F ++ [(i, e')])

/-- The append branch of `to_file`: for each pending point, in buffer order, either complete the
    outputs of its existing file entry or create the entry. `database[input_values]` raising
    `KeyError` (pending point no longer in the database) ⇒ `none`. -/
def appendPending (db : Db) : File → List Pt → Option File
  | F, [] => some F
  | F, p :: ps =>
    match dbIndex p db, alook p db with
    | some i, some outs =>
      match appendOne F i p outs with
      | some F' => appendPending db F' ps
      | none => none
    | _, _ => none

/-- The full-export branch of `to_file`: entries `i, i+1, …` for the database items in order. -/
def exportFrom (i : Nat) : Db → Option File
  | [] => some []
  | (p, o) :: t =>
    match createEntry p o, exportFrom (i + 1) t with
    | some e, some r => some ((i, e) :: r)
    | _, _ => none

/-- A single export of the whole database to a new file. -/
def exportAll (db : Db) : Option File := exportFrom 0 db

/-! ### State machine -/

structure State (κ : Type) where
  db : Db
  pend : List (κ × Pt)
  file : File
  deriving DecidableEq

def State.init {κ : Type} : State κ := { db := [], pend := [], file := [] }

inductive Op where
  | store (p : Pt) (outs : Outs)
  | exportFile (append : Bool)
  | reload
  deriving Repr

/-- `Database.store`: the point is first recorded as pending, then the data are updated. -/
def doStore {κ : Type} [DecidableEq κ] (H : Pt → κ) (s : State κ) (p : Pt) (o : Outs) : State κ :=
  { db := dbStore s.db p o, pend := addPending H s.pend p, file := s.file }

/-- `HDFDatabase.to_file`: mode `"w"` truncates; the append loop is taken only when the group
    `x` already has members; the pending buffer is cleared at the end. An exception (`none`)
    leaves a partially written file: the model stops there. -/
def doExport {κ : Type} (s : State κ) (append : Bool) : Option (State κ) :=
  if append && !s.file.isEmpty then
    (appendPending s.db s.file (s.pend.map (·.2))).map (fun F => { db := s.db, pend := [], file := F })
  else
    (exportAll s.db).map (fun F => { db := s.db, pend := [], file := F })

/-! ### Reading the file back (`update_from_file` into an empty database) -/

/-- One index of `update_from_file`: `names_to_arrays = {keys[int(k)]: array(v)}` (`IndexError`
    ⇒ `none`), the remaining names are zipped with the scalar dataset, arrays are merged last. -/
def decodeEntry (e : FEntry) : Option Outs :=
  match optAll (e.arrs.map (fun ja => (e.keys[ja.1]?).map (fun n => (n, Val.arr ja.2)))) with
  | none => none
  | some named =>
    let namesToArrays := updateOuts [] named
    let scalNames := e.keys.filter (fun k => !(namesToArrays.any (fun nv => nv.1 == k)))
    let scalarDict := updateOuts [] ((scalNames.zip e.scal).map (fun nr => (nr.1, Val.scalar nr.2)))
    some (updateOuts scalarDict namesToArrays)

/-- `for raw_index in range(len(x)): … database.store(x[raw_index], outputs)`. A missing
    `x/<raw_index>` raises ⇒ `none`. -/
def readFile (F : File) : Option Db :=
  match optAll ((List.range F.length).map (fun i => alook i F)) with
  | none => none
  | some es =>
    match optAll (es.map (fun e => (decodeEntry e).map (fun o => (e.x, o)))) with
    | none => none
    | some ds => some (ds.foldl (fun db po => dbStore db po.1 po.2) [])

/-- A new `Database` filled by `update_from_hdf` (what `Database.from_hdf` and the `load` option of
    the scenario backups do): the content is what the file holds, every point is pending again
    (it went through `store`), the file is untouched. Stores made since the last export are lost. -/
def doReload {κ : Type} [DecidableEq κ] (H : Pt → κ) (s : State κ) : Option (State κ) :=
  match readFile s.file with
  | none => none
  | some d =>
    some { db := d, pend := d.foldl (fun pend po => addPending H pend po.1) [], file := s.file }

/-- `database.update_from_hdf(file)` on the *current* database (not an operation of the state
    machine of the theorems; covered by the correspondence check and the oracle only): every file
    entry goes through `store`, in index order. -/
def doUpdate {κ : Type} [DecidableEq κ] (H : Pt → κ) (s : State κ) : Option (State κ) :=
  match readFile s.file with
  | none => none
  | some d => some (d.foldl (fun st po => doStore H st po.1 po.2) s)

def step {κ : Type} [DecidableEq κ] (H : Pt → κ) (s : State κ) : Op → Option (State κ)
  | .store p o => some (doStore H s p o)
  | .exportFile a => doExport s a
  | .reload => doReload H s

def run {κ : Type} [DecidableEq κ] (H : Pt → κ) : State κ → List Op → Option (State κ)
  | s, [] => some s
  | s, op :: ops =>
    match step H s op with
    | some s' => run H s' ops
    | none => none

/-! ### The quantifier of the property, as a checker -/

def nodupB : List String → Bool
  | [] => true
  | a :: t => !(t.contains a) && nodupB t

/-- Is the operation inside the property's quantifier at this state? A store must pass a dict
    (distinct names) and must not change an output that is already in the file entry of its
    point (it may repeat the current value). Exports are always in scope. -/
def inScopeB {κ : Type} (s : State κ) : Op → Bool
  | .exportFile _ => true
  | .reload => true
  | .store p o =>
    nodupB (o.map (·.1)) &&
      match dbIndex p s.db, alook p s.db with
      | some i, some outs =>
        match alook i s.file with
        | some e => o.all (fun nv => !(e.keys.contains nv.1) || (alook nv.1 outs == some nv.2))
        | none => true
      | _, _ => true

/-- The whole history is in scope (checked along the run). -/
def scopedB {κ : Type} [DecidableEq κ] (H : Pt → κ) : State κ → List Op → Bool
  | _, [] => true
  | s, op :: ops =>
    inScopeB s op &&
      match step H s op with
      | some s' => scopedB H s' ops
      | none => true

/-! ### Design-space files -/

/-- One design variable. Bounds: `none` = infinite (−∞ for lower, +∞ for upper);
    `value = none` = no current value. -/
structure DVar where
  name : String
  size : Nat
  isInt : Bool
  lb : List (Option Rat)
  ub : List (Option Rat)
  value : Option (List Rat)
  deriving Repr, DecidableEq

abbrev DSpace := List DVar

/-- The HDF group of one variable written by `DesignSpace.to_hdf`: `size`, `l_b`, `u_b`,
    `var_type` (one entry per component), optional `value`. -/
structure DVarGroup where
  size : Nat
  lb : List (Option Rat)
  ub : List (Option Rat)
  varType : List Bool
  value : Option (List Rat)
  deriving Repr, DecidableEq

/-- The `design_space` group: the `names` dataset and one sub-group per variable (a map). -/
structure DsFile where
  names : List String
  groups : List (String × DVarGroup)
  deriving Repr, DecidableEq

/-- `require_group(name)`: reuse the group when a variable of that name was already written. -/
def putGroup (gs : List (String × DVarGroup)) (n : String) (g : DVarGroup) :
    Option (List (String × DVarGroup)) :=
  match alook n gs with
  | some _ => none   -- `create_dataset` on an existing member raises
  | none => some (gs ++ [(n, g)])

def dsToHdfGroups : DSpace → List (String × DVarGroup) → Option (List (String × DVarGroup))
  | [], gs => some gs
  | v :: t, gs =>
    match putGroup gs v.name
        { size := v.size, lb := v.lb, ub := v.ub, varType := List.replicate v.size v.isInt,
          value := v.value } with
    | none => none
    | some gs' => dsToHdfGroups t gs'

/-- `DesignSpace.to_hdf`. -/
def dsToHdf (ds : DSpace) : Option DsFile :=
  (dsToHdfGroups ds []).map (fun gs => { names := ds.map (·.name), groups := gs })

/-- `DesignSpace.from_hdf`: for each name of the `names` dataset read its group; the type is the
    first entry of `var_type` (`IndexError` ⇒ `none` for a size-0 variable). -/
def dsFromHdf (f : DsFile) : Option DSpace :=
  optAll (f.names.map (fun n =>
    match alook n f.groups with
    | none => none
    | some g =>
      match g.varType with
      | [] => none
      | t :: _ => some { name := n, size := g.size, isInt := t, lb := g.lb, ub := g.ub, value := g.value }))

/-- One row of the text table of `to_csv` (one row per component). -/
structure Row where
  name : String
  lb : Option Rat
  value : Option Rat
  ub : Option Rat
  isInt : Bool
  deriving Repr, DecidableEq

/-- Rows of one variable (`get_pretty_table` without index suffixes). -/
def varRows (v : DVar) : List Row :=
  (List.range v.size).map (fun i =>
    { name := v.name, lb := (v.lb.getD i none), ub := (v.ub.getD i none),
      value := match v.value with
               | none => none
               | some l => some (l.getD i 0),
      isInt := v.isInt })

def dsToRows (ds : DSpace) : List Row := ds.flatMap varRows

/-- `unique_names` of `from_csv` with its consecutiveness check (`ValueError` ⇒ `none`). -/
def uniqueNames : List String → List String → Option String → Option (List String)
  | [], acc, _ => some acc
  | n :: t, acc, prev =>
    if !(acc.contains n) then uniqueNames t (acc ++ [n]) (some n)
    else if prev ≠ some n then none
    else uniqueNames t acc prev

/-- The grouping loop of `from_csv`: `size = var_names.count(name)`, rows `k .. k+size-1`;
    the value is `None` as soon as one of these rows prints `None`; the type is that of row `k`. -/
def rowsToVars (rows : List Row) : List String → Nat → Option DSpace
  | [], _ => some []
  | n :: t, k =>
    let size := (rows.map (·.name)).count n
    let chunk := (rows.drop k).take size
    match chunk with
    | [] => none
    | r0 :: _ =>
      match rowsToVars rows t (k + size) with
      | none => none
      | some rest =>
        some ({ name := n, size := size, isInt := r0.isInt,
                lb := chunk.map (·.lb), ub := chunk.map (·.ub),
                value := if chunk.any (fun r => r.value.isNone) then none
                         else some (chunk.map (fun r => r.value.getD 0)) } :: rest)

/-- `DesignSpace.from_csv` on the parsed rows. -/
def dsFromRows (rows : List Row) : Option DSpace :=
  match uniqueNames (rows.map (·.name)) [] none with
  | none => none
  | some names => rowsToVars rows names 0

end GV.C11
