/-
C11 — model of the HDF export/append/reload of an evaluation `Database`
(`HDFDatabase.to_file`, `__append_hdf_output`, `__get_missing_hdf_output_dataset`,
`__add_hdf_output_dataset`, `__create_hdf_input_output`, `update_from_file`,
`add_pending_array`, `Database.store`) and of the design-space file formats
(`DesignSpace.to_hdf/from_hdf`, the row structure of `to_csv/from_csv`).

Code anchored: src/gemseo/algos/_hdf_database.py, src/gemseo/algos/database.py,
src/gemseo/algos/design_space.py.

The HDF file is a tree: group `x` (index ↦ point), group `k` (index ↦ list of output names),
group `v` (index ↦ scalar list; `arr_<index>` ↦ (sub-index ↦ array)).  The three groups are
created together by the code, so the model keeps one record per index (`FEntry`).
Import-free (core Lean only) so that the driver can run it.
-/
import GemseoVerif.Model.Common

namespace GV.C11

/-! ### Values, points, database -/

/-- A NumPy array value: shape and row-major data. -/
structure Arr where
  shape : List Nat
  data : List Rat
  deriving Repr, DecidableEq

/-- A recorded output value: a Python scalar (goes to the scalar dataset `v/<i>`) or an
    `ndarray`/`list` (goes to the sub-group `v/arr_<i>`): `isinstance(value, (ndarray, list))`. -/
inductive Val where
  | scalar (r : Rat)
  | arr (a : Arr)
  deriving Repr, DecidableEq

/-- A database key, named by the array the database holds for it (dtype kind and values). Arrays
    that are equal component by component are ONE key whatever their dtype or the sign of their
    zeros (`HashableNdarray`: hash after `array + 0.0`, then `array_equal`); in this part of the
    model a history names a point always by that array — what happens to the *bytes* when a point
    is stored again through another equal array is the representation layer at the end of the file
    (`Rep`, `rstore`, `rexport`). -/
structure Pt where
  isInt : Bool
  xs : List Rat
  deriving Repr, DecidableEq

/-- The outputs recorded at a point: a Python `dict` (insertion ordered, unique names). -/
abbrev Outs := List (String × Val)

/-- The database: an insertion-ordered `dict` from points to outputs. -/
abbrev Db := List (Pt × Outs)

/-- Association-list lookup (first match). -/
def alook {α β : Type} [DecidableEq α] (k : α) : List (α × β) → Option β
  | [] => none
  | (a, b) :: t => if a = k then some b else alook k t

/-- All the options are `some`: the list of their contents (an exception in a comprehension
    aborts the whole comprehension). -/
def optAll {α : Type} : List (Option α) → Option (List α)
  | [] => some []
  | none :: _ => none
  | some a :: t =>
    match optAll t with
    | some r => some (a :: r)
    | none => none

/-- `dict[n] = v`: replace in place when the key exists, append otherwise. -/
def setOut (cur : Outs) (n : String) (v : Val) : Outs :=
  match cur with
  | [] => [(n, v)]
  | (m, w) :: t => if m = n then (m, v) :: t else (m, w) :: setOut t n v

/-- `dict.update`. -/
def updateOuts (cur : Outs) : Outs → Outs
  | [] => cur
  | (n, v) :: t => updateOuts (setOut cur n v) t

/-- `Database.store` on the data: a new point is appended with the given dict,
    an existing point has its dict updated. -/
def dbStore : Db → Pt → Outs → Db
  | [], p, o => [(p, o)]
  | (q, c) :: t, p, o => if q = p then (q, updateOuts c o) :: t else (q, c) :: dbStore t p o

/-- `HDFDatabase.add_pending_array`: the buffer is a dict keyed by the *hash* of the point; an
    entry with the same hash is replaced (in place) by the new point when the arrays differ and
    left alone when they are equal — in both cases the slot then holds `p`. -/
def addPending {κ : Type} [DecidableEq κ] (H : Pt → κ) (pend : List (κ × Pt)) (p : Pt) :
    List (κ × Pt) :=
  match pend with
  | [] => [(H p, p)]
  | (h, q) :: t => if h = H p then (h, p) :: t else (h, q) :: addPending H t p

/-! ### The file -/

/-- What the file holds for one index `i`: dataset `x/i`, dataset `k/i`, scalar dataset `v/i`
    (absent ⇔ empty: it is created only `if values:`), sub-group `v/arr_i`. -/
structure FEntry where
  x : Pt
  keys : List String
  scal : List Rat
  arrs : List (Nat × Arr)
  deriving Repr, DecidableEq

/-- The file (one node): an HDF group is a map from names to members; insertion never overwrites. -/
abbrev File := List (Nat × FEntry)

/-- Insert a pair into a list sorted by name (before the first strictly greater name). -/
def insertOut (nv : String × Val) : Outs → Outs
  | [] => [nv]
  | mw :: t => if nv.1 ≤ mw.1 then nv :: mw :: t else mw :: insertOut nv t

/-- `sorted(output_values.keys())` followed by the look-ups `output_values[name]`: the pairs
    sorted by name (code-point lexicographic order, as Python compares `str`). Insertion sort by
    structural recursion (names are unique, so every sorting algorithm gives the same list). -/
def sortOuts : Outs → Outs
  | [] => []
  | nv :: t => insertOut nv (sortOuts t)

def hasIdx (arrs : List (Nat × Arr)) (j : Nat) : Bool := arrs.any (fun ja => ja.1 == j)

/-- The loop of `__add_hdf_output_dataset` over the sorted names: `idx_value =
    output_name_to_idx[name]` (`KeyError` ⇒ `none`) is evaluated for every name; arrays go to
    `arr_<i>/<idx_value>` (`ValueError` ⇒ `none` when that dataset exists); scalars are collected.
    Returns the final sub-group and the *new* scalars. -/
def placeOutputs (mapping : List (String × Nat)) :
    List (Nat × Arr) → Outs → Option (List (Nat × Arr) × List Rat)
  | arrs, [] => some (arrs, [])
  | arrs, (n, v) :: t =>
    match alook n mapping with
    | none => none
    | some j =>
      match v with
      | .scalar r => (placeOutputs mapping arrs t).map (fun as => (as.1, r :: as.2))
      | .arr a => if hasIdx arrs j then none else placeOutputs mapping (arrs ++ [(j, a)]) t

/-- `__add_hdf_output_dataset(index, keys_group, values_group, output_values, mapping)`:
    the sorted names are appended to `k/i`; with an empty/absent mapping the positions are
    `0..len-1` in sorted order. -/
def addOutputs (e : FEntry) (outs : Outs) (mapping : List (String × Nat)) : Option FEntry :=
  let sorted := sortOuts outs
  let mapping := if mapping.isEmpty then (sorted.map (·.1)).zip (List.range outs.length) else mapping
  match placeOutputs mapping e.arrs sorted with
  | none => none
  | some (arrs, vals) =>
    some { x := e.x, keys := e.keys ++ sorted.map (·.1), scal := e.scal ++ vals, arrs := arrs }

/-- `__create_hdf_input_output` (the caller guarantees that the index is new). -/
def createEntry (p : Pt) (outs : Outs) : Option FEntry :=
  addOutputs { x := p, keys := [], scal := [], arrs := [] } outs []

/-- `__append_hdf_output`: `__get_missing_hdf_output_dataset` keeps the outputs whose name is
    not yet in `k/i` and numbers them `len(existing) .. len(output_values)-1` in sorted order. -/
def appendOutput (e : FEntry) (outs : Outs) : Option FEntry :=
  let missing := outs.filter (fun nv => !(e.keys.contains nv.1))
  if missing.isEmpty then some e
  else
    let ids := List.range' e.keys.length (outs.length - e.keys.length)
    addOutputs e missing (((sortOuts missing).map (·.1)).zip ids)

/-- Replace the member `i` of a group. -/
def setEntry (F : File) (i : Nat) (e : FEntry) : File :=
  F.map (fun ie => if ie.1 = i then (i, e) else ie)

/-- Index of a point in `database.keys()`. -/
def dbIndex (p : Pt) : Db → Option Nat
  | [] => none
  | (q, _) :: t => if q = p then some 0 else (dbIndex p t).map (· + 1)

/-- One iteration of the append loop: `if str(index) in x_group: __append_hdf_output(...)
    else: __create_hdf_input_output(...)`. -/
def appendOne (F : File) (i : Nat) (p : Pt) (outs : Outs) : Option File :=
  match alook i F with
  | some e => (appendOutput e outs).map (fun e' => setEntry F i e')
  | none => (createEntry p outs).map (fun e' => F ++ [(i, e')])

/-- The append branch of `to_file`: for each pending point, in buffer order, either complete the
    outputs of its existing file entry or create the entry. `database[input_values]` raising
    `KeyError` (pending point no longer in the database) ⇒ `none`. -/
def appendPending (db : Db) : File → List Pt → Option File
  | F, [] => some F
  | F, p :: ps =>
    match dbIndex p db, alook p db with
    | some i, some outs =>
      match appendOne F i p outs with
      | some F' => appendPending db F' ps
      | none => none
    | _, _ => none

/-- The full-export branch of `to_file`: entries `i, i+1, …` for the database items in order. -/
def exportFrom (i : Nat) : Db → Option File
  | [] => some []
  | (p, o) :: t =>
    match createEntry p o, exportFrom (i + 1) t with
    | some e, some r => some ((i, e) :: r)
    | _, _ => none

/-- A single export of the whole database to a new file. -/
def exportAll (db : Db) : Option File := exportFrom 0 db

/-! ### State machine -/

structure State (κ : Type) where
  db : Db
  pend : List (κ × Pt)
  file : File
  deriving DecidableEq

def State.init {κ : Type} : State κ := { db := [], pend := [], file := [] }

inductive Op where
  | store (p : Pt) (outs : Outs)
  | exportFile (append : Bool)
  | reload
  deriving Repr

/-- `Database.store`: the point is first recorded as pending, then the data are updated. -/
def doStore {κ : Type} [DecidableEq κ] (H : Pt → κ) (s : State κ) (p : Pt) (o : Outs) : State κ :=
  { db := dbStore s.db p o, pend := addPending H s.pend p, file := s.file }

/-- `HDFDatabase.to_file`: mode `"w"` truncates; the append loop is taken only when the group
    `x` already has members; the pending buffer is cleared at the end. An exception (`none`)
    leaves a partially written file: the model stops there. -/
def doExport {κ : Type} (s : State κ) (append : Bool) : Option (State κ) :=
  if append && !s.file.isEmpty then
    (appendPending s.db s.file (s.pend.map (·.2))).map (fun F => { db := s.db, pend := [], file := F })
  else
    (exportAll s.db).map (fun F => { db := s.db, pend := [], file := F })

/-! ### Reading the file back (`update_from_file` into an empty database) -/

/-- One index of `update_from_file`: `names_to_arrays = {keys[int(k)]: array(v)}` (`IndexError`
    ⇒ `none`), the remaining names are zipped with the scalar dataset, arrays are merged last. -/
def decodeEntry (e : FEntry) : Option Outs :=
  match optAll (e.arrs.map (fun ja => (e.keys[ja.1]?).map (fun n => (n, Val.arr ja.2)))) with
  | none => none
  | some named =>
    let namesToArrays := updateOuts [] named
    let scalNames := e.keys.filter (fun k => !(namesToArrays.any (fun nv => nv.1 == k)))
    let scalarDict := updateOuts [] ((scalNames.zip e.scal).map (fun nr => (nr.1, Val.scalar nr.2)))
    some (updateOuts scalarDict namesToArrays)

/-- `for raw_index in range(len(x)): … database.store(x[raw_index], outputs)`. A missing
    `x/<raw_index>` raises ⇒ `none`. -/
def readFile (F : File) : Option Db :=
  match optAll ((List.range F.length).map (fun i => alook i F)) with
  | none => none
  | some es =>
    match optAll (es.map (fun e => (decodeEntry e).map (fun o => (e.x, o)))) with
    | none => none
    | some ds => some (ds.foldl (fun db po => dbStore db po.1 po.2) [])

/-- A new `Database` filled by `update_from_hdf` (what `Database.from_hdf` and the `load` option of
    the scenario backups do): the content is what the file holds, every point is pending again
    (it went through `store`), the file is untouched. Stores made since the last export are lost. -/
def doReload {κ : Type} [DecidableEq κ] (H : Pt → κ) (s : State κ) : Option (State κ) :=
  match readFile s.file with
  | none => none
  | some d =>
    some { db := d, pend := d.foldl (fun pend po => addPending H pend po.1) [], file := s.file }

/-- `database.update_from_hdf(file)` on the *current* database (not an operation of the state
    machine of the theorems; covered by the correspondence check and the oracle only): every file
    entry goes through `store`, in index order. -/
def doUpdate {κ : Type} [DecidableEq κ] (H : Pt → κ) (s : State κ) : Option (State κ) :=
  match readFile s.file with
  | none => none
  | some d => some (d.foldl (fun st po => doStore H st po.1 po.2) s)

def step {κ : Type} [DecidableEq κ] (H : Pt → κ) (s : State κ) : Op → Option (State κ)
  | .store p o => some (doStore H s p o)
  | .exportFile a => doExport s a
  | .reload => doReload H s

def run {κ : Type} [DecidableEq κ] (H : Pt → κ) : State κ → List Op → Option (State κ)
  | s, [] => some s
  | s, op :: ops =>
    match step H s op with
    | some s' => run H s' ops
    | none => none

/-! ### The quantifier of the property, as a checker -/

def nodupB : List String → Bool
  | [] => true
  | a :: t => !(t.contains a) && nodupB t

/-- Is the operation inside the property's quantifier at this state? A store must pass a dict
    (distinct names) and must not change an output that is already in the file entry of its
    point (it may repeat the current value). Exports are always in scope. -/
def inScopeB {κ : Type} (s : State κ) : Op → Bool
  | .exportFile _ => true
  | .reload => true
  | .store p o =>
    nodupB (o.map (·.1)) &&
      match dbIndex p s.db, alook p s.db with
      | some i, some outs =>
        match alook i s.file with
        | some e => o.all (fun nv => !(e.keys.contains nv.1) || (alook nv.1 outs == some nv.2))
        | none => true
      | _, _ => true

/-- The whole history is in scope (checked along the run). -/
def scopedB {κ : Type} [DecidableEq κ] (H : Pt → κ) : State κ → List Op → Bool
  | _, [] => true
  | s, op :: ops =>
    inScopeB s op &&
      match step H s op with
      | some s' => scopedB H s' ops
      | none => true

/-! ### Design-space files -/

/-- One design variable. Bounds: `none` = infinite (−∞ for lower, +∞ for upper);
    `value = none` = no current value. -/
structure DVar where
  name : String
  size : Nat
  isInt : Bool
  lb : List (Option Rat)
  ub : List (Option Rat)
  value : Option (List Rat)
  deriving Repr, DecidableEq

abbrev DSpace := List DVar

/-- The HDF group of one variable written by `DesignSpace.to_hdf`: `size`, `l_b`, `u_b`,
    `var_type` (one entry per component), optional `value`. -/
structure DVarGroup where
  size : Nat
  lb : List (Option Rat)
  ub : List (Option Rat)
  varType : List Bool
  value : Option (List Rat)
  deriving Repr, DecidableEq

/-- The `design_space` group: the `names` dataset and one sub-group per variable (a map). -/
structure DsFile where
  names : List String
  groups : List (String × DVarGroup)
  deriving Repr, DecidableEq

/-- `require_group(name)`: reuse the group when a variable of that name was already written. -/
def putGroup (gs : List (String × DVarGroup)) (n : String) (g : DVarGroup) :
    Option (List (String × DVarGroup)) :=
  match alook n gs with
  | some _ => none   -- `create_dataset` on an existing member raises
  | none => some (gs ++ [(n, g)])

def dsToHdfGroups : DSpace → List (String × DVarGroup) → Option (List (String × DVarGroup))
  | [], gs => some gs
  | v :: t, gs =>
    match putGroup gs v.name
        { size := v.size, lb := v.lb, ub := v.ub, varType := List.replicate v.size v.isInt,
          value := v.value } with
    | none => none
    | some gs' => dsToHdfGroups t gs'

/-- `DesignSpace.to_hdf`. -/
def dsToHdf (ds : DSpace) : Option DsFile :=
  (dsToHdfGroups ds []).map (fun gs => { names := ds.map (·.name), groups := gs })

/-- `DesignSpace.from_hdf`: for each name of the `names` dataset read its group; the type is the
    first entry of `var_type` (`IndexError` ⇒ `none` for a size-0 variable). -/
def dsFromHdf (f : DsFile) : Option DSpace :=
  optAll (f.names.map (fun n =>
    match alook n f.groups with
    | none => none
    | some g =>
      match g.varType with
      | [] => none
      | t :: _ => some { name := n, size := g.size, isInt := t, lb := g.lb, ub := g.ub, value := g.value }))

/-- One row of the text table of `to_csv` (one row per component). -/
structure Row where
  name : String
  lb : Option Rat
  value : Option Rat
  ub : Option Rat
  isInt : Bool
  deriving Repr, DecidableEq

/-- Rows of one variable (`get_pretty_table` without index suffixes). -/
def varRows (v : DVar) : List Row :=
  (List.range v.size).map (fun i =>
    { name := v.name, lb := (v.lb.getD i none), ub := (v.ub.getD i none),
      value := match v.value with
               | none => none
               | some l => some (l.getD i 0),
      isInt := v.isInt })

def dsToRows (ds : DSpace) : List Row := ds.flatMap varRows

/-- `unique_names` of `from_csv` with its consecutiveness check (`ValueError` ⇒ `none`). -/
def uniqueNames : List String → List String → Option String → Option (List String)
  | [], acc, _ => some acc
  | n :: t, acc, prev =>
    if !(acc.contains n) then uniqueNames t (acc ++ [n]) (some n)
    else if prev ≠ some n then none
    else uniqueNames t acc prev

/-- The grouping loop of `from_csv`: `size = var_names.count(name)`, rows `k .. k+size-1`;
    the value is `None` as soon as one of these rows prints `None`; the type is that of row `k`. -/
def rowsToVars (rows : List Row) : List String → Nat → Option DSpace
  | [], _ => some []
  | n :: t, k =>
    let size := (rows.map (·.name)).count n
    let chunk := (rows.drop k).take size
    match chunk with
    | [] => none
    | r0 :: _ =>
      match rowsToVars rows t (k + size) with
      | none => none
      | some rest =>
        some ({ name := n, size := size, isInt := r0.isInt,
                lb := chunk.map (·.lb), ub := chunk.map (·.ub),
                value := if chunk.any (fun r => r.value.isNone) then none
                         else some (chunk.map (fun r => r.value.getD 0)) } :: rest)

/-- `DesignSpace.from_csv` on the parsed rows. -/
def dsFromRows (rows : List Row) : Option DSpace :=
  match uniqueNames (rows.map (·.name)) [] none with
  | none => none
  | some names => rowsToVars rows names 0

/-! ### Attribute groups of an optimization problem (`gemseo/utils/hdf5.py`)

`OptimizationProblem.to_hdf` writes the optimization description, the description of every
function (`MDOFunction.to_dict`) and the solution (`OptimizationResult.to_dict`) as HDF groups of
datasets through `store_h5data` / `store_attr_h5data`; `from_hdf` reads them back through
`convert_h5_group_to_dict` and rebuilds the objects, statement after statement. -/

/-- A Python value handed to the writers. -/
inductive PyV where
  | none
  | str (s : String)
  | strs (l : List String)   -- a list/tuple of strings (`input_names`, `output_names`)
  | bool (b : Bool)
  | int (n : Int)
  | flt (r : Rat)
  | nums (a : Arr)           -- a numeric `ndarray`
  deriving Repr, DecidableEq

/-- An HDF dataset as h5py returns it: a scalar string, a 1-D array of strings, a scalar number or
    a numeric array. -/
inductive DSet where
  | sbytes (s : String)
  | sarr (l : List String)
  | bool (b : Bool)
  | int (n : Int)
  | flt (r : Rat)
  | nums (a : Arr)
  deriving Repr, DecidableEq

/-- `len(array) == 0` for an array with at least one axis. -/
def Arr.lenZero (a : Arr) : Bool :=
  match a.shape with
  | 0 :: _ => true
  | _ => false

/-- `store_h5data(group, value, name)`: `None` and the *empty* iterables are not written
    (`value is None or (isinstance(value, Iterable) and not len(value))`) — the numbers `0`, `0.0`
    and `False` are not iterables and ARE written; a `str` becomes a one-item array of bytes.
    `none` = no dataset. -/
def storeH5 : PyV → Option DSet
  | .none => none
  | .str s => if s = "" then none else some (.sarr [s])
  | .strs l => if l = [] then none else some (.sarr l)
  | .bool b => some (.bool b)
  | .int n => some (.int n)
  | .flt r => some (.flt r)
  | .nums a => if a.lenZero then none else some (.nums a)

/-- `store_attr_h5data` on one item of `obj.to_dict()`: a `str` is encoded to bytes first (and is
    then stored as a *scalar* dataset), a non-numeric iterable becomes a list of bytes with a
    variable-length string dtype, anything else goes to `store_h5data` unchanged. -/
def storeAttr : PyV → Option DSet
  | .str s => if s = "" then none else some (.sbytes s)
  | v => storeH5 v

/-- `convert_h5_group_to_dict` on one dataset: a scalar string is decoded; an array of strings
    becomes a list of strings *whatever its size* (repaired: a one-item array used to be collapsed
    to its item, see `readAttrCollapsing`). -/
def readAttr : DSet → PyV
  | .sbytes s => .str s
  | .sarr l => .strs l
  | .bool b => .bool b
  | .int n => .int n
  | .flt r => .flt r
  | .nums a => .nums a

/-- The conversion before the repair: `value[0] if value.size == 1 else value.tolist()`. -/
def readAttrCollapsing : DSet → PyV
  | .sarr [s] => .str s
  | d => readAttr d

/-- An HDF group of datasets. -/
abbrev Group := List (String × DSet)

/-- Writing a mapping with `store_attr_h5data`: the items that are not written leave no trace. -/
def writeGroup (d : List (String × PyV)) : Group :=
  d.filterMap (fun nv => (storeAttr nv.2).map (fun x => (nv.1, x)))

def readGroupWith (rd : DSet → PyV) (g : Group) : List (String × PyV) :=
  g.map (fun nd => (nd.1, rd nd.2))

def readGroup (g : Group) : List (String × PyV) := readGroupWith readAttr g

/-- The serialized attributes of an `MDOFunction` (`DICT_REPR_ATTR`). -/
structure FuncDesc where
  name : String
  fType : String            -- "" (none), "obj", "eq", "ineq", "obs"
  expr : String
  inputNames : List String
  dim : Nat
  specialRepr : String
  outputNames : List String
  deriving Repr, DecidableEq

/-- `MDOFunction.to_dict` (no attribute of a function is `None`). -/
def funcToDict (f : FuncDesc) : List (String × PyV) :=
  [("name", .str f.name), ("f_type", .str f.fType), ("expr", .str f.expr),
   ("input_names", .strs f.inputNames), ("dim", .int f.dim),
   ("special_repr", .str f.specialRepr), ("output_names", .strs f.outputNames)]

/-- `list(value)` in the setters of `input_names`/`output_names`: a list stays a list, a *string*
    is a sequence of one-character strings. -/
def pyListOfNames : Option PyV → List String
  | some (.strs l) => l
  | some (.str s) => s.toList.map (fun c => String.singleton c)
  | _ => []

def pyStr : Option PyV → String
  | some (.str s) => s
  | _ => ""

def pyNat : Option PyV → Nat
  | some (.int n) => n.toNat
  | _ => 0

/-- `MDOFunction.init_from_dict_repr(**attributes)`: `name` is required (`TypeError` ⇒ `none`),
    the other attributes have defaults (`""`, `()`, `0`). -/
def funcFromDict (d : List (String × PyV)) : Option FuncDesc :=
  match alook "name" d with
  | some (.str n) =>
    some { name := n, fType := pyStr (alook "f_type" d), expr := pyStr (alook "expr" d),
           inputNames := pyListOfNames (alook "input_names" d), dim := pyNat (alook "dim" d),
           specialRepr := pyStr (alook "special_repr" d),
           outputNames := pyListOfNames (alook "output_names" d) }
  | _ => none

/-- What `to_hdf` writes about a problem besides its database and design space. -/
structure PbDesc where
  minimize : Bool
  isLinear : Bool
  diffMethod : String
  diffStep : Rat
  ineqTol : Rat
  eqTol : Rat
  objective : FuncDesc
  constraints : List FuncDesc
  observables : List FuncDesc
  solution : Option (List (String × PyV))   -- `OptimizationResult.to_dict()` without the mappings
  deriving Repr, DecidableEq

/-- The groups of the problem in the file (`constraints`/`observables` track the creation order). -/
structure PbFile where
  optDescr : Group
  objective : Group
  constraints : List (String × Group)
  observables : List (String × Group)
  solution : Option Group
  deriving Repr, DecidableEq

/-- The `opt_description` group: every attribute goes to `store_h5data` directly. -/
def writeOptDescr (p : PbDesc) : Group :=
  [("minimize_objective", PyV.bool p.minimize), ("differentiation_step", .flt p.diffStep),
   ("differentiation_method", .str p.diffMethod), ("is_linear", .bool p.isLinear),
   ("ineq_tolerance", .flt p.ineqTol), ("eq_tolerance", .flt p.eqTol)].filterMap
    (fun nv => (storeH5 nv.2).map (fun x => (nv.1, x)))

/-- `function_group.require_group(function.name)` then `store_attr_h5data`: writing a second
    function under an existing name raises (`create_dataset` on an existing member) ⇒ `none`. -/
def writeFuncs : List FuncDesc → List (String × Group) → Option (List (String × Group))
  | [], acc => some acc
  | f :: t, acc =>
    match alook f.name acc with
    | some _ => none
    | none => writeFuncs t (acc ++ [(f.name, writeGroup (funcToDict f))])

/-- `OptimizationProblem.to_hdf` (`append=False`). -/
def pbToHdf (p : PbDesc) : Option PbFile :=
  match writeFuncs p.constraints [], writeFuncs p.observables [] with
  | some cs, some os =>
    some { optDescr := writeOptDescr p, objective := writeGroup (funcToDict p.objective),
           constraints := cs, observables := os, solution := p.solution.map writeGroup }
  | _, _ => none

/-- The problem `from_hdf` starts from: `OptimizationProblem(design_space, database=database)`
    (`is_linear=True`, minimization, default differentiation and tolerances, no function). -/
def pbBlank (obj : FuncDesc) : PbDesc :=
  { minimize := true, isLinear := true, diffMethod := "user", diffStep := 1 / 10000000,
    ineqTol := 1 / 10000, eqTol := 1 / 100, objective := obj, constraints := [], observables := [],
    solution := none }

/-- The setter `problem.objective = function` with a function that is not an
    `MDOLinearFunction` (a reloaded function never is): the linearity flag is reset and the
    function becomes an objective. -/
def setObjective (p : PbDesc) (f : FuncDesc) : PbDesc :=
  { p with isLinear := false, objective := { f with fType := "obj" } }

/-- One pass of the loop over the items of `opt_description`: a one-item array of bytes is
    decoded (`val[0].decode()`), then the attribute is set (the tolerances on
    `problem.tolerances`, `minimize_objective` and `is_linear` on the private attributes — no
    setter runs —, `pb_type` is the legacy spelling of `is_linear`). -/
def setDescrAttr (p : PbDesc) (name : String) (d : DSet) : PbDesc :=
  let v : PyV := match d with
    | .sarr (s :: _) => .str s
    | d => readAttr d
  match name, v with
  | "minimize_objective", .bool b => { p with minimize := b }
  | "is_linear", .bool b => { p with isLinear := b }
  | "pb_type", .str s => { p with isLinear := s == "linear" }
  | "ineq_tolerance", .flt r => { p with ineqTol := r }
  | "eq_tolerance", .flt r => { p with eqTol := r }
  | "differentiation_method", .str s => { p with diffMethod := s }
  | "differentiation_step", .flt r => { p with diffStep := r }
  | _, _ => p

def setDescr (p : PbDesc) (g : Group) : PbDesc :=
  g.foldl (fun q nd => setDescrAttr q nd.1 nd.2) p

/-- All the functions of a group, in the order of the group. -/
def readFuncs (gs : List (String × Group)) : Option (List FuncDesc) :=
  optAll (gs.map (fun ng => funcFromDict (readGroup ng.2)))

/-- `OptimizationProblem.from_hdf`, statement after statement: new problem; solution;
    `problem.objective = objective` (setter); loop over `opt_description`; constraints and
    observables appended in the order of their groups. -/
def pbFromHdf (f : PbFile) : Option PbDesc :=
  match funcFromDict (readGroup f.objective), readFuncs f.constraints, readFuncs f.observables with
  | some obj, some cs, some os =>
    let p0 := { pbBlank obj with solution := f.solution.map readGroup }
    let p1 := setObjective p0 obj
    let p2 := setDescr p1 f.optDescr
    some { p2 with constraints := cs, observables := os }
  | _, _, _ => none

/-- The statement order of a plausible rewrite ("solution, description, then all the
    functions"): the objective setter runs AFTER the description loop. -/
def pbFromHdfObjectiveLast (f : PbFile) : Option PbDesc :=
  match funcFromDict (readGroup f.objective), readFuncs f.constraints, readFuncs f.observables with
  | some obj, some cs, some os =>
    let p0 := { pbBlank obj with solution := f.solution.map readGroup }
    let p1 := setDescr p0 f.optDescr
    let p2 := setObjective p1 obj
    some { p2 with constraints := cs, observables := os }
  | _, _, _ => none

/-! ### Sparse Jacobian blocks of an HDF5 cache (`_hdf5_file_singleton.py`)

`__write_sparse_array` converts the block to CSR (`value.tocsr()`) and writes the stored
coefficients as the dataset and `indices`, `indptr`, `shape` as attributes; `__read_sparse_array`
builds `csr_array((data, indices, indptr), shape)`. -/

/-- A dense matrix: its rows. -/
abbrev Mat := List (List Rat)

/-- The stored entries (column, value) of a row, from column `j` on: the non-zero coefficients
    in column order. -/
def rowNz : Nat → List Rat → List (Nat × Rat)
  | _, [] => []
  | j, v :: t => if v = 0 then rowNz (j + 1) t else (j, v) :: rowNz (j + 1) t

/-- `indptr` of the rows after its first entry `s`: the running count of stored entries. -/
def indptrTail : Nat → Mat → List Nat
  | _, [] => []
  | s, r :: t => (s + (rowNz 0 r).length) :: indptrTail (s + (rowNz 0 r).length) t

/-- The dataset and attributes of a sparse block. -/
structure CsrFile where
  data : List Rat
  indices : List Nat
  indptr : List Nat
  shape : Nat × Nat
  deriving Repr, DecidableEq

/-- `value.tocsr()` of a container holding the matrix `m` (canonical: sorted column indices, no
    explicit zero, no duplicate), then the four pieces written to the file. -/
def writeSparse (nrows ncols : Nat) (m : Mat) : CsrFile :=
  let ents := (m.map (rowNz 0)).flatten
  { data := ents.map (·.2), indices := ents.map (·.1), indptr := 0 :: indptrTail 0 m,
    shape := (nrows, ncols) }

/-- The coefficient of column `j` in a list of stored entries (duplicates are summed, as SciPy
    does when the array is densified). -/
def entryAt (j : Nat) (ents : List (Nat × Rat)) : Rat :=
  (ents.filter (fun e => e.1 == j)).foldr (fun e a => e.2 + a) 0

/-- The dense row of the columns `k, k+1, …, k+n-1`. -/
def scatterFrom (ents : List (Nat × Rat)) : Nat → Nat → List Rat
  | _, 0 => []
  | k, n + 1 => entryAt k ents :: scatterFrom ents (k + 1) n

/-- The rows delimited by consecutive `indptr` values (`a` is the previous value). -/
def csrRows (ncols : Nat) (ents : List (Nat × Rat)) : Nat → List Nat → Mat
  | _, [] => []
  | a, b :: t => scatterFrom ((ents.drop a).take (b - a)) 0 ncols :: csrRows ncols ents b t

/-- `csr_array((data, indices, indptr), shape)` densified. -/
def readSparse (f : CsrFile) : Mat :=
  match f.indptr with
  | [] => []
  | a :: t => csrRows f.shape.2 (f.indices.zip f.data) a t

/-- Transposition of a matrix with `ncols` columns. -/
def transposeM (ncols : Nat) (m : Mat) : Mat :=
  (List.range ncols).map (fun j => m.map (fun r => r.getD j 0))

/-- What a writer that keeps a column-compressed (CSC) container as it is would put in the file:
    the compressed triplet of the *columns* under the original shape. -/
def writeCscAsIs (nrows ncols : Nat) (m : Mat) : CsrFile :=
  { writeSparse ncols nrows (transposeM ncols m) with shape := (nrows, ncols) }

/-! ### Representations of a database key

`HashableNdarray` compares the *values* of two arrays (`hash` taken after `array + 0.0`, then
`array_equal`): `[1, 2]` (int64), `[1, 2]` (int32) and `[1., 2.]`, or `[0., 3.]` and `[-0., 3.]`, are
ONE key. The sections above work on keys (a `Pt` names the entry). This section models what the
*bytes* of the points become: the database keeps the array stored first (a `dict` keeps its first
key), the pending buffer keeps an array per hash, and the append branch of `to_file` writes the
PENDING array as the dataset `x/<index>` of a new entry. -/

/-- One array handed to `Database.store`, bit for bit: dtype code (0 = float64, 1 = int64,
    2 = int32), values, positions holding a negative zero. -/
structure Rep where
  dt : Nat
  xs : List Rat
  negz : List Nat
  deriving Repr, DecidableEq

/-- State of the representation layer: `database.keys()` (the arrays held, in insertion order),
    the pending buffer (hash ↦ array), the group `x` of the file (index ↦ dataset). -/
structure RState (κ : Type) where
  keys : List Rep
  pend : List (κ × Rep)
  fx : List (Nat × Rep)
  deriving DecidableEq

def RState.init {κ : Type} : RState κ := { keys := [], pend := [], fx := [] }

/-- `self.__data[hashed_input_value] = outputs` / `stored_outputs.update(outputs)`: an array equal
    to a key already present (`array_equal`: same values) leaves the keys alone. -/
def rkeysStore : List Rep → Rep → List Rep
  | [], r => [r]
  | q :: t, r => if q.xs = r.xs then q :: t else q :: rkeysStore t r

/-- `HDFDatabase.add_pending_array`: `existing = pending.get(hash(data))`; the slot is written
    when it is empty or when the arrays are not `array_equal`. -/
def raddPending {κ : Type} [DecidableEq κ] (H : Rep → κ) (pend : List (κ × Rep)) (r : Rep) :
    List (κ × Rep) :=
  match pend with
  | [] => [(H r, r)]
  | (h, q) :: t =>
    if h = H r then (if q.xs = r.xs then (h, q) :: t else (h, r) :: t)
    else (h, q) :: raddPending H t r

/-- The simplification `self.__pending_arrays[hash(data)] = data` (no `array_equal` guard). -/
def raddPendingLast {κ : Type} [DecidableEq κ] (H : Rep → κ) (pend : List (κ × Rep)) (r : Rep) :
    List (κ × Rep) :=
  match pend with
  | [] => [(H r, r)]
  | (h, q) :: t => if h = H r then (h, r) :: t else (h, q) :: raddPendingLast H t r

/-- `input_values_to_idx[input_values]`: index of the key EQUAL to the array. -/
def rindex (r : Rep) : List Rep → Option Nat
  | [] => none
  | q :: t => if q.xs = r.xs then some 0 else (rindex r t).map (· + 1)

/-- The append loop of `to_file` on the group `x`: `if str(index) in x_group:` nothing is written
    to `x`, else `x/<index>` is created from the PENDING array. -/
def rappend (keys : List Rep) : List (Nat × Rep) → List Rep → Option (List (Nat × Rep))
  | X, [] => some X
  | X, q :: qs =>
    match rindex q keys with
    | none => none
    | some i =>
      match alook i X with
      | some _ => rappend keys X qs
      | none => rappend keys (X ++ [(i, q)]) qs

/-- The full export: `x/0, x/1, …` from `database.items()`. -/
def renum (i : Nat) : List Rep → List (Nat × Rep)
  | [] => []
  | r :: t => (i, r) :: renum (i + 1) t

def rstoreWith {κ : Type} (add : List (κ × Rep) → Rep → List (κ × Rep)) (s : RState κ) (r : Rep) :
    RState κ :=
  { keys := rkeysStore s.keys r, pend := add s.pend r, fx := s.fx }

/-- `Database.store` (pending first, then the data). -/
def rstore {κ : Type} [DecidableEq κ] (H : Rep → κ) (s : RState κ) (r : Rep) : RState κ :=
  rstoreWith (raddPending H) s r

def rexport {κ : Type} (s : RState κ) (append : Bool) : Option (RState κ) :=
  if append && !s.fx.isEmpty then
    (rappend s.keys s.fx (s.pend.map (·.2))).map (fun X => { keys := s.keys, pend := [], fx := X })
  else some { keys := s.keys, pend := [], fx := renum 0 s.keys }

/-- The datasets `x/0 … x/(n-1)` in index order (`update_from_file`; a missing index raises). -/
def rreadFile (X : List (Nat × Rep)) : Option (List Rep) :=
  optAll ((List.range X.length).map (fun i => alook i X))

/-- `database.update_from_hdf(file)`: every dataset goes through `store`. -/
def rupdate {κ : Type} [DecidableEq κ] (H : Rep → κ) (s : RState κ) : Option (RState κ) :=
  (rreadFile s.fx).map (fun rs => rs.foldl (rstore H) s)

/-- `Database.from_hdf(file)`: a new database updated from the file. -/
def rreload {κ : Type} [DecidableEq κ] (H : Rep → κ) (s : RState κ) : Option (RState κ) :=
  rupdate H { keys := [], pend := [], fx := s.fx }

inductive ROp where
  | store (r : Rep)
  | exportFile (append : Bool)
  | reload
  deriving Repr

def rstep {κ : Type} [DecidableEq κ] (H : Rep → κ) (s : RState κ) : ROp → Option (RState κ)
  | .store r => some (rstore H s r)
  | .exportFile a => rexport s a
  | .reload => rreload H s

def rrun {κ : Type} [DecidableEq κ] (H : Rep → κ) : RState κ → List ROp → Option (RState κ)
  | s, [] => some s
  | s, op :: ops =>
    match rstep H s op with
    | some s' => rrun H s' ops
    | none => none

/-- The same machine with the unguarded pending buffer (for the witness theorem). -/
def rstepLast {κ : Type} [DecidableEq κ] (H : Rep → κ) (s : RState κ) : ROp → Option (RState κ)
  | .store r => some (rstoreWith (raddPendingLast H) s r)
  | .exportFile a => rexport s a
  | .reload => rreload H s

def rrunLast {κ : Type} [DecidableEq κ] (H : Rep → κ) : RState κ → List ROp → Option (RState κ)
  | s, [] => some s
  | s, op :: ops =>
    match rstepLast H s op with
    | some s' => rrunLast H s' ops
    | none => none

end GV.C11
