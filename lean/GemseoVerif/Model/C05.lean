/-
C05 — model of the discipline caches: `BaseDiscipline.execute` / `Discipline.linearize`
(lookup before run, store after run, `_has_jacobian` logic), `SimpleCache`, `BaseFullCache`
(hash index, `__ensure_input_data_exists`, `_cache_inputs`, `cache_outputs`, `cache_jacobian`,
`__getitem__` with and without tolerance), `MemoryFullCache` (shared or not), `HDF5Cache`
(entries + hash stored in the file, `read_hashes` when reopened), `compare_dict_of_arrays`.

Code anchored: src/gemseo/core/discipline/base_discipline.py, discipline.py,
src/gemseo/caches/{simple_cache,base_full_cache,memory_full_cache,hdf5_cache,_hdf5_file_singleton}.py,
src/gemseo/utils/comparisons.py.

Aliasing is explicit: every array the caller can touch (arrays it created, arrays returned by the
discipline) lives in `State.heap` at an address; the caller's handles map to addresses; `mut` writes
in place.  A cache stores *cells*: `val v` (a private copy) or `ref a` (the caller-visible array at
address `a`, i.e. "stored by reference").  `Policy` says which of the two the cache does on write
and whether a hit hands out a private copy or the stored array itself, and *when* the inputs of
the entry of an execution are read (`Snap`: before the body runs, or when the entry is written).
The repaired code is `Policy.copy` (copy on write, copy on hit, inputs copied before the run); the
other policies are kept so that the defects found on the pinned tree and the seeded change classes
are expressible (see the counter-examples in Props/C05.lean).

The body of the discipline is a parameter (`Disc`): besides computing outputs and Jacobian from the
values of its inputs it may update its input arrays in place (`Disc.wr`: the heap cells of the
caller's arrays are overwritten during `missState`) and return an input array itself as an output
(`Disc.aliasOf`: the returned address is the caller's).

Import-free (core Lean only) so that the driver can run it.
-/
import GemseoVerif.Model.Common

namespace GV.C05

abbrev Name := String
abbrev Arr := List Rat
/-- A dict of arrays whose keys are a fixed name list (input grammar / output grammar order):
    stored positionally. -/
abbrev Vals := List Arr
abbrev Block := List (List Rat)
/-- Jacobian: `(output, input) ↦ block`, the nested dict flattened. -/
abbrev Jac := List ((Name × Name) × Block)

/-! ### Heap, cells -/

inductive Cell where
  | val (v : Arr)
  | ref (a : Nat)
  deriving Repr, DecidableEq

def deref (heap : List Arr) : Cell → Arr
  | .val v => v
  | .ref a => heap.getD a []

def derefs (heap : List Arr) (cs : List Cell) : Vals := cs.map (deref heap)

/-- When the inputs of the cache entry of an execution are read (`__create_input_data_for_cache`,
    `_store_cache`): matters as soon as the body updates its input arrays in place. -/
inductive Snap where
  | pre         -- every input is copied before the body runs (the repaired code)
  | coupledPre  -- only the self-coupled inputs are copied before the run (pinned tree); the others are
                -- the caller's arrays, read when the entry is written, after the run
  | post        -- every input is read when the entry is written, after the run
  deriving Repr, DecidableEq

structure Policy where
  copyOnWrite : Bool
  copyOnHit : Bool
  snap : Snap
  deriving Repr, DecidableEq

def Policy.copy : Policy := ⟨true, true, .pre⟩

inductive Kind where
  | none
  | simple
  | memory (shared : Bool)
  | hdf5
  deriving Repr, DecidableEq

structure Cfg where
  kind : Kind
  tol : Rat
  pol : Policy
  inNames : List Name
  defaults : List (Option Arr)      -- aligned with inNames
  outNames : List Name
  dIn : List Name                    -- differentiated inputs
  dOut : List Name                   -- differentiated outputs
  runSetsJac : Bool                  -- `_run` also fills `jac` and sets `_has_jacobian`
  deriving Repr

/-- The discipline body: parameters of the model. `run` and `jacf` are functions of the values the
    input arrays hold when the body starts. The body may also update its input arrays **in place**:
    `wr x` are the values it leaves in them (positionally; `wr = id`: it does not touch them), and it
    may return an input array itself (or a full view of it) as an output: `aliasOf[k] = some i` says
    that the `k`-th output array is the array of the `i`-th input. -/
structure Disc where
  run : Vals → Vals
  jacf : Vals → Jac
  wr : Vals → Vals := fun x => x
  aliasOf : List (Option Nat) := []

/-- Stored by reference only by the non-shared `MemoryFullCache` under the by-reference policy (a
    manager dict pickles, HDF5 writes, `SimpleCache` deep-copies). -/
def Cfg.byRef (c : Cfg) : Bool :=
  match c.kind with
  | .memory false => !c.pol.copyOnWrite
  | _ => false

/-- The cache stores private copies of the data the discipline was *called with*: nothing is kept
    by reference and the inputs are copied before the body runs. -/
def Cfg.cow (c : Cfg) : Bool := !c.byRef && c.pol.snap == .pre

/-- A hit hands out the stored arrays themselves only for the in-process caches. -/
def Cfg.coh (c : Cfg) : Bool :=
  match c.kind with
  | .simple => c.pol.copyOnHit
  | .memory false => c.pol.copyOnHit
  | _ => true

/-! ### `compare_dict_of_arrays` -/

def sumSq : Arr → Rat
  | [] => 0
  | c :: cs => c * c + sumSq cs

def subArr : Arr → Arr → Arr
  | a :: as, b :: bs => (a - b) :: subArr as bs
  | _, _ => []

/-- `norm(w - x) ≤ t * (1 + norm(x))` decided without square roots
    (`D = ‖w-x‖²`, `S = ‖x‖²`, `t > 0`): true if `D ≤ t²`; otherwise with `A = D + t² - t² S`,
    true iff `A ≤ 0 ∨ A² ≤ 4 t² D`. The shape check comes first. -/
def withinArr (t : Rat) (x w : Arr) : Bool :=
  x.length == w.length &&
    (let D := sumSq (subArr w x)
     let S := sumSq x
     let A := D + t * t - t * t * S
     decide (D ≤ t * t) || decide (A ≤ 0) || decide (A * A ≤ 4 * (t * t) * D))

def withinVals (t : Rat) : Vals → Vals → Bool
  | [], [] => true
  | x :: xs, w :: ws => withinArr t x w && withinVals t xs ws
  | _, _ => false

/-- `compare_dict_of_arrays(x, w, t)`: `if tolerance:` … `else:` exact equality. -/
def cmp (t : Rat) (x w : Vals) : Bool :=
  if t = 0 then x == w else withinVals t x w

/-! ### Caches -/

structure Simple where
  inputs : List Cell := []      -- `{}` = no entry
  outputs : List Cell := []     -- `{}` is falsy
  jac : Jac := []               -- `{}` is falsy
  deriving Repr

structure Entry where
  inputs : List Cell
  outputs : Option (List Cell)  -- `none`: the group does not exist
  jac : Option Jac
  hash : Nat                    -- the hash written with the entry (HDF5 `hash` dataset)
  deriving Repr

structure Full where
  entries : List Entry := []                 -- the entry of index `i ≥ 1` is `entries[i-1]`
  index : List (Nat × List Nat) := []        -- `_hashes_to_indices`, in dict order
  last : Nat := 0                            -- `_last_accessed_index`
  deriving Repr

def Full.entry? (f : Full) (i : Nat) : Option Entry :=
  if i = 0 then none else f.entries[i - 1]?

def lookupIdx (index : List (Nat × List Nat)) (h : Nat) : Option (List Nat) :=
  (index.find? (fun p => p.1 == h)).map (·.2)

/-- First index of `idxs` whose stored inputs compare equal to `x` with tolerance `t`. -/
def findIdx (heap : List Arr) (f : Full) (t : Rat) (x : Vals) (idxs : List Nat) : Option Nat :=
  idxs.find? (fun i =>
    match f.entry? i with
    | some e => cmp t x (derefs heap e.inputs)
    | none => false)

/-- `BaseFullCache.__getitem__`: the matched index, if any. -/
def Full.lookup (heap : List Arr) (f : Full) (t : Rat) (x : Vals) (h : Nat) : Option Nat :=
  if t = 0 then
    match lookupIdx f.index h with
    | none => none
    | some idxs => findIdx heap f 0 x idxs
  else
    findIdx heap f t x (f.index.flatMap (·.2))

def setIdx (index : List (Nat × List Nat)) (h : Nat) (idxs : List Nat) : List (Nat × List Nat) :=
  if index.any (fun p => p.1 == h) then
    index.map (fun p => if p.1 == h then (p.1, idxs) else p)
  else index ++ [(h, idxs)]

def Full.modifyEntry (f : Full) (i : Nat) (g : Entry → Entry) : Full :=
  match f.entry? i with
  | some e => { f with entries := f.entries.set (i - 1) (g e) }
  | none => f

/-- `__ensure_input_data_exists` followed by the `_write_data(INPUTS)` of `_cache_inputs` when the
    entry is new. Returns the cache and whether the input data was missing.
    The comparison with the entries of the bucket is exact (no tolerance). -/
def Full.ensure (heap : List Arr) (f : Full) (x : Vals) (h : Nat) (xc : List Cell) : Full × Bool :=
  let n := f.entries.length + 1
  let fresh : Entry := ⟨xc, none, none, h⟩
  match lookupIdx f.index h with
  | none =>
    ({ entries := f.entries ++ [fresh], index := f.index ++ [(h, [n])], last := n }, true)
  | some idxs =>
    match findIdx heap f 0 x idxs with
    | some i => ({ f with last := i }, false)
    | none =>
      ({ entries := f.entries ++ [fresh], index := setIdx f.index h (idxs ++ [n]), last := n }, true)

/-- `cache_outputs`. -/
def Full.storeOutputs (heap : List Arr) (f : Full) (x : Vals) (h : Nat) (xc oc : List Cell) : Full :=
  let f1 := (f.ensure heap x h xc).1
  let isNew := (f.ensure heap x h xc).2
  let has := match f1.entry? f1.last with
    | some e => e.outputs.isSome
    | none => false
  if !isNew && has then f1
  else f1.modifyEntry f1.last (fun e => { e with outputs := some oc })

/-- `cache_jacobian`. -/
def Full.storeJac (heap : List Arr) (f : Full) (x : Vals) (h : Nat) (xc : List Cell) (j : Jac) : Full :=
  let f1 := (f.ensure heap x h xc).1
  let isNew := (f.ensure heap x h xc).2
  let has := match f1.entry? f1.last with
    | some e => e.jac.isSome
    | none => false
  if !isNew && has then f1
  else f1.modifyEntry f1.last (fun e => { e with jac := some j })

/-- Insert `x` in a list sorted by `lt` (used to order entry names like h5py does). -/
def insertBy {α : Type} (lt : α → α → Bool) (x : α) : List α → List α
  | [] => [x]
  | y :: ys => if lt x y then x :: y :: ys else y :: insertBy lt x ys

def sortBy {α : Type} (lt : α → α → Bool) (l : List α) : List α :=
  l.foldr (insertBy lt) []

/-- One step of `read_hashes`: register the index `i` under the hash stored with its entry. -/
def insertIdx (f : Full) (ix : List (Nat × List Nat)) (i : Nat) : List (Nat × List Nat) :=
  match f.entry? i with
  | some e =>
    (match lookupIdx ix e.hash with
     | none => ix ++ [(e.hash, [i])]
     | some idxs => setIdx ix e.hash (idxs ++ [i]))
  | none => ix

/-- The order in which h5py iterates the entry groups: names sorted as strings. -/
def h5Order (n : Nat) : List Nat :=
  sortBy (fun a b => decide (toString a < toString b)) ((List.range n).map (· + 1))

/-- `read_hashes` of a freshly constructed `HDF5Cache` on the same file: the entries stay, the
    index is rebuilt from the stored hashes in the order h5py iterates the groups (names sorted as
    strings), `_max_index` and `_last_accessed_index` are the largest index. -/
def Full.reopen (f : Full) : Full :=
  { entries := f.entries,
    index := (h5Order f.entries.length).foldl (insertIdx f) [],
    last := f.entries.length }

def Simple.isCached (heap : List Arr) (s : Simple) (t : Rat) (x : Vals) : Bool :=
  !s.inputs.isEmpty && cmp t x (derefs heap s.inputs)

/-- `SimpleCache.cache_outputs` (the arguments are deep-copied by the caller of this function:
    the cells are `val`). Whether the entry is "the same" is decided exactly (repaired code:
    no tolerance), so that an entry never mixes data of two inputs. -/
def Simple.storeOutputs (heap : List Arr) (s : Simple) (x : Vals) (xc oc : List Cell) : Simple :=
  if s.isCached heap 0 x then
    (if s.outputs.isEmpty then { s with outputs := oc } else s)
  else { inputs := xc, outputs := oc, jac := [] }

/-- `SimpleCache.cache_jacobian`. -/
def Simple.storeJac (heap : List Arr) (s : Simple) (x : Vals) (xc : List Cell) (j : Jac) : Simple :=
  if s.isCached heap 0 x then
    (if s.jac.isEmpty then { s with jac := j } else s)
  else { inputs := xc, outputs := [], jac := j }

/-! ### State of discipline + cache + caller -/

structure State where
  heap : List Arr := []
  handles : List (Nat × Nat) := []     -- caller id ↦ address
  simple : Simple := {}
  full : Full := {}
  hasJac : Bool := false               -- `Discipline._has_jacobian`
  dJac : Jac := []                     -- `Discipline.jac`
  lastRet : List (Name × Nat) := []    -- addresses of the output arrays returned by the last execute
  nRun : Nat := 0
  nJac : Nat := 0
  runLog : List Vals := []             -- ghost: inputs the body was run on
  jacLog : List Vals := []             -- ghost: inputs the Jacobian body was evaluated on
  deriving Repr

inductive Op where
  | new (id : Nat) (v : Arr)                       -- the caller creates an array
  | modify (id : Nat) (v : Arr)                    -- the caller modifies one of its arrays in place
  | keep (id : Nat) (name : Name)                  -- the caller keeps a returned output array
  | exec (args : List (Name × Nat)) (h : Nat)      -- execute({name: array}); `h` = hash of the inputs
  | lin (all : Bool) (exe : Bool) (args : List (Name × Nat)) (h : Nat)
  | reopen                                         -- a new HDF5Cache on the same file
  | clear                                          -- cache.clear()
  deriving Repr

inductive Out where
  | ok
  | err (e : String)
  | data (outs : Vals)
  | jac (j : Jac)
  deriving Repr, DecidableEq

def lookupA {α : Type} (l : List (Nat × α)) (k : Nat) : Option α :=
  (l.find? (fun p => p.1 == k)).map (·.2)

def lookupN {α : Type} (l : List (Name × α)) (k : Name) : Option α :=
  (l.find? (fun p => p.1 == k)).map (·.2)

/-- `IO.prepare_input_data`: the caller's array if given, else the default. For each input name:
    the value now, and the address of the caller's array when there is one. -/
def prepare (cfg : Cfg) (st : State) (args : List (Name × Nat)) : Option (List (Arr × Option Nat)) :=
  (cfg.inNames.zip cfg.defaults).mapM (fun (n, d) =>
    match lookupN args n with
    | some id =>
      (match lookupA st.handles id with
       | some a => (st.heap[a]?).map (fun v => (v, some a))
       | none => none)
    | none => d.map (fun v => (v, none)))

/-- Cell stored for one input. `pristine = true`: by `cache_outputs` / `cache_jacobian` at the end
    of `execute` (`__create_input_data_for_cache` before the run, `_store_cache` after it): `v` is the
    value of the array before the run, `heap` the heap after the run (the body may have updated the
    array in place); which of the two the entry gets is the snapshot policy. `pristine = false`: by
    the `cache_jacobian` of `linearize` (no pristine copy: the array as it is, `v`). A default value
    is owned by the discipline: never modified by the caller. -/
def inputCell (cfg : Cfg) (pristine : Bool) (heap : List Arr) (n : Name) (v : Arr) :
    Option Nat → Cell
  | some a =>
    if pristine && (cfg.pol.snap == .pre ||
        (cfg.pol.snap == .coupledPre && cfg.outNames.contains n)) then Cell.val v
    else if cfg.byRef then Cell.ref a
    else Cell.val (if pristine then heap.getD a v else v)
  | none => Cell.val v

def inputCellsAux (cfg : Cfg) (pristine : Bool) (heap : List Arr) :
    List Name → List (Arr × Option Nat) → List Cell
  | _, [] => []
  | ns, (v, a) :: xs =>
    inputCell cfg pristine heap (ns.headD "") v a :: inputCellsAux cfg pristine heap ns.tail xs

def inputCells (cfg : Cfg) (pristine : Bool) (heap : List Arr) (xs : List (Arr × Option Nat)) :
    List Cell :=
  inputCellsAux cfg pristine heap cfg.inNames xs

/-- The in-place updates of the body: the array of every input the caller passed receives the value
    the body leaves in it (a default value is not an array of the caller: the bodies of the model do
    not write into the defaults of the discipline). -/
def writeBack : List Arr → List (Arr × Option Nat) → Vals → List Arr
  | heap, (_, some a) :: xs, w :: ws => writeBack (heap.set a w) xs ws
  | heap, (_, none) :: xs, _ :: ws => writeBack heap xs ws
  | heap, _, _ => heap

/-- Addresses of the returned output arrays: a fresh array, or the caller's input array itself when
    the body returns it (`aliasOf`). -/
def retAddrs (xs : List (Arr × Option Nat)) (aliasOf : List (Option Nat)) (fresh : List Nat) : List Nat :=
  (fresh.zip (List.range fresh.length)).map (fun (f, k) =>
    match aliasOf.getD k none with
    | some i =>
      (match xs[i]? with
       | some (_, some a) => a
       | _ => f)
    | none => f)

/-- Allocate arrays in the heap, return their addresses. -/
def allocs (heap : List Arr) (vs : Vals) : List Arr × List Nat :=
  (heap ++ vs, (List.range vs.length).map (· + heap.length))

/-- What the cache answers for `x`: `(outputs, jacobian)`, `{}` when absent. -/
def cacheGet (cfg : Cfg) (st : State) (x : Vals) (h : Nat) : List Cell × Jac :=
  match cfg.kind with
  | .none => ([], [])
  | .simple =>
    if st.simple.isCached st.heap cfg.tol x then (st.simple.outputs, st.simple.jac) else ([], [])
  | _ =>
    match st.full.lookup st.heap cfg.tol x h with
    | some i =>
      (match st.full.entry? i with
       | some e => (e.outputs.getD [], e.jac.getD [])
       | none => ([], []))
    | none => ([], [])

def cacheStoreOutputs (cfg : Cfg) (st : State) (x : Vals) (h : Nat) (xc oc : List Cell) : State :=
  match cfg.kind with
  | .none => st
  | .simple => { st with simple := st.simple.storeOutputs st.heap x xc oc }
  | _ => { st with full := st.full.storeOutputs st.heap x h xc oc }

def cacheStoreJac (cfg : Cfg) (st : State) (x : Vals) (h : Nat) (xc : List Cell) (j : Jac) : State :=
  match cfg.kind with
  | .none => st
  | .simple => { st with simple := st.simple.storeJac st.heap x xc j }
  | _ => { st with full := st.full.storeJac st.heap x h xc j }

/-- Cache hit (`_set_data_from_cache`): `oc` are the stored output cells, `cj` the stored Jacobian. -/
def execHit (cfg : Cfg) (st : State) (x : Vals) (h : Nat) (oc : List Cell) (cj : Jac) : State × Vals :=
  let ovals := derefs st.heap oc
  let heap' := (allocs st.heap ovals).1
  let addrs := (allocs st.heap ovals).2
  if cfg.coh then
    -- copies of the stored arrays are handed out
    ({ st with heap := heap', lastRet := cfg.outNames.zip addrs, hasJac := true, dJac := cj }, ovals)
  else
    -- the stored arrays themselves are handed out: a `val` cell becomes caller-visible
    -- (it is materialised in the heap and the cache keeps pointing to it)
    let addrs' := (oc.zip addrs).map (fun (c, a) => match c with | .ref b => b | .val _ => a)
    let oc' := addrs'.map Cell.ref
    let st1 : State := match cfg.kind with
      | .simple => { st with simple := { st.simple with outputs := oc' } }
      | _ =>
        (match st.full.lookup st.heap cfg.tol x h with
         | some i => { st with full := st.full.modifyEntry i (fun e => { e with outputs := some oc' }) }
         | none => st)
    ({ st1 with heap := heap', lastRet := cfg.outNames.zip addrs', hasJac := true, dJac := cj }, ovals)

/-- Cache miss, first half: the body runs (`_run`; it may also fill `jac` and set `_has_jacobian`,
    update its input arrays in place and return some of them as outputs). -/
def missState (cfg : Cfg) (d : Disc) (st : State) (xs : List (Arr × Option Nat)) : State :=
  let x := xs.map (·.1)
  let ovals := d.run x
  let heapW := writeBack st.heap xs (d.wr x)
  let st1 : State := { st with heap := (allocs heapW ovals).1,
                               lastRet := cfg.outNames.zip (retAddrs xs d.aliasOf (allocs heapW ovals).2),
                               nRun := st.nRun + 1, runLog := st.runLog ++ [x] }
  if cfg.runSetsJac then
    { st1 with hasJac := true, dJac := d.jacf x, jacLog := st1.jacLog ++ [x] }
  else st1

/-- Cache miss: run the body, store the outputs (and the Jacobian if the body computed it). -/
def execMiss (cfg : Cfg) (d : Disc) (st : State) (xs : List (Arr × Option Nat)) (h : Nat) :
    State × Vals :=
  let x := xs.map (·.1)
  let ovals := d.run x
  let st2 := missState cfg d st xs
  let xc := inputCells cfg true st2.heap xs
  let oc := if cfg.byRef then (st2.lastRet.map (·.2)).map Cell.ref else ovals.map Cell.val
  let st3 := cacheStoreOutputs cfg st2 x h xc oc
  (if st3.hasJac then cacheStoreJac cfg st3 x h xc st3.dJac else st3, ovals)

/-- `Discipline.execute` on prepared inputs. Returns the new state and the returned output values. -/
def execute (cfg : Cfg) (d : Disc) (st : State) (xs : List (Arr × Option Nat)) (h : Nat) :
    State × Vals :=
  let x := xs.map (·.1)
  let st0 : State := { st with hasJac := false }
  let g := cacheGet cfg st0 x h
  if cfg.kind != .none && !g.1.isEmpty then execHit cfg st0 x h g.1 g.2
  else execMiss cfg d st0 xs h

/-- `_check_jacobian_shape` raising `KeyError`: a requested output or input is missing. -/
def hasBlocks (j : Jac) (inN outN : List Name) : Bool :=
  outN.all (fun o => inN.all (fun i => j.any (fun p => p.1 == (o, i))))

def prune (j : Jac) (inN outN : List Name) : Jac :=
  j.filter (fun p => outN.contains p.1.1 && inN.contains p.1.2)

/-- Names with respect to which / of which `linearize` differentiates. -/
def linIn (cfg : Cfg) (all : Bool) : List Name := if all then cfg.inNames else cfg.dIn
def linOut (cfg : Cfg) (all : Bool) : List Name := if all then cfg.outNames else cfg.dOut

/-- The Jacobian the body computes, pruned to the requested blocks unless all are requested. -/
def linJac (cfg : Cfg) (d : Disc) (all : Bool) (x : Vals) : Jac :=
  if all then d.jacf x else prune (d.jacf x) cfg.dIn cfg.dOut

/-- `if self.cache is not None and not (input_names and output_names)`. -/
def linEarly (cfg : Cfg) (all : Bool) : Bool :=
  cfg.kind != .none && ((linIn cfg all).isEmpty || (linOut cfg all).isEmpty)

/-- The Jacobian computation branch of `linearize`: body, pruning, `cache_jacobian`. -/
def linCompute (cfg : Cfg) (d : Disc) (st : State) (all : Bool)
    (xs : List (Arr × Option Nat)) (h : Nat) : State × Jac :=
  let x := xs.map (·.1)
  let j := linJac cfg d all x
  let st1 : State := { st with dJac := j, nJac := st.nJac + 1, jacLog := st.jacLog ++ [x] }
  (cacheStoreJac cfg st1 x h (inputCells cfg false st1.heap xs) j, j)

/-- `linearize` after the optional execution: return the valid Jacobian the discipline holds
    (from the cache hit, or from `_run`) if it has the requested blocks, else compute. -/
def linTail (cfg : Cfg) (d : Disc) (st1 : State) (all : Bool)
    (xs : List (Arr × Option Nat)) (h : Nat) : State × Jac :=
  if st1.hasJac && !st1.dJac.isEmpty && hasBlocks st1.dJac (linIn cfg all) (linOut cfg all) then
    (st1, st1.dJac)
  else linCompute cfg d st1 all xs h

/-- `Discipline.linearize`. -/
def linearize (cfg : Cfg) (d : Disc) (st : State) (all exe : Bool)
    (xs : List (Arr × Option Nat)) (h : Nat) : State × Jac :=
  let x := xs.map (·.1)
  if linEarly cfg all then
    ({ st with dJac := (cacheGet cfg st x h).2 }, (cacheGet cfg st x h).2)
  else
    linTail cfg d (if exe then (execute cfg d st xs h).1 else st) all xs h

def setHandle (hs : List (Nat × Nat)) (id a : Nat) : List (Nat × Nat) :=
  (id, a) :: hs.filter (fun p => p.1 != id)

def step (cfg : Cfg) (d : Disc) (st : State) : Op → State × Out
  | .new id v =>
    ({ st with heap := st.heap ++ [v], handles := setHandle st.handles id st.heap.length }, .ok)
  | .modify id v =>
    match lookupA st.handles id with
    | some a => if a < st.heap.length then ({ st with heap := st.heap.set a v }, .ok) else (st, .err "E:handle")
    | none => (st, .err "E:handle")
  | .keep id name =>
    match lookupN st.lastRet name with
    | some a => ({ st with handles := setHandle st.handles id a }, .ok)
    | none => (st, .err "E:name")
  | .exec args h =>
    match prepare cfg st args with
    | none => (st, .err "E:invalid")
    | some xs => ((execute cfg d st xs h).1, .data (execute cfg d st xs h).2)
  | .lin all exe args h =>
    match prepare cfg st args with
    | none => (st, .err "E:invalid")
    | some xs => ((linearize cfg d st all exe xs h).1, .jac (linearize cfg d st all exe xs h).2)
  | .reopen =>
    match cfg.kind with
    | .hdf5 => ({ st with full := st.full.reopen }, .ok)
    | _ => (st, .ok)
  | .clear => ({ st with simple := {}, full := {} }, .ok)

/-- The state reached from `st` by a history. -/
def reachFrom (cfg : Cfg) (d : Disc) (st : State) (ops : List Op) : State :=
  ops.foldl (fun s op => (step cfg d s op).1) st

def reach (cfg : Cfg) (d : Disc) (ops : List Op) : State := reachFrom cfg d {} ops

/-- The answers of a history. -/
def outputs (cfg : Cfg) (d : Disc) : State → List Op → List Out
  | _, [] => []
  | st, op :: ops => (step cfg d st op).2 :: outputs cfg d (step cfg d st op).1 ops

/-! ### Views printed by the driver (public API: `len(cache)`, `get_all_entries()`) -/

def cacheLen (cfg : Cfg) (st : State) : Option Nat :=
  match cfg.kind with
  | .none => none
  | .simple => some (if st.simple.inputs.isEmpty then 0 else 1)
  | _ => some st.full.entries.length

/-- `(inputs, outputs, jacobian)` of every entry with the values the arrays have now. -/
def allEntries (cfg : Cfg) (st : State) : List (Vals × Vals × Jac) :=
  match cfg.kind with
  | .none => []
  | .simple =>
    if st.simple.inputs.isEmpty then []
    else [(derefs st.heap st.simple.inputs, derefs st.heap st.simple.outputs, st.simple.jac)]
  | _ =>
    st.full.entries.map (fun e =>
      (derefs st.heap e.inputs, derefs st.heap (e.outputs.getD []), e.jac.getD []))

end GV.C05
