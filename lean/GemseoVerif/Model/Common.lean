/-
Shared, import-free helpers for the executable models and their line-protocol drivers:
exact rationals in `p/q` form, token parsing, canonical printing.
Nothing here is used to discharge a theorem; it is only the I/O glue of the
correspondence check (trusted base: "the Lean driver").
-/
namespace GV

/-- Parse a decimal integer with optional sign. -/
def parseInt? (s : String) : Option Int :=
  if s.startsWith "-" then
    match (s.drop 1).toNat? with
    | some n => some (-(n : Int))
    | none => none
  else
    match s.toNat? with
    | some n => some (n : Int)
    | none => none

/-- Parse `p/q` or `p` into a rational. `q = 0` is rejected. -/
def parseRat? (s : String) : Option Rat :=
  match s.splitOn "/" with
  | [p] => (parseInt? p).map (fun i => (i : Rat))
  | [p, q] =>
    match parseInt? p, q.toNat? with
    | some i, some d => if d = 0 then none else some ((i : Rat) / (d : Rat))
    | _, _ => none
  | _ => none

/-- Canonical printing: `p/q` in lowest terms, `p` when `q = 1`. -/
def showRat (r : Rat) : String :=
  if r.den = 1 then toString r.num else toString r.num ++ "/" ++ toString r.den

/-- An optional rational: `none` printed/parsed as `_`. -/
def parseORat? (s : String) : Option (Option Rat) :=
  if s = "_" then some none else (parseRat? s).map some

def showORat : Option Rat → String
  | none => "_"
  | some r => showRat r

/-- Comma-separated list of rationals; `-` or empty is the empty list... we use `[]` for empty. -/
def parseRatList? (s : String) : Option (List Rat) :=
  if s = "[]" then some [] else
  (s.splitOn ",").mapM parseRat?

def showRatList (l : List Rat) : String :=
  if l.isEmpty then "[]" else ",".intercalate (l.map showRat)

def parseNatList? (s : String) : Option (List Nat) :=
  if s = "[]" then some [] else
  (s.splitOn ",").mapM (fun t => t.toNat?)

def showNatList (l : List Nat) : String :=
  if l.isEmpty then "[]" else ",".intercalate (l.map toString)

def parseStrList (s : String) : List String :=
  if s = "[]" then [] else s.splitOn ","

def showStrList (l : List String) : String :=
  if l.isEmpty then "[]" else ",".intercalate l

/-- Split a protocol line into whitespace-separated tokens (single spaces). -/
def tokens (line : String) : List String :=
  (line.trimAscii.toString.splitOn " ").filter (fun t => t ≠ "")

/-- Generic driver loop: read lines from stdin, thread a state, print one answer per line. -/
partial def driverLoop {σ : Type} (step : σ → String → σ × String) (s : σ) : IO Unit := do
  let h ← IO.getStdin
  let out ← IO.getStdout
  let rec go (s : σ) : IO Unit := do
    let line ← h.getLine
    if line.isEmpty then return ()
    let (s', o) := step s line
    out.putStrLn o
    go s'
  go s
  out.flush

/-- Round half to even of a rational (Python/NumPy `round`/`rint`). -/
def roundHalfEven (r : Rat) : Int :=
  let f := r.floor
  let d := r - (f : Rat)
  if d < 1/2 then f
  else if 1/2 < d then f + 1
  else if f % 2 = 0 then f else f + 1

end GV
