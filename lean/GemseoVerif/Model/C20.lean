/-
C20 — executable model of the serialization protocol of GEMSEO objects.

Anchors (src/gemseo):
* `core/serializable.py`  `Serializable.__getstate__`, `__setstate__`,
  `_init_shared_memory_attrs_before/after`, `_ATTR_NOT_TO_SERIALIZE`
* `core/grammars/json_grammar.py`  `JSONGrammar.__getstate__/__setstate__`
* `caches/hdf5_cache.py`  `HDF5Cache.__getstate__/__setstate__`

An object is its `__dict__`: an association list `attr ↦ Val` in insertion order.  A value is
* `plain v`  — anything pickle copies by value (abstracted to a number),
* `sync c`   — a `multiprocessing.Value` (`Synchronized`): a *reference* to the shared-memory cell `c`
               of a heap (cells are indices, so that sharing/freshness can be stated),
* `path p`   — a `pathlib.Path`,
* `lock`     — a resource pickle refuses (locks, modules, handles).

A class is a `Spec`: the (effective) `_ATTR_NOT_TO_SERIALIZE`, what the two hooks assign, and what a
custom `__setstate__` assigns after `super().__setstate__(state)`.
`getstate`/`setstate` follow the code statement by statement.
-/
import GemseoVerif.Model.Common

namespace GV.C20

/-! ### Association lists with Python `dict` semantics -/

/-- `d.get(k)` -/
def get {α : Type} : List (String × α) → String → Option α
  | [], _ => none
  | (k, v) :: r, a => if k = a then some v else get r a

/-- `d[k] = v` (in place if present, else appended). -/
def set {α : Type} : List (String × α) → String → α → List (String × α)
  | [], a, v => [(a, v)]
  | (k, w) :: r, a, v => if k = a then (k, v) :: r else (k, w) :: set r a v

def keys {α : Type} (d : List (String × α)) : List String := d.map Prod.fst

/-! ### Values, objects, heaps, pickled states -/

inductive Val where
  | plain (v : Rat)
  | sync (cell : Nat)
  | path (p : String)
  | lock
  deriving DecidableEq, Repr

/-- A value inside the state dictionary handed to pickle. -/
inductive SVal where
  | num (v : Rat)
  | ppath (p : String)     -- `to_os_specific(path)`: a `PurePath`
  | unpicklable
  deriving DecidableEq, Repr

abbrev Obj := List (String × Val)
abbrev Heap := List Rat
abbrev PState := List (String × SVal)

/-- What a hook assigns. -/
inductive Init where
  | mkSync (v0 : Rat)      -- `self.a = Value("i", v0)`
  | mkPlain (v : Rat)
  | mkPath (p : String)
  | mkLock                 -- `self.lock = RLock()`
  deriving DecidableEq, Repr

structure Spec where
  excluded : List String                 -- `_ATTR_NOT_TO_SERIALIZE` as seen by `self`
  before : List (String × Init)          -- `_init_shared_memory_attrs_before`
  after : List (String × Init)           -- `_init_shared_memory_attrs_after`
  post : List (String × Init)            -- statements of a custom `__setstate__` after `super().__setstate__`
  deriving Repr

/-! ### `Serializable.__getstate__` -/

/-- `Synchronized` → its value, `Path` → `to_os_specific`, anything else unchanged. -/
def toS (h : Heap) : Val → SVal
  | .plain v => .num v
  | .sync c => .num (h.getD c 0)
  | .path p => .ppath p
  | .lock => .unpicklable

/-- `for name in self.__dict__.keys() - self._ATTR_NOT_TO_SERIALIZE: state[name] = ...` -/
def getstate (s : Spec) (o : Obj) (h : Heap) : PState :=
  (o.filter (fun kv => !s.excluded.contains kv.1)).map (fun kv => (kv.1, toS h kv.2))

/-- pickle accepts the state iff no value is an unpicklable resource. -/
def picklable (st : PState) : Bool := st.all (fun kv => kv.2 != SVal.unpicklable)

/-! ### `Serializable.__setstate__` -/

def runInit (oh : Obj × Heap) (ki : String × Init) : Obj × Heap :=
  match ki.2 with
  | .mkSync v => (set oh.1 ki.1 (.sync oh.2.length), oh.2 ++ [v])
  | .mkPlain v => (set oh.1 ki.1 (.plain v), oh.2)
  | .mkPath p => (set oh.1 ki.1 (.path p), oh.2)
  | .mkLock => (set oh.1 ki.1 .lock, oh.2)

def runHook (hook : List (String × Init)) (oh : Obj × Heap) : Obj × Heap := hook.foldl runInit oh

/-- `PurePath` → `Path`; other values as they are. -/
def fromS : SVal → Val
  | .num v => .plain v
  | .ppath p => .path p
  | .unpicklable => .lock

/-- One iteration of `for attribute_name, attribute_value in state.items()`. -/
def stepItem (oh : Obj × Heap) (kv : String × SVal) : Obj × Heap :=
  match get oh.1 kv.1 with
  | none => (set oh.1 kv.1 (fromS kv.2), oh.2)          -- `if attribute_name not in self.__dict__`
  | some (.sync c) =>                                    -- `elif isinstance(..., Synchronized)`
    match kv.2 with
    | .num v => (oh.1, oh.2.set c v)                     -- `self.__dict__[name].value = attribute_value`
    | _ => oh
  | some _ => oh                                         -- already (re)created by the hook: state value dropped

/-- `__setstate__` on the empty object pickle allocates; the heap is the process' shared memory. -/
def setstate (s : Spec) (st : PState) (h : Heap) : Obj × Heap :=
  runHook s.post (runHook s.after (st.foldl stepItem (runHook s.before ([], h))))

/-- pickle round trip in the same process (the original stays alive: its cells are `0 … h.length-1`). -/
def restore (s : Spec) (o : Obj) (h : Heap) : Obj × Heap := setstate s (getstate s o h) h

/-! ### Class table rows (regenerated from /repo by the translator, see `Gen/C20Table.lean`) -/

structure Row where
  name : String
  baseProtocol : Bool            -- `__getstate__/__setstate__` resolve to `Serializable`'s (possibly via `super()`)
  excluded : List String         -- effective `_ATTR_NOT_TO_SERIALIZE` (attribute lookup along the MRO)
  excludedMro : List String      -- union of the sets declared along the MRO
  before : List String           -- attributes assigned by the effective `_init_shared_memory_attrs_before`
  after : List String
  post : List String             -- attributes assigned by a custom `__setstate__`
  attrs : List String            -- every attribute assigned by some method along the MRO
  sync : List String             -- attributes assigned a `multiprocessing.Value`
  locks : List String            -- attributes assigned a `Lock()`/`RLock()`
  deriving Repr

/-- The proof obligation of one class. -/
def Row.ok (r : Row) : Bool :=
  r.baseProtocol
  && r.excluded.all (fun a => !r.attrs.contains a || r.before.contains a || r.after.contains a || r.post.contains a)
  && r.sync.all (fun a => r.before.contains a || r.after.contains a)
  && r.locks.all (fun a => r.excluded.contains a)
  && r.excludedMro.all (fun a => r.excluded.contains a)

def Row.initOf (r : Row) (v0 : String → Rat) (a : String) : Init :=
  if r.sync.contains a then .mkSync (v0 a) else if r.locks.contains a then .mkLock else .mkPlain (v0 a)

/-- The `Spec` of a table row; the values the hooks compute are arbitrary (`v0`). -/
def Row.toSpec (r : Row) (v0 : String → Rat) : Spec :=
  { excluded := r.excluded
    before := r.before.map (fun a => (a, r.initOf v0 a))
    after := r.after.map (fun a => (a, r.initOf v0 a))
    post := r.post.map (fun a => (a, r.initOf v0 a)) }

/-- Classes with their own `__getstate__`/`__setstate__` pair. -/
structure CustomRow where
  name : String
  dropped : List String          -- keys removed from the state by `__getstate__`
  recreated : List String        -- attributes assigned by `__setstate__` (transitively)
  deriving Repr

def CustomRow.ok (r : CustomRow) : Bool := r.dropped.all (fun a => r.recreated.contains a)

/-! ### Instance 1: `JSONGrammar.__getstate__/__setstate__` -/

structure Grammar where
  props : List (String × Nat)        -- schema builder: name ↦ (code of the) JSON type
  required : List String             -- `_required_names`
  defaults : List (String × Rat)     -- `_defaults` (bound to the grammar: keys must be names)
  toNs : List (String × String)      -- `to_namespaced`
  deriving DecidableEq, Repr

structure GState where
  schema : List (String × Nat)       -- `_JSONGrammar__schema` (filled by `self.schema`)
  required : List String
  rawDefaults : List (String × Rat)  -- `state["defaults"] = dict(state.pop("_defaults"))`
  toNs : List (String × String)
  deriving DecidableEq, Repr

def Grammar.getstate (g : Grammar) : GState :=
  { schema := g.props, required := g.required, rawDefaults := g.defaults, toNs := g.toNs }

/-- `Defaults.update`: `__setitem__` raises `KeyError` for a name that is not in the grammar. -/
def defaultsUpdate (props : List (String × Nat)) :
    List (String × Rat) → List (String × Rat) → Option (List (String × Rat))
  | d, [] => some d
  | d, (k, v) :: r => if (keys props).contains k then defaultsUpdate props (set d k v) r else none

/-- `clear(); __dict__.update(state); schema_builder.add_schema(schema); required.clear(); _defaults.update(raw)` -/
def Grammar.setstate (st : GState) : Option Grammar :=
  (defaultsUpdate st.schema [] st.rawDefaults).map
    (fun d => { props := st.schema, required := st.required, defaults := d, toNs := st.toNs })

/-! ### Instance 2: `HDF5Cache.__getstate__/__setstate__` -/

structure Entry where
  input : Rat
  output : Rat
  deriving DecidableEq, Repr

/-- The file system: path ↦ node ↦ stored entries. -/
abbrev Disk := List (String × List (String × List Entry))

structure HCache where
  tol : Rat
  path : String
  node : String
  name : String
  index : List Rat          -- in-memory index of the inputs read from the file (`_hashes_to_indices`)
  deriving DecidableEq, Repr

/-- The four `__init__` arguments: the state carries no entry. -/
structure HState where
  tol : Rat
  path : String
  node : String
  name : String
  deriving DecidableEq, Repr

def Disk.entries (d : Disk) (path node : String) : List Entry :=
  ((get d path).bind (fun f => get f node)).getD []

/-- `HDF5Cache.__init__`: attach to the file, read the hashes of the node. -/
def HCache.attach (d : Disk) (st : HState) : HCache :=
  { tol := st.tol, path := st.path, node := st.node, name := st.name,
    index := (d.entries st.path st.node).map Entry.input }

def HCache.getstate (c : HCache) : HState := { tol := c.tol, path := c.path, node := c.node, name := c.name }

/-- `__setstate__` = `__init__(**state)`. -/
def HCache.setstate (d : Disk) (st : HState) : HCache := HCache.attach d st

/-- What a cache sees: the entries of its file and node. -/
def HCache.read (d : Disk) (c : HCache) : List Entry := d.entries c.path c.node

/-- `cache_outputs`: append an entry to the node of the file (and index it). -/
def HCache.write (d : Disk) (c : HCache) (e : Entry) : Disk × HCache :=
  let f := (get d c.path).getD []
  let n := (get f c.node).getD []
  (set d c.path (set f c.node (n ++ [e])), { c with index := c.index ++ [e.input] })

end GV.C20
