/-
C20 — executable model of the serialization protocol of GEMSEO objects.

Anchors (src/gemseo):
* `core/serializable.py`  `Serializable.__getstate__`, `__setstate__`,
  `_init_shared_memory_attrs_before/after`, `_ATTR_NOT_TO_SERIALIZE`
* `core/grammars/json_grammar.py`  `JSONGrammar.__getstate__/__setstate__`
* `caches/hdf5_cache.py`  `HDF5Cache.__getstate__/__setstate__`

An object is its `__dict__`: an association list `attr ↦ Val` in insertion order.  A value is
* `plain v`  — anything pickle copies by value (abstracted to a number),
* `sync c`   — a `multiprocessing.Value` (`Synchronized`): a *reference* to the shared-memory cell `c`
               of a heap (cells are indices, so that sharing/freshness can be stated),
* `path p`   — a `pathlib.Path`,
* `lock`     — a resource pickle refuses (locks, modules, handles).

A class is a `Spec`: the (effective) `_ATTR_NOT_TO_SERIALIZE`, what the two hooks assign, and what a
custom `__setstate__` assigns after `super().__setstate__(state)`.
`getstate`/`setstate` follow the code statement by statement.
-/
import GemseoVerif.Model.Common

namespace GV.C20

/-! ### Association lists with Python `dict` semantics -/

/-- `d.get(k)` -/
def get {α : Type} : List (String × α) → String → Option α
  | [], _ => none
  | (k, v) :: r, a => if k = a then some v else get r a

/-- `d[k] = v` (in place if present, else appended). -/
def set {α : Type} : List (String × α) → String → α → List (String × α)
  | [], a, v => [(a, v)]
  | (k, w) :: r, a, v => if k = a then (k, v) :: r else (k, w) :: set r a v

def keys {α : Type} (d : List (String × α)) : List String := d.map Prod.fst

/-! ### Values, objects, heaps, pickled states -/

inductive Val where
  | plain (v : Rat)
  | sync (cell : Nat)
  | path (p : String)
  | lock
  deriving DecidableEq, Repr

/-- A value inside the state dictionary handed to pickle. -/
inductive SVal where
  | num (v : Rat)
  | ppath (p : String)     -- `to_os_specific(path)`: a `PurePath`
  | unpicklable
  deriving DecidableEq, Repr

abbrev Obj := List (String × Val)
abbrev Heap := List Rat
abbrev PState := List (String × SVal)

/-- What a hook assigns. -/
inductive Init where
  | mkSync (v0 : Rat)      -- `self.a = Value("i", v0)`
  | mkPlain (v : Rat)
  | mkPath (p : String)
  | mkLock                 -- `self.lock = RLock()`
  deriving DecidableEq, Repr

structure Spec where
  excluded : List String                 -- `_ATTR_NOT_TO_SERIALIZE` as seen by `self`
  before : List (String × Init)          -- `_init_shared_memory_attrs_before`
  after : List (String × Init)           -- `_init_shared_memory_attrs_after`
  post : List (String × Init)            -- statements of a custom `__setstate__` after `super().__setstate__`
  deriving Repr

/-! ### `Serializable.__getstate__` -/

/-- `Synchronized` → its value, `Path` → `to_os_specific`, anything else unchanged. -/
def toS (h : Heap) : Val → SVal
  | .plain v => .num v
  | .sync c => .num (h.getD c 0)
  | .path p => .ppath p
  | .lock => .unpicklable

/-- `for name in self.__dict__.keys() - self._ATTR_NOT_TO_SERIALIZE: state[name] = ...` -/
def getstate (s : Spec) (o : Obj) (h : Heap) : PState :=
  (o.filter (fun kv => !s.excluded.contains kv.1)).map (fun kv => (kv.1, toS h kv.2))

/-- pickle accepts the state iff no value is an unpicklable resource. -/
def picklable (st : PState) : Bool := st.all (fun kv => kv.2 != SVal.unpicklable)

/-! ### `Serializable.__setstate__` -/

def runInit (oh : Obj × Heap) (ki : String × Init) : Obj × Heap :=
  match ki.2 with
  | .mkSync v => (set oh.1 ki.1 (.sync oh.2.length), oh.2 ++ [v])
  | .mkPlain v => (set oh.1 ki.1 (.plain v), oh.2)
  | .mkPath p => (set oh.1 ki.1 (.path p), oh.2)
  | .mkLock => (set oh.1 ki.1 .lock, oh.2)

def runHook (hook : List (String × Init)) (oh : Obj × Heap) : Obj × Heap := hook.foldl runInit oh

/-- `PurePath` → `Path`; other values as they are. -/
def fromS : SVal → Val
  | .num v => .plain v
  | .ppath p => .path p
  | .unpicklable => .lock

/-- One iteration of `for attribute_name, attribute_value in state.items()`. -/
def stepItem (oh : Obj × Heap) (kv : String × SVal) : Obj × Heap :=
  match get oh.1 kv.1 with
  | none => (set oh.1 kv.1 (fromS kv.2), oh.2)          -- `if attribute_name not in self.__dict__`
  | some (.sync c) =>                                    -- `elif isinstance(..., Synchronized)`
    match kv.2 with
    | .num v => (oh.1, oh.2.set c v)                     -- `self.__dict__[name].value = attribute_value`
    | _ => oh
  | some _ => oh                                         -- already (re)created by the hook: state value dropped

/-- `__setstate__` on the empty object pickle allocates; the heap is the process' shared memory. -/
def setstate (s : Spec) (st : PState) (h : Heap) : Obj × Heap :=
  runHook s.post (runHook s.after (st.foldl stepItem (runHook s.before ([], h))))

/-- pickle round trip in the same process (the original stays alive: its cells are `0 … h.length-1`). -/
def restore (s : Spec) (o : Obj) (h : Heap) : Obj × Heap := setstate s (getstate s o h) h

/-! ### Class table rows (regenerated from /repo by the translator, see `Gen/C20Table.lean`) -/

structure Row where
  name : String
  baseProtocol : Bool            -- `__getstate__/__setstate__` resolve to `Serializable`'s (possibly via `super()`)
  excluded : List String         -- effective `_ATTR_NOT_TO_SERIALIZE` (attribute lookup along the MRO)
  excludedMro : List String      -- union of the sets declared along the MRO
  before : List String           -- attributes assigned by the effective `_init_shared_memory_attrs_before`
  after : List String
  post : List String             -- attributes assigned by a custom `__setstate__`
  attrs : List String            -- every attribute assigned by some method along the MRO
  sync : List String             -- attributes assigned a `multiprocessing.Value`
  locks : List String            -- attributes assigned a `Lock()`/`RLock()`
  deriving Repr

/-- The proof obligation of one class. -/
def Row.ok (r : Row) : Bool :=
  r.baseProtocol
  && r.excluded.all (fun a => !r.attrs.contains a || r.before.contains a || r.after.contains a || r.post.contains a)
  && r.sync.all (fun a => r.before.contains a || r.after.contains a)
  && r.locks.all (fun a => r.excluded.contains a)
  && r.excludedMro.all (fun a => r.excluded.contains a)

def Row.initOf (r : Row) (v0 : String → Rat) (a : String) : Init :=
  if r.sync.contains a then .mkSync (v0 a) else if r.locks.contains a then .mkLock else .mkPlain (v0 a)

/-- The `Spec` of a table row; the values the hooks compute are arbitrary (`v0`). -/
def Row.toSpec (r : Row) (v0 : String → Rat) : Spec :=
  { excluded := r.excluded
    before := r.before.map (fun a => (a, r.initOf v0 a))
    after := r.after.map (fun a => (a, r.initOf v0 a))
    post := r.post.map (fun a => (a, r.initOf v0 a)) }

/-- Classes with their own `__getstate__`/`__setstate__` pair. -/
structure CustomRow where
  name : String
  dropped : List String          -- keys removed from the state by `__getstate__`
  recreated : List String        -- attributes assigned by `__setstate__` (transitively)
  deriving Repr

def CustomRow.ok (r : CustomRow) : Bool := r.dropped.all (fun a => r.recreated.contains a)

/-! ### Instance 1: `JSONGrammar.__getstate__/__setstate__` -/

structure Grammar where
  props : List (String × Nat)        -- schema builder: name ↦ (code of the) JSON type
  required : List String             -- `_required_names`
  defaults : List (String × Rat)     -- `_defaults` (bound to the grammar: keys must be names)
  toNs : List (String × String)      -- `to_namespaced`
  deriving DecidableEq, Repr

structure GState where
  schema : List (String × Nat)       -- `_JSONGrammar__schema` (filled by `self.schema`)
  required : List String
  rawDefaults : List (String × Rat)  -- `state["defaults"] = dict(state.pop("_defaults"))`
  toNs : List (String × String)
  deriving DecidableEq, Repr

def Grammar.getstate (g : Grammar) : GState :=
  { schema := g.props, required := g.required, rawDefaults := g.defaults, toNs := g.toNs }

/-- `Defaults.update`: `__setitem__` raises `KeyError` for a name that is not in the grammar. -/
def defaultsUpdate (props : List (String × Nat)) :
    List (String × Rat) → List (String × Rat) → Option (List (String × Rat))
  | d, [] => some d
  | d, (k, v) :: r => if (keys props).contains k then defaultsUpdate props (set d k v) r else none

/-- `clear(); __dict__.update(state); schema_builder.add_schema(schema); required.clear(); _defaults.update(raw)` -/
def Grammar.setstate (st : GState) : Option Grammar :=
  (defaultsUpdate st.schema [] st.rawDefaults).map
    (fun d => { props := st.schema, required := st.required, defaults := d, toNs := st.toNs })

/-! ### Instance 2: `HDF5Cache.__getstate__/__setstate__` -/

structure Entry where
  input : Rat
  output : Rat
  deriving DecidableEq, Repr

/-- The file system: path ↦ node ↦ stored entries. -/
abbrev Disk := List (String × List (String × List Entry))

structure HCache where
  tol : Rat
  path : String
  node : String
  name : String
  index : List Rat          -- in-memory index of the inputs read from the file (`_hashes_to_indices`)
  deriving DecidableEq, Repr

/-- The four `__init__` arguments: the state carries no entry. -/
structure HState where
  tol : Rat
  path : String
  node : String
  name : String
  deriving DecidableEq, Repr

def Disk.entries (d : Disk) (path node : String) : List Entry :=
  ((get d path).bind (fun f => get f node)).getD []

/-- `HDF5Cache.__init__`: attach to the file, read the hashes of the node. -/
def HCache.attach (d : Disk) (st : HState) : HCache :=
  { tol := st.tol, path := st.path, node := st.node, name := st.name,
    index := (d.entries st.path st.node).map Entry.input }

def HCache.getstate (c : HCache) : HState := { tol := c.tol, path := c.path, node := c.node, name := c.name }

/-- `__setstate__` = `__init__(**state)`. -/
def HCache.setstate (d : Disk) (st : HState) : HCache := HCache.attach d st

/-- What a cache sees: the entries of its file and node. -/
def HCache.read (d : Disk) (c : HCache) : List Entry := d.entries c.path c.node

/-- `cache_outputs`: append an entry to the node of the file (and index it). -/
def HCache.write (d : Disk) (c : HCache) (e : Entry) : Disk × HCache :=
  let f := (get d c.path).getD []
  let n := (get f c.node).getD []
  (set d c.path (set f c.node (n ++ [e])), { c with index := c.index ++ [e.input] })

/-! ### Instance 1': the *life* of a `JSONGrammar` — pickled at any moment

`Grammar` above is the definition of a grammar at one instant.  The real object also holds what it built
lazily from an *earlier* definition: the schema dict `__schema` (built by the `schema` property, i.e. by
any `validate`, hence by any execution of a discipline) and the compiled `__validator`; and the schema
builder has a `required` set of its own.  Editing the elements resets the two lazily built objects
(`__init_dependencies`); editing the required names or the defaults does **not**.  `__getstate__`
pickles the cached schema dict, `__setstate__` rebuilds the elements from it.  The model keeps these
three members so that "state = function of the current grammar" is a theorem and not a modelling choice. -/

/-- `d.pop(k, None)` -/
def erase {α : Type} (d : List (String × α)) (a : String) : List (String × α) :=
  d.filter (fun kv => kv.1 != a)

/-- `RequiredNames.add` (a set: no duplicate). -/
def radd (l : List String) (n : String) : List String := if l.contains n then l else l ++ [n]

/-- `RequiredNames.discard` -/
def rdel (l : List String) (n : String) : List String := l.filter (fun m => m != n)

/-- The dict `__schema`: its `properties` and its `required` entry *as last written*. -/
structure GSchema where
  props : List (String × Nat)
  req : List String
  deriving DecidableEq, Repr

structure JG where
  g : Grammar                               -- builder properties, `_required_names`, `_defaults`, `to_namespaced`
  breq : List String                        -- the schema builder's own `required`
  cache : Option GSchema                    -- `__schema` (`none` = `{}`)
  valid : Option (List (String × Nat))      -- `__validator`: the properties it was compiled from (`none` = `None`)
  deriving DecidableEq, Repr

def JG.fresh : JG := ⟨⟨[], [], [], []⟩, [], none, none⟩

/-- `__init_dependencies` -/
def JG.reset (j : JG) : JG := { j with cache := none, valid := none }

/-- The `schema` property: `if not self.__schema: self.__schema = builder.to_schema()`, then
    `__set_required_names(self.__schema)` writes the *current* required names into the cached dict. -/
def JG.schemaProp (j : JG) : JG :=
  let c := j.cache.getD ⟨j.g.props, j.breq⟩
  { j with cache := some { c with req := j.g.required } }

/-- `builder.required.clear()` -/
def clearReq (_ : List String) : List String := []

/-- What pickle receives: `dict(self.__dict__)` minus validator and builder, defaults as a raw dict. -/
structure JState where
  schema : GSchema                   -- `_JSONGrammar__schema`
  required : List String             -- `_required_names`
  rawDefaults : List (String × Rat)
  toNs : List (String × String)
  deriving DecidableEq, Repr

/-- `__getstate__` (it calls `self.schema`: the original's cache is filled as a side effect). -/
def JG.getstate (j : JG) : JState × JG :=
  let j1 := j.schemaProp
  (⟨j1.cache.getD ⟨j1.g.props, j1.g.required⟩, j1.g.required, j1.g.defaults, j1.g.toNs⟩, j1)

/-- `__setstate__`: `clear()`; `__dict__.update(state)`; `builder.add_schema(state schema, True)` (the fresh
    builder takes the properties *and* the `required` entry of the schema); `builder.required.clear()`;
    `_defaults.update(raw)`. -/
def JG.setstate (st : JState) : Option JG :=
  (defaultsUpdate st.schema.props [] st.rawDefaults).map
    (fun d => ⟨⟨st.schema.props, st.required, d, st.toNs⟩, clearReq st.schema.req, some st.schema, none⟩)

/-- JSON type code `t` (index in array, number, integer, string, boolean, object, null, any) accepts a
    datum of kind `k` (same codes; `number` accepts an integer). -/
def accepts (t k : Nat) : Bool := t == 7 || t == k || (t == 1 && k == 2)

inductive GOp where
  | names (ns : List String)                 -- `update_from_names(ns)`
  | types (n : String) (t : Nat)             -- `update_from_types({n: t})`
  | reqAdd (n : String)                      -- `required_names.add(n)`
  | reqDiscard (n : String)                  -- `required_names.discard(n)` / `.remove(n)`
  | setDefault (n : String) (v : Rat)        -- `defaults[n] = v`
  | popDefault (n : String)                  -- `defaults.pop(n, None)`
  | del (n : String)                         -- `del grammar[n]`
  | rename (a b : String)                    -- `rename_element(a, b)`
  | restrict (ns : List String)              -- `restrict_to(ns)`
  | addNs (n ns : String)                    -- `add_namespace(n, ns)`
  | clear                                    -- `clear()`
  | schema                                   -- read the `schema` property
  | validate (data : List (String × Nat))    -- `validate(data)`; data: name ↦ kind of the value
  | pickle                                   -- go on with `pickle.loads(pickle.dumps(grammar))`
  deriving DecidableEq, Repr

inductive GOut where
  | ok
  | keyError
  | valueError
  | verdict (b : Bool)
  | schema (s : GSchema)
  deriving DecidableEq, Repr

def hasSep (n : String) : Bool := n.toList.contains ':'

/-- `rename_element` on the definition: `properties[b] = properties.pop(a)`; required: remove/add;
    `v = defaults.pop(a, None); if v is not None: defaults[b] = v`. -/
def renameG (g : Grammar) (a b : String) : Grammar :=
  { g with
    props := match get g.props a with
      | none => g.props
      | some t => set (erase g.props a) b t
    required := if g.required.contains a then radd (rdel g.required a) b else g.required
    defaults := match get g.defaults a with
      | none => g.defaults
      | some v => set (erase g.defaults a) b v }

/-- The compiled validator on one property: an absent name is fine, a present one must have the type. -/
def dataOk (data : List (String × Nat)) (p : String × Nat) : Bool :=
  match get data p.1 with
  | none => true
  | some k => accepts p.2 k

/-- `validate`: the required names are checked by `BaseGrammar.validate`, the types by the compiled
    validator, created on demand from (a copy of) the `schema` property. -/
def JG.validate (j : JG) (data : List (String × Nat)) : Bool × JG :=
  if j.g.required.any (fun r => !(keys data).contains r) then (false, j)
  else
    let j1 : JG := match j.valid with
      | some _ => j
      | none =>
        let j2 := j.schemaProp
        { j2 with valid := some ((j2.cache.map GSchema.props).getD j2.g.props) }
    ((j1.valid.getD j1.g.props).all (dataOk data), j1)

def JG.step (j : JG) : GOp → JG × GOut
  | .names ns =>
    if ns.isEmpty then (j, .ok) else
    let props := ns.foldl (fun p n => set p n 0) j.g.props
    (({ j with g := { j.g with props := props, required := ns.foldl radd j.g.required },
               breq := clearReq j.breq }).reset, .ok)
  | .types n t =>
    (({ j with g := { j.g with props := set j.g.props n t, required := radd j.g.required n } }).reset, .ok)
  | .reqAdd n =>
    if (keys j.g.props).contains n then ({ j with g := { j.g with required := radd j.g.required n } }, .ok)
    else (j, .keyError)
  | .reqDiscard n => ({ j with g := { j.g with required := rdel j.g.required n } }, .ok)
  | .setDefault n v =>
    if (keys j.g.props).contains n then ({ j with g := { j.g with defaults := set j.g.defaults n v } }, .ok)
    else (j, .keyError)
  | .popDefault n => ({ j with g := { j.g with defaults := erase j.g.defaults n } }, .ok)
  | .del n =>
    if (keys j.g.props).contains n then
      (({ j with g := { j.g with props := erase j.g.props n, required := rdel j.g.required n,
                                 defaults := erase j.g.defaults n } }).reset, .ok)
    else (j, .keyError)
  | .rename a b =>
    if (keys j.g.props).contains a then (({ j with g := renameG j.g a b }).reset, .ok) else (j, .keyError)
  | .restrict ns =>
    if ns.all (fun n => (keys j.g.props).contains n) then
      (({ j with g := { j.g with props := j.g.props.filter (fun kv => ns.contains kv.1),
                                 required := j.g.required.filter (fun n => ns.contains n),
                                 defaults := j.g.defaults.filter (fun kv => ns.contains kv.1) } }).reset, .ok)
    else (j, .keyError)
  | .addNs n ns =>
    if !(keys j.g.props).contains n then (j, .keyError)
    else if hasSep n then (j, .valueError)
    else
      let g1 := renameG j.g n (ns ++ ":" ++ n)
      (({ j with g := { g1 with toNs := set g1.toNs n (ns ++ ":" ++ n) } }).reset, .ok)
  | .clear => (JG.fresh, .ok)
  | .schema =>
    let j1 := j.schemaProp
    (j1, .schema (j1.cache.getD ⟨j1.g.props, j1.g.required⟩))
  | .validate data => let r := j.validate data; (r.2, .verdict r.1)
  | .pickle =>
    let s := j.getstate
    match JG.setstate s.1 with
    | some r => (r, .ok)
    | none => (s.2, .keyError)

/-- A life: the grammar after the operations, and what each of them returned. -/
def JG.run : JG → List GOp → JG × List GOut
  | j, [] => (j, [])
  | j, op :: ops =>
    let r := j.step op
    let rest := JG.run r.1 ops
    (rest.1, r.2 :: rest.2)

/-! ### Instance 2': the life of an `HDF5Cache` — settings changed after construction, look-ups -/

def rabs (r : Rat) : Rat := if r < 0 then -r else r

/-- `compare_dict_of_arrays(query, cached, tol)` for one number: `|cached - x| <= tol * (1 + |x|)`. -/
def within (tol x cached : Rat) : Bool := decide (rabs (cached - x) ≤ tol * (1 + rabs x))

/-- `cache[x]`: with a zero tolerance the hash of `x` is searched in the in-memory index; otherwise the
    indexed entries are scanned with the *current* tolerance; the data are read from the file. -/
def HCache.lookup (d : Disk) (c : HCache) (x : Rat) : Option Rat :=
  let hit : Option Rat := if c.tol = 0 then c.index.find? (fun i => i == x) else c.index.find? (fun i => within c.tol x i)
  hit.bind (fun i => ((c.read d).find? (fun e => e.input == i)).map Entry.output)

/-- A cache together with the arguments its `__init__` received (kept only to *state* that the pickled
    state is not made of them). -/
structure HLife where
  init : HState
  cache : HCache
  deriving DecidableEq, Repr

def HLife.create (d : Disk) (st : HState) : HLife := ⟨st, HCache.attach d st⟩

inductive HOp where
  | setTol (t : Rat)        -- `cache.tolerance = t` (`ValueError` when negative)
  | setName (n : String)    -- `cache.name = n`
  | write (e : Entry)       -- `cache.cache_outputs(...)`
  | lookup (x : Rat)        -- `cache[x]`
  deriving DecidableEq, Repr

inductive HOut where
  | ok
  | valueError
  | found (o : Option Rat)
  deriving DecidableEq, Repr

def HLife.step (dl : Disk × HLife) : HOp → (Disk × HLife) × HOut
  | .setTol t => if t < 0 then (dl, .valueError) else ((dl.1, { dl.2 with cache := { dl.2.cache with tol := t } }), .ok)
  | .setName n => ((dl.1, { dl.2 with cache := { dl.2.cache with name := n } }), .ok)
  | .write e => let r := dl.2.cache.write dl.1 e; ((r.1, { dl.2 with cache := r.2 }), .ok)
  | .lookup x => (dl, .found (dl.2.cache.lookup dl.1 x))

def HLife.run : Disk × HLife → List HOp → (Disk × HLife) × List HOut
  | dl, [] => (dl, [])
  | dl, op :: ops =>
    let r := HLife.step dl op
    let rest := HLife.run r.1 ops
    (rest.1, r.2 :: rest.2)

/-! ### Instance 3: `AnalyticDiscipline` restored by *another interpreter*

`disciplines/analytic.py`: `_sympy_funcs` and `_sympy_jac_funcs` (lambdified functions: not picklable) are in
`_ATTR_NOT_TO_SERIALIZE`; `__setstate__` re-creates them with `_init_expressions()`.  A lambdified function
takes its arguments *by position*; the positions are `list(expression.free_symbols)`, the iteration order of a
`set` of SymPy symbols, which depends on the string-hash seed of the interpreter; `_run` passes the input
values in the order of the pickled `output_names_to_symbols`.  Pickles are restored by other interpreters
(`spawn` workers of multiprocessing, a later session calling `from_pickle`): the model is parameterized by the
interpreter (`Env`), the writer's and the reader's are different.

Expressions are polynomials with rational coefficients (what the exact stream of the harness builds). -/

/-- `c * s₁ * … * sₖ` -/
abbrev Mono := Rat × List String
abbrev Poly := List Mono

def prodOf (ρ : String → Rat) : List String → Rat
  | [] => 1
  | s :: r => ρ s * prodOf ρ r

/-- The value of the expression under a valuation of its symbols. -/
def Poly.eval : Poly → (String → Rat) → Rat
  | [], _ => 0
  | m :: r, ρ => m.1 * prodOf ρ m.2 + Poly.eval r ρ

def dedup : List String → List String
  | [] => []
  | a :: r => if (dedup r).contains a then dedup r else a :: dedup r

/-- `expression.free_symbols` as a set (a canonical enumeration of it). -/
def Poly.symbols (p : Poly) : List String := dedup (p.flatMap Prod.snd)

def eraseOne (x : String) : List String → List String
  | [] => []
  | s :: r => if s = x then r else s :: eraseOne x r

/-- `expression.diff(x)` -/
def Poly.diff (p : Poly) (x : String) : Poly :=
  p.filterMap (fun m => if m.2.count x = 0 then none else some (m.1 * (m.2.count x : Nat), eraseOne x m.2))

/-- An interpreter, as far as this class can tell: the order in which iterating over a set of names yields
    its members (a function of the string-hash seed; any function in the theorems). -/
abbrev Env := List String → List String

/-- `lambdify(args, body)`: a function of positional arguments. -/
structure Lam where
  args : List String
  body : Poly
  deriving Repr

/-- Calling it: the i-th value is bound to the i-th argument. -/
def Lam.call (f : Lam) (vals : List Rat) : Rat := f.body.eval (fun n => (get (f.args.zip vals) n).getD 0)

structure AD where
  exprs : List (String × Poly)                       -- `expressions` / `_sympy_exprs`  (a dict: unique keys)
  syms : List (String × List String)                 -- `output_names_to_symbols`
  jacExprs : List (String × List (String × Poly))    -- `_sympy_jac_exprs`
  funcs : List (String × Lam)                        -- `_sympy_funcs`       (in `_ATTR_NOT_TO_SERIALIZE`)
  jacFuncs : List (String × List (String × Lam))     -- `_sympy_jac_funcs`   (in `_ATTR_NOT_TO_SERIALIZE`)
  deriving Repr

/-- `_lambdify_expressions`, run by interpreter `E`: the output functions take `list(expr.free_symbols)`, the
    derivative functions take the symbols in the order of `output_names_to_symbols`. -/
def AD.lambdify (E : Env) (a : AD) : AD :=
  { a with
    funcs := a.exprs.map (fun op => (op.1, ⟨E op.2.symbols, op.2⟩))
    jacFuncs := a.exprs.map (fun op =>
      (op.1, ((get a.syms op.1).getD []).map (fun n =>
        (n, ⟨(get a.syms op.1).getD [], (get ((get a.jacExprs op.1).getD []) n).getD []⟩)))) }

/-- `_init_expressions`, run by interpreter `E`: `output_names_to_symbols[o] = list({s.name: … for s in
    expr.free_symbols})`, the derivatives with respect to these symbols, then `_lambdify_expressions`. -/
def AD.initExpressions (E : Env) (a : AD) : AD :=
  AD.lambdify E { a with
    syms := a.exprs.map (fun op => (op.1, E op.2.symbols))
    jacExprs := a.exprs.map (fun op => (op.1, (E op.2.symbols).map (fun n => (n, op.2.diff n)))) }

/-- `AnalyticDiscipline(expressions)` in interpreter `E`. -/
def AD.create (E : Env) (exprs : List (String × Poly)) : AD := AD.initExpressions E ⟨exprs, [], [], [], []⟩

/-- The pickled state: everything but the two excluded members. -/
def AD.getstate (a : AD) : AD := { a with funcs := [], jacFuncs := [] }

/-- `__setstate__` in the reader's interpreter:
    `super().__setstate__(state); self._sympy_funcs = {}; self._sympy_jac_funcs = {}; self._init_expressions()`. -/
def AD.setstate (E : Env) (st : AD) : AD := AD.initExpressions E { st with funcs := [], jacFuncs := [] }

/-- NOT the code: the tempting shortcut "everything else is pickled, only re-lambdify" (kept to show what the
    theorem excludes, and for the self-test of the driver). -/
def AD.setstateRelambdify (E : Env) (st : AD) : AD := AD.lambdify E { st with funcs := [], jacFuncs := [] }

/-- `_run`: `func(*(input_data[s] for s in output_names_to_symbols[o]))` for every output. -/
def AD.run (a : AD) (ρ : String → Rat) : List (String × Rat) :=
  a.funcs.map (fun of => (of.1, of.2.call (((get a.syms of.1).getD []).map ρ)))

/-- `_compute_jacobian`: every derivative function on the same positional values. -/
def AD.jac (a : AD) (ρ : String → Rat) : List (String × List (String × Rat)) :=
  a.jacFuncs.map (fun ofs =>
    (ofs.1, ofs.2.map (fun nf => (nf.1, nf.2.call (((get a.syms ofs.1).getD []).map ρ)))))

/-- One Jacobian entry `jac[o][n]`. -/
def AD.jacEntry (a : AD) (ρ : String → Rat) (o n : String) : Option Rat :=
  (get (a.jac ρ) o).bind (fun r => get r n)

/-! ### The save/load helpers used more than once in a process (`utils/pickle.py`)

`to_pickle(obj, path)` = `Pickler(f, protocol=2).dump(obj)`: the file receives the state of the object *at that
moment*; `from_pickle(path)` = `Unpickler(f).load()`: `__setstate__` runs on a newly allocated object, in the
shared memory of the process as it is now.  The helpers keep nothing between two calls.  A process = the pickle
files, the shared memory, the live objects in the order they were created (the original, then what the loads
returned).  Between the calls the objects live: a plain attribute is assigned (a default value, a setting), a
counter advances (an execution). -/

/-- The pickle files: path ↦ state written last. -/
abbrev Files := List (String × PState)

structure Proc where
  files : Files
  heap : Heap
  objs : List Obj
  deriving Repr

inductive POp where
  | save (i : Nat) (p : String)                 -- `to_pickle(objs[i], p)`
  | load (p : String)                           -- `objs.append(from_pickle(p))`
  | assign (i : Nat) (a : String) (v : Rat)     -- `objs[i].a = v`
  | bump (i : Nat) (a : String)                 -- `objs[i].a.value += 1` (a `Value`) / `objs[i].a += 1` (a number)
  deriving Repr, DecidableEq

/-- `from_pickle` of a state in the process: the new object and the shared memory afterwards. -/
def fromPickle (s : Spec) (st : PState) (h : Heap) : Obj × Heap := setstate s st h

/-- `objs[i].a.value += 1` / `objs[i].a += 1`; anything else (no such attribute, a path, a lock): no effect. -/
def bumpObj (o : Obj) (h : Heap) (a : String) : Obj × Heap :=
  match get o a with
  | some (.sync c) => (o, h.set c (h.getD c 0 + 1))
  | some (.plain v) => (set o a (.plain (v + 1)), h)
  | _ => (o, h)

def Proc.step (s : Spec) (P : Proc) : POp → Proc
  | .save i p =>
    match P.objs[i]? with
    | none => P
    | some o =>
      let st := getstate s o P.heap
      if picklable st then { P with files := set P.files p st } else P    -- (pickle raises: nothing usable written)
  | .load p =>
    match get P.files p with
    | none => P                                                           -- `FileNotFoundError`
    | some st =>
      let r := fromPickle s st P.heap
      { P with heap := r.2, objs := P.objs ++ [r.1] }
  | .assign i a v =>
    match P.objs[i]? with
    | none => P
    | some o => { P with objs := P.objs.set i (set o a (.plain v)) }
  | .bump i a =>
    match P.objs[i]? with
    | none => P
    | some o =>
      let r := bumpObj o P.heap a
      { P with heap := r.2, objs := P.objs.set i r.1 }

def Proc.run (s : Spec) (P : Proc) (ops : List POp) : Proc := ops.foldl (Proc.step s) P

/-- What an object shows: every attribute with the shared-memory cells read (`Value.value`). -/
def observe (o : Obj) (h : Heap) : List (String × SVal) := o.map (fun kv => (kv.1, toS h kv.2))

/-- The shared-memory cells an object refers to. -/
def cellsOf (o : Obj) : List Nat := o.filterMap (fun kv => match kv.2 with | .sync c => some c | _ => none)

/-- NOT the code (kept for the non-vacuity examples): a `from_pickle` that remembers what it returned for a
    path and returns it again (index of the object in the process) while the file has not been written again. -/
structure MemoProc where
  proc : Proc
  memo : List (String × Nat)

def MemoProc.step (s : Spec) (M : MemoProc) : POp → MemoProc
  | .load p =>
    match get M.memo p with
    | some _ => M                                   -- the object loaded the first time is returned: nothing new
    | none =>
      let P' := M.proc.step s (.load p)
      if P'.objs.length = M.proc.objs.length then { M with proc := P' }
      else { proc := P', memo := set M.memo p M.proc.objs.length }
  | .save i p => { proc := M.proc.step s (.save i p), memo := M.memo.filter (fun kv => kv.1 != p) }
  | op => { M with proc := M.proc.step s op }

/-- The object a memoizing `from_pickle` returns for a path already loaded. -/
def MemoProc.loaded (M : MemoProc) (p : String) : Option Obj := (get M.memo p).bind (fun i => M.proc.objs[i]?)

end GV.C20
