/-
C17 — executable model of the MDO formulations' bookkeeping, on top of the C02 design-space model.

Code anchored:
* src/gemseo/formulations/base_formulation.py   `_get_dv_indices`, `get_x_mask_x_swap_order`,
  `mask_x_swap_order`, `unmask_x_swap_order`, `get_x_names_of_disc`, `_remove_unused_variables`,
  `_build_objective_from_disc` (linear branch)
* src/gemseo/formulations/mdf.py                 `_remove_couplings_from_ds`
* src/gemseo/formulations/idf.py                 `_update_design_space`, `_get_normalization_factor`,
  `_build_constraints`
* src/gemseo/formulations/disciplinary_opt.py    `_filter_design_space` (+ MDOChain input grammar)
* src/gemseo/core/mdo_functions/function_from_discipline.py  `_func_to_wrap`, `_jac_to_wrap`, `_input_mask`
* src/gemseo/core/mdo_functions/discipline_adapter.py        `__create_discipline_input_data`,
  `_convert_output_data_to_array`, `_convert_jacobian_to_array`
* src/gemseo/core/mdo_functions/consistency_constraint.py    `_func_to_wrap`, `_jac_to_wrap`
* src/gemseo/core/coupling_structure.py          `all_couplings`, `get_output_couplings`
* src/gemseo/core/mdo_functions/taylor_polynomials.py        `compute_linear_approximation`

Discipline bodies are data here (affine + component-wise quadratic maps, the family the harness
disciplines implement exactly in floating point); in the theorems of Props/C17 the bookkeeping
statements hold for arbitrary discipline bodies.  Numbers are exact rationals.  The multidisciplinary
analysis is *not* computed by the model: the MDF views take the solution `y*` and the sensitivities
`dy*/dx` as certificates that the model checks exactly.
-/
import GemseoVerif.Model.Common
import GemseoVerif.Model.C02

namespace GV.C17
open GV.C02

abbrev Vec := List Rat
abbrev Mat := List (List Rat)
/-- `formulation.variable_sizes`: names and sizes. -/
abbrev Sizes := List (String × Nat)
/-- Named data (discipline input/output data, a named design point). -/
abbrev Data := List (String × Vec)

def sizeOf (s : Sizes) (n : String) : Nat :=
  match s.find? (fun p => p.1 == n) with
  | some p => p.2
  | none => 0

def Data.get (d : Data) (n : String) : Vec :=
  match d.find? (fun p => p.1 == n) with
  | some p => p.2
  | none => []

def Data.has (d : Data) (n : String) : Bool := d.any (fun p => p.1 == n)

/-! ### Index arithmetic of `BaseFormulation` -/

/-- `_get_dv_indices(names)`: `(name, start, stop)`, prefix sums of the sizes in the order of `names`. -/
def dvIndices (sizes : Sizes) : List String → Nat → List (String × Nat × Nat)
  | [], _ => []
  | n :: ns, off => (n, off, off + sizeOf sizes n) :: dvIndices sizes ns (off + sizeOf sizes n)

def lookupRange (idx : List (String × Nat × Nat)) (n : String) : Option (Nat × Nat) :=
  match idx.find? (fun p => p.1 == n) with
  | some p => some p.2
  | none => none

def totalSize (sizes : Sizes) (names : List String) : Nat := (names.map (sizeOf sizes)).sum

/-- The loop of `get_x_mask_x_swap_order` over the masking names (`none`: `KeyError`). -/
def getMaskGo (idx : List (String × Nat × Nat)) : List String → Option (List Nat)
  | [] => some []
  | k :: ks =>
    match lookupRange idx k, getMaskGo idx ks with
    | some r, some m => some (List.range' r.1 (r.2 - r.1) ++ m)
    | _, _ => none

/-- `get_x_mask_x_swap_order(masking_data_names, all_data_names)`: the indices, in the order of the
    masking names, of the components of the masking variables in a vector laid out along
    `all_data_names`.  `none`: `ValueError` (a masking name is not a reference name). -/
def getMask (sizes : Sizes) (masking all : List String) : Option (List Nat) :=
  getMaskGo (dvIndices sizes all 0) masking

/-- NumPy fancy indexing `x[mask]` (`none`: IndexError). -/
def takeIdx (x : Vec) : List Nat → Option Vec
  | [] => some []
  | i :: is =>
    match x[i]?, takeIdx x is with
    | some a, some r => some (a :: r)
    | _, _ => none

/-- `mask_x_swap_order`. -/
def maskX (sizes : Sizes) (masking all : List String) (x : Vec) : Option Vec :=
  match getMask sizes masking all with
  | some m => takeIdx x m
  | none => none

/-- The loop of `unmask_x_swap_order` over the reference names: a masking name receives the next
    chunk of the masked vector, any other name keeps the chunk of the default vector. -/
def unmaskGo (sizes : Sizes) (masking : List String) : List String → Vec → Vec → Option Vec
  | [], _, _ => some []
  | k :: ks, xm, full =>
    let n := sizeOf sizes k
    if masking.contains k then
      if xm.length < n then none
      else (unmaskGo sizes masking ks (xm.drop n) (full.drop n)).map (fun r => xm.take n ++ r)
    else (unmaskGo sizes masking ks xm (full.drop n)).map (fun r => full.take n ++ r)

/-- `unmask_x_swap_order(masking, x_masked, all, x_full)` on one vector (`x_full = None`: zeros). -/
def unmask (sizes : Sizes) (masking all : List String) (xm : Vec) (full : Option Vec) : Option Vec :=
  unmaskGo sizes masking all xm (full.getD (List.replicate (totalSize sizes all) 0))

/-- `mapM` in the `Option` monad, by explicit recursion. -/
def mapOpt {α β : Type} (f : α → Option β) : List α → Option (List β)
  | [] => some []
  | a :: l =>
    match f a, mapOpt f l with
    | some b, some r => some (b :: r)
    | _, _ => none

/-- The same on the last axis of a matrix (`x_unmask[..., i_min:i_max] = x_masked[..., ...]`). -/
def unmaskRows (sizes : Sizes) (masking all : List String) (m : Mat) (full : Option Mat) : Option Mat :=
  match full with
  | none => mapOpt (fun row => unmask sizes masking all row none) m
  | some f => mapOpt (fun p => unmask sizes masking all p.1 (some p.2)) (m.zip f)

/-- The slice of variable `n` in a vector laid out along `names`. -/
def slice (sizes : Sizes) (names : List String) (x : Vec) (n : String) : Vec :=
  match lookupRange (dvIndices sizes names 0) n with
  | some r => (x.drop r.1).take (r.2 - r.1)
  | none => []

/-! ### Disciplines (affine + component-wise quadratic bodies) -/

structure OutSpec where
  name : String
  const : Vec
  lin : List (String × Mat)
  quad : List (String × Mat)
  deriving Repr

structure Disc where
  name : String
  ins : Sizes
  defaults : Data
  outs : List OutSpec
  /-- outputs declared linear with respect to all the inputs (`io.set_linear_relationships`) -/
  linOuts : List String
  deriving Repr

def dot (a b : Vec) : Rat := (List.zipWith (fun p q => p * q) a b).sum
def matVec (m : Mat) (v : Vec) : Vec := m.map (fun row => dot row v)
def vadd (a b : Vec) : Vec := List.zipWith (fun p q => p + q) a b
def vsub (a b : Vec) : Vec := List.zipWith (fun p q => p - q) a b
def madd (a b : Mat) : Mat := List.zipWith vadd a b
def msub (a b : Mat) : Mat := List.zipWith vsub a b
def zeroMat (r c : Nat) : Mat := List.replicate r (List.replicate c 0)
def matMul (a b : Mat) (cols : Nat) : Mat :=
  a.map (fun row => (List.range cols).map (fun j => dot row (b.map (fun br => br.getD j 0))))

def Disc.hasInput (d : Disc) (n : String) : Bool := d.ins.any (fun p => p.1 == n)
def Disc.hasOutput (d : Disc) (o : String) : Bool := d.outs.any (fun s => s.name == o)
def Disc.out? (d : Disc) (o : String) : Option OutSpec := d.outs.find? (fun s => s.name == o)

/-- The data a discipline is executed with: the given values, the defaults for the other inputs. -/
def Disc.inputData (d : Disc) (given : Data) : Data :=
  d.ins.map (fun p =>
    (p.1, if given.has p.1 then given.get p.1
          else if d.defaults.has p.1 then d.defaults.get p.1 else List.replicate p.2 0))

def OutSpec.eval (o : OutSpec) (data : Data) : Vec :=
  let v1 := o.lin.foldl (fun acc p => vadd acc (matVec p.2 (data.get p.1))) o.const
  o.quad.foldl (fun acc p => vadd acc (matVec p.2 ((data.get p.1).map (fun t => t * t)))) v1

/-- `d o / d i` at the data (`n` columns; the zero block when `o` does not depend on `i`). -/
def OutSpec.jacBlock (o : OutSpec) (data : Data) (i : String) (n : Nat) : Mat :=
  let z := zeroMat o.const.length n
  let a := match o.lin.find? (fun p => p.1 == i) with
    | some p => madd z p.2
    | none => z
  match o.quad.find? (fun p => p.1 == i) with
  | some p => madd a (p.2.map (fun row => List.zipWith (fun q t => 2 * q * t) row (data.get i)))
  | none => a

/-! ### Coupling structure and design-space composition -/

structure Sys where
  ds : DS
  discs : List Disc
  deriving Repr

def insertSorted (s : String) : List String → List String
  | [] => [s]
  | t :: ts => if s < t then s :: t :: ts else if s == t then t :: ts else t :: insertSorted s ts

/-- Python `sorted(set(l))`. -/
def sortedSet (l : List String) : List String := l.foldr insertSorted []

def Sys.allInputs (s : Sys) : List String := s.discs.flatMap (fun d => d.ins.map (fun p => p.1))
def Sys.allOutputs (s : Sys) : List String := s.discs.flatMap (fun d => d.outs.map (fun o => o.name))

/-- `CouplingStructure.all_couplings`: the inputs of disciplines that are outputs of disciplines. -/
def Sys.allCouplings (s : Sys) : List String :=
  sortedSet (s.allInputs.filter (fun n => s.allOutputs.contains n))

/-- `get_output_couplings(discipline, strong=False)`. -/
def Sys.outputCouplings (s : Sys) (d : Disc) : List String :=
  sortedSet ((d.outs.map (fun o => o.name)).filter (fun n => s.allCouplings.contains n))

def Sys.producer? (s : Sys) (o : String) : Option Disc := s.discs.find? (fun d => d.hasOutput o)

/-- `formulation.variable_sizes` (copied from the user's design space at construction). -/
def Sys.sizes (s : Sys) : Sizes := s.ds.vars.map (fun v => (v.name, v.size))

def removeAll (d : DS) (names : List String) : DS :=
  names.foldl (fun acc n => (acc.removeVariable n).getD acc) d

/-- MDF: `_remove_couplings_from_ds` then `_remove_unused_variables` (inputs of the MDA). -/
def Sys.mdfDS (s : Sys) : DS :=
  let d1 := removeAll s.ds s.allCouplings
  removeAll d1 (d1.names.filter (fun n => !s.allInputs.contains n))

/-- IDF: `_update_design_space` requires every coupling in the design space; nothing is removed. -/
def Sys.idfDS (s : Sys) : Option DS :=
  if s.allCouplings.all (fun c => s.ds.contains c) then some s.ds else none

/-- Input grammar of `MDOChain(disciplines)`: the inputs that no earlier discipline computes. -/
def chainInputs : List Disc → List String → List String
  | [], _ => []
  | d :: ds, produced =>
    (d.ins.map (fun p => p.1)).filter (fun n => !produced.contains n)
      ++ chainInputs ds (produced ++ d.outs.map (fun o => o.name))

/-- Inputs of DisciplinaryOpt's top-level discipline: the discipline itself, or `MDOChain(disciplines)`. -/
def Sys.topInputs (s : Sys) : List String :=
  match s.discs with
  | [d] => d.ins.map (fun p => p.1)
  | ds => chainInputs ds []

/-- DisciplinaryOpt: `_filter_design_space` keeps the inputs of the top-level discipline. -/
def Sys.doptDS (s : Sys) : DS :=
  (s.ds.filter (s.ds.names.filter (fun n => s.topInputs.contains n))).getD s.ds

/-! ### `FunctionFromDiscipline` on a single discipline (IDF, DisciplinaryOpt with one discipline) -/

/-- `get_x_names_of_disc`: the optimisation variables that are inputs of the discipline. -/
def xNamesOfDisc (names : List String) (d : Disc) : List String := names.filter d.hasInput

/-- `__create_discipline_input_data`: the adapter's input vector cut along its input names. -/
def adapterInputData (sizes : Sizes) (inputNames : List String) (xm : Vec) : Data :=
  (dvIndices sizes inputNames 0).map (fun p => (p.1, (xm.drop p.2.1).take (p.2.2 - p.2.1)))

/-- Row `r` of the horizontal concatenation of blocks. -/
def hcat (blocks : List Mat) (rows : Nat) : Mat :=
  (List.range rows).map (fun r => blocks.flatMap (fun b => b.getD r []))

/-- Value of a `FunctionFromDiscipline` for an arbitrary discipline body: `hasInput` is the input
    grammar, `run given o` the value of output `o` when the discipline is executed with the given
    input data (defaults for the rest).  Mask with the discipline's design variables
    (`_input_mask`), cut the masked vector along the adapter's input names, execute, concatenate the
    outputs in the order of the output names. -/
def gEval (sizes : Sizes) (names : List String) (hasInput : String → Bool)
    (run : Data → String → Vec) (outs : List String) (x : Vec) : Option Vec :=
  let inputNames := names.filter hasInput
  match maskX sizes inputNames names x with
  | none => none
  | some xm => some (outs.flatMap (run (adapterInputData sizes inputNames xm)))

/-- `_convert_jacobian_to_array`: output blocks stacked, input blocks side by side (input-name order). -/
def gAdapterJac (inputNames : List String) (jac : String → String → Mat) (rowsOf : String → Nat)
    (outs : List String) : Mat :=
  outs.flatMap (fun o => hcat (inputNames.map (fun i => jac o i)) (rowsOf o))

/-- Jacobian of a `FunctionFromDiscipline`: the adapter's Jacobian unmasked along `names`
    (`jac given o i` = `d o / d i` at the given input data, `rowsOf o` = size of output `o`). -/
def gJac (sizes : Sizes) (names : List String) (hasInput : String → Bool)
    (jac : Data → String → String → Mat) (rowsOf : String → Nat) (outs : List String) (x : Vec) :
    Option Mat :=
  let inputNames := names.filter hasInput
  match maskX sizes inputNames names x with
  | none => none
  | some xm =>
    unmaskRows sizes inputNames names
      (gAdapterJac inputNames (jac (adapterInputData sizes inputNames xm)) rowsOf outs) none

/-- The body of a harness discipline. -/
def Disc.run (d : Disc) (given : Data) (o : String) : Vec :=
  match d.out? o with
  | some sp => sp.eval (d.inputData given)
  | none => []

def Disc.jac (sizes : Sizes) (d : Disc) (given : Data) (o i : String) : Mat :=
  match d.out? o with
  | some sp => sp.jacBlock (d.inputData given) i (sizeOf sizes i)
  | none => []

def Disc.rowsOf (d : Disc) (o : String) : Nat :=
  match d.out? o with
  | some sp => sp.const.length
  | none => 0

/-- Value of `FunctionFromDiscipline(outs)` at the design vector `x` (laid out along `names`). -/
def ffdEval (sizes : Sizes) (names : List String) (d : Disc) (outs : List String) (x : Vec) : Option Vec :=
  gEval sizes names d.hasInput d.run outs x

/-- Jacobian of `FunctionFromDiscipline(outs)`: the adapter's Jacobian unmasked along `names`. -/
def ffdJac (sizes : Sizes) (names : List String) (d : Disc) (outs : List String) (x : Vec) : Option Mat :=
  gJac sizes names d.hasInput (d.jac sizes) d.rowsOf outs x

/-- `have_linear_relationships(input_names, output_names)`. -/
def Disc.isLinear (d : Disc) (outs : List String) : Bool :=
  !d.linOuts.isEmpty && outs.all (fun o => d.linOuts.contains o)

/-- `compute_linear_approximation(f, x0)` evaluated at `x`: `f(x0) - J(x0) x0 + J(x0) x`. -/
def linApprox (f0 : Vec) (j0 : Mat) (x0 x : Vec) : Vec := vadd (vsub f0 (matVec j0 x0)) (matVec j0 x)

/-- The function the formulation exposes for discipline outputs: the linear branch replaces it by
    its first-order Taylor polynomial at the zero vector of the design space. -/
def funEval (sizes : Sizes) (names : List String) (d : Disc) (outs : List String) (x : Vec) : Option Vec :=
  if d.isLinear outs then
    let z := List.replicate (totalSize sizes names) (0 : Rat)
    match ffdEval sizes names d outs z, ffdJac sizes names d outs z with
    | some f0, some j0 => some (linApprox f0 j0 z x)
    | _, _ => none
  else ffdEval sizes names d outs x

def funJac (sizes : Sizes) (names : List String) (d : Disc) (outs : List String) (x : Vec) : Option Mat :=
  if d.isLinear outs then ffdJac sizes names d outs (List.replicate (totalSize sizes names) 0)
  else ffdJac sizes names d outs x

/-! ### IDF consistency constraints -/

def absRat (r : Rat) : Rat := if r < 0 then -r else r

/-- `_get_normalization_factor`: `|ub - lb|` of the couplings, concatenated. -/
def normFactor (ds : DS) (couplings : List String) : Vec :=
  couplings.flatMap (fun c =>
    match ds.find? c with
    | some v => (v.lb.zip v.ub).map (fun p => absRat (scaleOf p.1 p.2))
    | none => [])

def divRows (m : Mat) (f : Vec) : Mat := List.zipWith (fun row s => row.map (fun a => a / s)) m f

/-- The `-Id` part of the consistency Jacobian: for each output coupling (rows), the identity at the
    columns of that coupling (2-D branch), or the unmasked vector of ones (1-D branch). -/
def targetJac (sizes : Sizes) (names couplings : List String) (nOuts : Nat) : Option Mat :=
  if nOuts > 1 then
    some (couplings.flatMap (fun out =>
      (List.range (sizeOf sizes out)).map (fun r =>
        names.flatMap (fun xi =>
          (List.range (sizeOf sizes xi)).map (fun c => if xi == out && r == c then (1 : Rat) else 0)))))
  else
    (unmask sizes couplings names (List.replicate (totalSize sizes names) 1) none).map (fun r => [r])

/-- `ConsistencyConstraint._func_to_wrap`. -/
def consEvalRaw (s : Sys) (normalize : Bool) (d : Disc) (x : Vec) : Option Vec :=
  let sizes := s.sizes
  let names := s.ds.names
  let oc := s.outputCouplings d
  match maskX sizes oc names x, ffdEval sizes names d oc x with
  | some xsw, some coupl =>
    let diff := vsub coupl xsw
    some (if normalize then List.zipWith (fun a f => a / f) diff (normFactor s.ds oc) else diff)
  | _, _ => none

/-- `ConsistencyConstraint._jac_to_wrap`. -/
def consJacRaw (s : Sys) (normalize : Bool) (d : Disc) (x : Vec) : Option Mat :=
  let sizes := s.sizes
  let names := s.ds.names
  let oc := s.outputCouplings d
  match ffdJac sizes names d oc x with
  | none => none
  | some cj =>
    match targetJac sizes names oc cj.length with
    | none => none
    | some xj =>
      let diff := msub cj xj
      some (if normalize then divRows diff (normFactor s.ds oc) else diff)

def consEval (s : Sys) (normalize : Bool) (d : Disc) (x : Vec) : Option Vec :=
  if d.isLinear (s.outputCouplings d) then
    let z := List.replicate s.ds.dimension (0 : Rat)
    match consEvalRaw s normalize d z, consJacRaw s normalize d z with
    | some f0, some j0 => some (linApprox f0 j0 z x)
    | _, _ => none
  else consEvalRaw s normalize d x

def consJac (s : Sys) (normalize : Bool) (d : Disc) (x : Vec) : Option Mat :=
  if d.isLinear (s.outputCouplings d) then consJacRaw s normalize d (List.replicate s.ds.dimension 0)
  else consJacRaw s normalize d x

/-! ### MDF / DisciplinaryOpt: views of the multidisciplinary solution (certificates checked) -/

/-- Cut a design vector along `names`. -/
def namedPoint (sizes : Sizes) (names : List String) (x : Vec) : Data :=
  (dvIndices sizes names 0).map (fun p => (p.1, (x.drop p.2.1).take (p.2.2 - p.2.1)))

/-- All sizes known to the system: design variables, then discipline inputs and outputs. -/
def Sys.allSizes (s : Sys) : Sizes :=
  s.sizes ++ s.discs.flatMap (fun d => d.ins ++ d.outs.map (fun o => (o.name, o.const.length)))

/-- `y` solves the coupled system at the point: every coupling equals its producer's output. -/
def Sys.consistent (s : Sys) (point : Data) : Bool :=
  s.allCouplings.all (fun k =>
    match s.producer? k with
    | some d => (match d.out? k with
        | some sp => sp.eval (d.inputData point) == point.get k
        | none => false)
    | none => false)

/-- The sensitivity certificate `W[k,n] = dY_k/dn + sum_l dY_k/dl W[l,n]` for every coupling `k`
    and design variable `n` (i.e. `(I - C) W = A`). -/
def Sys.certificateOk (s : Sys) (names : List String) (point : Data) (w : String → String → Mat) : Bool :=
  let sz := s.allSizes
  s.allCouplings.all (fun k =>
    match s.producer? k with
    | none => false
    | some d =>
      match d.out? k with
      | none => false
      | some sp =>
        let data := d.inputData point
        names.all (fun n =>
          let direct := if d.hasInput n then sp.jacBlock data n (sizeOf sz n)
                        else zeroMat sp.const.length (sizeOf sz n)
          let through := (s.allCouplings.filter (fun l => d.hasInput l)).foldl
            (fun acc l => madd acc (matMul (sp.jacBlock data l (sizeOf sz l)) (w l n) (sizeOf sz n))) direct
          w k n == through))

/-- Value of discipline outputs at the multidisciplinary solution. -/
def mdaEval (s : Sys) (outs : List String) (point : Data) : Vec :=
  outs.flatMap (fun o =>
    match s.producer? o with
    | some d => (match d.out? o with | some sp => sp.eval (d.inputData point) | none => [])
    | none => [])

/-- Total derivative blocks `dF/dn = F_n + sum_k F_k W[k,n]`, laid out along `names` through the same
    adapter/unmask bookkeeping (the MDA reads every optimisation variable). -/
def mdaJacRows (s : Sys) (names : List String) (outs : List String) (point : Data) (w : String → String → Mat) : Mat :=
  let sz := s.allSizes
  outs.flatMap (fun o =>
    match s.producer? o with
    | none => []
    | some d =>
      match d.out? o with
      | none => []
      | some sp =>
        let data := d.inputData point
        hcat (names.map (fun n =>
          let direct := if d.hasInput n then sp.jacBlock data n (sizeOf sz n)
                        else zeroMat sp.const.length (sizeOf sz n)
          (s.allCouplings.filter (fun l => d.hasInput l)).foldl
            (fun acc l => madd acc (matMul (sp.jacBlock data l (sizeOf sz l)) (w l n) (sizeOf sz n))) direct))
          sp.const.length)

/-- The Jacobian an MDF function returns: the adapter's array (`mdaJacRows`, all the optimisation variables are
    inputs of the MDA) unmasked along `names` — a fresh array even though nothing is masked. -/
def mdaJac (s : Sys) (names : List String) (outs : List String) (point : Data) (w : String → String → Mat) : Option Mat :=
  unmaskRows s.sizes names names (mdaJacRows s names outs point w) none

/-- The MDF (or DisciplinaryOpt) view: `none` when a certificate is wrong. -/
def mdfView (s : Sys) (names : List String) (outs : List String) (x : Vec) (ystar : Data)
    (w : String → String → Mat) : Option (Vec × Mat) :=
  let point := namedPoint s.sizes names x ++ ystar
  if !s.consistent point then none
  else if !s.certificateOk names point w then none
  else match mdaJac s names outs point w with
    | some j => some (mdaEval s outs point, j)
    | none => none

/-! ### Parallel IDF (`n_processes > 1`): the top-level discipline is the `MDOParallelChain`

`IDF.get_top_level_disciplines` returns the single `MDOParallelChain(disciplines)`; every function and
consistency constraint is then a `FunctionFromDiscipline` over the chain: its input grammar is the union
of the input grammars, every discipline is executed with the chain's input data (its own defaults for
the rest), the outputs are merged, and the Jacobian of an output has the producer's blocks for the
producer's inputs and zero blocks for the other inputs of the chain.  The chain declares no linear
relationship, so the linear (Taylor) branch is never taken in this mode. -/

def Sys.parHasInput (s : Sys) (n : String) : Bool := s.discs.any (fun d => d.hasInput n)

def Sys.parRun (s : Sys) (given : Data) (o : String) : Vec :=
  match s.producer? o with
  | some d => d.run given o
  | none => []

def Sys.parRowsOf (s : Sys) (o : String) : Nat :=
  match s.producer? o with
  | some d => d.rowsOf o
  | none => 0

def Sys.parJac (s : Sys) (sizes : Sizes) (given : Data) (o i : String) : Mat :=
  match s.producer? o with
  | some d => if d.hasInput i then d.jac sizes given o i else zeroMat (d.rowsOf o) (sizeOf sizes i)
  | none => []

/-- Value of `FunctionFromDiscipline(outs)` over the parallel chain. -/
def parEval (s : Sys) (sizes : Sizes) (names : List String) (outs : List String) (x : Vec) : Option Vec :=
  gEval sizes names s.parHasInput s.parRun outs x

/-- Jacobian of `FunctionFromDiscipline(outs)` over the parallel chain. -/
def parJacF (s : Sys) (sizes : Sizes) (names : List String) (outs : List String) (x : Vec) : Option Mat :=
  gJac sizes names s.parHasInput (s.parJac sizes) s.parRowsOf outs x

/-- `ConsistencyConstraint._func_to_wrap` / `_jac_to_wrap` when the coupling function is built over the chain. -/
def consEvalPar (s : Sys) (normalize : Bool) (d : Disc) (x : Vec) : Option Vec :=
  let sizes := s.sizes
  let names := s.ds.names
  let oc := s.outputCouplings d
  match maskX sizes oc names x, parEval s sizes names oc x with
  | some xsw, some coupl =>
    let diff := vsub coupl xsw
    some (if normalize then List.zipWith (fun a f => a / f) diff (normFactor s.ds oc) else diff)
  | _, _ => none

def consJacPar (s : Sys) (normalize : Bool) (d : Disc) (x : Vec) : Option Mat :=
  let sizes := s.sizes
  let names := s.ds.names
  let oc := s.outputCouplings d
  match parJacF s sizes names oc x with
  | none => none
  | some cj =>
    match targetJac sizes names oc cj.length with
    | none => none
    | some xj =>
      let diff := msub cj xj
      some (if normalize then divRows diff (normFactor s.ds oc) else diff)

/-! ### `start_at_equilibrium`

`IDF._compute_equilibrium` executes an `MDAChain` of the disciplines **with the current value of every
design-space variable** (`design_space.get_current_value(as_dict=True)`), whatever `n_processes`: the
design variables fix the design point (the disciplines' default inputs play no role for them), the
current values of the couplings are only the initial guess of the MDA.  The coupling outputs of the MDA
become the current values of the couplings.  The MDA itself is not computed by the model: its solution
is a certificate checked exactly. -/

/-- The point at which the certificate is checked: the current design values, the certified couplings. -/
def Sys.equilibriumPoint (s : Sys) (cur : Vec) (ystar : Data) : Data :=
  ((namedPoint s.sizes s.ds.names cur).filter (fun p => !s.allCouplings.contains p.1))
    ++ s.allCouplings.map (fun k => (k, ystar.get k))

/-- The current value after `start_at_equilibrium` (`none`: the certificate is not the solution). -/
def idfEquilibrium (s : Sys) (cur : Vec) (ystar : Data) : Option Vec :=
  if s.consistent (s.equilibriumPoint cur ystar) then
    some ((namedPoint s.sizes s.ds.names cur).flatMap
      (fun q => if s.allCouplings.contains q.1 then ystar.get q.1 else q.2))
  else none

/-! ### Returned arrays and the adapter's Jacobian buffer

`DisciplineAdapter._convert_jacobian_to_array` fills ONE array owned by the adapter (`self.__jacobian`,
allocated at the first call) and returns that very array at every call.  What isolates the caller from
this buffer is `unmask_x_swap_order`, called by `FunctionFromDiscipline._jac_to_wrap`: it allocates a
new zero array and copies the blocks of the adapter's array into it — also when nothing is masked (MDF:
every optimisation variable feeds the MDA).  The heap below has one cell per array ever allocated. -/

structure JHeap where
  /-- the arrays allocated so far -/
  cells : List Mat
  /-- per function object: the cell of its adapter's buffer once allocated -/
  buf : List (Option Nat)
  /-- the cells handed to the caller, in call order -/
  ret : List Nat
  deriving Repr

def JHeap.empty (nFun : Nat) : JHeap := ⟨[], List.replicate nFun none, []⟩

def JHeap.read (h : JHeap) (c : Nat) : Mat := h.cells.getD c []

/-- The arrays the caller holds, as they are now. -/
def JHeap.held (h : JHeap) : List Mat := h.ret.map h.read

/-- `DisciplineAdapter._jac_to_wrap` of function object `f`: (allocate and) overwrite the adapter's own
    buffer with the Jacobian `j`; the buffer itself is the result. -/
def JHeap.adapterJac (h : JHeap) (f : Nat) (j : Mat) : JHeap × Nat :=
  match h.buf.getD f none with
  | some c => ({ h with cells := h.cells.set c j }, c)
  | none => ({ h with cells := h.cells ++ [j], buf := h.buf.set f (some h.cells.length) }, h.cells.length)

/-- `FunctionFromDiscipline._jac_to_wrap` of function object `f`: the adapter's array is unmasked into a
    NEW array, which is returned (`none`: the unmasking fails). -/
def JHeap.ffdJacCall (h : JHeap) (f : Nat) (j : Mat) (un : Mat → Option Mat) : Option JHeap :=
  let r := h.adapterJac f j
  match un (r.1.read r.2) with
  | none => none
  | some u => some { r.1 with cells := r.1.cells ++ [u], ret := r.1.ret ++ [r.1.cells.length] }

/-- A function whose Jacobian is computed into a new array at every call (`ConsistencyConstraint`:
    `coupl_jac - x_jac`; `-jac` of a positive inequality; the constant array of an `MDOLinearFunction`,
    never written). -/
def JHeap.freshCall (h : JHeap) (m : Mat) : JHeap :=
  { h with cells := h.cells ++ [m], ret := h.ret ++ [h.cells.length] }

/-- A history of `jac` calls on function objects sharing the heap: `(function, adapter Jacobian, unmasking)`. -/
def JHeap.run : JHeap → List (Nat × Mat × (Mat → Option Mat)) → Option JHeap
  | h, [] => some h
  | h, c :: cs =>
    match h.ffdJacCall c.1 c.2.1 c.2.2 with
    | some h' => h'.run cs
    | none => none

/-- The two halves of `gJac`: the adapter-level Jacobian and the unmasking applied to it. -/
def gJacParts (sizes : Sizes) (names : List String) (hasInput : String → Bool)
    (jac : Data → String → String → Mat) (rowsOf : String → Nat) (outs : List String) (x : Vec) :
    Option (Mat × (Mat → Option Mat)) :=
  let inputNames := names.filter hasInput
  match maskX sizes inputNames names x with
  | none => none
  | some xm =>
    some (gAdapterJac inputNames (jac (adapterInputData sizes inputNames xm)) rowsOf outs,
          fun m => unmaskRows sizes inputNames names m none)

/-- The variant that a "nothing to unmask" shortcut would give: the adapter's buffer is handed to the caller
    when every name is kept.  (Only used in `Props/C17` to show what the persistence theorem excludes.) -/
def JHeap.aliasingJacCall (h : JHeap) (f : Nat) (j : Mat) : JHeap :=
  let r := h.adapterJac f j
  { r.1 with ret := r.1.ret ++ [r.2] }

/-! ### `DisciplineAdapter._convert_jacobian_to_array`, block by block

The adapter owns ONE dense array (allocated with `numpy.empty` at the first call, i.e. with arbitrary
contents) and, at every call, copies each block `jacobians[output][input]` of the discipline into the cell
`[output_slice, input_slice]` of that array; a SciPy sparse block is densified first (`toarray()` /
`get_row(jac, 0).todense()`).  The slices of distinct (output, input) pairs are disjoint and cover the array
(prefix sums of the output sizes and of the input sizes, see `dvIndices`), so the array is represented here
by the table of its cells; read along the output slices (rows) and the input slices (columns) it is the
array the adapter returns (`BlockTable.toArray` = `gAdapterJac` of the table). -/

/-- A Jacobian block as the discipline hands it over.  A sparse block is given by what it *stores* for each
    entry of the block: `some v` = a stored entry, `none` = not stored (an implicit zero).  A sparse array
    built from the values of a matrix (`csr_array(dense)`) does not store the exact zeros. -/
inductive JBlock where
  | dense (m : Mat)
  | sparse (stored : List (List (Option Rat)))
  deriving Repr

/-- `jac.toarray()` (the identity on a dense block). -/
def JBlock.toArray : JBlock → Mat
  | .dense m => m
  | .sparse st => st.map (fun row => row.map (fun c => c.getD 0))

/-- `jac.nnz` of a sparse block (the number of stored entries). -/
def JBlock.nnz : JBlock → Nat
  | .dense m => (m.map List.length).sum
  | .sparse st => (st.map (fun row => (row.filter Option.isSome).length)).sum

/-- The block a discipline returns for the matrix `m`: the dense array itself, or the sparse array built from
    its values (`csr_array(m)`, `csc_array(m)`, `coo_matrix(m)`: zeros are not stored). -/
def JBlock.ofMat (sparse : Bool) (m : Mat) : JBlock :=
  if sparse then .sparse (m.map (fun row => row.map (fun v => if v == 0 then none else some v))) else .dense m

/-- The cells `[output_slice, input_slice]` of the adapter's array (the most recent write of a cell first). -/
abbrev BlockTable := List ((String × String) × Mat)

def BlockTable.get (t : BlockTable) (o i : String) : Mat :=
  match t.find? (fun p => p.1 == (o, i)) with
  | some p => p.2
  | none => []

/-- `self.__jacobian[output_slice, input_slice] = block`. -/
def BlockTable.write (t : BlockTable) (o i : String) (m : Mat) : BlockTable := ((o, i), m) :: t

/-- The loop of `_convert_jacobian_to_array` over the output names and the differentiated input names, on
    the array `buf` left by the previous call (or the arbitrary contents of `numpy.empty` at the first call):
    EVERY cell is overwritten, whatever the storage of the block. -/
def convertJac (buf : BlockTable) (outs inputNames : List String) (jac : String → String → JBlock) : BlockTable :=
  outs.foldl (fun b o => inputNames.foldl (fun b i => b.write o i (jac o i).toArray) b) buf

/-- The array the adapter returns. -/
def BlockTable.toArray (t : BlockTable) (inputNames : List String) (rowsOf : String → Nat) (outs : List String) : Mat :=
  gAdapterJac inputNames t.get rowsOf outs

/-- The variant that skips the empty sparse blocks ("nothing to copy, the array is initialised with zeros").
    (Only used in `Props/C17` to show what `adapter_array_is_current_jacobian` excludes.) -/
def convertJacSkipEmpty (buf : BlockTable) (outs inputNames : List String) (jac : String → String → JBlock) : BlockTable :=
  outs.foldl (fun b o => inputNames.foldl (fun b i =>
    match jac o i with
    | .sparse st => if (JBlock.sparse st).nnz == 0 then b else b.write o i (JBlock.sparse st).toArray
    | blk => b.write o i blk.toArray) b) buf

/-! ### The array in which the caller writes the design point

`evaluate(x)` / `jac(x)` receive a NumPy array: float64 from the optimisers, but an int64 array when the
caller writes a point with integer coordinates as `array([1, 2, 1])`, or when the point is the current value of
an all-integer design space.  An integer array holds integers (`castTo .int` = the int64 cast, truncation
toward zero).  A DOE on a design space mixing integer and float variables passes float64 samples carrying the
declared types as dtype metadata, and `DisciplineAdapter.__create_discipline_input_data` casts the integer
variables of the discipline input data accordingly (`typed = true`).  The disciplines compute with the numbers
they receive; `FunctionFromDiscipline._jac_to_wrap` returns the unmasked Jacobian as it is (the statement
`jac.astype(x_vect.dtype)` builds a new array that is dropped). -/

inductive DType where
  | int
  | float
  deriving Repr, DecidableEq

/-- `ndarray.astype(dtype)` on the numbers of an array. -/
def castTo : DType → Vec → Vec
  | .int, v => v.map truncToInt
  | .float, v => v

/-- The numbers the disciplines read when the design point `x` is passed as an array of dtype `dt`
    (`intMask`: per component, whether the design variable is declared integer; `typed`: the array carries the
    declared types). -/
def typedVector (intMask : List Bool) (dt : DType) (typed : Bool) (x : Vec) : Vec :=
  let a := castTo dt x
  if typed then List.zipWith (fun b v => if b then truncToInt v else v) intMask a else a

/-- What casting the returned Jacobian to the dtype of the design vector would give.
    (Only used in `Props/C17` to show what `typed_point_is_the_same_point` is about.) -/
def jacAstypeVariant (dt : DType) (j : Mat) : Mat := j.map (castTo dt)

/-! ### Several formulations alive in one process: the lazily computed input masks

`FunctionFromDiscipline._input_mask` is computed at the FIRST evaluation of the function object
(`get_x_mask_x_swap_order(input_names, all_input_names)` of the object's OWN formulation, i.e. on the design
space of that formulation as it is after the formulation has removed / required its variables) and kept by the
object (`self.__input_mask`) for all its later evaluations.  The function objects of several formulations (MDF,
IDF, DisciplinaryOpt built from design spaces with the same names and sizes) may be alive together and be
evaluated in any interleaving. -/

/-- What a `FunctionFromDiscipline` object holds when it is built: the variable sizes and the design-space
    names of its own formulation, the input names of its adapter, the adapter itself (input data -> outputs). -/
structure FObj where
  sizes : Sizes
  names : List String
  inputNames : List String
  body : Data → Vec

/-- The mask the object computes: the positions of its input names in ITS formulation's design vector. -/
def FObj.mask (f : FObj) : Option (List Nat) := getMask f.sizes f.inputNames f.names

/-- The adapter applied to the components selected by a mask (`x_vect[mask]`, cut along the input names). -/
def FObj.applyMask (f : FObj) (idx : List Nat) (x : Vec) : Option Vec :=
  match takeIdx x idx with
  | some xm => some (f.body (adapterInputData f.sizes f.inputNames xm))
  | none => none

/-- The value of the function object used alone, without any memory (`gEval`). -/
def FObj.pure (f : FObj) (x : Vec) : Option Vec :=
  match f.mask with
  | some idx => f.applyMask idx x
  | none => none

/-- The masks kept so far, per function object (`none`: not computed yet). -/
abbrev MaskMemo := Nat → Option (List Nat)

/-- One evaluation of function object `i` in a process where the objects `objs` are alive: the mask is computed
    if the object does not hold one yet (a `ValueError` leaves the object without mask), kept by THAT object. -/
def lazyCall (objs : Nat → FObj) (memo : MaskMemo) (i : Nat) (x : Vec) : MaskMemo × Option Vec :=
  match memo i with
  | some idx => (memo, (objs i).applyMask idx x)
  | none =>
    match (objs i).mask with
    | some idx => (fun k => if k = i then some idx else memo k, (objs i).applyMask idx x)
    | none => (memo, none)

/-- A history of evaluations `(function object, design vector)` in one process: the values in call order. -/
def lazyRun (objs : Nat → FObj) : MaskMemo → List (Nat × Vec) → List (Option Vec)
  | _, [] => []
  | memo, (i, x) :: rest => (lazyCall objs memo i x).2 :: lazyRun objs (lazyCall objs memo i x).1 rest

/-- The masks memoized in ONE table shared by all the function objects, keyed by what "seems" to determine a
    mask: the input names and the variable sizes.  (Only used in `Props/C17` to show what
    `formulations_alive_together_do_not_interfere` excludes: the key does not see the design-space names of
    the object's own formulation.) -/
def sharedCall (objs : Nat → FObj) (table : List ((List String × Sizes) × List Nat)) (i : Nat) (x : Vec) :
    List ((List String × Sizes) × List Nat) × Option Vec :=
  let key := ((objs i).inputNames, (objs i).sizes)
  match table.find? (fun p => p.1 == key) with
  | some p => (table, (objs i).applyMask p.2 x)
  | none =>
    match (objs i).mask with
    | some idx => ((key, idx) :: table, (objs i).applyMask idx x)
    | none => (table, none)

def sharedRun (objs : Nat → FObj) : List ((List String × Sizes) × List Nat) → List (Nat × Vec) → List (Option Vec)
  | _, [] => []
  | t, (i, x) :: rest => (sharedCall objs t i x).2 :: sharedRun objs (sharedCall objs t i x).1 rest

/-- The function object of `gEval`: design space `names`, inputs `names.filter hasInput`, outputs `outs`. -/
def FObj.ofDisc (sizes : Sizes) (names : List String) (hasInput : String → Bool) (run : Data → String → Vec)
    (outs : List String) : FObj :=
  ⟨sizes, names, names.filter hasInput, fun data => outs.flatMap (run data)⟩

/-! ### `OptimizationProblem.add_constraint(value, positive)`: `c - a` or `a - c` -/

def formatValue (a : Rat) (positive : Bool) (v : Vec) : Vec :=
  v.map (fun c => if positive then a - c else c - a)
def formatJac (positive : Bool) (j : Mat) : Mat :=
  if positive then j.map (fun row => row.map (fun c => -c)) else j

end GV.C17
