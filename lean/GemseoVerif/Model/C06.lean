/-
C06 — executable model of GEMSEO's fixed-point MDA solvers over exact rationals.

What is modelled (statement by statement, see notes/C06.md):
* `MDAJacobi._execute`, `MDAGaussSeidel._execute` (pre-sweep, then the loop), `MDANewtonRaphson._execute`
  for *affine* disciplines: sweep, `_compute_residuals` on the resolved variables, the stop test of
  `BaseMDASolver._stop_criterion_is_reached` (`_current_iter` is incremented *before* the
  `max_mda_iter <= _current_iter` test), `RelaxationAcceleration.compute_transformed_iterate`
  (`OverRelaxation` then the acceleration, each with its bounded deques), `_update_local_data_from_array`;
* `BaseMDASolver._compute_normalized_residual_norm`: the six residual scalings, in *squared* form
  (`‖r‖² ≤ tol²·scale²`, no square root is needed), with the scaling data fixed at the first iteration
  ever run and kept across executions;
* `BaseMDA._prepare_warm_start`: the input couplings restart from the last outputs.

A coupled system is given in flattened form: the data vector `y : List Rat` holds every component of
every discipline output; row `i` computes `yᵢ = constᵢ + Σⱼ coefsᵢⱼ·yⱼ` (the contribution of the
non-coupling inputs is folded into `constᵢ` by the harness); a discipline is the list of the rows it owns.
The loop itself (`mdaLoop`) is generic in the sweep, the update rule and the norm, so that the loop
invariant is proved for *every* discipline map, acceleration and scaling.
Import-free (core `Rat`, `List`).
-/
import GemseoVerif.Model.Common

namespace GV.C06

abbrev Vec := List Rat

def vadd (a b : Vec) : Vec := List.zipWith (· + ·) a b
def vsub (a b : Vec) : Vec := List.zipWith (· - ·) a b
def smul (c : Rat) (a : Vec) : Vec := a.map (fun t => c * t)
def rsum : Vec → Rat
  | [] => 0
  | t :: ts => t + rsum ts
def dot (a b : Vec) : Rat := rsum (List.zipWith (· * ·) a b)
def normSq (a : Vec) : Rat := dot a a

/-- `data[idx]` for a list of indices (missing → 0). -/
def gather (data : Vec) (idx : List Nat) : Vec := idx.map (fun i => data.getD i 0)

/-- `data[idx] := vals` (position-wise). -/
def scatter (data : Vec) : List Nat → Vec → Vec
  | i :: is, v :: vs => scatter (data.set i v) is vs
  | _, _ => data

-- ------------------------------------------------------------------ affine disciplines

structure Row where
  const : Rat
  coefs : Vec
  deriving Repr

structure Sys where
  rows : List Row
  /-- the disciplines in the *listed* order, each one the list of the rows (components) it computes -/
  discs : List (List Nat)
  deriving Repr

def evalRow (r : Row) (data : Vec) : Rat := r.const + dot r.coefs data

/-- Every discipline is executed on the same data, then the outputs are written (`MDAJacobi`, and the
    sweep of the Newton-type MDAs). -/
def jacobiSweep (s : Sys) (data : Vec) : Vec := s.rows.map (fun r => evalRow r data)

/-- One discipline executed on `data`: all its outputs are computed from `data`, then written. -/
def runDisc (s : Sys) (data : Vec) (d : List Nat) : Vec :=
  scatter data d (d.map (fun i => evalRow (s.rows.getD i ⟨0, []⟩) data))

/-- The disciplines are executed one after the other in the listed order, each one seeing the outputs
    of the previous ones (`MDAGaussSeidel._execute_disciplines_and_update_local_data`). -/
def gsSweep (s : Sys) (data : Vec) : Vec := s.discs.foldl (runDisc s) data

-- ------------------------------------------------------------------ sequence transformers

inductive Accel where
  | none | aitken | secant | adsq
  deriving Repr, DecidableEq

/-- `deque(maxlen=n).append(v)` (most recent last). -/
def push (q : List Vec) (maxlen : Nat) (v : Vec) : List Vec :=
  let q' := q ++ [v]
  q'.drop (q'.length - maxlen)

structure Deques where
  its : List Vec := []
  res : List Vec := []
  deriving Repr

structure TState where
  relax : Deques := {}
  accel : Deques := {}
  deriving Repr

/-- `OverRelaxation` (`_MINIMUM_NUMBER_OF_ITERATES = 2`, `_MINIMUM_NUMBER_OF_RESIDUALS = 0`): the code
    combines the last two iterates `G(xₙ)`, `G(xₙ₋₁)` it was given (not `xₙ`):
    `x_{n+1} = ω·G(xₙ) + (1-ω)·G(xₙ₋₁)`; the first iterate is returned unchanged. -/
def relaxStep (omega : Rat) (d : Deques) (it _r : Vec) : Vec × Deques :=
  let d' : Deques := { its := push d.its 2 it, res := [] }
  match d'.its with
  | [gxn1, gxn] => if omega = 1 then (gxn, d') else (vadd (smul omega gxn) (smul (1 - omega) gxn1), d')
  | _ => (it, d')

def minIts : Accel → Nat
  | .none => 0 | .aitken => 1 | .secant => 2 | .adsq => 3
def minRes : Accel → Nat
  | .none => 0 | .aitken => 2 | .secant => 2 | .adsq => 3

/-- The acceleration formulas; `none` = a division by zero (NaN in the code). -/
def accelFormula (a : Accel) (d : Deques) : Option Vec :=
  match a, d.its, d.res with
  | .aitken, [gxn], [dxn1, dxn] =>
    let d2 := vsub dxn dxn1
    if dot d2 d2 = 0 then Option.none else some (vsub gxn (smul (dot d2 dxn / dot d2 d2) dxn))
  | .secant, [gxn1, gxn], [dxn1, dxn] =>
    let d2 := vsub dxn dxn1
    if dot d2 d2 = 0 then Option.none else some (vsub gxn (smul (dot d2 dxn / dot d2 d2) (vsub gxn gxn1)))
  | .adsq, [gxn2, gxn1, gxn], [dxn2, dxn1, dxn] =>
    let dz := vadd (vsub dxn (smul 2 dxn1)) dxn2
    let gz := vadd (vsub gxn (smul 2 gxn1)) gxn2
    if dot dz dz = 0 then Option.none else some (vsub gxn (smul (dot dz dxn / dot dz dz) gz))
  | _, _, _ => Option.none

def accelStep (a : Accel) (d : Deques) (it r : Vec) : Option (Vec × Deques) :=
  match a with
  | .none => some (it, d)
  | _ =>
    let d' : Deques := { its := push d.its (minIts a) it, res := push d.res (minRes a) r }
    if d'.its.length ≥ minIts a ∧ d'.res.length ≥ minRes a then
      (accelFormula a d').map (fun v => (v, d'))
    else some (it, d')

/-- `CompositeSequenceTransformer.compute_transformed_iterate(iterate, residual)`. -/
def transform (omega : Rat) (a : Accel) (ts : TState) (it r : Vec) : Option (Vec × TState) :=
  let cur := vsub it r
  let (n1, rd) := relaxStep omega ts.relax it (vsub it cur)
  match accelStep a ts.accel n1 (vsub n1 cur) with
  | Option.none => Option.none
  | some (n2, ad) => some (n2, { relax := rd, accel := ad })

-- ------------------------------------------------------------------ residual scaling (squared form)

inductive Scaling where
  | noScaling | initialResidualNorm | initialSubresidualNorm | nCouplingVariables
  | initialResidualComponent | scaledInitialResidualComponent
  deriving Repr, DecidableEq

/-- The scaling data, fixed the first time a residual is normed. -/
inductive ScalData where
  | normSq (s : Rat)            -- ‖r₀‖² (1 when zero)
  | size (n : Nat)              -- number of resolved components
  | groups (g : List Rat)       -- ‖r₀ⁱ‖² per coupling variable (1 when zero)
  | comps (c : Vec)             -- r₀ + (r₀ == 0)
  deriving Repr

def nz (t : Rat) : Rat := if t = 0 then 1 else t

def maxList : Vec → Rat
  | [] => 0
  | t :: ts => if maxList ts ≤ t then t else maxList ts

def vdiv (a b : Vec) : Vec := List.zipWith (· / ·) a b

/-- Squared normalized residual norm and the (possibly new) scaling data.
    `groups`: for `initialSubresidualNorm`, the positions (in the residual vector) of each coupling variable. -/
def normedSq (sc : Scaling) (groups : List (List Nat)) (sd : Option ScalData) (r : Vec) : Rat × Option ScalData :=
  match sc with
  | .noScaling => (normSq r, sd)
  | .initialResidualNorm =>
    let s := match sd with | some (.normSq s) => s | _ => nz (normSq r)
    (normSq r / s, some (.normSq s))
  | .nCouplingVariables =>
    let n : Nat := match sd with | some (.size n) => n | _ => r.length
    (normSq r / (n : Rat), some (.size n))
  | .initialSubresidualNorm =>
    let g := match sd with
      | some (.groups g) => g
      | _ => groups.map (fun idx => nz (normSq (gather r idx)))
    (maxList (List.zipWith (fun idx s => normSq (gather r idx) / s) groups g), some (.groups g))
  | .initialResidualComponent =>
    let c := match sd with | some (.comps c) => c | _ => r.map nz
    (maxList ((vdiv r c).map (fun t => t * t)), some (.comps c))
  | .scaledInitialResidualComponent =>
    let c := match sd with | some (.comps c) => c | _ => r.map nz
    (normSq (vdiv r c) / (r.length : Rat), some (.comps c))

-- ------------------------------------------------------------------ the MDA loop (generic)

inductive Outcome where
  | converged   -- the residual test passed
  | maxIter     -- `max_mda_iter` reached, residual still above the tolerance
  | nan         -- a division by zero occurred in an acceleration (NaN couplings in the code)
  | capped      -- the replay budget of the driver is exhausted (not a behaviour of the code)
  deriving Repr, DecidableEq

structure Run (σ : Type) where
  outcome : Outcome
  data : Vec
  hist : List Rat          -- squared normalized residuals, one per iteration
  raw : List Rat           -- squared Euclidean norms of the residuals (only used to size float noise)
  sd : σ                   -- scaling data after the run

/-- The `while True` loop shared by `MDAJacobi`, `MDAGaussSeidel` and `MDANewtonRaphson`.
    * `sweep`: executes the disciplines on the local data and returns the new local data;
    * `resid before after`: `_compute_residuals` (on the resolved variables);
    * `norm`: `_compute_normalized_residual_norm` (squared), threading the scaling data;
    * `update τ before after r`: the new local data for the next iteration (transformed iterate written into
      the local data), threading the transformer state `τ`; `none` = NaN.
    `fuel` only bounds the replay; `iter` is `_current_iter`. -/
def mdaLoop {σ τ : Type} (sweep : Vec → Vec) (resid : Vec → Vec → Vec) (norm : σ → Vec → Rat × σ)
    (update : τ → Vec → Vec → Vec → Option (Vec × τ)) (tolSq : Rat) (maxIter : Nat) :
    Nat → Nat → Vec → τ → σ → List Rat → List Rat → Run σ
  | 0, _, data, _, sd, hist, raw => ⟨.capped, data, hist, raw, sd⟩
  | fuel + 1, iter, data, ts, sd, hist, raw =>
    let after := sweep data
    let r := resid data after
    let (nsq, sd') := norm sd r
    let hist' := hist ++ [nsq]
    let raw' := raw ++ [normSq r]
    if nsq ≤ tolSq then ⟨.converged, after, hist', raw', sd'⟩
    else if maxIter ≤ iter + 1 then ⟨.maxIter, after, hist', raw', sd'⟩
    else match update ts data after r with
      | Option.none => ⟨.nan, after, hist', raw', sd'⟩
      | some (next, ts') =>
        mdaLoop sweep resid norm update tolSq maxIter fuel (iter + 1) next ts' sd' hist' raw'

-- ------------------------------------------------------------------ instances

inductive Algo where
  | jacobi | gaussSeidel | newton
  deriving Repr, DecidableEq

structure Cfg where
  algo : Algo
  res : List Nat               -- resolved components (sorted by variable name, as the code does)
  groups : List (List Nat)     -- positions in the resolved vector of each resolved variable
  warmIdx : List Nat           -- components reloaded by the warm start (`_input_couplings`)
  tol : Rat
  maxIter : Nat
  scaling : Scaling
  omega : Rat
  accel : Accel
  warmStart : Bool
  deriving Repr

def residOn (res : List Nat) (before after : Vec) : Vec := vsub (gather after res) (gather before res)

/-- Fixed-point update: the transformed iterate of `(G(xₙ), G(xₙ) - xₙ)` is written into the local data. -/
def fpUpdate (c : Cfg) (ts : TState) (_before after r : Vec) : Option (Vec × TState) :=
  (transform c.omega c.accel ts (gather after c.res) r).map (fun (v, ts') => (scatter after c.res v, ts'))

-- Gauss elimination over ℚ (the linear solver of the Newton step is a parameter of the theorems;
-- this concrete one only serves the driver).
def pivotRow (col : Nat) : List (Vec × Rat) → Option ((Vec × Rat) × List (Vec × Rat))
  | [] => none
  | (r, b) :: rest =>
    if r.getD col 0 ≠ 0 then some ((r, b), rest)
    else match pivotRow col rest with
      | none => none
      | some (p, others) => some (p, (r, b) :: others)

/-- Gauss–Jordan: returns the rows in reduced form, one pivot per column `0..n-1`. -/
def gaussJordan (n : Nat) : Nat → List (Vec × Rat) → List (Vec × Rat) → Option (List (Vec × Rat))
  | 0, done, _ => some done
  | k + 1, done, todo =>
    let col := n - (k + 1)
    match pivotRow col todo with
    | none => none
    | some ((pr, pb), others) =>
      let inv := 1 / pr.getD col 0
      let pr' := smul inv pr
      let pb' := inv * pb
      let elim := fun (rb : Vec × Rat) =>
        let f := rb.1.getD col 0
        (vsub rb.1 (smul f pr'), rb.2 - f * pb')
      gaussJordan n k (done.map elim ++ [(pr', pb')]) (others.map elim)

def solve (m : List Vec) (b : Vec) : Option Vec :=
  (gaussJordan m.length m.length [] (List.zip m b)).map (fun rows => rows.map (·.2))

/-- `∂R/∂y` on the resolved components for affine disciplines: `A_rr - I`. -/
def residualJacobian (s : Sys) (res : List Nat) : List Vec :=
  res.map (fun i =>
    let row := (s.rows.getD i ⟨0, []⟩).coefs
    res.map (fun j => row.getD j 0 - (if i = j then 1 else 0)))

/-- Newton update: `step = -[∂R/∂y]⁻¹ R`, transformed iterate of `(y + step, step)`. -/
def newtonUpdate (s : Sys) (c : Cfg) (ts : TState) (before after r : Vec) : Option (Vec × TState) :=
  match solve (residualJacobian s c.res) (smul (-1) r) with
  | Option.none => Option.none
  | some step =>
    (transform c.omega c.accel ts (vadd (gather before c.res) step) step).map
      (fun (v, ts') => (scatter after c.res v, ts'))

/-- State of an MDA object that survives an execution. -/
structure MState where
  sd : Option ScalData := Option.none
  lastOut : Option Vec := Option.none
  deriving Repr

/-- `mda.execute(start)`: warm start, (pre-sweep for Gauss-Seidel,) loop. The transformer is cleared at
    every execution, the scaling data is kept. -/
def execute (s : Sys) (c : Cfg) (fuel : Nat) (st : MState) (start : Vec) : Run (Option ScalData) :=
  let start := match c.warmStart, st.lastOut with
    | true, some prev => scatter start c.warmIdx (gather prev c.warmIdx)
    | _, _ => start
  let norm := normedSq c.scaling c.groups
  let tolSq := c.tol * c.tol
  match c.algo with
  | .jacobi =>
    mdaLoop (jacobiSweep s) (residOn c.res) norm (fpUpdate c) tolSq c.maxIter fuel 0 start {} st.sd [] []
  | .gaussSeidel =>
    let first := gsSweep s start
    if c.maxIter = 0 then ⟨.maxIter, first, [], [], st.sd⟩
    else mdaLoop (gsSweep s) (residOn c.res) norm (fpUpdate c) tolSq c.maxIter fuel 0 first {} st.sd [] []
  | .newton =>
    mdaLoop (jacobiSweep s) (residOn c.res) norm (newtonUpdate s c) tolSq c.maxIter fuel 0 start {} st.sd [] []

-- ------------------------------------------------------------------ which variables an MDA resolves

/-- `CouplingStructure._compute_strong_couplings` for ONE group of strongly coupled disciplines:
    `sorted(set(inputs of the group) & set(outputs of the group))`. Variables are numbered in the order of their
    sorted names (`nvars` of them); `reads` / `writes` list, per discipline of the group, the variables of its
    input / output grammar. A variable that a discipline only feeds back to itself is one of them. -/
def strongCouplingVars (nvars : Nat) (reads writes : List (List Nat)) : List Nat :=
  (List.range nvars).filter (fun v => reads.any (·.contains v) && writes.any (·.contains v))

/-- The components (rows) of the resolved variables, in the order of the resolved vector;
    `vars[v]` = the components of variable `v`. -/
def componentsOf (vars : List (List Nat)) (vs : List Nat) : List Nat := vs.flatMap (fun v => vars.getD v [])

/-- Positions, in the resolved vector, of each resolved variable (for `initial_subresidual_norm`). -/
def positionsOf (vars : List (List Nat)) : Nat → List Nat → List (List Nat)
  | _, [] => []
  | pos, v :: vs =>
    let n := (vars.getD v []).length
    (List.range n).map (· + pos) :: positionsOf vars (pos + n) vs

-- ------------------------------------------------------------------ settings of the inner MDAs of a composition

/-- Settings as the code handles them when it builds an inner MDA: a dictionary from names to values. -/
abbrev Settings := List (String × Rat)

def Settings.get? (s : Settings) (k : String) : Option Rat := (s.find? (·.1 == k)).map (·.2)

/-- Python's `a | b` on dictionaries: the entries of `b` prevail. -/
def Settings.union (a b : Settings) : Settings := b ++ a.filter (fun e => !(b.any (·.1 == e.1)))

/-- The fields of `BaseMDASettings` that are plain numbers / flags in this model. -/
def baseFields : List String := ["tolerance", "max_mda_iter", "warm_start"]

/-- `MDAChain.__create_inner_mda_settings` (and `MDAGSNewton.__update_inner_mda_settings`):
    `dict(inner_mda_settings) | {name: value for the BaseMDASettings fields of the composed MDA}`;
    `given` is the dictionary OR the full content of the Pydantic model the user passed. -/
def innerSettings (chain given : Settings) : Settings :=
  given.union (chain.filter (fun e => baseFields.contains e.1))

-- ------------------------------------------------------------------ MDAChain: a chain of MDAs and disciplines

/-- A strongly connected component of the coupling graph, as `MDAChain` sees it. -/
structure Group where
  /-- the disciplines of the component, in the order in which the chain lists them, each one its rows -/
  discs : List (List Nat)
  /-- `CouplingStructure.is_self_coupled` of the discipline (one of its outputs is one of its inputs) -/
  selfCoupled : Bool
  /-- the discipline is itself an MDA (`isinstance(discipline, BaseMDA)`) -/
  isMda : Bool
  /-- the configuration of the inner MDA created for the component -/
  cfg : Cfg
  deriving Repr

/-- `MDAChain.__requires_mda`. -/
def requiresMda (g : Group) : Bool :=
  g.discs.length > 1 || (g.discs.length == 1 && g.selfCoupled && !g.isMda)

/-- Row `i` that leaves component `i` unchanged. -/
def idRow (n i : Nat) : Row := ⟨0, (List.range n).map (fun j => if j = i then 1 else 0)⟩

/-- The sub-system of an inner MDA inside the data of the chain: the rows of the other disciplines are
    replaced by identities (an inner MDA only executes its own disciplines). -/
def restrict (s : Sys) (ds : List (List Nat)) : Sys :=
  ⟨(List.range s.rows.length).map (fun i =>
      if ds.any (·.contains i) then s.rows.getD i ⟨0, []⟩ else idRow s.rows.length i), ds⟩

/-- One process of the MDO chain: an inner MDA when the component requires one, else the discipline once. -/
def chainStep (s : Sys) (fuel : Nat) (acc : Vec × List (Run (Option ScalData))) (g : Group) :
    Vec × List (Run (Option ScalData)) :=
  if requiresMda g then
    let r := execute (restrict s g.discs) g.cfg fuel {} acc.1
    (r.data, acc.2 ++ [r])
  else (gsSweep (restrict s g.discs) acc.1, acc.2)

/-- `MDAChain._execute`: the components are processed in the order of the execution sequence;
    returns the final data and the runs of the inner MDAs. -/
def chainExecute (s : Sys) (groups : List Group) (fuel : Nat) (start : Vec) : Vec × List (Run (Option ScalData)) :=
  groups.foldl (chainStep s fuel) (start, [])

-- ------------------------------------------------------------------ MDASequential: sub-MDAs with their own settings

/-- `mda.normed_residual < tolerance` after the execution of a sub-MDA, in squared form: the normed residual of an
    elementary MDA is the last entry of its residual history (a sub-MDA that recorded nothing keeps the initial
    value `1.0`, which is not below a tolerance `≤ 1`). -/
def seqBreaks {σ : Type} (tol : Rat) (r : Run σ) : Bool :=
  match r.hist.getLast? with
  | some nsq => decide (0 < tol) && decide (nsq < tol * tol)
  | none => false

/-- `MDASequential._execute`: the sub-MDAs — each one an MDA object with ITS OWN configuration (tolerance,
    `max_mda_iter`, ...) and state; an `MDASequential` cascades none of its settings — are executed one after the
    other on the data of the previous one; the sequence stops after a sub-MDA whose normed residual is below the
    tolerance of the SEQUENCE (`outerTol`), not below the sub-MDA's own tolerance.
    Returns the final data and the runs of the executed sub-MDAs. -/
def seqExecute (s : Sys) (outerTol : Rat) (fuel : Nat) :
    List (Cfg × MState) → Vec → List (Run (Option ScalData)) → Vec × List (Run (Option ScalData))
  | [], data, runs => (data, runs)
  | (c, st) :: rest, data, runs =>
    let r := execute s c fuel st data
    if seqBreaks outerTol r then (r.data, runs ++ [r])
    else seqExecute s outerTol fuel rest r.data (runs ++ [r])

-- ------------------------------------------------------------------ several MDA objects in one process

/-- `settings.<k> = v` on a settings model. -/
def Settings.set (s : Settings) (k : String) (v : Rat) : Settings := (k, v) :: s.filter (fun e => !(e.1 == k))

inductive Kind where
  | chain | gsNewton | sequential | elementary
  deriving Repr, DecidableEq

/-- An MDA object as far as its settings go: its own `settings` model and the `settings` models of its inner MDAs
    (`MDAChain.inner_mdas`) or stages (`MDASequential.mda_sequence`). -/
structure Obj where
  kind : Kind
  own : Settings
  subs : List Settings
  deriving Repr

/-- `_settings_names_to_be_cascaded` restricted to the numeric fields of the model: `MDAChain_Settings` and
    `MDAGSNewton_Settings` cascade them, `MDASequential_Settings` cascades nothing. -/
def cascades : Kind → Bool
  | .chain | .gsNewton => true
  | _ => false

def cascade1 (own : Settings) (f : String) (sub : Settings) : Settings :=
  match own.get? f with
  | some v => sub.set f v
  | none => sub

/-- `ComposedMDASettings.__cascade_settings` (a validator that runs after EVERY assignment of a field of the composed
    settings): every cascaded setting of the object is written into the settings of ITS OWN sub-MDAs. -/
def cascade (o : Obj) : Obj :=
  if cascades o.kind then
    { o with subs := o.subs.map (fun sub => cascade1 o.own "max_mda_iter" (cascade1 o.own "tolerance" sub)) }
  else o

/-- Construction: the inner MDAs of an `MDAChain` / the two stages of an `MDAGSNewton` receive `innerSettings`;
    the stages of an `MDASequential` are MDA objects the user built, with the settings they were built with. -/
def mkObj (kind : Kind) (own : Settings) (given : List Settings) : Obj :=
  match kind with
  | .chain | .gsNewton => ⟨kind, own, given.map (innerSettings own)⟩
  | .sequential => ⟨kind, own, given⟩
  | .elementary => ⟨kind, own, []⟩

def modifyNth {α : Type} (f : α → α) : Nat → List α → List α
  | _, [] => []
  | 0, a :: as => f a :: as
  | n + 1, a :: as => a :: modifyNth f n as

/-- Operations of a session on MDA objects named by numbers. -/
inductive WOp where
  /-- `<Class>(disciplines, **own, inner settings...)` -/
  | create (id : Nat) (kind : Kind) (own : Settings) (given : List Settings)
  /-- `mda.settings.<field> = v` -/
  | assign (id : Nat) (field : String) (v : Rat)
  /-- `mda.mda_sequence[j].settings.<field> = v` / `mda.inner_mdas[j].settings.<field> = v` -/
  | assignSub (id : Nat) (j : Nat) (field : String) (v : Rat)
  deriving Repr

def WOp.target : WOp → Nat
  | .create id _ _ _ => id
  | .assign id _ _ => id
  | .assignSub id _ _ _ => id

/-- The MDA objects alive in the process. -/
abbrev World := Nat → Option Obj

def World.upd (w : World) (id : Nat) (o : Option Obj) : World := fun i => if i = id then o else w i

/-- What an operation does to ONE object (`none`: not built yet). -/
def objStep (o : Option Obj) : WOp → Option Obj
  | .create _ kind own given => some (mkObj kind own given)
  | .assign _ f v => o.map (fun o => cascade { o with own := o.own.set f v })
  | .assignSub _ j f v => o.map (fun o => { o with subs := modifyNth (fun s => s.set f v) j o.subs })

/-- An operation only touches the object it names: there is no state shared between the settings of two objects. -/
def wstep (w : World) (op : WOp) : World := w.upd op.target (objStep (w op.target) op)

def wrun (w : World) (ops : List WOp) : World := ops.foldl wstep w

end GV.C06
