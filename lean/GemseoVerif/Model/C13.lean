/-
C13 — model of `CallableParallelExecution.execute` (worker pool), of successive `execute()`
calls on one executor object (§4), of the DOE layer of `BaseDOELibrary._run` (pre-seeded
database, store callback, `remove_empty_entries`), of concurrent `cache_outputs` calls on a
shared full cache (§3) and of `BaseFullCache` with outputs *and* Jacobians written at
`_last_accessed_index` under interleaved `cache_outputs` / `cache_jacobian` calls (§5).

Code anchored:
  src/gemseo/core/parallel_execution/callable_parallel_execution.py
     `_execute_workers` (l.74-96), `_TaskCallables.__call__` (l.112-125), `execute` (l.229-342)
  src/gemseo/core/parallel_execution/disc_parallel_linearization.py  (positional return list)
  src/gemseo/algos/doe/base_doe_library.py `_run`, `__store_in_database`
  src/gemseo/algos/database.py `store`, `remove_empty_entries`
  src/gemseo/caches/base_full_cache.py `__ensure_input_data_exists` (l.109-156), `_cache_inputs`,
     `cache_outputs`, `cache_jacobian` (lock-protected, hence atomic), `__getitem__`

The worker pool is a *nondeterministic transition system*: the operating system decides which
enabled transition fires next.  A schedule is any finite list of enabled transitions.
Import-free (core Lean only) so that the driver can run it.
-/
import GemseoVerif.Model.Common

namespace GV.C13

/-! ## 1. The worker pool -/

/-- What happens when a worker runs a task: a value, an exception that is swallowed, or an
    exception whose class is in `exceptions_to_re_raise`. -/
inductive Outcome (β : Type) where
  | ok (v : β)
  | fail
  | failStop
  deriving Repr, DecidableEq

def Outcome.toOption {β : Type} : Outcome β → Option β
  | .ok v => some v
  | _ => none

def Outcome.isStop {β : Type} : Outcome β → Bool
  | .failStop => true
  | _ => false

/-- The arguments of the executor: `inputs`, the `workers` (callables) and `n_processes`. -/
structure Cfg (α β : Type) where
  inputs : List α
  callables : List (α → Outcome β)
  nProcs : Nat

variable {α β : Type}

def Cfg.nTasks (c : Cfg α β) : Nat := c.inputs.length

/-- `_TaskCallables.__call__(task_index, input_)`: with several callables the one at
    `task_index` is used, otherwise the first one.  A missing callable is an `IndexError` raised
    inside the worker's `try` block, i.e. a swallowed failure. -/
def Cfg.call (c : Cfg α β) (i : Nat) (x : α) : Outcome β :=
  let callable? := if c.callables.length > 1 then c.callables[i]? else c.callables[0]?
  match callable? with
  | some g => g x
  | none => .fail

/-- What running task `i` produces (the worker receives `(i, inputs[i])` from `queue_in`). -/
def Cfg.run (c : Cfg α β) (i : Nat) : Outcome β :=
  match c.inputs[i]? with
  | some x => c.call i x
  | none => .fail

/-- A worker thread/process: waiting on `queue_in.get`, running a task, or returned after
    having read the `None` sentinel. -/
inductive WState where
  | idle
  | busy (i : Nat)
  | exited
  deriving Repr, DecidableEq

structure State (β : Type) where
  /-- `tasks` (indices not yet put in `queue_in`), head = next `tasks.pop()`. -/
  pending : List Nat
  /-- `queue_in`: FIFO of task indices, `none` = the `None` sentinel. -/
  queueIn : List (Option Nat)
  workers : List WState
  /-- `queue_out`: FIFO of `(task_index, output | exception)`. -/
  queueOut : List (Nat × Outcome β)
  /-- `ordered_outputs`. -/
  ordered : List (Option β)
  /-- Calls `callback(index, output)` made so far, in order. -/
  cbLog : List (Nat × β)
  nOutputs : Nat
  stop : Bool
  /-- The variable `output` after the loop (last item read from `queue_out`). -/
  last : Option (Outcome β)
  /-- The sentinels have been put in `queue_in`. -/
  sent : Bool
  /-- Ghost: indices read from `queue_out`, in order (not a variable of the code). -/
  collected : List Nat
  deriving Repr

/-- State after the worker start-up loop (`min(n_tasks, n_processes)` workers), before filling. -/
def init (c : Cfg α β) : State β :=
  { pending := List.range c.nTasks
    queueIn := []
    workers := List.replicate (min c.nTasks c.nProcs) .idle
    queueOut := []
    ordered := List.replicate c.nTasks none
    cbLog := []
    nOutputs := 0
    stop := false
    last := none
    sent := false
    collected := [] }

/-- Transitions. `submit` = one iteration of the filling loop; `take w` = worker `w` returns
    from `queue_in.get`; `finish w` = worker `w` puts its output in `queue_out`;
    `collect` = one iteration of the retrieval loop; `shutdown` = the sentinels are put. -/
inductive Op where
  | submit
  | take (w : Nat)
  | finish (w : Nat)
  | collect
  | shutdown
  deriving Repr, DecidableEq

/-- One transition; `none` when the transition is not enabled in `s`. -/
def step? (c : Cfg α β) (s : State β) : Op → Option (State β)
  | .submit =>
    match s.pending with
    | [] => none
    | i :: rest => some { s with pending := rest, queueIn := s.queueIn ++ [some i] }
  | .take w =>
    match s.workers[w]?, s.queueIn with
    | some .idle, some i :: rest =>
      some { s with workers := s.workers.set w (.busy i), queueIn := rest }
    | some .idle, none :: rest =>
      some { s with workers := s.workers.set w .exited, queueIn := rest }
    | _, _ => none
  | .finish w =>
    match s.workers[w]? with
    | some (.busy i) =>
      some { s with workers := s.workers.set w .idle, queueOut := s.queueOut ++ [(i, c.run i)] }
    | _ => none
  | .collect =>
    if s.pending.isEmpty && !s.sent && s.nOutputs != c.nTasks && !s.stop then
      match s.queueOut with
      | [] => none
      | (i, o) :: rest =>
        let s1 := { s with queueOut := rest, nOutputs := s.nOutputs + 1, last := some o,
                           collected := s.collected ++ [i] }
        match o with
        | .ok v => some { s1 with ordered := s1.ordered.set i (some v), cbLog := s1.cbLog ++ [(i, v)] }
        | .fail => some s1
        | .failStop => some { s1 with stop := true }
    else none
  | .shutdown =>
    if s.pending.isEmpty && !s.sent && (s.nOutputs == c.nTasks || s.stop) then
      some { s with queueIn := s.queueIn ++ List.replicate s.workers.length none, sent := true }
    else none

/-- Run a schedule; `none` as soon as a transition is not enabled. -/
def run? (c : Cfg α β) (s : State β) : List Op → Option (State β)
  | [] => some s
  | op :: ops =>
    match step? c s op with
    | some s' => run? c s' ops
    | none => none

/-- All workers are joined. -/
def State.final (s : State β) : Bool :=
  s.sent && s.workers.all (fun w => w == .exited)

/-- What `execute` does after the join: re-raise the last output, or return the list. -/
inductive Result (β : Type) where
  | raised
  | returned (outs : List (Option β))
  deriving Repr, DecidableEq

def State.result (s : State β) : Result β :=
  match s.last with
  | some .failStop => .raised
  | _ => .returned s.ordered

/-- The sequential reference: `[callable_i(x_i) for i, x_i in enumerate(inputs)]`, `None` for
    a task that raises. -/
def seqMap (c : Cfg α β) : List (Option β) :=
  (List.range c.nTasks).map (fun i => (c.run i).toOption)

/-- The expected callback calls, in input order. -/
def seqCallbacks (c : Cfg α β) : List (Nat × β) :=
  (List.range c.nTasks).filterMap (fun i => (c.run i).toOption.map (fun v => (i, v)))

def busyOf (ws : List WState) : List Nat :=
  ws.filterMap (fun w => match w with | .busy i => some i | _ => none)

def tasksOf (q : List (Option Nat)) : List Nat := q.filterMap id

/-- The greedy sequential schedule used as the existence witness (one worker). -/
def greedyOps : Nat → List Op
  | 0 => []
  | n + 1 => Op.take 0 :: Op.finish 0 :: Op.collect :: greedyOps n

/-! ### `DiscParallelLinearization.execute`: the positional list of Jacobians -/

/-- `[out.jacobian if out is not None else None for out in ordered_outputs]`. -/
def linearizationReturn {γ : Type} (jacOf : β → γ) (ordered : List (Option β)) : List (Option γ) :=
  ordered.map (fun o => o.map jacOf)

/-! ## 2. DOE layer -/

/-- The database: insertion-ordered association list; `none` = an entry without output values
    (`{}`), `some v` = an entry with output values. -/
abbrev Db (κ ν : Type) := List (κ × Option ν)

variable {κ ν : Type} [DecidableEq κ]

/-- `Database.store(x, outputs)`: a new key is appended, an existing key is updated in place
    (`stored_outputs.update(outputs)`; updating with `{}` changes nothing). -/
def dbStore (db : Db κ ν) (x : κ) (o : Option ν) : Db κ ν :=
  match db with
  | [] => [(x, o)]
  | (k, v) :: rest =>
    if k = x then (k, match o with | some w => some w | none => v) :: rest
    else (k, v) :: dbStore rest x o

/-- `Database.remove_empty_entries`. -/
def dbRemoveEmpty (db : Db κ ν) : Db κ ν :=
  db.filter (fun e => e.2.isSome)

/-- Sequential DOE: samples evaluated in order; a sample whose evaluation raises is skipped. -/
def doeSequential (eval : κ → Option ν) (db : Db κ ν) : List κ → Db κ ν
  | [] => db
  | x :: xs =>
    match eval x with
    | some v => doeSequential eval (dbStore db x (some v)) xs
    | none => doeSequential eval db xs

/-- Pre-seeding loop `for sample in samples: database.store(sample, {})`. -/
def doePreseed (db : Db κ ν) : List κ → Db κ ν
  | [] => db
  | x :: xs => doePreseed (dbStore db x none) xs

/-- The store callback applied in the order `cbs` in which the collector retrieves results
    (`cbs` = indices of successful samples, in completion order). -/
def doeCallbacks (eval : κ → Option ν) (samples : List κ) (db : Db κ ν) : List Nat → Db κ ν
  | [] => db
  | i :: is =>
    match samples[i]? with
    | some x => doeCallbacks eval samples (dbStore db x (eval x)) is
    | none => doeCallbacks eval samples db is

/-- Parallel DOE: pre-seed, callbacks in completion order, clean-up. -/
def doeParallel (eval : κ → Option ν) (samples : List κ) (cbs : List Nat) : Db κ ν :=
  dbRemoveEmpty (doeCallbacks eval samples (doePreseed [] samples) cbs)

/-! ## 3. Shared full cache -/

/-- A full cache at tolerance 0: insertion-ordered list of `(input, output)`; `cache_outputs`
    holds the lock for its whole body, so concurrent calls are a sequence of atomic writes. -/
abbrev Cache (κ ν : Type) := List (κ × ν)

/-- `cache_outputs(input, output)`: if the input is already cached with outputs, nothing is
    written; otherwise a new entry is appended. -/
def cacheOutputs (cch : Cache κ ν) (x : κ) (v : ν) : Cache κ ν :=
  if cch.any (fun e => e.1 = x) then cch else cch ++ [(x, v)]

def cacheLookup (cch : Cache κ ν) (x : κ) : Option ν :=
  (cch.find? (fun e => e.1 = x)).map (·.2)

def cacheWrites (f : κ → ν) (cch : Cache κ ν) : List κ → Cache κ ν
  | [] => cch
  | x :: xs => cacheWrites f (cacheOutputs cch x (f x)) xs

/-! ## 4. Successive `execute()` calls on one executor object

`execute` creates its two queues *inside* the call (`queue.Queue()` / `manager.Queue()`,
callable_parallel_execution.py l.268-276) and returns (or re-raises) only after every worker is
joined.  The executor object keeps `workers`, `n_processes` and `exceptions_to_re_raise`; nothing
else survives a call.  What a call *leaves behind* in its queues (results that were never read
because a re-raised exception stopped the collector) is therefore unreachable for the next call. -/

/-- State in which call `k+1` starts, given the final state `prev` of call `k`: fresh queues,
    fresh workers, fresh `ordered_outputs`.  `prev` is an explicit argument so that the
    independence from the leftovers of the previous call is a statement, not an omission. -/
def nextCall (_prev : State β) (c' : Cfg α β) : State β := init c'

/-- What the code does **not** do (a plausible "optimisation": keep the two queues on the
    executor).  Only used for a counter-example in `Props/C13.lean`. -/
def nextCallReusingQueues (prev : State β) (c' : Cfg α β) : State β :=
  { init c' with queueIn := prev.queueIn, queueOut := prev.queueOut }

/-- An executor object with its current call and the finished calls (most recent first). -/
structure Sess (α β : Type) where
  cfg : Cfg α β
  st : State β
  past : List (Cfg α β × State β)

/-- A session transition: a pool transition of the current call, or a new `execute(inputs)` —
    possible only when the current call has joined its workers (it returned or raised). -/
inductive SOp (α : Type) where
  | op (o : Op)
  | call (inputs : List α)

def sinit (c : Cfg α β) : Sess α β := { cfg := c, st := init c, past := [] }

def sstep? (s : Sess α β) : SOp α → Option (Sess α β)
  | .op o =>
    match step? s.cfg s.st o with
    | some st' => some { s with st := st' }
    | none => none
  | .call xs =>
    if s.st.final then
      let c' : Cfg α β := { s.cfg with inputs := xs }
      some { cfg := c', st := nextCall s.st c', past := (s.cfg, s.st) :: s.past }
    else none

def srun? (s : Sess α β) : List (SOp α) → Option (Sess α β)
  | [] => some s
  | op :: ops =>
    match sstep? s op with
    | some s' => srun? s' ops
    | none => none

/-! ## 5. Shared full cache with outputs *and* Jacobians (`BaseFullCache`, tolerance 0)

`cache_outputs` / `cache_jacobian` (base_full_cache.py l.233-263) both go through
`_cache_inputs` → `__ensure_input_data_exists` (l.109-156), which sets `_last_accessed_index`
to the entry holding `input_data` (existing or newly created); the group is then tested
(`_has_group`) and written **at `_last_accessed_index`**.  Both methods are `@synchronized`,
i.e. atomic with respect to each other; `__getitem__` does not touch `_last_accessed_index`.
The hash → indices dictionary is a private index of "the entry whose inputs equal
`input_data`" and is abstracted to a search by key. -/

structure JEntry (κ ν γ : Type) where
  key : κ
  out : Option ν
  jac : Option γ
  deriving Repr, DecidableEq

structure JCache (κ ν γ : Type) where
  /-- Entry of index `i` (1-based, as `_max_index`) is `entries[i-1]`. -/
  entries : List (JEntry κ ν γ)
  /-- `_last_accessed_index` (0 = nothing accessed yet). -/
  last : Nat
  deriving Repr

variable {γ : Type}

def JCache.empty : JCache κ ν γ := { entries := [], last := 0 }

/-- Position of the entry whose inputs equal `x`. -/
def idxOfKey : List (JEntry κ ν γ) → κ → Option Nat
  | [], _ => none
  | e :: es, x => if e.key = x then some 0 else (idxOfKey es x).map (· + 1)

/-- `_write_data(values, group, index)` seen as a modification of entry `index`. -/
def modifyAt (f : JEntry κ ν γ → JEntry κ ν γ) : List (JEntry κ ν γ) → Nat → List (JEntry κ ν γ)
  | [], _ => []
  | e :: es, 0 => f e :: es
  | e :: es, n + 1 => e :: modifyAt f es n

/-- `__ensure_input_data_exists` followed by the write of the inputs of a new entry:
    returns the cache and "the input data was missing". -/
def jEnsure (c : JCache κ ν γ) (x : κ) : JCache κ ν γ × Bool :=
  match idxOfKey c.entries x with
  | some i => ({ c with last := i + 1 }, false)
  | none => ({ entries := c.entries ++ [{ key := x, out := none, jac := none }],
               last := c.entries.length + 1 }, true)

/-- `_has_group(_last_accessed_index, group)`. -/
def hasOut (c : JCache κ ν γ) : Bool :=
  match c.entries[c.last - 1]? with
  | some e => e.out.isSome
  | none => false

def hasJac (c : JCache κ ν γ) : Bool :=
  match c.entries[c.last - 1]? with
  | some e => e.jac.isSome
  | none => false

/-- `cache_outputs(input_data, output_data)`. -/
def jCacheOutputs (c : JCache κ ν γ) (x : κ) (v : ν) : JCache κ ν γ :=
  let r := jEnsure c x
  if !r.2 && hasOut r.1 then r.1
  else { r.1 with entries := modifyAt (fun e => { e with out := some v }) r.1.entries (r.1.last - 1) }

/-- `cache_jacobian(input_data, jacobian_data)`. -/
def jCacheJacobian (c : JCache κ ν γ) (x : κ) (j : γ) : JCache κ ν γ :=
  let r := jEnsure c x
  if !r.2 && hasJac r.1 then r.1
  else { r.1 with entries := modifyAt (fun e => { e with jac := some j }) r.1.entries (r.1.last - 1) }

/-- `cache[input_data]` (read only). -/
def jLookup (es : List (JEntry κ ν γ)) (x : κ) : Option (JEntry κ ν γ) :=
  es.find? (fun e => e.key = x)

/-- The atomic writes workers perform on the shared cache: worker executing at `x` calls
    `cache_outputs(x, f x)`, worker linearizing at `x` calls `cache_jacobian(x, g x)`. -/
inductive COp (κ : Type) where
  | out (x : κ)
  | jac (x : κ)
  deriving Repr, DecidableEq

def COp.key : COp κ → κ
  | .out x => x
  | .jac x => x

def jApply (f : κ → ν) (g : κ → γ) (c : JCache κ ν γ) : COp κ → JCache κ ν γ
  | .out x => jCacheOutputs c x (f x)
  | .jac x => jCacheJacobian c x (g x)

/-- An interleaving of the workers' atomic cache writes. -/
def jRun (f : κ → ν) (g : κ → γ) (c : JCache κ ν γ) : List (COp κ) → JCache κ ν γ
  | [] => c
  | op :: ops => jRun f g (jApply f g c op) ops

/-- The variant that does **not** move `_last_accessed_index` when the input data is already
    cached.  Only used for a counter-example in `Props/C13.lean`. -/
def jEnsureNoTouch (c : JCache κ ν γ) (x : κ) : JCache κ ν γ × Bool :=
  match idxOfKey c.entries x with
  | some _ => (c, false)
  | none => ({ entries := c.entries ++ [{ key := x, out := none, jac := none }],
               last := c.entries.length + 1 }, true)

def jCacheOutputsNoTouch (c : JCache κ ν γ) (x : κ) (v : ν) : JCache κ ν γ :=
  let r := jEnsureNoTouch c x
  if !r.2 && hasOut r.1 then r.1
  else { r.1 with entries := modifyAt (fun e => { e with out := some v }) r.1.entries (r.1.last - 1) }

def jCacheJacobianNoTouch (c : JCache κ ν γ) (x : κ) (j : γ) : JCache κ ν γ :=
  let r := jEnsureNoTouch c x
  if !r.2 && hasJac r.1 then r.1
  else { r.1 with entries := modifyAt (fun e => { e with jac := some j }) r.1.entries (r.1.last - 1) }

/-! ## 6. Tasks with effects on the objects they run on

The tasks of §1 are pure functions of their input.  The tasks of `DiscParallelExecution`,
`DiscParallelLinearization` and `MDOParallelChain` are calls of `_Functor.__call__` on a *discipline
object*: they read and write the execution status of that object (`ExecutionStatus.handle` refuses to
start from `FAILED`, an exception leaves `FAILED` behind) and a discipline working in place overwrites
the input array it was handed.  `estep?` is the pool of §1 in which `finish w` runs the task on an
object of a memory; which object is given by `obj worker task` (threads: the caller's object whatever
the worker; forked processes: the worker's private copy). -/

structure ECfg (σ β : Type) where
  nTasks : Nat
  nProcs : Nat
  /-- The object (index in the memory) task `i` acts on when worker `w` runs it. -/
  obj : Nat → Nat → Nat
  /-- Running task `i` on an object in state `o`: what is put in `queue_out`, the object afterwards. -/
  body : Nat → σ → Outcome β × σ

structure EState (σ β : Type) where
  pool : State β
  mem : List σ

variable {σ : Type}

/-- The pure configuration with the same tasks, task `i` giving `out i`.  The transitions other than
    `finish` only look at the number of tasks. -/
def ECfg.pure (ec : ECfg σ β) (out : Nat → Outcome β) : Cfg Nat β :=
  ⟨List.range ec.nTasks, [out], ec.nProcs⟩

def einit (ec : ECfg σ β) (mem0 : List σ) : EState σ β :=
  { pool := init (ec.pure (fun _ => .fail)), mem := mem0 }

def estep? (ec : ECfg σ β) (s : EState σ β) : Op → Option (EState σ β)
  | .finish w =>
    match s.pool.workers[w]? with
    | some (.busy i) =>
      match s.mem[ec.obj w i]? with
      | some o =>
        let r := ec.body i o
        some { pool := { s.pool with workers := s.pool.workers.set w .idle,
                                     queueOut := s.pool.queueOut ++ [(i, r.1)] },
               mem := s.mem.set (ec.obj w i) r.2 }
      | none =>
        -- no such object: an `IndexError` inside the worker's `try` block
        some { s with pool := { s.pool with workers := s.pool.workers.set w .idle,
                                            queueOut := s.pool.queueOut ++ [(i, .fail)] } }
    | _ => none
  | .submit => (step? (ec.pure (fun _ => .fail)) s.pool .submit).map (fun p => { s with pool := p })
  | .take w => (step? (ec.pure (fun _ => .fail)) s.pool (.take w)).map (fun p => { s with pool := p })
  | .collect => (step? (ec.pure (fun _ => .fail)) s.pool .collect).map (fun p => { s with pool := p })
  | .shutdown => (step? (ec.pure (fun _ => .fail)) s.pool .shutdown).map (fun p => { s with pool := p })

def erun? (ec : ECfg σ β) (s : EState σ β) : List Op → Option (EState σ β)
  | [] => some s
  | op :: ops =>
    match estep? ec s op with
    | some s' => erun? ec s' ops
    | none => none

/-- Forked workers: every worker gets a private copy of the objects of the main process; the copy of
    object `j` held by worker `w` is at index `w * main.length + j`. -/
def forkMem (main : List σ) (nWorkers : Nat) : List σ := (List.replicate nWorkers main).flatten

/-! ### The objects and tasks of the discipline executors -/

/-- A discipline object together with the input array it holds: `val` the array (a scalar here),
    `failed` = `execution_status.value == FAILED`, `writable` = `flags.writeable` of the array. -/
structure ObjSt where
  val : Rat
  failed : Bool
  writable : Bool
  deriving Repr, DecidableEq

/-- `DiscParallelExecution` / `DiscParallelLinearization(execute=True)` / `(execute=False)`. -/
inductive CallKind where
  | exec
  | lin
  | linNoExec
  deriving Repr, DecidableEq

/-- Where the user code raises: nowhere, in `_run`, in `_compute_jacobian`. -/
inductive Fault where
  | none
  | run
  | jac
  deriving Repr, DecidableEq

/-- One task = one call of `_Functor.__call__(inputs)`. -/
structure DiscCall where
  kind : CallKind
  /-- `some x`: the task brings its own input array (`inputs[i]`, or a copy pickled through the queue);
      `none`: the input is the array the object holds (`MDOParallelChain._get_input_data_copies`). -/
  own : Option Rat
  /-- `_run` multiplies its input array **in place** by `c`. -/
  scale : Option Rat
  /-- Outputs `a x + b` of the (scaled) input, Jacobian `a`. -/
  a : Rat
  b : Rat
  fault : Fault
  /-- The class of the exception the user code raises is in `exceptions_to_re_raise`. -/
  reraised : Bool
  deriving Repr, DecidableEq

def DiscCall.executes (t : DiscCall) : Bool := t.kind != .linNoExec

/-- `discipline.execute(inputs)` / `discipline.linearize(inputs, execute=...)` on an object whose
    status is whatever it is: `ExecutionStatus.handle` refuses to leave `FAILED` (`ValueError`, the
    status stays `FAILED`); an exception of the user code or of numpy (write into a read-only array)
    leaves `FAILED`; a normal end leaves `DONE`. -/
def discCore (t : DiscCall) (o : ObjSt) : Outcome Rat × ObjSt :=
  if o.failed then (.fail, o)
  else
    let x := t.own.getD o.val
    let wr := t.own.isSome || o.writable
    let userErr : Outcome Rat := if t.reraised then .failStop else .fail
    if t.executes && t.fault == .run then (userErr, { o with failed := true })
    else if t.executes && t.scale.isSome && !wr then (.fail, { o with failed := true })
    else
      let x' := if t.executes then (match t.scale with | some c => c * x | none => x) else x
      let o' : ObjSt := if t.own.isSome then o else { o with val := x' }
      if t.kind == .exec then (.ok (t.a * x' + t.b), o')
      else if t.fault == .jac then (userErr, { o' with failed := true })
      else (.ok t.a, o')

/-- `_reset_failed_status(discipline)`. -/
def resetFailed (o : ObjSt) : ObjSt := { o with failed := false }

/-- `_Functor.__call__`: `_reset_failed_status(disc)`, then execute / linearize (both functors, whatever
    `execute`). -/
def discCall (t : DiscCall) (o : ObjSt) : Outcome Rat × ObjSt := discCore t (resetFailed o)

/-- What the code does **not** do (the status reset only when the linearization starts by an
    execution).  Only used for a counter-example in `Props/C13.lean`. -/
def discCallResetIfExecuting (t : DiscCall) (o : ObjSt) : Outcome Rat × ObjSt :=
  discCore t (if t.executes then resetFailed o else o)

/-- The executor of discipline tasks: task `i` is `tasks[i]`, run on object `objOf[i]` of the main
    process (threads) or on the worker's copy of it (forked processes, `nObj` objects per worker). -/
def discECfg (threaded : Bool) (nObj nProcs : Nat) (tasks : List (Nat × DiscCall)) : ECfg ObjSt Rat :=
  { nTasks := tasks.length
    nProcs := nProcs
    obj := fun w i => match tasks[i]? with
      | some t => if threaded then t.1 else w * nObj + t.1
      | none => 0
    body := fun i o => match tasks[i]? with
      | some t => discCall t.2 o
      | none => (.fail, o) }

/-- The memory a call starts with. -/
def discMem (threaded : Bool) (main : List ObjSt) (nTasks nProcs : Nat) : List ObjSt :=
  if threaded then main else forkMem main (min nTasks nProcs)

/-! ## 7. A gradient approximator object whose function takes keyword arguments

`BaseGradientApproximator` (src/gemseo/utils/derivatives/base_gradient_approximator.py) and
`FirstOrderFD` / `CenteredDifferences` / `ComplexStep`.  The parallel branches hand the tasks
`[self._wrap_function] * n` to a `CallableParallelExecution`; `_wrap_function(p)` is
`self.f_pointer(p, **self._function_kwargs)`: a task reads the keyword arguments **held by the object**
when it runs, so they have to be stored before the pool starts (`self._function_kwargs = kwargs` in
`f_gradient`, in `_compute_parallel_grad` and in the parallel branch of `compute_optimal_step`).  The
sequential branches call `self.f_pointer(p, **kwargs)` with the arguments of the current call.
`compute_optimal_step` replaces the default step (`self.step = opt_steps`), which later calls use. -/

/-- The function `f`, and what the approximator does around its evaluations: the points of a call given
    the current step, and the result computed from the values the pool returned (slot by slot). -/
structure ACfg (κ ξ ν ρ : Type) where
  f : ξ → κ → ν
  gradPts : ρ → ξ → List ξ
  gradOf : ρ → ξ → List (Option ν) → ρ
  optPts : ρ → ξ → List ξ
  optOf : ρ → ξ → List (Option ν) → ρ

/-- The approximator object: `_function_kwargs` and `step`. -/
structure AState (κ ρ : Type) where
  kwargs : κ
  step : ρ

/-- A public call: `f_gradient(x, **kw)` or `compute_optimal_step(x, **kw)`. -/
inductive AOp (κ ξ : Type) where
  | grad (x : ξ) (kw : κ)
  | optStep (x : ξ) (kw : κ)

variable {κ ξ ν ρ : Type}

def AOp.kw : AOp κ ξ → κ
  | .grad _ kw => kw
  | .optStep _ kw => kw

def ACfg.pts (c : ACfg κ ξ ν ρ) (step : ρ) : AOp κ ξ → List ξ
  | .grad x _ => c.gradPts step x
  | .optStep x _ => c.optPts step x

def ACfg.combine (c : ACfg κ ξ ν ρ) (step : ρ) : AOp κ ξ → List (Option ν) → ρ
  | .grad x _ => c.gradOf step x
  | .optStep x _ => c.optOf step x

/-- The step after a call: only `compute_optimal_step` replaces it, by its result. -/
def nextStep (step : ρ) : AOp κ ξ → ρ → ρ
  | .grad _ _, _ => step
  | .optStep _ _, r => r

/-- The pool of one parallel call: inputs = the points, `[self._wrap_function] * n` = `n` times the
    callable that evaluates `f` with the keyword arguments **of the object `s`**. -/
def approxPool (c : ACfg κ ξ ν ρ) (nProcs : Nat) (s : AState κ ρ) (pts : List ξ) : Cfg ξ ν :=
  { inputs := pts
    callables := List.replicate pts.length (fun p => .ok (c.f p s.kwargs))
    nProcs := nProcs }

/-- The object when the pool of a call starts: the code stores the keyword arguments of the call. -/
def storeKw (s : AState κ ρ) (op : AOp κ ξ) : AState κ ρ := { s with kwargs := op.kw }

/-- What the code does **not** do (seeded change r3m1): `compute_optimal_step` leaves the keyword arguments
    of the previous call on the object.  Only used for a counter-example. -/
def storeKwGradOnly (s : AState κ ρ) : AOp κ ξ → AState κ ρ
  | .grad _ kw => { s with kwargs := kw }
  | .optStep _ _ => s

/-- One parallel call, the pool being represented by its sequential map (every complete schedule returns it:
    `returns_seqMap_of_no_stop_task`); `store` is the assignment of `_function_kwargs`. -/
def parStepWith (store : AState κ ρ → AOp κ ξ → AState κ ρ) (c : ACfg κ ξ ν ρ) (nProcs : Nat)
    (s : AState κ ρ) (op : AOp κ ξ) : AState κ ρ × ρ :=
  let s1 := store s op
  let r := c.combine s.step op (seqMap (approxPool c nProcs s1 (c.pts s.step op)))
  ({ s1 with step := nextStep s.step op r }, r)

def parStep (c : ACfg κ ξ ν ρ) (nProcs : Nat) := parStepWith storeKw c nProcs

/-- One sequential call: `f(p, **kwargs)` with the arguments of the call; the state is the step. -/
def seqStep (c : ACfg κ ξ ν ρ) (step : ρ) (op : AOp κ ξ) : ρ × ρ :=
  let r := c.combine step op ((c.pts step op).map (fun p => some (c.f p op.kw)))
  (nextStep step op r, r)

def parRunWith (store : AState κ ρ → AOp κ ξ → AState κ ρ) (c : ACfg κ ξ ν ρ) (nProcs : Nat) :
    AState κ ρ → List (AOp κ ξ) → List ρ
  | _, [] => []
  | s, op :: ops => let (s', r) := parStepWith store c nProcs s op; r :: parRunWith store c nProcs s' ops

def parRun (c : ACfg κ ξ ν ρ) (nProcs : Nat) := parRunWith storeKw c nProcs

def seqRun (c : ACfg κ ξ ν ρ) : ρ → List (AOp κ ξ) → List ρ
  | _, [] => []
  | step, op :: ops => let (step', r) := seqStep c step op; r :: seqRun c step' ops

/-- `f(x; scale, shift) = scale (c0 + c1 x + q x²) + shift` (one input, one output; used by the examples). -/
def polyF (c0 c1 q : Rat) (x : Rat) (kw : Rat × Rat) : Rat := kw.1 * (c0 + c1 * x + q * x * x) + kw.2

/-- `f_j(x; scale, shift) = scale (c0_j + Σ_i c_ji x_i + q_j Σ_i (i+1) x_i²) + shift` (the harness function). -/
def vecF (coef : List (List Rat)) (c0 q : List Rat) (x : List Rat) (kw : Rat × Rat) : List Rat :=
  (List.range coef.length).map (fun j =>
    let row := coef.getD j []
    let lin := (List.range x.length).foldl (fun a i => a + row.getD i 0 * x.getD i 0) 0
    let sq := (List.range x.length).foldl (fun a i => a + (((i + 1 : Nat) : Rat)) * x.getD i 0 * x.getD i 0) 0
    kw.1 * (c0.getD j 0 + lin + q.getD j 0 * sq) + kw.2)

/-- The point of a call with its options: `x`, `x_indices` (`[]` = all components), `step=` (`none` = the object's). -/
structure APoint where
  x : List Rat
  idx : List Nat := []
  step : Option Rat := none

/-- `x` with component `i` moved by `h`. -/
def bump (p : APoint) (i : Nat) (h : Rat) : APoint :=
  { p with x := (List.range p.x.length).map (fun k => p.x.getD k 0 + if k = i then h else 0) }

/-- The object's step is `[[h]]`; after `compute_optimal_step` it is that call's (abstract) result. -/
def objStep (st : List (List Rat)) : Rat := (st.getD 0 []).getD 0 0

def APoint.indices (p : APoint) : List Nat := if p.idx.isEmpty then List.range p.x.length else p.idx

def vsub (a b : List Rat) : List Rat := (List.range a.length).map (fun j => a.getD j 0 - b.getD j 0)

/-- `FirstOrderFD` (`centered = false`) and `CenteredDifferences` on `vecF`, statement by statement: the tasks of
    `f_gradient` are `[x, x + h e_i ...]` resp. `[x + h e_i ..., x - h e_i ...]` (`i` over `x_indices`), the Jacobian
    rows are the outputs, the columns the indices; `compute_optimal_step` evaluates `[x, x + h e_i ..., x - h e_i ...]`
    over all components with the object's step; its float formula `2 sqrt(eps |f| / |f''|)` is not rational: the
    result is abstracted to the exact quantities it is computed from, row 0 = `f(x)`, row `i+1` = the second
    differences `f(x + h e_i) - 2 f(x) + f(x - h e_i)` per output. -/
def fdCfg (centered : Bool) (coef : List (List Rat)) (c0 q : List Rat) :
    ACfg (Rat × Rat) APoint (List Rat) (List (List Rat)) :=
  { f := fun p kw => vecF coef c0 q p.x kw
    gradPts := fun st p =>
      let h := p.step.getD (objStep st)
      if centered then p.indices.map (fun i => bump p i h) ++ p.indices.map (fun i => bump p i (-h))
      else p :: p.indices.map (fun i => bump p i h)
    gradOf := fun st p vals =>
      let h := p.step.getD (objStep st)
      let n := p.indices.length
      let v := fun k => (vals.getD k none).getD []
      (List.range coef.length).map (fun j => (List.range n).map (fun k =>
        if centered then ((v k).getD j 0 - (v (n + k)).getD j 0) / (2 * h)
        else ((v (k + 1)).getD j 0 - (v 0).getD j 0) / h))
    optPts := fun st p =>
      let h := objStep st
      let all := List.range p.x.length
      p :: (all.map (fun i => bump p i h) ++ all.map (fun i => bump p i (-h)))
    optOf := fun _ p vals =>
      let n := p.x.length
      let v := fun k => (vals.getD k none).getD []
      v 0 :: (List.range n).map (fun i => vsub (vsub (v (i + 1)) (v 0)) (vsub (v 0) (v (n + i + 1)))) }

/-- The values a parallel call evaluates, in task order (the driver prints them). -/
def parEvals (c : ACfg κ ξ ν ρ) (nProcs : Nat) (s : AState κ ρ) (op : AOp κ ξ) : List (Option ν) :=
  seqMap (approxPool c nProcs (storeKw s op) (c.pts s.step op))

/-! ## 8. The Jacobian and the data of a parallel chain assembled from its disciplines

`MDOParallelChain._execute` / `_compute_jacobian` (src/gemseo/core/chains/parallel_chain.py): after the pool
returned, the disciplines are visited **in chain order**; for the data
`self.io.data.update({o: discipline.io.data[o] for o in discipline.io.output_grammar})`; for the Jacobian, slot
`None` (failed linearization) is skipped, otherwise for every output name `o` of the discipline:
`discipline_jacobian.get(o)` is `None` → `self.jac.pop(o, None)`, else `self.jac[o] = dict(...)`.  Then
`_init_jacobian(..., fill_missing_keys=True)` puts a zero block for every requested pair that is missing.
Dictionaries are functions `name → Option _` (their order is not observable here); names are `Nat`. -/

abbrev Dict (V : Type) := Nat → Option V

def Dict.set {V : Type} (d : Dict V) (k : Nat) (v : V) : Dict V := fun j => if j = k then some v else d j

def Dict.erase {V : Type} (d : Dict V) (k : Nat) : Dict V := fun j => if j = k then none else d j

/-- What the chain knows of one discipline after the pool returned: the names of its output grammar, its
    output values, and its slot in the list returned by `DiscParallelLinearization` (`none` = failed; otherwise the
    dictionary `output name → blocks`, `blocks : input name → Option block`). -/
structure DiscLin (V B : Type) where
  outputs : List Nat
  val : Nat → V
  jac : Option (Dict (Dict B))

variable {V B : Type}

/-- The inner loop of `_compute_jacobian` for one discipline. -/
def mergeOne (acc : Dict (Dict B)) (d : DiscLin V B) : Dict (Dict B) :=
  match d.jac with
  | none => acc
  | some j => d.outputs.foldl (fun a o => match j o with
      | none => a.erase o
      | some b => a.set o b) acc

/-- `self.jac` after the loop over the disciplines. -/
def mergeJac (ds : List (DiscLin V B)) : Dict (Dict B) := ds.foldl mergeOne (fun _ => none)

/-- What the code does **not** do (seeded change r3m2): an output for which the discipline returned no
    Jacobian keeps the entry of an earlier discipline.  Only used for a counter-example. -/
def mergeOneKeep (acc : Dict (Dict B)) (d : DiscLin V B) : Dict (Dict B) :=
  match d.jac with
  | none => acc
  | some j => d.outputs.foldl (fun a o => match j o with
      | none => a
      | some b => a.set o b) acc

def mergeJacKeep (ds : List (DiscLin V B)) : Dict (Dict B) := ds.foldl mergeOneKeep (fun _ => none)

/-- The loop of `_execute` over the disciplines. -/
def mergeDataOne (acc : Dict V) (d : DiscLin V B) : Dict V := d.outputs.foldl (fun a o => a.set o (d.val o)) acc

def mergeData (ds : List (DiscLin V B)) : Dict V := ds.foldl mergeDataOne (fun _ => none)

/-- The last discipline of the chain that computes `o` (among those whose slot satisfies `p`). -/
def lastProducer (p : DiscLin V B → Bool) (ds : List (DiscLin V B)) (o : Nat) : Option (DiscLin V B) :=
  ds.reverse.find? (fun d => p d && d.outputs.contains o)

/-- Block `(o, i)` of the chain Jacobian after `_init_jacobian(fill_missing_keys=True)` (scalar blocks `c I`). -/
def chainBlock (jac : Dict (Dict Rat)) (o i : Nat) : Rat := ((jac o).bind (fun b => b i)).getD 0

end GV.C13
