/-
C13 — model of `CallableParallelExecution.execute` (worker pool), of successive `execute()`
calls on one executor object (§4), of the DOE layer of `BaseDOELibrary._run` (pre-seeded
database, store callback, `remove_empty_entries`), of concurrent `cache_outputs` calls on a
shared full cache (§3) and of `BaseFullCache` with outputs *and* Jacobians written at
`_last_accessed_index` under interleaved `cache_outputs` / `cache_jacobian` calls (§5).

Code anchored:
  src/gemseo/core/parallel_execution/callable_parallel_execution.py
     `_execute_workers` (l.74-96), `_TaskCallables.__call__` (l.112-125), `execute` (l.229-342)
  src/gemseo/core/parallel_execution/disc_parallel_linearization.py  (positional return list)
  src/gemseo/algos/doe/base_doe_library.py `_run`, `__store_in_database`
  src/gemseo/algos/database.py `store`, `remove_empty_entries`
  src/gemseo/caches/base_full_cache.py `__ensure_input_data_exists` (l.109-156), `_cache_inputs`,
     `cache_outputs`, `cache_jacobian` (lock-protected, hence atomic), `__getitem__`

The worker pool is a *nondeterministic transition system*: the operating system decides which
enabled transition fires next.  A schedule is any finite list of enabled transitions.
Import-free (core Lean only) so that the driver can run it.
-/
import GemseoVerif.Model.Common

namespace GV.C13

/-! ## 1. The worker pool -/

/-- What happens when a worker runs a task: a value, an exception that is swallowed, or an
    exception whose class is in `exceptions_to_re_raise`. -/
inductive Outcome (β : Type) where
  | ok (v : β)
  | fail
  | failStop
  deriving Repr, DecidableEq

def Outcome.toOption {β : Type} : Outcome β → Option β
  | .ok v => some v
  | _ => none

def Outcome.isStop {β : Type} : Outcome β → Bool
  | .failStop => true
  | _ => false

/-- The arguments of the executor: `inputs`, the `workers` (callables) and `n_processes`. -/
structure Cfg (α β : Type) where
  inputs : List α
  callables : List (α → Outcome β)
  nProcs : Nat

variable {α β : Type}

def Cfg.nTasks (c : Cfg α β) : Nat := c.inputs.length

/-- `_TaskCallables.__call__(task_index, input_)`: with several callables the one at
    `task_index` is used, otherwise the first one.  A missing callable is an `IndexError` raised
    inside the worker's `try` block, i.e. a swallowed failure. -/
def Cfg.call (c : Cfg α β) (i : Nat) (x : α) : Outcome β :=
  let callable? := if c.callables.length > 1 then c.callables[i]? else c.callables[0]?
  match callable? with
  | some g => g x
  | none => .fail

/-- What running task `i` produces (the worker receives `(i, inputs[i])` from `queue_in`). -/
def Cfg.run (c : Cfg α β) (i : Nat) : Outcome β :=
  match c.inputs[i]? with
  | some x => c.call i x
  | none => .fail

/-- A worker thread/process: waiting on `queue_in.get`, running a task, or returned after
    having read the `None` sentinel. -/
inductive WState where
  | idle
  | busy (i : Nat)
  | exited
  deriving Repr, DecidableEq

structure State (β : Type) where
  /-- `tasks` (indices not yet put in `queue_in`), head = next `tasks.pop()`. -/
  pending : List Nat
  /-- `queue_in`: FIFO of task indices, `none` = the `None` sentinel. -/
  queueIn : List (Option Nat)
  workers : List WState
  /-- `queue_out`: FIFO of `(task_index, output | exception)`. -/
  queueOut : List (Nat × Outcome β)
  /-- `ordered_outputs`. -/
  ordered : List (Option β)
  /-- Calls `callback(index, output)` made so far, in order. -/
  cbLog : List (Nat × β)
  nOutputs : Nat
  stop : Bool
  /-- The variable `output` after the loop (last item read from `queue_out`). -/
  last : Option (Outcome β)
  /-- The sentinels have been put in `queue_in`. -/
  sent : Bool
  /-- Ghost: indices read from `queue_out`, in order (not a variable of the code). -/
  collected : List Nat
  deriving Repr

/-- State after the worker start-up loop (`min(n_tasks, n_processes)` workers), before filling. -/
def init (c : Cfg α β) : State β :=
  { pending := List.range c.nTasks
    queueIn := []
    workers := List.replicate (min c.nTasks c.nProcs) .idle
    queueOut := []
    ordered := List.replicate c.nTasks none
    cbLog := []
    nOutputs := 0
    stop := false
    last := none
    sent := false
    collected := [] }

/-- Transitions. `submit` = one iteration of the filling loop; `take w` = worker `w` returns
    from `queue_in.get`; `finish w` = worker `w` puts its output in `queue_out`;
    `collect` = one iteration of the retrieval loop; `shutdown` = the sentinels are put. -/
inductive Op where
  | submit
  | take (w : Nat)
  | finish (w : Nat)
  | collect
  | shutdown
  deriving Repr, DecidableEq

/-- One transition; `none` when the transition is not enabled in `s`. -/
def step? (c : Cfg α β) (s : State β) : Op → Option (State β)
  | .submit =>
    match s.pending with
    | [] => none
    | i :: rest => some { s with pending := rest, queueIn := s.queueIn ++ [some i] }
  | .take w =>
    match s.workers[w]?, s.queueIn with
    | some .idle, some i :: rest =>
      some { s with workers := s.workers.set w (.busy i), queueIn := rest }
    | some .idle, none :: rest =>
      some { s with workers := s.workers.set w .exited, queueIn := rest }
    | _, _ => none
  | .finish w =>
    match s.workers[w]? with
    | some (.busy i) =>
      some { s with workers := s.workers.set w .idle, queueOut := s.queueOut ++ [(i, c.run i)] }
    | _ => none
  | .collect =>
    if s.pending.isEmpty && !s.sent && s.nOutputs != c.nTasks && !s.stop then
      match s.queueOut with
      | [] => none
      | (i, o) :: rest =>
        let s1 := { s with queueOut := rest, nOutputs := s.nOutputs + 1, last := some o,
                           collected := s.collected ++ [i] }
        match o with
        | .ok v => some { s1 with ordered := s1.ordered.set i (some v), cbLog := s1.cbLog ++ [(i, v)] }
        | .fail => some s1
        | .failStop => some { s1 with stop := true }
    else none
  | .shutdown =>
    if s.pending.isEmpty && !s.sent && (s.nOutputs == c.nTasks || s.stop) then
      some { s with queueIn := s.queueIn ++ List.replicate s.workers.length none, sent := true }
    else none

/-- Run a schedule; `none` as soon as a transition is not enabled. -/
def run? (c : Cfg α β) (s : State β) : List Op → Option (State β)
  | [] => some s
  | op :: ops =>
    match step? c s op with
    | some s' => run? c s' ops
    | none => none

/-- All workers are joined. -/
def State.final (s : State β) : Bool :=
  s.sent && s.workers.all (fun w => w == .exited)

/-- What `execute` does after the join: re-raise the last output, or return the list. -/
inductive Result (β : Type) where
  | raised
  | returned (outs : List (Option β))
  deriving Repr, DecidableEq

def State.result (s : State β) : Result β :=
  match s.last with
  | some .failStop => .raised
  | _ => .returned s.ordered

/-- The sequential reference: `[callable_i(x_i) for i, x_i in enumerate(inputs)]`, `None` for
    a task that raises. -/
def seqMap (c : Cfg α β) : List (Option β) :=
  (List.range c.nTasks).map (fun i => (c.run i).toOption)

/-- The expected callback calls, in input order. -/
def seqCallbacks (c : Cfg α β) : List (Nat × β) :=
  (List.range c.nTasks).filterMap (fun i => (c.run i).toOption.map (fun v => (i, v)))

def busyOf (ws : List WState) : List Nat :=
  ws.filterMap (fun w => match w with | .busy i => some i | _ => none)

def tasksOf (q : List (Option Nat)) : List Nat := q.filterMap id

/-- The greedy sequential schedule used as the existence witness (one worker). -/
def greedyOps : Nat → List Op
  | 0 => []
  | n + 1 => Op.take 0 :: Op.finish 0 :: Op.collect :: greedyOps n

/-! ### `DiscParallelLinearization.execute`: the positional list of Jacobians -/

/-- `[out.jacobian if out is not None else None for out in ordered_outputs]`. -/
def linearizationReturn {γ : Type} (jacOf : β → γ) (ordered : List (Option β)) : List (Option γ) :=
  ordered.map (fun o => o.map jacOf)

/-! ## 2. DOE layer -/

/-- The database: insertion-ordered association list; `none` = an entry without output values
    (`{}`), `some v` = an entry with output values. -/
abbrev Db (κ ν : Type) := List (κ × Option ν)

variable {κ ν : Type} [DecidableEq κ]

/-- `Database.store(x, outputs)`: a new key is appended, an existing key is updated in place
    (`stored_outputs.update(outputs)`; updating with `{}` changes nothing). -/
def dbStore (db : Db κ ν) (x : κ) (o : Option ν) : Db κ ν :=
  match db with
  | [] => [(x, o)]
  | (k, v) :: rest =>
    if k = x then (k, match o with | some w => some w | none => v) :: rest
    else (k, v) :: dbStore rest x o

/-- `Database.remove_empty_entries`. -/
def dbRemoveEmpty (db : Db κ ν) : Db κ ν :=
  db.filter (fun e => e.2.isSome)

/-- Sequential DOE: samples evaluated in order; a sample whose evaluation raises is skipped. -/
def doeSequential (eval : κ → Option ν) (db : Db κ ν) : List κ → Db κ ν
  | [] => db
  | x :: xs =>
    match eval x with
    | some v => doeSequential eval (dbStore db x (some v)) xs
    | none => doeSequential eval db xs

/-- Pre-seeding loop `for sample in samples: database.store(sample, {})`. -/
def doePreseed (db : Db κ ν) : List κ → Db κ ν
  | [] => db
  | x :: xs => doePreseed (dbStore db x none) xs

/-- The store callback applied in the order `cbs` in which the collector retrieves results
    (`cbs` = indices of successful samples, in completion order). -/
def doeCallbacks (eval : κ → Option ν) (samples : List κ) (db : Db κ ν) : List Nat → Db κ ν
  | [] => db
  | i :: is =>
    match samples[i]? with
    | some x => doeCallbacks eval samples (dbStore db x (eval x)) is
    | none => doeCallbacks eval samples db is

/-- Parallel DOE: pre-seed, callbacks in completion order, clean-up. -/
def doeParallel (eval : κ → Option ν) (samples : List κ) (cbs : List Nat) : Db κ ν :=
  dbRemoveEmpty (doeCallbacks eval samples (doePreseed [] samples) cbs)

/-! ## 3. Shared full cache -/

/-- A full cache at tolerance 0: insertion-ordered list of `(input, output)`; `cache_outputs`
    holds the lock for its whole body, so concurrent calls are a sequence of atomic writes. -/
abbrev Cache (κ ν : Type) := List (κ × ν)

/-- `cache_outputs(input, output)`: if the input is already cached with outputs, nothing is
    written; otherwise a new entry is appended. -/
def cacheOutputs (cch : Cache κ ν) (x : κ) (v : ν) : Cache κ ν :=
  if cch.any (fun e => e.1 = x) then cch else cch ++ [(x, v)]

def cacheLookup (cch : Cache κ ν) (x : κ) : Option ν :=
  (cch.find? (fun e => e.1 = x)).map (·.2)

def cacheWrites (f : κ → ν) (cch : Cache κ ν) : List κ → Cache κ ν
  | [] => cch
  | x :: xs => cacheWrites f (cacheOutputs cch x (f x)) xs

/-! ## 4. Successive `execute()` calls on one executor object

`execute` creates its two queues *inside* the call (`queue.Queue()` / `manager.Queue()`,
callable_parallel_execution.py l.268-276) and returns (or re-raises) only after every worker is
joined.  The executor object keeps `workers`, `n_processes` and `exceptions_to_re_raise`; nothing
else survives a call.  What a call *leaves behind* in its queues (results that were never read
because a re-raised exception stopped the collector) is therefore unreachable for the next call. -/

/-- State in which call `k+1` starts, given the final state `prev` of call `k`: fresh queues,
    fresh workers, fresh `ordered_outputs`.  `prev` is an explicit argument so that the
    independence from the leftovers of the previous call is a statement, not an omission. -/
def nextCall (_prev : State β) (c' : Cfg α β) : State β := init c'

/-- What the code does **not** do (a plausible "optimisation": keep the two queues on the
    executor).  Only used for a counter-example in `Props/C13.lean`. -/
def nextCallReusingQueues (prev : State β) (c' : Cfg α β) : State β :=
  { init c' with queueIn := prev.queueIn, queueOut := prev.queueOut }

/-- An executor object with its current call and the finished calls (most recent first). -/
structure Sess (α β : Type) where
  cfg : Cfg α β
  st : State β
  past : List (Cfg α β × State β)

/-- A session transition: a pool transition of the current call, or a new `execute(inputs)` —
    possible only when the current call has joined its workers (it returned or raised). -/
inductive SOp (α : Type) where
  | op (o : Op)
  | call (inputs : List α)

def sinit (c : Cfg α β) : Sess α β := { cfg := c, st := init c, past := [] }

def sstep? (s : Sess α β) : SOp α → Option (Sess α β)
  | .op o =>
    match step? s.cfg s.st o with
    | some st' => some { s with st := st' }
    | none => none
  | .call xs =>
    if s.st.final then
      let c' : Cfg α β := { s.cfg with inputs := xs }
      some { cfg := c', st := nextCall s.st c', past := (s.cfg, s.st) :: s.past }
    else none

def srun? (s : Sess α β) : List (SOp α) → Option (Sess α β)
  | [] => some s
  | op :: ops =>
    match sstep? s op with
    | some s' => srun? s' ops
    | none => none

/-! ## 5. Shared full cache with outputs *and* Jacobians (`BaseFullCache`, tolerance 0)

`cache_outputs` / `cache_jacobian` (base_full_cache.py l.233-263) both go through
`_cache_inputs` → `__ensure_input_data_exists` (l.109-156), which sets `_last_accessed_index`
to the entry holding `input_data` (existing or newly created); the group is then tested
(`_has_group`) and written **at `_last_accessed_index`**.  Both methods are `@synchronized`,
i.e. atomic with respect to each other; `__getitem__` does not touch `_last_accessed_index`.
The hash → indices dictionary is a private index of "the entry whose inputs equal
`input_data`" and is abstracted to a search by key. -/

structure JEntry (κ ν γ : Type) where
  key : κ
  out : Option ν
  jac : Option γ
  deriving Repr, DecidableEq

structure JCache (κ ν γ : Type) where
  /-- Entry of index `i` (1-based, as `_max_index`) is `entries[i-1]`. -/
  entries : List (JEntry κ ν γ)
  /-- `_last_accessed_index` (0 = nothing accessed yet). -/
  last : Nat
  deriving Repr

variable {γ : Type}

def JCache.empty : JCache κ ν γ := { entries := [], last := 0 }

/-- Position of the entry whose inputs equal `x`. -/
def idxOfKey : List (JEntry κ ν γ) → κ → Option Nat
  | [], _ => none
  | e :: es, x => if e.key = x then some 0 else (idxOfKey es x).map (· + 1)

/-- `_write_data(values, group, index)` seen as a modification of entry `index`. -/
def modifyAt (f : JEntry κ ν γ → JEntry κ ν γ) : List (JEntry κ ν γ) → Nat → List (JEntry κ ν γ)
  | [], _ => []
  | e :: es, 0 => f e :: es
  | e :: es, n + 1 => e :: modifyAt f es n

/-- `__ensure_input_data_exists` followed by the write of the inputs of a new entry:
    returns the cache and "the input data was missing". -/
def jEnsure (c : JCache κ ν γ) (x : κ) : JCache κ ν γ × Bool :=
  match idxOfKey c.entries x with
  | some i => ({ c with last := i + 1 }, false)
  | none => ({ entries := c.entries ++ [{ key := x, out := none, jac := none }],
               last := c.entries.length + 1 }, true)

/-- `_has_group(_last_accessed_index, group)`. -/
def hasOut (c : JCache κ ν γ) : Bool :=
  match c.entries[c.last - 1]? with
  | some e => e.out.isSome
  | none => false

def hasJac (c : JCache κ ν γ) : Bool :=
  match c.entries[c.last - 1]? with
  | some e => e.jac.isSome
  | none => false

/-- `cache_outputs(input_data, output_data)`. -/
def jCacheOutputs (c : JCache κ ν γ) (x : κ) (v : ν) : JCache κ ν γ :=
  let r := jEnsure c x
  if !r.2 && hasOut r.1 then r.1
  else { r.1 with entries := modifyAt (fun e => { e with out := some v }) r.1.entries (r.1.last - 1) }

/-- `cache_jacobian(input_data, jacobian_data)`. -/
def jCacheJacobian (c : JCache κ ν γ) (x : κ) (j : γ) : JCache κ ν γ :=
  let r := jEnsure c x
  if !r.2 && hasJac r.1 then r.1
  else { r.1 with entries := modifyAt (fun e => { e with jac := some j }) r.1.entries (r.1.last - 1) }

/-- `cache[input_data]` (read only). -/
def jLookup (es : List (JEntry κ ν γ)) (x : κ) : Option (JEntry κ ν γ) :=
  es.find? (fun e => e.key = x)

/-- The atomic writes workers perform on the shared cache: worker executing at `x` calls
    `cache_outputs(x, f x)`, worker linearizing at `x` calls `cache_jacobian(x, g x)`. -/
inductive COp (κ : Type) where
  | out (x : κ)
  | jac (x : κ)
  deriving Repr, DecidableEq

def COp.key : COp κ → κ
  | .out x => x
  | .jac x => x

def jApply (f : κ → ν) (g : κ → γ) (c : JCache κ ν γ) : COp κ → JCache κ ν γ
  | .out x => jCacheOutputs c x (f x)
  | .jac x => jCacheJacobian c x (g x)

/-- An interleaving of the workers' atomic cache writes. -/
def jRun (f : κ → ν) (g : κ → γ) (c : JCache κ ν γ) : List (COp κ) → JCache κ ν γ
  | [] => c
  | op :: ops => jRun f g (jApply f g c op) ops

/-- The variant that does **not** move `_last_accessed_index` when the input data is already
    cached.  Only used for a counter-example in `Props/C13.lean`. -/
def jEnsureNoTouch (c : JCache κ ν γ) (x : κ) : JCache κ ν γ × Bool :=
  match idxOfKey c.entries x with
  | some _ => (c, false)
  | none => ({ entries := c.entries ++ [{ key := x, out := none, jac := none }],
               last := c.entries.length + 1 }, true)

def jCacheOutputsNoTouch (c : JCache κ ν γ) (x : κ) (v : ν) : JCache κ ν γ :=
  let r := jEnsureNoTouch c x
  if !r.2 && hasOut r.1 then r.1
  else { r.1 with entries := modifyAt (fun e => { e with out := some v }) r.1.entries (r.1.last - 1) }

def jCacheJacobianNoTouch (c : JCache κ ν γ) (x : κ) (j : γ) : JCache κ ν γ :=
  let r := jEnsureNoTouch c x
  if !r.2 && hasJac r.1 then r.1
  else { r.1 with entries := modifyAt (fun e => { e with jac := some j }) r.1.entries (r.1.last - 1) }

/-! ## 6. Tasks with effects on the objects they run on

The tasks of §1 are pure functions of their input.  The tasks of `DiscParallelExecution`,
`DiscParallelLinearization` and `MDOParallelChain` are calls of `_Functor.__call__` on a *discipline
object*: they read and write the execution status of that object (`ExecutionStatus.handle` refuses to
start from `FAILED`, an exception leaves `FAILED` behind) and a discipline working in place overwrites
the input array it was handed.  `estep?` is the pool of §1 in which `finish w` runs the task on an
object of a memory; which object is given by `obj worker task` (threads: the caller's object whatever
the worker; forked processes: the worker's private copy). -/

structure ECfg (σ β : Type) where
  nTasks : Nat
  nProcs : Nat
  /-- The object (index in the memory) task `i` acts on when worker `w` runs it. -/
  obj : Nat → Nat → Nat
  /-- Running task `i` on an object in state `o`: what is put in `queue_out`, the object afterwards. -/
  body : Nat → σ → Outcome β × σ

structure EState (σ β : Type) where
  pool : State β
  mem : List σ

variable {σ : Type}

/-- The pure configuration with the same tasks, task `i` giving `out i`.  The transitions other than
    `finish` only look at the number of tasks. -/
def ECfg.pure (ec : ECfg σ β) (out : Nat → Outcome β) : Cfg Nat β :=
  ⟨List.range ec.nTasks, [out], ec.nProcs⟩

def einit (ec : ECfg σ β) (mem0 : List σ) : EState σ β :=
  { pool := init (ec.pure (fun _ => .fail)), mem := mem0 }

def estep? (ec : ECfg σ β) (s : EState σ β) : Op → Option (EState σ β)
  | .finish w =>
    match s.pool.workers[w]? with
    | some (.busy i) =>
      match s.mem[ec.obj w i]? with
      | some o =>
        let r := ec.body i o
        some { pool := { s.pool with workers := s.pool.workers.set w .idle,
                                     queueOut := s.pool.queueOut ++ [(i, r.1)] },
               mem := s.mem.set (ec.obj w i) r.2 }
      | none =>
        -- no such object: an `IndexError` inside the worker's `try` block
        some { s with pool := { s.pool with workers := s.pool.workers.set w .idle,
                                            queueOut := s.pool.queueOut ++ [(i, .fail)] } }
    | _ => none
  | .submit => (step? (ec.pure (fun _ => .fail)) s.pool .submit).map (fun p => { s with pool := p })
  | .take w => (step? (ec.pure (fun _ => .fail)) s.pool (.take w)).map (fun p => { s with pool := p })
  | .collect => (step? (ec.pure (fun _ => .fail)) s.pool .collect).map (fun p => { s with pool := p })
  | .shutdown => (step? (ec.pure (fun _ => .fail)) s.pool .shutdown).map (fun p => { s with pool := p })

def erun? (ec : ECfg σ β) (s : EState σ β) : List Op → Option (EState σ β)
  | [] => some s
  | op :: ops =>
    match estep? ec s op with
    | some s' => erun? ec s' ops
    | none => none

/-- Forked workers: every worker gets a private copy of the objects of the main process; the copy of
    object `j` held by worker `w` is at index `w * main.length + j`. -/
def forkMem (main : List σ) (nWorkers : Nat) : List σ := (List.replicate nWorkers main).flatten

/-! ### The objects and tasks of the discipline executors -/

/-- A discipline object together with the input array it holds: `val` the array (a scalar here),
    `failed` = `execution_status.value == FAILED`, `writable` = `flags.writeable` of the array. -/
structure ObjSt where
  val : Rat
  failed : Bool
  writable : Bool
  deriving Repr, DecidableEq

/-- `DiscParallelExecution` / `DiscParallelLinearization(execute=True)` / `(execute=False)`. -/
inductive CallKind where
  | exec
  | lin
  | linNoExec
  deriving Repr, DecidableEq

/-- Where the user code raises: nowhere, in `_run`, in `_compute_jacobian`. -/
inductive Fault where
  | none
  | run
  | jac
  deriving Repr, DecidableEq

/-- One task = one call of `_Functor.__call__(inputs)`. -/
structure DiscCall where
  kind : CallKind
  /-- `some x`: the task brings its own input array (`inputs[i]`, or a copy pickled through the queue);
      `none`: the input is the array the object holds (`MDOParallelChain._get_input_data_copies`). -/
  own : Option Rat
  /-- `_run` multiplies its input array **in place** by `c`. -/
  scale : Option Rat
  /-- Outputs `a x + b` of the (scaled) input, Jacobian `a`. -/
  a : Rat
  b : Rat
  fault : Fault
  /-- The class of the exception the user code raises is in `exceptions_to_re_raise`. -/
  reraised : Bool
  deriving Repr, DecidableEq

def DiscCall.executes (t : DiscCall) : Bool := t.kind != .linNoExec

/-- `discipline.execute(inputs)` / `discipline.linearize(inputs, execute=...)` on an object whose
    status is whatever it is: `ExecutionStatus.handle` refuses to leave `FAILED` (`ValueError`, the
    status stays `FAILED`); an exception of the user code or of numpy (write into a read-only array)
    leaves `FAILED`; a normal end leaves `DONE`. -/
def discCore (t : DiscCall) (o : ObjSt) : Outcome Rat × ObjSt :=
  if o.failed then (.fail, o)
  else
    let x := t.own.getD o.val
    let wr := t.own.isSome || o.writable
    let userErr : Outcome Rat := if t.reraised then .failStop else .fail
    if t.executes && t.fault == .run then (userErr, { o with failed := true })
    else if t.executes && t.scale.isSome && !wr then (.fail, { o with failed := true })
    else
      let x' := if t.executes then (match t.scale with | some c => c * x | none => x) else x
      let o' : ObjSt := if t.own.isSome then o else { o with val := x' }
      if t.kind == .exec then (.ok (t.a * x' + t.b), o')
      else if t.fault == .jac then (userErr, { o' with failed := true })
      else (.ok t.a, o')

/-- `_reset_failed_status(discipline)`. -/
def resetFailed (o : ObjSt) : ObjSt := { o with failed := false }

/-- `_Functor.__call__`: `_reset_failed_status(disc)`, then execute / linearize (both functors, whatever
    `execute`). -/
def discCall (t : DiscCall) (o : ObjSt) : Outcome Rat × ObjSt := discCore t (resetFailed o)

/-- What the code does **not** do (the status reset only when the linearization starts by an
    execution).  Only used for a counter-example in `Props/C13.lean`. -/
def discCallResetIfExecuting (t : DiscCall) (o : ObjSt) : Outcome Rat × ObjSt :=
  discCore t (if t.executes then resetFailed o else o)

/-- The executor of discipline tasks: task `i` is `tasks[i]`, run on object `objOf[i]` of the main
    process (threads) or on the worker's copy of it (forked processes, `nObj` objects per worker). -/
def discECfg (threaded : Bool) (nObj nProcs : Nat) (tasks : List (Nat × DiscCall)) : ECfg ObjSt Rat :=
  { nTasks := tasks.length
    nProcs := nProcs
    obj := fun w i => match tasks[i]? with
      | some t => if threaded then t.1 else w * nObj + t.1
      | none => 0
    body := fun i o => match tasks[i]? with
      | some t => discCall t.2 o
      | none => (.fail, o) }

/-- The memory a call starts with. -/
def discMem (threaded : Bool) (main : List ObjSt) (nTasks nProcs : Nat) : List ObjSt :=
  if threaded then main else forkMem main (min nTasks nProcs)

end GV.C13
