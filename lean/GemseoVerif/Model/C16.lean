/-
C16 — executable model of the derivative approximators of GEMSEO
(`gemseo.utils.derivatives`): `FirstOrderFD`, `CenteredDifferences`, `ComplexStep`
(`generate_perturbations`/`_generate_perturbations`, `_compute_grad`,
`_compute_parallel_grad`, `f_gradient`) and of the Jacobian assembly of
`DisciplineJacApprox` (`compute_approx_jac`, `_compute_variable_indices`,
`check_jacobian`).

Numbers are exact rationals; complex numbers are Gaussian rationals (`GRat`).
The differentiated function is a parameter (`f : List Rat → List Rat`,
`fc : List GRat → List GRat` for the complex step).  The driver instantiates it
with integer-coefficient multivariate polynomials (`Poly`).

Code anchored: src/gemseo/utils/derivatives/{base_gradient_approximator,
finite_differences,centered_differences,complex_step,derivatives_approx}.py.

Import-free (core Lean + Model/Common) so that the driver can run it.
-/
import GemseoVerif.Model.Common

namespace GV.C16

/-! ### Vectors -/

abbrev Vec := List Rat

def absR (r : Rat) : Rat := if r < 0 then -r else r

/-- Component `i` of a vector (0 outside; indices are validated separately). -/
def getR (x : Vec) (i : Nat) : Rat := x.getD i 0

/-- `x + d·e_i` : the column of `input_perturbations` attached to component `i`
    (`tile(x).reshape(..).T` then `[i, k] += d`). -/
def bump (x : Vec) (i : Nat) (d : Rat) : Vec := x.set i (getR x i + d)

/-- `(a - b) / d` componentwise (`(perturbated_output - initial_output) / step[k]`). -/
def colDiff (a b : Vec) (d : Rat) : Vec := List.zipWith (fun p q => (p - q) / d) a b

/-- `numpy.linalg.norm` of a vector with at most one non-zero component is the sum of the
    absolute values (theorem `norm1_sq` in Props ties it to the Euclidean norm). -/
def norm1 (v : Vec) : Rat := (v.map absR).sum

def vsub (a b : Vec) : Vec := List.zipWith (fun p q => p - q) a b

/-! ### Arguments of `f_gradient` -/

/-- The `step` argument: one scalar, or one value per *input component*
    (`DisciplineJacApprox`: "an iterable of floats with the same length as the inputs"). -/
inductive Step where
  | scalar (h : Rat)
  | vec (hs : List Rat)
  deriving Repr

/-- Step attached to input component `i`
    (`generate_perturbations`: `step = asarray(step)[x_indices]` for per-component steps). -/
def Step.at : Step → Nat → Rat
  | .scalar h, _ => h
  | .vec hs, i => hs.getD i 0

/-- `x_indices` empty means all components (`if not x_indices: x_indices = range(n_dim)`). -/
def effIndices (n : Nat) (idx : List Nat) : List Nat :=
  if idx.isEmpty then List.range n else idx

/-- The optional design space: physical bounds (`none` = infinite) and the `normalize` flag
    of the approximator. -/
structure Space where
  lb : List (Option Rat)
  ub : List (Option Rat)
  normalize : Bool
  deriving Repr

/-- A component is normalised by `DesignSpace.normalize_vect` iff both bounds are finite. -/
def Space.isNorm (sp : Space) (i : Nat) : Bool :=
  sp.normalize && (sp.lb.getD i none).isSome && (sp.ub.getD i none).isSome

/-- A frozen component: its two bounds are finite and equal.  `DesignSpace.normalize_vect`
    divides by `where(ub - lb == 0, 1, ub - lb)`, so both normalised bounds of such a component
    are `0` (the working interval is `[0, 0]`, not `[0, 1]`). -/
def Space.isFrozen (sp : Space) (i : Nat) : Bool :=
  match sp.lb.getD i none, sp.ub.getD i none with
  | some l, some u => l == u
  | _, _ => false

/-- Upper bound in the working space: `normalize_vect(get_upper_bounds())[i]` or `get_upper_bounds()[i]`. -/
def Space.ubW (sp : Space) (i : Nat) : Option Rat :=
  if sp.isNorm i then (if sp.isFrozen i then some 0 else some 1) else sp.ub.getD i none

/-- Lower bound in the working space. -/
def Space.lbW (sp : Space) (i : Nat) : Option Rat :=
  if sp.isNorm i then some 0 else sp.lb.getD i none

/-- What the numpy fancy indexing accepts: every index in range, a step vector of length `n`. -/
def validArgs (n : Nat) (idx : List Nat) (s : Step) : Bool :=
  idx.all (· < n) &&
  match s with
  | .scalar _ => true
  | .vec hs => hs.length == n

/-! ### First-order finite differences (`FirstOrderFD`) -/

/-- Signed step of component `i`: backward (`-h`) iff the forward point would exceed the
    working-space upper bound (`where(x[i] + step > upper_bounds[i], -step, step)`). -/
def fdStep (sp : Option Space) (x : Vec) (s : Step) (i : Nat) : Rat :=
  let h := s.at i
  match sp with
  | none => h
  | some sp =>
    match sp.ubW i with
    | none => h
    | some u => if u < getR x i + h then -h else h

/-- `_generate_perturbations`: the perturbed points (columns) and the signed steps. -/
def fdGenerate (sp : Option Space) (x : Vec) (s : Step) (idx : List Nat) : List Vec × List Rat :=
  (idx.map (fun i => bump x i (fdStep sp x s i)), idx.map (fun i => fdStep sp x s i))

/-- `_compute_grad`: one call at `x`, then one call per perturbed point, in order. -/
def fdCompute (f : Vec → Vec) (x : Vec) (pts : List Vec) (steps : List Rat) : List Vec :=
  let f0 := f x
  (pts.zip steps).map (fun pd => colDiff (f pd.1) f0 pd.2)

/-- `_compute_parallel_grad`: all outputs first (`execute([x, *perturbed])`), then the quotients
    by position. -/
def fdComputePar (f : Vec → Vec) (x : Vec) (pts : List Vec) (steps : List Rat) : List Vec :=
  let outs := (x :: pts).map f
  let f0 := outs.headD []
  (List.range pts.length).map (fun k => colDiff (outs.getD (k + 1) []) f0 (steps.getD k 0))

/-- `f_gradient` (list of columns = the code's `gradient` list before `array(...).T`). -/
def fdGrad (f : Vec → Vec) (sp : Option Space) (x : Vec) (s : Step) (idx : List Nat) : List Vec :=
  let g := fdGenerate sp x s (effIndices x.length idx)
  fdCompute f x g.1 g.2

def fdGradPar (f : Vec → Vec) (sp : Option Space) (x : Vec) (s : Step) (idx : List Nat) : List Vec :=
  let g := fdGenerate sp x s (effIndices x.length idx)
  fdComputePar f x g.1 g.2

/-- Points at which the function is called by `fdGrad`, in call order. -/
def fdCalls (sp : Option Space) (x : Vec) (s : Step) (idx : List Nat) : List Vec :=
  x :: (fdGenerate sp x s (effIndices x.length idx)).1

/-! ### Centered differences (`CenteredDifferences`) -/

/-- `exceeds_upper_bounds[k]`: the forward point `x[i] + h` would exceed the upper bound. -/
def cdFwdBlocked (sp : Option Space) (x : Vec) (s : Step) (i : Nat) : Bool :=
  match sp with
  | none => false
  | some sp =>
    match sp.ubW i with
    | none => false
    | some u => decide (u < getR x i + s.at i)

/-- Forward half step: `0` iff `x[i] + h` would exceed the upper bound
    (`where(exceeds_upper_bounds, 0, step)`). -/
def cdPlus (sp : Option Space) (x : Vec) (s : Step) (i : Nat) : Rat :=
  if cdFwdBlocked sp x s i then 0 else s.at i

/-- Backward half step: `0` iff `x[i] - h` would fall below the lower bound *and* the forward
    point is admissible (`where((x - step < lower_bounds) & ~exceeds_upper_bounds, 0, -step)`):
    when both directions leave the bounds the backward point is used, as `FirstOrderFD` does. -/
def cdMinus (sp : Option Space) (x : Vec) (s : Step) (i : Nat) : Rat :=
  let h := s.at i
  match sp with
  | none => -h
  | some sp' =>
    match sp'.lbW i with
    | none => -h
    | some l => if getR x i - h < l ∧ cdFwdBlocked sp x s i = false then 0 else -h

/-- `_generate_perturbations`: the `k` forward points followed by the `k` backward points. -/
def cdGenerate (sp : Option Space) (x : Vec) (s : Step) (idx : List Nat) : List Vec :=
  idx.map (fun i => bump x i (cdPlus sp x s i)) ++ idx.map (fun i => bump x i (cdMinus sp x s i))

/-- `_compute_grad`: pairs (plus, minus) from the two halves; quotient by `norm(plus - minus)`. -/
def cdCompute (f : Vec → Vec) (pts : List Vec) : List Vec :=
  let k := pts.length / 2
  ((pts.take k).zip ((pts.drop k).take k)).map
    (fun pm => colDiff (f pm.1) (f pm.2) (norm1 (vsub pm.1 pm.2)))

/-- `_compute_parallel_grad`: all outputs first, then the same pairing by position. -/
def cdComputePar (f : Vec → Vec) (pts : List Vec) : List Vec :=
  let outs := pts.map f
  let k := pts.length / 2
  (List.range k).map (fun j =>
    colDiff (outs.getD j []) (outs.getD (k + j) [])
      (norm1 (vsub (pts.getD j []) (pts.getD (k + j) []))))

def cdGrad (f : Vec → Vec) (sp : Option Space) (x : Vec) (s : Step) (idx : List Nat) : List Vec :=
  cdCompute f (cdGenerate sp x s (effIndices x.length idx))

def cdGradPar (f : Vec → Vec) (sp : Option Space) (x : Vec) (s : Step) (idx : List Nat) : List Vec :=
  cdComputePar f (cdGenerate sp x s (effIndices x.length idx))

/-- Call order of the serial code: plus_0, minus_0, plus_1, minus_1, … -/
def cdCalls (sp : Option Space) (x : Vec) (s : Step) (idx : List Nat) : List Vec :=
  let pts := cdGenerate sp x s (effIndices x.length idx)
  let k := pts.length / 2
  (((pts.take k).zip ((pts.drop k).take k)).map (fun pm => [pm.1, pm.2])).flatten

/-! ### Complex step (`ComplexStep`) over Gaussian rationals -/

structure GRat where
  re : Rat
  im : Rat
  deriving Repr, DecidableEq

namespace GRat
def ofRat (r : Rat) : GRat := ⟨r, 0⟩
def add (a b : GRat) : GRat := ⟨a.re + b.re, a.im + b.im⟩
def mul (a b : GRat) : GRat := ⟨a.re * b.re - a.im * b.im, a.re * b.im + a.im * b.re⟩
def smul (c : Rat) (a : GRat) : GRat := ⟨c * a.re, c * a.im⟩
def npow (a : GRat) : Nat → GRat
  | 0 => ⟨1, 0⟩
  | n + 1 => mul (npow a n) a
instance : Add GRat := ⟨add⟩
instance : Mul GRat := ⟨mul⟩
end GRat

abbrev CVec := List GRat

/-- `where(x == 0, 1, x)[i]`: the complex step is relative to the component unless it is zero. -/
def xnnz (x : Vec) (i : Nat) : Rat := if getR x i = 0 then 1 else getR x i

/-- Imaginary perturbation of component `i`: `x_nnz[i] * step`. -/
def csDelta (x : Vec) (s : Step) (i : Nat) : Rat := xnnz x i * s.at i

/-- Column `k` of `input_perturbations` (`zeros((n, k), complex)`, `[i, k] = 1j * x_nnz * step`). -/
def csPert (n : Nat) (x : Vec) (s : Step) (i : Nat) : CVec :=
  (List.replicate n (⟨0, 0⟩ : GRat)).set i ⟨0, csDelta x s i⟩

def csGenerate (x : Vec) (s : Step) (idx : List Nat) : List CVec :=
  idx.map (fun i => csPert x.length x s i)

def cadd (x : Vec) (p : CVec) : CVec := List.zipWith (fun r z => GRat.add (GRat.ofRat r) z) x p

/-- Sum of the imaginary parts of a perturbation column (= its single non-zero entry). -/
def imSum (p : CVec) : Rat := (p.map (·.im)).sum

/-- `_compute_grad`: `f(x + pert_k).imag / pert_k.imag.sum()`. -/
def csCompute (fc : CVec → CVec) (x : Vec) (perts : List CVec) : List Vec :=
  perts.map (fun p => (fc (cadd x p)).map (fun z => z.im / imSum p))

def csComputePar (fc : CVec → CVec) (x : Vec) (perts : List CVec) : List Vec :=
  let inputs := perts.map (cadd x)
  let outs := inputs.map fc
  (List.range perts.length).map (fun k =>
    (outs.getD k []).map (fun z => z.im / imSum (perts.getD k [])))

def csGrad (fc : CVec → CVec) (x : Vec) (s : Step) (idx : List Nat) : List Vec :=
  csCompute fc x (csGenerate x s (effIndices x.length idx))

def csGradPar (fc : CVec → CVec) (x : Vec) (s : Step) (idx : List Nat) : List Vec :=
  csComputePar fc x (csGenerate x s (effIndices x.length idx))

def csCalls (x : Vec) (s : Step) (idx : List Nat) : List CVec :=
  (csGenerate x s (effIndices x.length idx)).map (cadd x)

/-! ### Result array: `array(grad).T` -/

/-- Row `j` of the returned Jacobian: component `j` of every column. -/
def rowsOf (m : Nat) (cols : List Vec) : List Vec :=
  (List.range m).map (fun j => cols.map (fun c => getR c j))

/-! ### Polynomials (the function family of the driver) -/

structure Mono where
  coef : Rat
  exps : List Nat
  deriving Repr

abbrev Poly := List Mono

def rpow (b : Rat) : Nat → Rat
  | 0 => 1
  | n + 1 => rpow b n * b

def prodR : List Rat → Rat
  | [] => 1
  | a :: t => a * prodR t

def prodG : List GRat → GRat
  | [] => ⟨1, 0⟩
  | a :: t => GRat.mul a (prodG t)

def sumG : List GRat → GRat
  | [] => ⟨0, 0⟩
  | a :: t => GRat.add a (sumG t)

def Mono.eval (m : Mono) (x : Vec) : Rat :=
  m.coef * prodR (List.zipWith rpow x m.exps)

def Mono.evalG (m : Mono) (z : CVec) : GRat :=
  GRat.smul m.coef (prodG (List.zipWith GRat.npow z m.exps))

def Poly.eval (p : Poly) (x : Vec) : Rat := (p.map (·.eval x)).sum
def Poly.evalG (p : Poly) (z : CVec) : GRat := sumG (p.map (·.evalG z))

/-- A vector function given by one polynomial per output component. -/
def polyFun (ps : List Poly) : Vec → Vec := fun x => ps.map (·.eval x)
def polyFunG (ps : List Poly) : CVec → CVec := fun z => ps.map (·.evalG z)

/-! ### `DisciplineJacApprox` : placement of the partial Jacobian and splitting by names -/

/-- `flat_jac_complete = zeros((m, n)); flat_jac_complete[:, x_indices] = flat_jac`
    as a list of `n` columns (later assignments win when an index is repeated);
    with no `x_indices` the flat Jacobian is used as it is. -/
def placeCols (m n : Nat) (idx : List Nat) (cols : List Vec) : List Vec :=
  if idx.isEmpty then cols
  else (idx.zip cols).foldl (fun acc ic => acc.set ic.1 ic.2) (List.replicate n (List.replicate m 0))

/-- Start offsets of consecutive blocks of the given sizes. -/
def offsets : List Nat → List Nat
  | [] => []
  | s :: t => 0 :: (offsets t).map (· + s)

/-- `split_array_to_dict_of_arrays`: block (output `a`, input `b`) as a list of rows. -/
def block (rows : List Vec) (ro rs co cs : Nat) : List Vec :=
  ((rows.drop ro).take rs).map (fun r => (r.drop co).take cs)

/-- Per-variable component selection of `check_jacobian(indices=…)`:
    `none` = all components (missing name, `...`, `None`). -/
abbrev Sel := Option (List Nat)

def selLocal (size : Nat) : Sel → List Nat
  | none => List.range size
  | some l => l

/-- `_compute_variable_indices`: global indices (in name order, offset by position). -/
def globalIndices : List Nat → List Sel → Nat → List Nat
  | [], _, _ => []
  | s :: ss, sels, pos =>
    (selLocal s (sels.headD none)).map (· + pos) ++ globalIndices ss sels.tail (pos + s)

/-- `numpy.allclose(a, b, atol=t, rtol=t)` on one entry: `|a - b| ≤ t + t·|b|`. -/
def closeEntry (t a b : Rat) : Bool := absR (a - b) ≤ t + t * absR b

end GV.C16

namespace GV.C16

/-- `DisciplineJacApprox.check_jacobian(indices=…)` on flat Jacobians (lists of rows): every
    selected entry of the analytic Jacobian is close to the approximated one. The code iterates over
    (output name, input name) blocks with local indices; globally this is the product of the
    selected rows and columns. -/
def checkJac (t : Rat) (analytic approx : List Vec) (rows cols : List Nat) : Bool :=
  rows.all (fun r => cols.all (fun c =>
    closeEntry t (getR (analytic.getD r []) c) (getR (approx.getD r []) c)))

end GV.C16

namespace GV.C16

/-- The only state of a gradient approximator that `f_gradient`/`generate_perturbations` read:
    the default step (`self.step`, set by the constructor or the `step` setter). -/
structure Approx where
  step : Step

def Approx.setStep (_ : Approx) (s : Step) : Approx := ⟨s⟩

/-- `if step is None: step = self.step`. -/
def Approx.resolve (a : Approx) (arg : Option Step) : Step := arg.getD a.step

/-- `generate_perturbations` of the three schemes as the list of columns of the returned array
    (complex step: the imaginary parts, the real parts are zero). -/
def fdPerts (sp : Option Space) (x : Vec) (s : Step) (idx : List Nat) : List Vec :=
  (fdGenerate sp x s (effIndices x.length idx)).1

def fdSteps (sp : Option Space) (x : Vec) (s : Step) (idx : List Nat) : List Rat :=
  (fdGenerate sp x s (effIndices x.length idx)).2

def cdPerts (sp : Option Space) (x : Vec) (s : Step) (idx : List Nat) : List Vec :=
  cdGenerate sp x s (effIndices x.length idx)

def csPerts (x : Vec) (s : Step) (idx : List Nat) : List Vec :=
  (csGenerate x s (effIndices x.length idx)).map (fun p => p.map (·.im))

end GV.C16

namespace GV.C16

/-! ### `DisciplineJacApprox.compute_approx_jac`: requests made to ONE approximation object

A discipline has named inputs / outputs of given sizes (positions in the grammars) and a function of the
flat vector of *all* its inputs (`f`, over the rationals; `fc`, over the Gaussian rationals for the complex
step).  A request names outputs and inputs (in any order) and optionally `x_indices`; it is served at the
current local data `x` of the discipline (`Discipline.linearize` executes the discipline first):

* `_create_approximator`: `self.func = generator.get_function(input_names, output_names)` — a
  `DisciplineAdapter` which writes its argument into the requested inputs (`overwrite`), leaves the other
  inputs at their *current* values (repaired tree `_create_approximator`/`compute_approx_jac`; the pinned tree
  let them fall back to the default inputs), executes the discipline and concatenates the requested outputs
  (`pick`) —, and a new gradient approximator on that function with the step of the object;
* `x_vect = convert_data_to_array(input_names, discipline.io.data)` (`pick`);
* `1 < len(step) != len(x_vect)` → `ValueError`;
* `f_gradient(x_vect, x_indices, step)`, `flat_jac_complete[:, x_indices] = flat_jac` (`placeCols`),
  `split_array_to_dict_of_arrays` by the sizes of the requested names, in the order of the request (`block`).

The object keeps `self.func`, `self.approximator` (overwritten by every request) and `self.step`. -/

inductive Scheme where
  | fd | cd | cs
  deriving Repr, DecidableEq

/-- Flat components of the named variables (`a` = position of the name in the grammar), in the order of the
    names: `convert_data_to_array(names, data)` concatenates the values in that order. -/
def compsOf (sizes : List Nat) (names : List Nat) : List Nat :=
  names.flatMap (fun a => (List.range (sizes.getD a 0)).map (· + (sizes.take a).sum))

/-- `x[comps[k]] := v[k]` for every `k` (later assignments win): the argument of the adapter written into
    the data of the discipline. -/
def overwriteL {α : Type} (x : List α) (comps : List Nat) (v : List α) : List α :=
  (comps.zip v).foldl (fun acc cv => acc.set cv.1 cv.2) x

/-- The values of the given components, in order. -/
def pickL {α : Type} (d : α) (comps : List Nat) (y : List α) : List α := comps.map (fun j => y.getD j d)

def pick (comps : List Nat) (y : Vec) : Vec := pickL 0 comps y
def pickG (comps : List Nat) (y : CVec) : CVec := pickL ⟨0, 0⟩ comps y

/-- The function handed to the gradient approximator: argument → requested inputs (`fic`), the other inputs
    at their current values `x`, requested outputs (`foc`). -/
def reqFun (f : Vec → Vec) (x : Vec) (fic foc : List Nat) : Vec → Vec :=
  fun v => pick foc (f (overwriteL x fic v))

def reqFunG (fc : CVec → CVec) (x : Vec) (fic foc : List Nat) : CVec → CVec :=
  fun v => pickG foc (fc (overwriteL (x.map GRat.ofRat) fic v))

structure Disc where
  inSizes : List Nat
  outSizes : List Nat
  f : Vec → Vec
  fc : CVec → CVec

structure Request where
  outs : List Nat
  ins : List Nat
  xidx : List Nat
  deriving Repr

/-- `Inconsistent step size` / numpy's fancy indexing: what `compute_approx_jac` accepts. -/
def reqValid (D : Disc) (s : Step) (r : Request) : Bool :=
  validArgs (compsOf D.inSizes r.ins).length r.xidx s

/-- The flat Jacobian (list of columns) of a request when the current function of the object embeds the names
    `fnames = (inputs, outputs)` (`self.func`) while `x_vect` is built from the names of the request. -/
def reqColsWith (sch : Scheme) (par : Bool) (D : Disc) (x : Vec) (s : Step) (fnames : List Nat × List Nat)
    (r : Request) : List Vec :=
  let fic := compsOf D.inSizes fnames.1
  let foc := compsOf D.outSizes fnames.2
  let xv := pick (compsOf D.inSizes r.ins) x
  match sch, par with
  | .fd, false => fdGrad (reqFun D.f x fic foc) none xv s r.xidx
  | .fd, true => fdGradPar (reqFun D.f x fic foc) none xv s r.xidx
  | .cd, false => cdGrad (reqFun D.f x fic foc) none xv s r.xidx
  | .cd, true => cdGradPar (reqFun D.f x fic foc) none xv s r.xidx
  | .cs, false => csGrad (reqFunG D.fc x fic foc) xv s r.xidx
  | .cs, true => csGradPar (reqFunG D.fc x fic foc) xv s r.xidx

/-- `flat_jac_complete` as rows, then the block of the `a`-th requested output name and the `b`-th requested
    input name (`split_array_to_dict_of_arrays` with the sizes of the requested names, in their order). -/
def reqBlock (D : Disc) (r : Request) (cols : List Vec) (a b : Nat) : List Vec :=
  let m := (compsOf D.outSizes r.outs).length
  let n := (compsOf D.inSizes r.ins).length
  let rows := rowsOf m (placeCols m n r.xidx cols)
  let rsz := r.outs.map (fun a => D.outSizes.getD a 0)
  let csz := r.ins.map (fun b => D.inSizes.getD b 0)
  block rows ((rsz.take a).sum) (rsz.getD a 0) ((csz.take b).sum) (csz.getD b 0)

/-- One block per (output name, input name) of the request, outputs first. -/
def splitBlocks (D : Disc) (r : Request) (cols : List Vec) : List (List Vec) :=
  (List.range r.outs.length).flatMap (fun a => (List.range r.ins.length).map (fun b => reqBlock D r cols a b))

/-- A fresh object serving the request: the function is built from the names of the request. -/
def reqCols (sch : Scheme) (par : Bool) (D : Disc) (x : Vec) (s : Step) (r : Request) : List Vec :=
  reqColsWith sch par D x s (r.ins, r.outs) r

def reqBlocks (sch : Scheme) (par : Bool) (D : Disc) (x : Vec) (s : Step) (r : Request) : List (List Vec) :=
  splitBlocks D r (reqCols sch par D x s r)

/-- The state of a `DisciplineJacApprox`: `self.step` and the names embedded in `self.func`
    (`none` before the first request). -/
structure JacApprox where
  step : Step
  func : Option (List Nat × List Nat)

/-- `_create_approximator(output_names, input_names)`: a new function and a new approximator, always. -/
def JacApprox.create (st : JacApprox) (r : Request) : JacApprox := { st with func := some (r.ins, r.outs) }

inductive JOp where
  /-- `approximation.step = s` -/
  | setStep (s : Step)
  /-- `compute_approx_jac(outs, ins, x_indices)` with the local data `x` of the discipline -/
  | request (x : Vec) (r : Request)

/-- One operation: the new state and what is returned (`none`: nothing / an exception). -/
def JacApprox.op (sch : Scheme) (par : Bool) (D : Disc) (st : JacApprox) : JOp → JacApprox × Option (List (List Vec))
  | .setStep s => ({ st with step := s }, none)
  | .request x r =>
    let st' := st.create r
    if !reqValid D st'.step r then (st', none) else
    match st'.func with
    | some fn => (st', some (splitBlocks D r (reqColsWith sch par D x st'.step fn r)))
    | none => (st', none)

def JacApprox.run (sch : Scheme) (par : Bool) (D : Disc) (st : JacApprox) : List JOp → JacApprox × List (Option (List (List Vec)))
  | [] => (st, [])
  | o :: rest =>
    let r1 := st.op sch par D o
    let r2 := JacApprox.run sch par D r1.1 rest
    (r2.1, r1.2 :: r2.2)

/-- The step in force after a history. -/
def stepAfter (s : Step) : List JOp → Step
  | [] => s
  | .setStep t :: rest => stepAfter t rest
  | .request _ _ :: rest => stepAfter s rest

/-! ## The default inputs of the discipline and the point of a request

`Discipline.execute(input_data)` / `linearize(input_data)` / `check_jacobian(input_data)` complete the passed input
data with the DEFAULT inputs (`io.input_grammar.defaults`): the point of a request is defined by the passed values
and by the defaults.  `DisciplineJacApprox.compute_approx_jac` runs the approximator inside
`__hold_other_inputs(input_names)`: on entry `defaults.update(held_values)` (the current values of the inputs that
are not differentiated), on exit every held name gets its saved original default back, one by one.
`Discipline.check_jacobian(auto_set_step=True)` first calls `auto_set_step`, which executes the discipline at
perturbed default inputs (the local data are left at the last of these points), *then* `linearize(input_data)`,
then the approximation at the local data. -/

/-- Input data completed by the default inputs: the components `given` take the passed values (read from `v`, a
    vector over all the input components of which only the given ones matter), the others the defaults. -/
def complete (defaults : Vec) (given : List Nat) (v : Vec) : Vec :=
  overwriteL defaults given (pick given v)

/-- The input components that are not differentiated (`name not in input_names`; the harness disciplines have no
    input that is also an output). -/
def heldOf (n : Nat) (fic : List Nat) : List Nat := (List.range n).filter (fun g => !fic.contains g)

/-- `__hold_other_inputs`, entry: `defaults.update(held_values)`. -/
def holdEnter (defaults data : Vec) (held : List Nat) : Vec := overwriteL defaults held (pick held data)

/-- `__hold_other_inputs`, exit: `defaults[name] = original_values[name]` for every held name. -/
def holdExit (defaults saved : Vec) (held : List Nat) : Vec := overwriteL defaults held (pick held saved)

/-- The input side of a discipline: its default inputs and its local data (flat, all input components). -/
structure DState where
  defaults : Vec
  data : Vec
  deriving Repr

inductive DOp where
  /-- the execution at `input_data` (names `given` passed, values read from `v`) -/
  | execute (given : List Nat) (v : Vec)
  /-- `compute_approx_jac` at the local data, inside `__hold_other_inputs` -/
  | approx (r : Request)
  /-- `auto_set_step`: executions at perturbed default inputs, the local data are left at `last` -/
  | autoStep (last : Vec)

/-- One operation on a discipline with step `s` in force: new state, returned blocks. -/
def DState.op (sch : Scheme) (par : Bool) (D : Disc) (s : Step) (st : DState) : DOp → DState × Option (List (List Vec))
  | .execute given v => ({ st with data := complete st.defaults given v }, none)
  | .autoStep last => ({ st with data := last }, none)
  | .approx r =>
    let held := heldOf st.defaults.length (compsOf D.inSizes r.ins)
    let inside := holdEnter st.defaults st.data held
    -- inside the context the adapter evaluates `f (overwriteL inside fic v)`: see `hold_gives_current_point`
    let ans := if reqValid D s r then some (reqBlocks sch par D st.data s r) else none
    ({ st with defaults := holdExit inside st.defaults held }, ans)

def DState.run (sch : Scheme) (par : Bool) (D : Disc) (s : Step) (st : DState) : List DOp → DState × List (Option (List (List Vec)))
  | [] => (st, [])
  | o :: rest =>
    let r1 := st.op sch par D s o
    let r2 := DState.run sch par D s r1.1 rest
    (r2.1, r1.2 :: r2.2)

/-- `linearize(input_data)` in an approximation mode. -/
def linearizeOps (given : List Nat) (v : Vec) (r : Request) : List DOp := [.execute given v, .approx r]

/-- `check_jacobian(input_data, auto_set_step=auto)`: the reference Jacobian. -/
def checkOps (auto : Bool) (last : Vec) (given : List Nat) (v : Vec) (r : Request) : List DOp :=
  (if auto then [DOp.autoStep last] else []) ++ linearizeOps given v r

end GV.C16
