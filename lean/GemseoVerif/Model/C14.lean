/-
C14 — executable model of the GEMSEO-owned part of the DOE pipeline
(`src/gemseo/algos/doe/base_doe_library.py`, `utils/seeder.py`, the designs GEMSEO implements itself:
`diagonal_doe`, `oat_doe`, `morris_doe`, `custom_doe`, `base_full_factorial_doe`, the pyDOE / OpenTURNS
post-processing of `pydoe.py`, `pydoe_full_factorial_doe.py`, `openturns/_algos/*.py`).

The design space is the C02 model (`GemseoVerif.Model.C02`): `untransform_vect` is C02's
`unnormalizeVect` with the integer normalisation switch enabled (affine map, then round half even on
the integer components).  The third-party samplers (SciPy QMC, OpenTURNS, pyDOE) are *parameters*:
a function from the effective seed to a matrix of unit samples (`none` = the sampler raises).

Numbers are exact rationals.  Core Lean only (+ the C02 model).
-/
import GemseoVerif.Model.C02

namespace GV.C14
open GV GV.C02

abbrev Matrix := List (List Rat)

/-! ## 1. Unit hypercube → design space -/

/-- Per-component data `(isInteger, lower bound, upper bound)`. -/
abbrev Comp := Bool × Option Rat × Option Rat

/-- The components of one variable, in the order of its entries. -/
def varComps (v : Var) : List Comp := List.zipWith (fun l u => (v.isInt, l, u)) v.lb v.ub

/-- The components of the design space **in the design-space variable order**. -/
def comps (d : DS) : List Comp := d.vars.flatMap varComps

/-- One component of `untransform_vect` while the integer normalisation is enabled:
    `t * (ub - lb) + lb` on bounded components, then `numpy.round` on integer ones. -/
def untransformComp (c : Comp) (t : Rat) : Rat :=
  roundIf c.1 (unnormComp true (c.2.1.isSome && c.2.2.isSome) c.2.1 c.2.2 t)

/-- One component of `transform_vect` while the integer normalisation is enabled. -/
def transformComp (c : Comp) (x : Rat) : Rat :=
  normComp true (c.2.1.isSome && c.2.2.isSome) c.2.1 c.2.2 x

/-- `design_space.untransform_vect(u, no_check=True)` as called by the DOE library, i.e. with
    `enable_integer_variables_normalization = True`. -/
def untransform (d : DS) (u : List Rat) : List Rat := (d.setIntNorm true).unnormalizeVect true u

/-- `design_space.transform_vect(x)` with the integer normalisation enabled (CustomDOE). -/
def transform (d : DS) (x : List Rat) : List Rat := (d.setIntNorm true).normalizeVect true x

/-- The same map written variable by variable: the block of `u` at a variable's index range is mapped
    with that variable's own bounds and type (this *is* the "design-space variable order"). -/
def untransformVar (v : Var) (u : List Rat) : List Rat := List.zipWith untransformComp (varComps v) u

def untransformByVar (d : DS) (u : List Rat) : List (String × List Rat) :=
  List.zipWith (fun v b => (v.name, untransformVar v b)) d.vars (splitBySizes d.sizes u)

/-- A component a DOE can fill: finite bounds `lb ≤ ub`, integral when the variable is an integer. -/
def compOk (c : Comp) : Bool :=
  match c.2.1, c.2.2 with
  | some l, some u => decide (l ≤ u) && (!c.1 || (isIntegral l && isIntegral u))
  | _, _ => false

/-- "Bounded design space" of the property: every variable has as many lower as upper bounds, all
    finite, ordered, and integral for integer variables (what `add_variable` accepts + finiteness). -/
def boundedOk (d : DS) : Bool :=
  d.vars.all (fun v => v.lb.length == v.ub.length && (varComps v).all compOk)

def falseIdxAux : List Bool → Nat → List Nat
  | [], _ => []
  | b :: bs, i => if b then falseIdxAux bs (i + 1) else i :: falseIdxAux bs (i + 1)

/-- `__check_unnormalization_capability`: the components whose normalisation flag is 0 (evaluated
    after the integer normalisation has been enabled); non-empty ⇒ `ValueError`. -/
def unboundedComponents (d : DS) : List Nat := falseIdxAux (d.setIntNorm true).normMask 0

/-! ## 2. The seed generator (`utils/seeder.py`) -/

structure Seeder where
  defaultSeed : Int := 0
  deriving Repr, DecidableEq

/-- `get_seed(seed)`: the default seed is incremented on *every* call; an explicit seed wins. -/
def Seeder.getSeed (s : Seeder) (seed : Option Int) : Seeder × Int :=
  let s' : Seeder := { defaultSeed := s.defaultSeed + 1 }
  (s', match seed with
       | none => s'.defaultSeed
       | some k => k)

/-- A sequence of calls: final state and the seeds returned. -/
def Seeder.run (s : Seeder) : List (Option Int) → Seeder × List Int
  | [] => (s, [])
  | r :: rs =>
    let (s1, k) := s.getSeed r
    let (s2, ks) := Seeder.run s1 rs
    (s2, k :: ks)

/-! ## 3. The pipeline of `compute_doe` and `execute` (`_pre_run`) -/

inductive Fail where
  | unbounded   -- `__check_unnormalization_capability`
  | settings    -- pydantic validation of the settings
  | sampler     -- `_generate_unit_samples` raised (e.g. too few samples for the design)
  | dimension   -- CustomDOE: samples of the wrong dimension
  deriving Repr, DecidableEq

/-- One request.  The sampler is the third-party part. -/
structure Req where
  unitSampling : Bool := false
  /-- `_USE_UNIT_HYPERCUBE` (False for CustomDOE: no capability check). -/
  useUnitHypercube : Bool := true
  /-- CustomDOE: the sampler returns *physical* samples, mapped by `transform_vect`. -/
  custom : Bool := false
  /-- Outcome of the validation of the settings. -/
  settingsOk : Bool := true
  /-- Whether the algorithm asks the `Seeder` for a seed. -/
  usesSeed : Bool := false
  /-- The `seed` / `random_state` setting. -/
  seed : Option Int := none
  /-- effective seed ↦ samples (`none`: raises). -/
  sampler : Int → Option Matrix

structure Lib where
  seeder : Seeder := {}
  unitSamples : Matrix := []
  samples : Matrix := []

structure Outcome where
  ds : DS
  lib : Lib
  result : Except Fail Matrix

/-- `_generate_unit_samples`: the seed is drawn first, then the sampler is called; CustomDOE checks the
    dimension and maps the given samples with `transform_vect` (current normalisation switch). -/
def generate (d : DS) (lib : Lib) (r : Req) : Lib × Except Fail Matrix :=
  let (lib1, eff) :=
    if r.usesSeed then
      let (s', k) := lib.seeder.getSeed r.seed
      ({ lib with seeder := s' }, k)
    else (lib, 0)
  match r.sampler eff with
  | none => (lib1, .error .sampler)
  | some m =>
    if r.custom then
      if m.all (fun row => row.length == d.dimension) then
        (lib1, .ok (m.map (d.normalizeVect true)))
      else (lib1, .error .dimension)
    else (lib1, .ok m)

/-- Enabling the integer normalisation if it was disabled (`__enable_integer_variables_normalization`),
    and the reset of the `finally` clause (`__reset_integer_variables_normalization`). -/
def enter (d : DS) (enabled : Bool) : DS := if enabled then d.setIntNorm true else d
def leave (d1 : DS) (enabled : Bool) : DS := if enabled then d1.setIntNorm false else d1

/-- Body of `compute_doe` (the `try` block), on the design space with the switch already set. -/
def computeBody (d1 : DS) (lib : Lib) (r : Req) : Lib × Except Fail Matrix :=
  if !r.unitSampling && r.useUnitHypercube && !(unboundedComponents d1).isEmpty then
    (lib, .error .unbounded)
  else if !r.settingsOk then (lib, .error .settings)
  else
    match generate d1 lib r with
    | (lib1, .error e) => (lib1, .error e)
    | (lib1, .ok us) =>
      if r.unitSampling then (lib1, .ok us)
      else (lib1, .ok (us.map (d1.unnormalizeVect true)))

/-- `compute_doe(design_space, unit_sampling, **settings)`.  The integer normalisation is enabled
    for the duration of the call (not for `unit_sampling`) and restored whatever the outcome
    (`try … finally`). -/
def computeDoe (d : DS) (lib : Lib) (r : Req) : Outcome :=
  let enabled := !r.unitSampling && !d.intNorm
  let d1 := enter d enabled
  let out := computeBody d1 lib r
  ⟨leave d1 enabled, out.1, out.2⟩

/-- Body of `_pre_run` (the `try` block): the results are kept in `unit_samples` / `samples`. -/
def preRunBody (d1 : DS) (lib : Lib) (r : Req) : Lib × Except Fail Matrix :=
  if r.useUnitHypercube && !(unboundedComponents d1).isEmpty then (lib, .error .unbounded)
  else
    match generate d1 lib r with
    | (lib1, .error e) => (lib1, .error e)
    | (lib1, .ok us) =>
      ({ lib1 with unitSamples := us, samples := us.map (d1.unnormalizeVect true) },
       .ok (us.map (d1.unnormalizeVect true)))

/-- `_pre_run` of `execute`: same pipeline (the settings have been validated by `execute` before). -/
def preRun (d : DS) (lib : Lib) (r : Req) : Outcome :=
  let enabled := !d.intNorm
  let d1 := enter d enabled
  let out := preRunBody d1 lib r
  ⟨leave d1 enabled, out.1, out.2⟩

/-- Keys of the database after a sequential `execute`: the samples in generation order, a point
    evaluated twice being stored once (first occurrence). -/
def firstOcc : Matrix → Matrix
  | [] => []
  | x :: xs => x :: (firstOcc xs).filter (fun y => y != x)

/-! ## 4. Count rules of the designs -/

/-- Bisection for the integer `d`-th root: invariant `lo^d ≤ n < hi^d`. -/
def irootAux (n d : Nat) : Nat → Nat → Nat → Nat
  | 0, lo, _ => lo
  | fuel + 1, lo, hi =>
    if hi ≤ lo + 1 then lo
    else
      let mid := (lo + hi) / 2
      if mid ^ d ≤ n then irootAux n d fuel mid hi else irootAux n d fuel lo mid

/-- `⌊n^(1/d)⌋`: the largest `k` with `k^d ≤ n` (for `d ≥ 1`). -/
def iroot (n d : Nat) : Nat := irootAux n d (n + 2) 0 (n + 1)

/-- `_compute_fullfact_levels(n_samples, dimension)`: levels per direction. -/
def fullfactLevels (n d : Nat) : Nat := iroot n d
def fullfactCount (n d : Nat) : Nat := (fullfactLevels n d) ^ d

/-- DiagonalDOE: `n` points (settings require `n ≥ 2`). -/
def diagonalCount (n : Nat) : Option Nat := if n < 2 then none else some n

/-- OATDOE from one initial point in dimension `d`. -/
def oatCount (d : Nat) : Nat := d + 1

/-- MorrisDOE: `r = n // (d+1)` replicates of an OAT design; rejected when `r = 0`. -/
def morrisReplicates (n d : Nat) : Nat := n / (d + 1)
def morrisCount (n d : Nat) : Option Nat :=
  if morrisReplicates n d = 0 then none else some (morrisReplicates n d * (d + 1))

/-- OT_AXIAL / OT_FACTORIAL / OT_COMPOSITE: number of levels deduced from `n`, then the size of the
    stratified design (centre + per level: `2d` axial points and/or `2^d` factorial points). -/
def axialLevels (n d : Nat) : Nat := (n - 1) / (2 * d)
def axialCount (n d : Nat) : Option Nat :=
  if axialLevels n d < 1 then none else some (1 + 2 * d * axialLevels n d)
def factorialLevels (n d : Nat) : Nat := (n - 1) / 2 ^ d
def factorialCount (n d : Nat) : Option Nat :=
  if factorialLevels n d < 1 then none else some (1 + 2 ^ d * factorialLevels n d)
def compositeLevels (n d : Nat) : Nat := (n - 1) / (2 * d + 2 ^ d)
def compositeCount (n d : Nat) : Option Nat :=
  if compositeLevels n d < 1 then none else some (1 + compositeLevels n d * (2 * d + 2 ^ d))

/-- OT_SOBOL_INDICES.  GEMSEO computes the sub-sample size `N` from `n` (block `2d+2` with
    second-order indices in dimension > 2, else `d+2`), then `openturns.SobolIndicesExperiment`
    returns `N (d + 2)` points, or `N (2 d + 2)` with second-order indices in dimension ≠ 2.
    The two blocks differ for `d = 1` with second-order indices (see `Props/C14`). -/
def sobolSubSize (n d : Nat) (second : Bool) : Nat :=
  if second && d > 2 then n / (2 * d + 2) else n / (d + 2)
def sobolBlock (d : Nat) (second : Bool) : Nat := if second && d != 2 then 2 * d + 2 else d + 2
def sobolIndicesCount (n d : Nat) (second : Bool) : Option Nat :=
  if sobolSubSize n d second = 0 then none else some (sobolSubSize n d second * sobolBlock d second)

/-! ## 5. The unit designs GEMSEO computes itself -/

/-- `numpy.linspace(a, b, n)[i]`. -/
def linspace (a b : Rat) (n i : Nat) : Rat :=
  if n ≤ 1 then a else a + (i : Rat) * ((b - a) / ((n - 1 : Nat) : Rat))

/-- DiagonalDOE: row `i` has `linspace(0,1,n)[i]` in every direction (`linspace(1,0,n)[i]` in the
    reversed ones). -/
def diagonal (n : Nat) (rev : List Bool) : Matrix :=
  (List.range n).map (fun i => rev.map (fun r => if r then linspace 1 0 n i else linspace 0 1 n i))

/-- OATDOE: one coordinate move. -/
def oatStep (step t : Rat) : Rat := if t + step > 1 then t - step else t + step

def oatFrom (step : Rat) : List Rat → List Rat → Matrix
  | _, [] => []
  | pre, t :: ts => (pre ++ oatStep step t :: ts) :: oatFrom step (pre ++ [oatStep step t]) ts

/-- OATDOE: the initial point, then one move per coordinate, cumulated. -/
def oat (step : Rat) (x0 : List Rat) : Matrix := x0 :: oatFrom step [] x0

/-- MorrisDOE: the OAT designs of the initial points, stacked. -/
def morris (step : Rat) (initials : Matrix) : Matrix := initials.flatMap (oat step)

/-- pyDOE `fullfact(levels)` (integer grid, first factor fastest), row `i`. -/
def gridRowAux : List Nat → Nat → List Nat
  | [], _ => []
  | l :: ls, i => (i % l) :: gridRowAux ls (i / l)

def gridRows (levels : List Nat) : List (List Nat) :=
  (List.range (levels.foldl (· * ·) 1)).map (gridRowAux levels)

/-- `PyDOEFullFactorialDOE._generate_fullfact_from_levels`: level index `k` of `L` levels ↦ `k/(L-1)`,
    and `1/2` when there is a single level. -/
def ffScale (L k : Nat) : Rat := if L ≤ 1 then 1 / 2 else (k : Rat) / ((L - 1 : Nat) : Rat)

def pydoeFullfact (levels : List Nat) : Matrix :=
  (gridRows levels).map (fun row => List.zipWith ffScale levels row)

/-- `PyDOELibrary.__scale`: `[-1,1] → [0,1]`. -/
def pydoeScale (x : Rat) : Rat := (x + 1) * (1 / 2)

/-- `BaseOTStratifiedDOE.generate_samples`: OpenTURNS sample `x ∈ [0,1]` around the centre `1/2`
    ↦ position around the user's centre `c`. -/
def stratMap (c x : Rat) : Rat :=
  let s := (x - 1 / 2) * 2
  if s ≥ 0 then c + s * (1 - c) else c + s * c

/-- Levels used when `n_samples` is given: `linspace(0, 1, L + 1)[1:] / 2`. -/
def stratLevels (L : Nat) : List Rat := (List.range L).map (fun k => linspace 0 1 (L + 1) (k + 1) / 2)

/-- `OTCenteredLHS`: centre of the cell of an LHS sample, `(⌊s n⌋ + 1/2) / n`. -/
def lhsCentered (n : Nat) (s : Rat) : Rat := ((((s * (n : Rat)).floor : Int) : Rat) + 1 / 2) / (n : Rat)

/-- `OTFullFactorialDOE._generate_fullfact_from_levels`: a direction with fewer than 2 levels is fixed
    at 1/2, the others come from `openturns.Box` (parameter `box`, columns in order). -/
def otFullfactFill (levels : List Nat) (boxRow : List Rat) : List Rat :=
  match levels, boxRow with
  | [], _ => []
  | l :: ls, [] => (if l < 2 then (1 / 2 : Rat) else 0) :: otFullfactFill ls []
  | l :: ls, b :: bs => if l < 2 then (1 / 2 : Rat) :: otFullfactFill ls (b :: bs) else b :: otFullfactFill ls bs

/-! ## 6. The design-space *object* between two DOEs: cached normalisation data, sessions

`DesignSpace` keeps the arrays used by `normalize_vect` / `unnormalize_vect` / `round_vect` in private
attributes computed by `__update_normalization_vars` and guarded by the flag `__norm_data_is_computed`;
every edit that can change them resets the flag.  A DOE run on a design space that has already been
used (an earlier DOE, a normalisation query) and edited since reads this cache.  The C02 model derives
every view from the list of variables; here the cache is modelled as it exists in the code, and
`Props/C14` proves that it can never be observed (for every history of edits, queries and DOEs). -/

/-- What `__update_normalization_vars` stores. -/
structure NormData where
  /-- `__lower_bounds_array` -/
  lb : List (Option Rat) := []
  /-- `__upper_bounds_array` -/
  ub : List (Option Rat) := []
  /-- `__norm_inds`, as a mask over the components -/
  normMask : List Bool := []
  /-- `__integer_components` (`__no_integer` is "none of them") -/
  intMask : List Bool := []
  deriving Repr, DecidableEq

/-- The data computed from the variables as they are now. -/
def NormData.of (d : DS) : NormData := ⟨d.flatLb, d.flatUb, d.normMask, d.intMask⟩

/-- `unnormalize_vect(u, minus_lb=True)` evaluated on the stored arrays. -/
def NormData.unnormalize (c : NormData) (u : List Rat) : List Rat :=
  List.zipWith roundIf c.intMask
    (zipWith4 (fun n l b ui => unnormComp true n l b ui) c.normMask c.lb c.ub u)

/-- `normalize_vect(x, minus_lb=True)` evaluated on the stored arrays. -/
def NormData.normalize (c : NormData) (x : List Rat) : List Rat :=
  zipWith4 (fun n l u xi => normComp true n l u xi) c.normMask c.lb c.ub x

/-- The design-space object: its variables and switch (`ds`), the flag `__norm_data_is_computed`
    and whatever was stored by the last `__update_normalization_vars` (stale when the flag is off). -/
structure CDS where
  ds : DS
  computed : Bool := false
  data : NormData := {}
  deriving Repr, DecidableEq

/-- `if not self.__norm_data_is_computed: self.__update_normalization_vars()`. -/
def CDS.ensure (c : CDS) : CDS :=
  if c.computed then c else { c with computed := true, data := NormData.of c.ds }

/-- Setter of `enable_integer_variables_normalization`: nothing happens when the value is unchanged,
    otherwise the normalisation policies are updated and the flag is reset. -/
def CDS.setIntNorm (c : CDS) (b : Bool) : CDS :=
  if b != c.ds.intNorm then { c with ds := c.ds.setIntNorm b, computed := false } else c

/-- The edits whose code contains `self.__norm_data_is_computed = False` (`add_variable`,
    `remove_variable`, `filter_dimensions`, `set_lower_bound`, `set_upper_bound`; `extend` and `filter`
    through `add_variable` / `remove_variable`, i.e. only when a variable is really added / removed).
    `rename_variable`, `set_current_value`, `set_current_variable` and
    `initialize_missing_current_values` leave the flag alone. -/
def invalidates (d : DS) : Op → Bool
  | .add _ => true
  | .remove _ => true
  | .filterDim _ _ => true
  | .setLb _ _ => true
  | .setUb _ _ => true
  | .extend vs => !vs.isEmpty
  | .filter keep => d.vars.any (fun v => !keep.contains v.name)
  | .intNorm b => b != d.intNorm
  | _ => false

/-- One public edit of the design-space object. -/
def CDS.edit (tol : Rat) (c : CDS) (op : Op) : CDS :=
  { ds := c.ds.apply tol op, computed := c.computed && !invalidates c.ds op, data := c.data }

/-- `_generate_unit_samples` on the object (CustomDOE calls `transform_vect`, which fills the cache). -/
def generateC (c : CDS) (lib : Lib) (r : Req) : CDS × Lib × Except Fail Matrix :=
  let (lib1, eff) :=
    if r.usesSeed then
      let (s', k) := lib.seeder.getSeed r.seed
      ({ lib with seeder := s' }, k)
    else (lib, 0)
  match r.sampler eff with
  | none => (c, lib1, .error .sampler)
  | some m =>
    if r.custom then
      if m.all (fun row => row.length == c.ds.dimension) then
        (c.ensure, lib1, .ok (m.map c.ensure.data.normalize))
      else (c, lib1, .error .dimension)
    else (c, lib1, .ok m)

/-- The `try` block of `compute_doe` on the object: `untransform_vect` reads the stored arrays. -/
def computeBodyC (c1 : CDS) (lib : Lib) (r : Req) : CDS × Lib × Except Fail Matrix :=
  if !r.unitSampling && r.useUnitHypercube && !(unboundedComponents c1.ds).isEmpty then
    (c1, lib, .error .unbounded)
  else if !r.settingsOk then (c1, lib, .error .settings)
  else
    match generateC c1 lib r with
    | (c2, lib1, .error e) => (c2, lib1, .error e)
    | (c2, lib1, .ok us) =>
      if r.unitSampling then (c2, lib1, .ok us)
      else (c2.ensure, lib1, .ok (us.map c2.ensure.data.unnormalize))

/-- `compute_doe` on the design-space object. -/
def computeDoeC (c : CDS) (lib : Lib) (r : Req) : CDS × Lib × Except Fail Matrix :=
  let enabled := !r.unitSampling && !c.ds.intNorm
  let c1 := if enabled then c.setIntNorm true else c
  let out := computeBodyC c1 lib r
  (if enabled then out.1.setIntNorm false else out.1, out.2.1, out.2.2)

/-- The `try` block of `_pre_run` on the object. -/
def preRunBodyC (c1 : CDS) (lib : Lib) (r : Req) : CDS × Lib × Except Fail Matrix :=
  if r.useUnitHypercube && !(unboundedComponents c1.ds).isEmpty then (c1, lib, .error .unbounded)
  else
    match generateC c1 lib r with
    | (c2, lib1, .error e) => (c2, lib1, .error e)
    | (c2, lib1, .ok us) =>
      (c2.ensure, { lib1 with unitSamples := us, samples := us.map c2.ensure.data.unnormalize },
       .ok (us.map c2.ensure.data.unnormalize))

/-- `_pre_run` of `execute` on the design-space object. -/
def preRunC (c : CDS) (lib : Lib) (r : Req) : CDS × Lib × Except Fail Matrix :=
  let enabled := !c.ds.intNorm
  let c1 := if enabled then c.setIntNorm true else c
  let out := preRunBodyC c1 lib r
  (if enabled then out.1.setIntNorm false else out.1, out.2.1, out.2.2)

/-! ### The `samples` setting of CustomDOE in its documented forms

`CustomDOE._generate_unit_samples` accepts "a 2D-array, a dictionary of 2D-arrays or a list of
dictionaries of 1D-arrays" (or a file, read into a 2-D array).  A `Mapping` goes through
`design_space.convert_dict_to_array(samples)` (concatenation along the last axis, i.e. row by row), a
sequence of mappings through `vstack([design_space.convert_dict_to_array(sample) for sample in samples])`.
`convert_dict_to_array` (C02 `DS.dictToArray`) looks every variable of the design space up **by name, in
the design-space order**: the order in which the user wrote the keys plays no role. -/

inductive CustomSamples where
  /-- a 2-D array, or what `read_file(doe_file)` returns -/
  | array (m : Matrix)
  /-- a dictionary `name ↦ 2-D array` (one row per sample), in the key order the user wrote -/
  | dict (cols : List (String × Matrix))
  /-- a list of dictionaries `name ↦ 1-D array`, one per sample, each in its own key order -/
  | dicts (rows : List (List (String × List Rat)))

/-- Sample `i` of a dictionary of 2-D arrays, as a dictionary of 1-D arrays. -/
def dictRow (cols : List (String × Matrix)) (i : Nat) : List (String × List Rat) :=
  cols.map (fun c => (c.1, c.2.getD i []))

/-- Number of rows of the concatenation along the last axis (NumPy requires all the arrays to have the
    same number of rows): that of the array of the first variable of the design space. -/
def dictRowCount (d : DS) (cols : List (String × Matrix)) : Nat :=
  match d.names with
  | [] => 0
  | n :: _ => (((cols.find? (·.1 == n)).map (·.2)).getD []).length

/-- The 2-D array `CustomDOE` works with. -/
def CustomSamples.toMatrix (d : DS) : CustomSamples → Matrix
  | .array m => m
  | .dict cols => (List.range (dictRowCount d cols)).map (fun i => d.dictToArray (dictRow cols i))
  | .dicts rows => rows.map d.dictToArray

/-- The CustomDOE request for given `samples` on the design space `d` (no seed, no unit hypercube). -/
def customReq (d : DS) (cs : CustomSamples) : Req :=
  { useUnitHypercube := false, custom := true, sampler := fun _ => some (cs.toMatrix d) }

/-- What a user does with one design-space object and one library object. -/
inductive SOp where
  /-- a public edit of the design space -/
  | edit (op : Op)
  /-- `design_space.unnormalize_vect(u)` (any normalisation query fills the cache the same way) -/
  | query (u : List Rat)
  /-- `library.compute_doe(design_space, …)` (`exec = false`) or `library.execute(problem, …)` -/
  | doe (exec : Bool) (r : Req)
  /-- a new library object (`DOELibraryFactory().create(…)`) -/
  | newLib
  /-- `CustomDOE` with its `samples` setting in one of the documented forms (converted with the
      variables of the design space as they are at the time of the call) -/
  | custom (exec : Bool) (cs : CustomSamples)

instance decEqResult : DecidableEq (Except Fail Matrix)
  | .ok a, .ok b => if h : a = b then isTrue (by rw [h]) else isFalse (fun e => by cases e; exact h rfl)
  | .error a, .error b => if h : a = b then isTrue (by rw [h]) else isFalse (fun e => by cases e; exact h rfl)
  | .ok _, .error _ => isFalse (fun e => by cases e)
  | .error _, .ok _ => isFalse (fun e => by cases e)

inductive SOut where
  | none
  | vec (x : List Rat)
  | doe (res : Except Fail Matrix)
  deriving DecidableEq

/-- The objects of a session, as they exist in the code … -/
structure Session where
  cds : CDS
  lib : Lib := {}

/-- A DOE on the objects of the session. -/
def Session.doe (s : Session) (exec : Bool) (r : Req) : Session × SOut :=
  let out := if exec then preRunC s.cds s.lib r else computeDoeC s.cds s.lib r
  ({ cds := out.1, lib := out.2.1 }, .doe out.2.2)

def Session.step (tol : Rat) (s : Session) : SOp → Session × SOut
  | .edit op => ({ s with cds := s.cds.edit tol op }, .none)
  | .query u => ({ s with cds := s.cds.ensure }, .vec (s.cds.ensure.data.unnormalize u))
  | .doe exec r => s.doe exec r
  | .newLib => ({ s with lib := {} }, .none)
  | .custom exec cs => s.doe exec (customReq s.cds.ds cs)

def Session.run (tol : Rat) (s : Session) : List SOp → Session × List SOut
  | [] => (s, [])
  | op :: ops =>
    let (s1, o) := s.step tol op
    let (s2, os) := Session.run tol s1 ops
    (s2, o :: os)

/-- … and their specification: no cache, every call is a function of the variables as they are now. -/
structure Spec where
  ds : DS
  lib : Lib := {}

def Spec.doe (s : Spec) (exec : Bool) (r : Req) : Spec × SOut :=
  let o := if exec then preRun s.ds s.lib r else computeDoe s.ds s.lib r
  ({ ds := o.ds, lib := o.lib }, .doe o.result)

def Spec.step (tol : Rat) (s : Spec) : SOp → Spec × SOut
  | .edit op => ({ s with ds := s.ds.apply tol op }, .none)
  | .query u => (s, .vec (s.ds.unnormalizeVect true u))
  | .doe exec r => s.doe exec r
  | .newLib => ({ s with lib := {} }, .none)
  | .custom exec cs => s.doe exec (customReq s.ds cs)

def Spec.run (tol : Rat) (s : Spec) : List SOp → Spec × List SOut
  | [] => (s, [])
  | op :: ops =>
    let (s1, o) := s.step tol op
    let (s2, os) := Spec.run tol s1 ops
    (s2, o :: os)

/-! ## 7. The process: what outlives a call besides the user's objects

Between the library object and the third-party generators sits a layer GEMSEO owns: the algorithm
classes (`BaseDOE` multitons, one instance per class and per process), `OpenTURNS._generate_unit_samples`
(`openturns.RandomGenerator.SetSeed(seed)` — a **process-wide** generator — then
`doe_algo.generate_samples(n, dimension)`), `BaseOTLowDiscrepancySequence.generate_samples`
(`self._ALGO_CLASS(dimension).generate(n_samples)`: a **new** sequence object per call, whose cursor
starts at 0), `SciPyDOE` (`Engine(dimension, seed=seed).random(n)`: a new engine per call), `PyDOELibrary`
(`RandomState(seed)` per call).  The third-party *objects* are parameters (`ThirdParty`); what persists in
the process is `Proc`.  `Props/C14` proves that `Proc` cannot be observed: the unit samples of a call are a
function of (algorithm, settings, dimension, number of samples, seed) whatever was sampled before in the
process, by any algorithm. -/

/-- State of `openturns.RandomGenerator`: the last seed set and the number of draws since. -/
abbrev OtRng := Int × Nat

/-- How the wrapper of an algorithm obtains its points. -/
inductive Source where
  /-- `self._ALGO_CLASS(dimension).generate(n_samples)`: OT_HALTON, OT_SOBOL, OT_FAURE, OT_HASELGROVE,
      OT_REVERSE_HALTON -/
  | otSequence
  /-- an OpenTURNS experiment drawing from the process-wide `RandomGenerator` (OT_MONTE_CARLO, OT_RANDOM,
      OT_LHS, OT_LHSC, OT_OPT_LHS, OT_SOBOL_INDICES) -/
  | otGlobal
  /-- a seeded third-party object created for the call (SciPy engines, pyDOE's `RandomState`) -/
  | engine
  /-- a design that is a function of the settings (full-factorial, diagonal, stratified, OAT, Morris, …) -/
  | closedForm
  deriving DecidableEq, Repr

/-- The third-party libraries (parameters of the model). -/
structure ThirdParty where
  /-- `sequence cls dim i`: point `i` of the low-discrepancy sequence of class `cls` in dimension `dim`. -/
  sequence : Nat → Nat → Nat → List Rat
  /-- `experiment algo dim n rng`: the design and the state in which the process-wide generator is left. -/
  experiment : Nat → Nat → Nat → OtRng → Matrix × OtRng
  /-- `seeded algo dim n seed`: what a generator object created with `seed` returns for `n` points. -/
  seeded : Nat → Nat → Nat → Int → Matrix
  /-- `design algo dim n`. -/
  design : Nat → Nat → Nat → Matrix

/-- An OpenTURNS sequence *object*: `generate(n)` returns the next `n` points and moves the cursor. -/
structure SeqObj where
  cls : Nat
  dim : Nat
  pos : Nat := 0

def SeqObj.generate (w : ThirdParty) (o : SeqObj) (n : Nat) : SeqObj × Matrix :=
  ({ o with pos := o.pos + n }, (List.range n).map (fun i => w.sequence o.cls o.dim (o.pos + i)))

/-- What the process keeps between two calls (the algorithm multitons have no attribute). -/
structure Proc where
  otRng : OtRng := (0, 0)
  deriving DecidableEq, Repr

/-- One generation of unit samples: algorithm (with its settings other than the seed), dimension, number
    of samples. -/
structure PCall where
  source : Source
  algo : Nat
  dim : Nat
  n : Nat
  deriving DecidableEq, Repr

/-- `_generate_unit_samples` below the `Seeder`: `seed` is the effective seed. -/
def Proc.call (w : ThirdParty) (p : Proc) (c : PCall) (seed : Int) : Proc × Matrix :=
  match c.source with
  | .otSequence =>
    -- SetSeed(seed); self._ALGO_CLASS(dimension).generate(n_samples)
    ({ otRng := (seed, 0) }, (SeqObj.generate w { cls := c.algo, dim := c.dim } c.n).2)
  | .otGlobal =>
    -- SetSeed(seed); the experiment reads the process-wide generator
    let out := w.experiment c.algo c.dim c.n (seed, 0)
    ({ otRng := out.2 }, out.1)
  | .engine => (p, w.seeded c.algo c.dim c.n seed)
  | .closedForm => (p, w.design c.algo c.dim c.n)

/-- A history of generations in one process. -/
def Proc.run (w : ThirdParty) (p : Proc) : List (PCall × Int) → Proc × List Matrix
  | [] => (p, [])
  | (c, k) :: rest =>
    let (p1, m) := p.call w c k
    let (p2, ms) := Proc.run w p1 rest
    (p2, m :: ms)

/-- The `sampler` of a request (`Req.sampler`: effective seed ↦ unit samples) in a process state. -/
def procSampler (w : ThirdParty) (p : Proc) (c : PCall) : Int → Option Matrix :=
  fun eff => some (p.call w c eff).2

end GV.C14
