/-
C08 — model of the execution-sequence machinery:

* `DependencyGraph.__create_graph`           → `edge`
* `networkx.strongly_connected_components`,
  `DependencyGraph.__get_ordered_scc`,
  `networkx.condensation`                    → `reach` (Boolean closure), `mutual`, `reps`, `comp`, `cedge`
  (NetworkX is modelled by its specification: classes of mutual reachability, members in
   listing order, an edge between two classes iff some member edge; trusted, validated by the
   correspondence check)
* `DependencyGraph.get_execution_sequence`   → `leaves`, `peel`, `sequence` (leaf peeling, transcribed)
* `CouplingStructure.*`                      → `selfCoupled`, `stronglyCoupledGroups`, `weaklyCoupled`,
                                               `strongCouplings`, `weakCouplings`, `allCouplings`, …
* `MDOChain._initialize_grammars/_execute`   → `chainGrammar`, `chainEval`
* `MDOParallelChain._execute`                → `parEval`
* `MDAChain._create_mdo_chain/_execute`      → `mdaChainEval` (per-group solver = parameter; the driver
                                               instantiates it with an exact linear solve)
* `order_disciplines_from_default_inputs`    → `initOrder`

Code anchored: src/gemseo/core/dependency_graph.py, coupling_structure.py, chains/chain.py,
chains/parallel_chain.py, chains/initialization_chain.py, mda/mda_chain.py.

Import-free (core Lean only) so that the driver can run it.
-/
import GemseoVerif.Model.Common

namespace GV.C08

/-! ### Disciplines and the dependency graph -/

/-- A discipline as the graph machinery sees it: its name and the names of its grammars. -/
structure Disc where
  name : String
  inputs : List String
  outputs : List String
  /-- the state variables of the discipline (`io.residual_to_state_variable.values()`) -/
  states : List String := []
  deriving Repr

/-- `outputs_i & inputs_j` (as a list, in the order of the outputs). -/
def shared (a b : Disc) : List String :=
  a.outputs.filter (fun v => b.inputs.contains v)

/-- `DependencyGraph.__create_graph`: `i → j` iff `disc_i != disc_j` and `outputs_i & inputs_j` is
    non-empty. Disciplines are identified with their position in the listing (Python compares
    disciplines by identity). -/
def edge (ds : List Disc) (i j : Nat) : Bool :=
  match ds[i]?, ds[j]? with
  | some a, some b => i != j && !(shared a b).isEmpty
  | _, _ => false

/-! ### Reachability by Boolean closure (generic in the adjacency function) -/

/-- One round of forward search: add every node `< n` not yet visited with a visited predecessor. -/
def expand (adj : Nat → Nat → Bool) (n : Nat) (vis : List Nat) : List Nat :=
  vis ++ (List.range n).filter (fun j => !vis.contains j && vis.any (fun m => adj m j))

/-- `k` rounds of forward search. -/
def closureFrom (adj : Nat → Nat → Bool) (n : Nat) : Nat → List Nat → List Nat
  | 0, vis => vis
  | k + 1, vis => closureFrom adj n k (expand adj n vis)

/-- `j` is reachable from `i` (reflexive-transitive closure of `adj` on the nodes `< n`). -/
def reach (adj : Nat → Nat → Bool) (n : Nat) (i j : Nat) : Bool :=
  (closureFrom adj n n [i]).contains j

/-- Mutual reachability among the nodes `< n`: `i` and `j` are in the same strongly connected
    component. -/
def mutualR (adj : Nat → Nat → Bool) (n : Nat) (i j : Nat) : Bool :=
  decide (i < n) && decide (j < n) && reach adj n i j && reach adj n j i

/-- Memoisation of a Boolean relation on the nodes `< n` as a table (only there to make the
    driver fast). -/
def mkTab (n : Nat) (f : Nat → Nat → Bool) : List (List Bool) :=
  (List.range n).map (fun i => (List.range n).map (fun j => f i j))

/-- Table lookup, `false` outside the table; `look_mkTab` (Lemmas) shows that
    `look (mkTab n f)` is `f` restricted to the nodes `< n`. -/
def look (t : List (List Bool)) (i j : Nat) : Bool :=
  match t[i]? with
  | some row => row[j]?.getD false
  | none => false

/-- The table of `reach adj n`, one closure computation per row. -/
def mkReachTab (adj : Nat → Nat → Bool) (n : Nat) : List (List Bool) :=
  (List.range n).map (fun i =>
    let r := closureFrom adj n n [i]
    (List.range n).map (fun j => r.contains j))

/-! ### Strongly connected components and condensation
(generic in the mutual-reachability relation `mu`) -/

/-- `i` is the first (in listing order) member of its component. -/
def isRep (mu : Nat → Nat → Bool) (i : Nat) : Bool :=
  (List.range i).all (fun j => !mu i j)

/-- The components, each named by its first member. -/
def reps (mu : Nat → Nat → Bool) (n : Nat) : List Nat :=
  (List.range n).filter (isRep mu)

/-- `__get_ordered_scc`: the members of the component of `a`, in listing order. -/
def comp (mu : Nat → Nat → Bool) (n : Nat) (a : Nat) : List Nat :=
  (List.range n).filter (mu a)

/-- `networkx.condensation`: an edge between two *different* components iff some member edge. -/
def cedge (adj mu : Nat → Nat → Bool) (n : Nat) (a b : Nat) : Bool :=
  a != b && (comp mu n a).any (fun i => (comp mu n b).any (fun j => adj i j))

/-! ### Leaf peeling (`get_execution_sequence`) -/

/-- `__get_leaves`: the remaining nodes without a successor among the remaining nodes. -/
def leaves {α : Type} (r : α → α → Bool) (rem : List α) : List α :=
  rem.filter (fun a => rem.all (fun b => !r a b))

/-- The `while True` loop: collect the leaves, stop when there is none, remove them, repeat.
    `fuel` only makes the recursion structural; `peel_fuel` (Lemmas) shows that any
    `fuel ≥ rem.length` gives the same result. -/
def peel {α : Type} [BEq α] (r : α → α → Bool) : Nat → List α → List (List α)
  | 0, _ => []
  | fuel + 1, rem =>
    let lv := leaves r rem
    if lv.isEmpty then []
    else lv :: peel r fuel (rem.filter (fun a => !lv.contains a))

/-- The stages of components (named by representative), sources first (`reversed(...)`). -/
def stagesOf (adj mu : Nat → Nat → Bool) (n : Nat) : List (List Nat) :=
  (peel (cedge adj mu n) (reps mu n).length (reps mu n)).reverse

/-- `get_execution_sequence` on a generic graph: stages → groups → members (listing order). -/
def sequenceOf (adj mu : Nat → Nat → Bool) (n : Nat) : List (List (List Nat)) :=
  (stagesOf adj mu n).map (fun st => st.map (comp mu n))

/-- `CouplingStructure(disciplines).sequence`, disciplines named by their position. -/
def sequence (ds : List Disc) : List (List (List Nat)) :=
  let n := ds.length
  let ta := mkTab n (edge ds)
  let adj := look ta
  let tr := mkReachTab adj n
  sequenceOf adj (fun i j => look tr i j && look tr j i) n

/-! ### Sorted lists of names (`sorted(set(...))`) -/

/-- Insert into a strictly increasing list, dropping duplicates. -/
def insertUniq (x : String) : List String → List String
  | [] => [x]
  | y :: ys => if x < y then x :: y :: ys else if x = y then y :: ys else y :: insertUniq x ys

/-- `sorted(set(l))`. -/
def sortDedup (l : List String) : List String :=
  l.foldr insertUniq []

/-! ### `CouplingStructure` -/

/-- `is_self_coupled`: an output is also an input, state variables (solved by the discipline
    itself) not counted. -/
def selfCoupled (d : Disc) : Bool :=
  d.inputs.any (fun v => d.outputs.contains v && !d.states.contains v)

def selfCoupledAt (ds : List Disc) (i : Nat) : Bool :=
  match ds[i]? with
  | some d => selfCoupled d
  | none => false

/-- `get_strongly_coupled_disciplines(add_self_coupled, by_group=True)`:
    the loop over `self.sequence` (computed once in `__init__`, here the parameter `seq`). -/
def stronglyCoupledGroups (ds : List Disc) (seq : List (List (List Nat))) (addSelf : Bool) :
    List (List Nat) :=
  seq.flatMap (fun stage =>
    stage.flatMap (fun component =>
      if component.length > 1 then [component]
      else if addSelf then
        component.flatMap (fun d => if selfCoupledAt ds d then [[d]] else [])
      else []))

/-- `get_strongly_coupled_disciplines(add_self_coupled, by_group=False)`. -/
def stronglyCoupled (ds : List Disc) (seq : List (List (List Nat))) (addSelf : Bool) : List Nat :=
  (stronglyCoupledGroups ds seq addSelf).flatten

/-- `_compute_weakly_coupled`. -/
def weaklyCoupled (ds : List Disc) (seq : List (List (List Nat))) : List Nat :=
  seq.flatMap (fun stage =>
    stage.flatMap (fun component =>
      match component with
      | [d] => if !selfCoupledAt ds d then [d] else []
      | _ => []))

def inputsAt (ds : List Disc) (i : Nat) : List String :=
  match ds[i]? with | some d => d.inputs | none => []

def outputsAt (ds : List Disc) (i : Nat) : List String :=
  match ds[i]? with | some d => d.outputs | none => []

def statesAt (ds : List Disc) (i : Nat) : List String :=
  match ds[i]? with | some d => d.states | none => []

/-- `_compute_strong_couplings`. -/
def strongCouplings (ds : List Disc) (seq : List (List (List Nat))) : List String :=
  sortDedup ((stronglyCoupledGroups ds seq true).flatMap (fun group =>
    let inputs := group.flatMap (inputsAt ds)
    let outputs := group.flatMap (outputsAt ds)
    inputs.filter (fun v => outputs.contains v)))

/-- `_compute_weak_couplings`. -/
def weakCouplings (ds : List Disc) (seq : List (List (List Nat))) : List String :=
  sortDedup ((weaklyCoupled ds seq).flatMap (outputsAt ds))

/-- `_compute_all_couplings`. -/
def allCouplings (ds : List Disc) : List String :=
  let inputs := ds.flatMap (·.inputs)
  let outputs := ds.flatMap (·.outputs)
  sortDedup (inputs.filter (fun v => outputs.contains v))

/-- `get_output_couplings(discipline, strong)`; `couplings` is `strong_couplings` or
    `all_couplings` (cached properties). -/
def outputCouplings (ds : List Disc) (i : Nat) (couplings : List String) : List String :=
  sortDedup ((outputsAt ds i).filter (fun v => couplings.contains v))

/-- `get_input_couplings(discipline, strong)`. -/
def inputCouplings (ds : List Disc) (i : Nat) (couplings : List String) : List String :=
  sortDedup ((inputsAt ds i).filter (fun v => couplings.contains v))

/-- `find_discipline(output)`: the first discipline of the listing producing the output
    (`none` = `ValueError`). -/
def findDiscipline (ds : List Disc) (output : String) : Option Nat :=
  (List.range ds.length).find? (fun i => (outputsAt ds i).contains output)

/-- `DependencyGraph.get_disciplines_couplings()`: the edges with their sorted labels
    (here in lexicographic order of the pair of positions). -/
def disciplinesCouplings (ds : List Disc) : List (Nat × Nat × List String) :=
  (List.range ds.length).flatMap (fun i =>
    (List.range ds.length).filterMap (fun j =>
      if edge ds i j then
        match ds[i]?, ds[j]? with
        | some a, some b => some (i, j, sortDedup (shared a b))
        | _, _ => none
      else none))

/-! ### Data propagation: `MDOChain`, `MDOParallelChain`, `MDAChain` -/

/-- The data of a process (`io.data`): an association list, the first binding of a name wins. -/
abbrev Env := List (String × Rat)

/-- `data[k]` (`none` = `KeyError`). -/
def Env.val : Env → String → Option Rat
  | [], _ => none
  | (k', v) :: r, k => if k = k' then some v else Env.val r k

/-- `data[k] = v`. -/
def Env.put (e : Env) (k : String) (v : Rat) : Env := (k, v) :: e

/-- `dict.update` with the listed keys of `src`. -/
def Env.putFrom (e : Env) (src : Env) (keys : List String) : Env :=
  keys.foldl (fun acc k => match src.val k with | some v => acc.put k v | none => acc) e

/-- Something executable: it reads the data and returns the new data
    (`self.io.data.update(discipline.execute(self.io.data))` as a whole). -/
abbrev Block := Env → Env

/-- `MDOChain._execute`: sequential data propagation. -/
def chainEval (blocks : List Block) (e : Env) : Env :=
  blocks.foldl (fun e b => b e) e

/-- `MDOParallelChain._execute`: every block sees the *same* input data; afterwards the outputs
    of each block (its `outs`) are merged in order. -/
def parEval (blocks : List (Block × List String)) (e : Env) : Env :=
  blocks.foldl (fun acc b => acc.putFrom (b.1 e) b.2) e

/-- `MDOChain._initialize_grammars`: the inputs of a chain are the inputs of its disciplines that
    are not outputs of an earlier discipline; the outputs are all outputs. Returns
    `(inputs, outputs)` as lists with possible repetitions (the grammars are sets of names). -/
def chainGrammar (ds : List Disc) : List String × List String :=
  ds.foldl (fun (acc : List String × List String) d =>
    (acc.1 ++ d.inputs.filter (fun v => !acc.2.contains v), acc.2 ++ d.outputs)) ([], [])

/-- The grammars of an inner MDA (`BaseMDA._initialize_grammars`): unions over the members. -/
def mdaDisc (ds : List Disc) (group : List Nat) : Disc :=
  ⟨"MDA", group.flatMap (inputsAt ds), group.flatMap (outputsAt ds), []⟩

/-- The grammars of an `MDOChain` of sub-processes. -/
def chainDisc (bs : List Disc) : Disc :=
  let g := chainGrammar bs
  ⟨"MDOChain", g.1, g.2, []⟩

/-- The grammars of an `MDOParallelChain` of sub-processes: unions. -/
def parDisc (bs : List Disc) : Disc :=
  ⟨"MDOParallelChain", bs.flatMap (·.inputs), bs.flatMap (·.outputs), []⟩

/-- `MDAChain.__requires_mda`. -/
def requiresMda (ds : List Disc) (group : List Nat) : Bool :=
  group.length > 1 || (match group with | [d] => selfCoupledAt ds d | _ => false)

/-- The grammars of the processes `MDAChain._create_mdo_chain` builds, and of the chain itself,
    for a given decision `req` of which groups get an inner MDA. -/
def mdaChainGrammarWith (ds : List Disc) (seq : List (List (List Nat))) (parallel : Bool)
    (gaussSeidel : Bool) (req : List Nat → Bool) : List String × List String :=
  let blockOf : List Nat → Disc := fun g =>
    if req g then
      -- `MDAGaussSeidel._initialize_grammars` is the chain rule, `BaseMDA`'s is the union
      (if gaussSeidel then chainDisc (g.filterMap (fun i => ds[i]?)) else mdaDisc ds g)
    else match g with
      | [d] => (ds[d]?).getD ⟨"", [], [], []⟩
      | _ => mdaDisc ds g
  let stageOf : List (List Nat) → Disc := fun stage =>
    match stage with
    | [g] => blockOf g
    | _ => if parallel then parDisc (stage.map blockOf) else chainDisc (stage.map blockOf)
  chainGrammar (seq.map stageOf)

/-- The grammars of an `MDAChain` of plain disciplines. -/
def mdaChainGrammar (ds : List Disc) (seq : List (List (List Nat))) (parallel : Bool)
    (gaussSeidel : Bool := false) : List String × List String :=
  mdaChainGrammarWith ds seq parallel gaussSeidel (requiresMda ds)

/-- An affine output `name = const + Σ coef · input`. -/
structure LinOut where
  name : String
  const : Rat
  coefs : List (String × Rat)
  deriving Repr

/-- An affine discipline (the harness's `LinDisc`). -/
structure LinDisc where
  disc : Disc
  outs : List LinOut
  deriving Repr

/-- Value of an affine output; `none` when an input is missing (`KeyError`). -/
def LinOut.eval (o : LinOut) (e : Env) : Option Rat :=
  o.coefs.foldl (fun acc p =>
    match acc, e.val p.1 with
    | some s, some v => some (s + p.2 * v)
    | _, _ => none) (some o.const)

/-- Executing an affine discipline inside a chain: all its outputs are computed from the data
    *before* the execution, then written. A missing input leaves the data unchanged here; the
    driver reports it separately (`linMissing`). -/
def LinDisc.run (d : LinDisc) : Block := fun e =>
  d.outs.foldl (fun acc o =>
    match o.eval e with
    | some v => acc.put o.name v
    | none => acc) e

def LinDisc.missing (d : LinDisc) (e : Env) : Bool :=
  d.disc.inputs.any (fun v => (e.val v).isNone)

/-- `MDAChain._create_mdo_chain` + `_execute` with an abstract per-group solver
    (`solve group e` = data after the inner MDA of `group`), stage after stage; inside a stage
    the groups run one after the other (`MDOChain`) or in parallel (`MDOParallelChain`). -/
def mdaChainEval (seq : List (List (List Nat))) (run : Nat → Block) (requiresMda : List Nat → Bool)
    (solve : List Nat → Block) (outsOf : List Nat → List String) (parallel : Bool) (e : Env) : Env :=
  let blockOf : List Nat → Block := fun g =>
    if requiresMda g then solve g
    else match g with
      | [d] => run d
      | _ => solve g
  seq.foldl (fun e stage =>
    match stage with
    | [g] => blockOf g e
    | _ =>
      if parallel then parEval (stage.map (fun g => (blockOf g, outsOf g))) e
      else chainEval (stage.map blockOf) e) e

/-! ### Exact linear solve (instantiates the abstract inner MDA in the driver) -/

def dot (a b : List Rat) : Rat :=
  (a.zip b).foldl (fun s p => s + p.1 * p.2) 0

/-- Gaussian elimination on an augmented matrix with `n` unknowns (`rows` has `n` rows of
    length `n+1`); `none` when singular. -/
def gauss : Nat → List (List Rat) → Option (List Rat)
  | 0, _ => some []
  | n + 1, rows =>
    match rows.findIdx? (fun r => r.headD 0 != 0) with
    | none => none
    | some k =>
      let p := rows.getD k []
      let p0 := p.headD 1
      let reduced := (rows.eraseIdx k).map (fun r =>
        let f := r.headD 0 / p0
        ((r.zip p).map (fun q => q.1 - f * q.2)).tail)
      match gauss n reduced with
      | none => none
      | some sol =>
        let coefs := (p.tail).take n
        let rhs := (p.tail).getD n 0
        some ((rhs - dot coefs sol) / p0 :: sol)

/-- The inner MDA of a group of affine disciplines, solved exactly: the unknowns are the
    outputs of the group, every other name is read from the data. `none` results (singular
    system, missing input) leave the data unchanged; the driver reports them. -/
def solveGroup (ds : List LinDisc) (group : List Nat) (e : Env) : Option (List (String × Rat)) :=
  let members := group.filterMap (fun i => ds[i]?)
  let outs := members.flatMap (·.outs)
  let unknowns := outs.map (·.name)
  let n := unknowns.length
  let rowsOpt := outs.mapIdx (fun k o =>
    -- unknown_k - Σ_{unknown u} coef_u · u = const + Σ_{other v} coef_v · e v
    let lhs := unknowns.mapIdx (fun c u =>
      (if c = k then (1 : Rat) else 0) -
        (o.coefs.foldl (fun s p => if p.1 = u then s + p.2 else s) 0))
    let rhsOpt := o.coefs.foldl (fun acc p =>
      if unknowns.contains p.1 then acc
      else match acc, e.val p.1 with
        | some s, some v => some (s + p.2 * v)
        | _, _ => none) (some o.const)
    rhsOpt.map (fun rhs => lhs ++ [rhs]))
  match rowsOpt.mapM id with
  | none => none
  | some rows =>
    match gauss n rows with
    | none => none
    | some sol => some (unknowns.zip sol)

def solveGroupBlock (ds : List LinDisc) (group : List Nat) : Block := fun e =>
  match solveGroup ds group e with
  | some kv => kv.foldl (fun acc p => acc.put p.1 p.2) e
  | none => e

/-! ### Processes as disciplines of an `MDAChain`

A discipline handed to an `MDAChain` may itself be a process: an `MDOChain` of some disciplines or
an MDA built beforehand. For the dependency graph it is one node with the grammars of the process;
`MDAChain.__requires_mda` wraps a self-coupled one in an inner MDA unless it *is* an MDA. -/

/-- What a discipline handed to the `MDAChain` is. -/
inductive PKind
  | plain
  | process
  | mda
  deriving DecidableEq, Repr

/-- `MDAChain.__requires_mda`, kinds included: several disciplines, or one self-coupled
    discipline that is not already an MDA (`not isinstance(disciplines[0], BaseMDA)`). -/
def requiresMdaK (ds : List Disc) (kind : Nat → PKind) (group : List Nat) : Bool :=
  group.length > 1 ||
    (match group with
     | [d] => selfCoupledAt ds d && kind d != PKind.mda
     | _ => false)

/-- An item of the listing given to the `MDAChain`: the plain discipline `i`, an `MDOChain` of the
    disciplines `ms` (in that order), an MDA of the disciplines `ms` built beforehand
    (`gs` = `MDAGaussSeidel`, whose grammars follow the chain rule). -/
inductive Item
  | plain (i : Nat)
  | chain (ms : List Nat)
  | mda (ms : List Nat) (gs : Bool)
  deriving Repr

def Item.members : Item → List Nat
  | .plain i => [i]
  | .chain ms => ms
  | .mda ms _ => ms

def Item.kind : Item → PKind
  | .plain _ => .plain
  | .chain _ => .process
  | .mda _ _ => .mda

/-- The grammars the item shows to the `MDAChain`. -/
def Item.disc (ds : List Disc) : Item → Disc
  | .plain i => (ds[i]?).getD ⟨"", [], [], []⟩
  | .chain ms => chainDisc (ms.filterMap (fun i => ds[i]?))
  | .mda ms gs => if gs then chainDisc (ms.filterMap (fun i => ds[i]?)) else mdaDisc ds ms

def runAt (lds : List LinDisc) (i : Nat) : Block :=
  match lds[i]? with
  | some d => d.run
  | none => id

/-- One execution of the item: a discipline body, one sweep of the chain, the solved MDA. -/
def Item.run (lds : List LinDisc) : Item → Block
  | .plain i => runAt lds i
  | .chain ms => chainEval (ms.map (runAt lds))
  | .mda ms _ => solveGroupBlock lds ms

def kindAt (items : List Item) (i : Nat) : PKind :=
  match items[i]? with
  | some it => it.kind
  | none => .plain

def runItemAt (lds : List LinDisc) (items : List Item) (i : Nat) : Block :=
  match items[i]? with
  | some it => it.run lds
  | none => id

def membersOf (items : List Item) (g : List Nat) : List Nat :=
  g.flatMap (fun i => match items[i]? with | some it => it.members | none => [])

/-- The `MDAChain` over a listing of items: the sequence is computed from the grammars of the
    items, a group that requires an MDA is solved over all the disciplines inside its items. -/
def nestedEval (lds : List LinDisc) (items : List Item) (parallel : Bool) (e : Env) : Env :=
  let ds := lds.map (·.disc)
  let tds := items.map (Item.disc ds)
  mdaChainEval (sequence tds)
    (runItemAt lds items)
    (requiresMdaK tds (kindAt items))
    (fun g => solveGroupBlock lds (membersOf items g))
    (fun g => g.flatMap (outputsAt tds)) parallel e

/-- The groups of items the `MDAChain` builds an inner MDA for. -/
def nestedInnerMdas (ds : List Disc) (items : List Item) : List (List Nat) :=
  let tds := items.map (Item.disc ds)
  (sequence tds).flatten.filter (requiresMdaK tds (kindAt items))

/-! ### `order_disciplines_from_default_inputs` -/

/-- One pass of the `for disc in remaining_discs` loop: the available names grow *during* the
    pass. Returns the disciplines removed in this pass and the new available names. -/
def initPass (ds : List Disc) (defaults : Nat → List String) :
    List Nat → List String → List Nat × List String
  | [], avail => ([], avail)
  | i :: rest, avail =>
    let required := inputsAt ds i
    if required.all (fun v => (defaults i).contains v || avail.contains v) then
      let r := initPass ds defaults rest (avail ++ outputsAt ds i)
      (i :: r.1, r.2)
    else
      initPass ds defaults rest avail

/-- The `while remaining_discs` loop; `none` = `ValueError` (nothing can be initialized). -/
def initOrder (ds : List Disc) (defaults : Nat → List String) :
    Nat → List Nat → List String → Option (List Nat)
  | _, [], _ => some []
  | 0, _ :: _, _ => none
  | fuel + 1, remaining, avail =>
    let r := initPass ds defaults remaining avail
    if r.1.isEmpty then none
    else
      match initOrder ds defaults fuel (remaining.filter (fun i => !r.1.contains i)) r.2 with
      | some tl => some (r.1 ++ tl)
      | none => none

end GV.C08
