/-
C15 — lifting of the per-grammar lemmas to the world of grammar slots: every operation keeps
the invariant of every slot, and changes the public definition of its target slot only.
-/
import GemseoVerif.Lemmas.C15Inv

namespace GV.C15

def World.Inv (w : World) : Prop := ∀ i g, w.get i = some g → g.Inv

theorem World.get_put (w : World) (i j : Nat) (g : Grammar) :
    (w.put i g).get j = if j = i ∧ i < w.length then some g else w.get j := by
  unfold World.put World.get
  by_cases hi : i < w.length
  · simp only [hi, if_true, and_true]
    by_cases hj : j = i
    · subst hj
      simp [hi]
    · simp only [hj, if_false]
      have : i ≠ j := fun e => hj e.symm
      simp [this]
  · simp [hi]

theorem World.Inv_put (w : World) (i : Nat) (g : Grammar) (hw : w.Inv) (hg : g.Inv) : (w.put i g).Inv := by
  intro j g' hj
  rw [World.get_put] at hj
  split at hj
  · cases hj; exact hg
  · exact hw j g' hj

theorem World.pub_put_other (w : World) (i j : Nat) (g : Grammar) (h : j ≠ i) :
    (w.put i g).get j = w.get j := by
  rw [World.get_put]
  simp [h]

/-- Overwriting a slot by a grammar with the same public definition changes no public definition. -/
theorem World.pub_put_same (w : World) (i j : Nat) (g g0 : Grammar) (h0 : w.get i = some g0)
    (hp : g.pub = g0.pub) : ((w.put i g).get j).map Grammar.pub = (w.get j).map Grammar.pub := by
  rw [World.get_put]
  split
  · rename_i hj
    rw [hj.1, h0]
    simp [hp]
  · rfl

theorem emptyInv : World.Inv [none, none, none, none] := by
  intro i g h
  unfold World.get at h
  match i with
  | 0 | 1 | 2 | 3 => simp at h
  | n + 4 => simp at h

/-- The slots an operation may change (its target); queries have none. -/
def Op.targets : Op → List Nat
  | .new s _ => [s]
  | .upd d _ _ _ => [d]
  | .names s _ _ | .types s _ _ | .data s _ _ | .schema s _ _ _ | .restrict s _ | .rename s _ _
  | .del s _ | .addns s _ _ | .clear s | .setdef s _ _ | .deldef s _ | .defaults s _
  | .reqadd s _ | .reqdisc s _ | .defupd s _ | .defclear s | .reqremove s _ | .reqclear s
  | .requpd s _ | .reqsub s _ | .reqand s _ | .reqassign s _ => [s]
  | .defupdfrom d _ | .defassignfrom d _ => [d]
  | .copy _ d => [d]
  | .pickle _ d => [d]
  | .val .. | .qschema .. | .qjson .. | .qsimple .. | .qmisc .. => []

theorem Inv_liftE (w : World) (s : Nat) (r : Except Err Grammar) (hw : w.Inv)
    (hr : ∀ g', r = .ok g' → g'.Inv) : (liftE w s r).1.Inv := by
  unfold liftE
  cases r with
  | error e => exact hw
  | ok g => exact World.Inv_put w s g hw (hr g rfl)

theorem frame_liftE (w : World) (s j : Nat) (r : Except Err Grammar) (hj : j ≠ s) :
    (liftE w s r).1.get j = w.get j := by
  unfold liftE
  cases r with
  | error e => rfl
  | ok g => exact World.pub_put_other w s j g hj

/-- Every operation keeps the invariant of every slot. -/
theorem step_Inv (w : World) (op : Op) (hw : w.Inv) : (step w op).1.Inv := by
  cases op with
  | new s k =>
    simp only [step]
    split
    · exact World.Inv_put w s _ hw (Inv_fresh k)
    · exact hw
  | upd d s excl m =>
    simp only [step]
    split
    · rename_i gd gs hd hs
      split
      · exact hw
      · rename_i gd' gs' hok
        have h := Inv_updateFrom gd gs (gd', gs') excl m (hw d gd hd) (hw s gs hs) hok
        split
        · exact World.Inv_put w d _ hw h.1
        · exact World.Inv_put _ d _ (World.Inv_put w s _ hw h.2.1) h.1
    · exact hw
  | names s l m =>
    simp only [step]
    split
    · rename_i g hg
      exact Inv_liftE w s _ hw (fun g' h => Inv_updateFromNames g g' l m (hw s g hg) h)
    · exact hw
  | types s l m =>
    simp only [step]
    split
    · rename_i g hg
      exact Inv_liftE w s _ hw (fun g' h => Inv_updateFromTypes g g' l m (hw s g hg) h)
    · exact hw
  | data s l m =>
    simp only [step]
    split
    · rename_i g hg
      exact Inv_liftE w s _ hw (fun g' h => Inv_updateFromData g g' l m (hw s g hg) h)
    · exact hw
  | schema s p r m =>
    simp only [step]
    split
    · rename_i g hg
      exact Inv_liftE w s _ hw (fun g' h => Inv_updateFromSchema g g' p r m (hw s g hg) h)
    · exact hw
  | restrict s l =>
    simp only [step]
    split
    · rename_i g hg
      exact Inv_liftE w s _ hw (fun g' h => Inv_restrictTo g g' l (hw s g hg) h)
    · exact hw
  | rename s c n =>
    simp only [step]
    split
    · rename_i g hg
      exact Inv_liftE w s _ hw (fun g' h => Inv_renameElement g g' c n (hw s g hg) h)
    · exact hw
  | del s n =>
    simp only [step]
    split
    · rename_i g hg
      exact Inv_liftE w s _ hw (fun g' h => Inv_delItem g g' n (hw s g hg) h)
    · exact hw
  | addns s n ns =>
    simp only [step]
    split
    · rename_i g hg
      exact Inv_liftE w s _ hw (fun g' h => Inv_addNamespace g g' n ns (hw s g hg) h)
    · exact hw
  | clear s =>
    simp only [step]
    split
    · rename_i g hg
      exact World.Inv_put w s _ hw (Inv_fresh g.kind)
    · exact hw
  | copy s d =>
    simp only [step]
    split
    · rename_i g hg
      split
      · exact World.Inv_put w d _ hw (Inv_copyOf g (hw s g hg))
      · exact hw
    · exact hw
  | pickle s d =>
    simp only [step]
    split
    · rename_i g hg
      split
      · have h := Inv_pickleOf g (hw s g hg)
        exact World.Inv_put _ d _ (World.Inv_put w s _ hw h.2.1) h.1
      · exact hw
    · exact hw
  | setdef s n v =>
    simp only [step]
    split
    · rename_i g hg
      exact Inv_liftE w s _ hw (fun g' h => Inv_setDefault g g' n v (hw s g hg) h)
    · exact hw
  | deldef s n =>
    simp only [step]
    split
    · rename_i g hg
      exact World.Inv_put w s _ hw (Inv_popDefault g n (hw s g hg))
    · exact hw
  | defaults s l =>
    simp only [step]
    split
    · rename_i g hg
      exact Inv_liftE w s _ hw (fun g' h => Inv_assignDefaults g g' l (hw s g hg) h)
    · exact hw
  | reqadd s n =>
    simp only [step]
    split
    · rename_i g hg
      exact Inv_liftE w s _ hw (fun g' h => Inv_reqAdd g g' n (hw s g hg) h)
    · exact hw
  | reqdisc s n =>
    simp only [step]
    split
    · rename_i g hg
      exact World.Inv_put w s _ hw (Inv_reqDiscard g n (hw s g hg))
    · exact hw
  | defupd s l =>
    simp only [step]
    split
    · rename_i g hg
      exact World.Inv_put w s _ hw (Inv_updateDefaults g l (hw s g hg))
    · exact hw
  | defupdfrom d s =>
    simp only [step]
    split
    · rename_i gd gs hd hs
      exact World.Inv_put w d _ hw (Inv_updateDefaults gd gs.defaults (hw d gd hd))
    · exact hw
  | defassignfrom d s =>
    simp only [step]
    split
    · rename_i gd gs hd hs
      exact Inv_liftE w d _ hw (fun g' h => Inv_assignDefaults gd g' gs.defaults (hw d gd hd) h)
    · exact hw
  | defclear s =>
    simp only [step]
    split
    · rename_i g hg
      exact World.Inv_put w s _ hw (Inv_clearDefaults g (hw s g hg))
    · exact hw
  | reqremove s n =>
    simp only [step]
    split
    · rename_i g hg
      exact Inv_liftE w s _ hw (fun g' h => Inv_reqRemove g g' n (hw s g hg) h)
    · exact hw
  | reqclear s =>
    simp only [step]
    split
    · rename_i g hg
      exact World.Inv_put w s _ hw (Inv_reqClear g (hw s g hg))
    · exact hw
  | requpd s l =>
    simp only [step]
    split
    · rename_i g hg
      exact World.Inv_put w s _ hw (Inv_reqUpdate g l (hw s g hg))
    · exact hw
  | reqsub s l =>
    simp only [step]
    split
    · rename_i g hg
      exact World.Inv_put w s _ hw (Inv_reqSub g l (hw s g hg))
    · exact hw
  | reqand s l =>
    simp only [step]
    split
    · rename_i g hg
      exact World.Inv_put w s _ hw (Inv_reqAnd g l (hw s g hg))
    · exact hw
  | reqassign s l =>
    simp only [step]
    split <;> exact hw
  | val s data =>
    simp only [step]
    split
    · rename_i g hg
      exact World.Inv_put w s _ hw (Inv_validate g data (hw s g hg))
    · exact hw
  | qschema s =>
    simp only [step]
    split
    · rename_i g hg
      exact World.Inv_put w s _ hw (Inv_fillSchema g (hw s g hg))
    · exact hw
  | qjson s =>
    simp only [step]
    split
    · rename_i g hg
      exact World.Inv_put w s _ hw (hw s g hg)
    · exact hw
  | qsimple s =>
    simp only [step]
    split
    · rename_i g hg
      split
      · exact hw
      · rename_i sg g' hts
        exact World.Inv_put w s _ hw (Inv_toSimple g sg g' (hw s g hg) hts).2.1
    · exact hw
  | qmisc s l =>
    simp only [step]
    split <;> exact hw

/-- An operation changes the public definition of its target slot only (in particular a copy or an
    unpickled grammar shares nothing with its source, and queries change nothing). -/
theorem step_frame (w : World) (op : Op) (hw : w.Inv) (j : Nat) (hj : j ∉ op.targets) :
    ((step w op).1.get j).map Grammar.pub = (w.get j).map Grammar.pub := by
  cases op with
  | new s k =>
    have hjs : j ≠ s := by simpa [Op.targets] using hj
    simp only [step]
    split
    · rw [World.pub_put_other w s j _ hjs]
    · rfl
  | upd d s excl m =>
    have hjd : j ≠ d := by simpa [Op.targets] using hj
    simp only [step]
    split
    · rename_i gd gs hd hs
      split
      · rfl
      · rename_i gd' gs' hok
        have h := Inv_updateFrom gd gs (gd', gs') excl m (hw d gd hd) (hw s gs hs) hok
        split
        · rw [World.pub_put_other w d j _ hjd]
        · rw [World.pub_put_other _ d j _ hjd]
          exact World.pub_put_same w s j _ gs hs h.2.2
    · rfl
  | names s l m | types s l m | data s l m | restrict s l | rename s c n | del s n | addns s n ns
  | setdef s n v | defaults s l | reqadd s n =>
    have hjs : j ≠ s := by simpa [Op.targets] using hj
    simp only [step]
    split
    · rw [frame_liftE w s j _ hjs]
    · rfl
  | schema s p r m =>
    have hjs : j ≠ s := by simpa [Op.targets] using hj
    simp only [step]
    split
    · rw [frame_liftE w s j _ hjs]
    · rfl
  | clear s | deldef s n | reqdisc s n =>
    have hjs : j ≠ s := by simpa [Op.targets] using hj
    simp only [step]
    split
    · rw [World.pub_put_other w s j _ hjs]
    · rfl
  | defupd s l | defclear s | reqclear s | requpd s l | reqsub s l | reqand s l =>
    have hjs : j ≠ s := by simpa [Op.targets] using hj
    simp only [step]
    split
    · rw [World.pub_put_other w s j _ hjs]
    · rfl
  | reqremove s n =>
    have hjs : j ≠ s := by simpa [Op.targets] using hj
    simp only [step]
    split
    · rw [frame_liftE w s j _ hjs]
    · rfl
  | reqassign s l =>
    simp only [step]
    split <;> rfl
  | defupdfrom d s =>
    have hjd : j ≠ d := by simpa [Op.targets] using hj
    simp only [step]
    split
    · rw [World.pub_put_other w d j _ hjd]
    · rfl
  | defassignfrom d s =>
    have hjd : j ≠ d := by simpa [Op.targets] using hj
    simp only [step]
    split
    · rw [frame_liftE w d j _ hjd]
    · rfl
  | copy s d =>
    have hjd : j ≠ d := by simpa [Op.targets] using hj
    simp only [step]
    split
    · split
      · rw [World.pub_put_other w d j _ hjd]
      · rfl
    · rfl
  | pickle s d =>
    have hjd : j ≠ d := by simpa [Op.targets] using hj
    simp only [step]
    split
    · rename_i g hg
      split
      · have h := Inv_pickleOf g (hw s g hg)
        rw [World.pub_put_other _ d j _ hjd]
        exact World.pub_put_same w s j _ g hg h.2.2
      · rfl
    · rfl
  | val s data =>
    simp only [step]
    split
    · rename_i g hg
      exact World.pub_put_same w s j _ g hg (validate_pub g data)
    · rfl
  | qschema s =>
    simp only [step]
    split
    · rename_i g hg
      exact World.pub_put_same w s j _ g hg (fillSchema_pub g)
    · rfl
  | qjson s =>
    simp only [step]
    split
    · rename_i g hg
      exact World.pub_put_same w s j _ g hg rfl
    · rfl
  | qsimple s =>
    simp only [step]
    split
    · rename_i g hg
      split
      · rfl
      · rename_i sg g' hts
        exact World.pub_put_same w s j _ g hg (Inv_toSimple g sg g' (hw s g hg) hts).2.2
    · rfl
  | qmisc s l =>
    simp only [step]
    split <;> rfl

/-! ### lifting to histories, small facts used by the property theorems -/

theorem run_Inv (w : World) (ops : List Op) (hw : w.Inv) : (run w ops).Inv := by
  unfold run
  induction ops generalizing w with
  | nil => exact hw
  | cons op t ih => exact ih (step w op).1 (step_Inv w op hw)

theorem validateAgainst_iff (elems : List (Name × TS)) (data : List (Name × Val)) :
    validateAgainst elems data = true ↔
      ∀ p ∈ elems, ∀ v, alookup data p.1 = some v → hasType p.2 v = true := by
  unfold validateAgainst
  rw [List.all_eq_true]
  constructor
  · intro h p hp v hv
    have := h p hp
    simp only [hv] at this
    exact this
  · intro h p hp
    cases hv : alookup data p.1 with
    | none => rfl
    | some v => exact h p hp v hv

theorem query_targets (op : Op) (h : op.isQuery = true) : op.targets = [] := by
  cases op <;> simp [Op.isQuery] at h <;> rfl

theorem run_frame (w : World) (ops : List Op) (hw : w.Inv) (j : Nat) (hj : ∀ op ∈ ops, j ∉ op.targets) :
    ((run w ops).get j).map Grammar.pub = (w.get j).map Grammar.pub := by
  unfold run
  induction ops generalizing w with
  | nil => rfl
  | cons op t ih =>
    simp only [List.foldl_cons]
    rw [ih (step w op).1 (step_Inv w op hw) (fun o ho => hj o (List.mem_cons_of_mem _ ho))]
    exact step_frame w op hw j (hj op (List.mem_cons_self ..))

theorem liftE_err (w : World) (s : Nat) (r : Except Err Grammar) (e : Err) (h : (liftE w s r).2 = .err e) :
    (liftE w s r).1 = w := by
  unfold liftE at *
  cases r with
  | error e' => rfl
  | ok g => cases h

end GV.C15
