/-
Helper lemmas for C02: list bookkeeping (prefix sums, flatMap slices, split/concat) and the
component-wise algebra of (un)normalisation.
-/
import GemseoVerif.Model.C02
import Mathlib.Tactic.Ring
import Mathlib.Tactic.FieldSimp
import Mathlib.Tactic.Linarith
import Mathlib.Algebra.Order.Field.Rat
import Mathlib.Algebra.Order.Field.Basic

namespace GV.C02

/-! ### split / concat -/

theorem splitBySizes_flatten (ls : List (List Rat)) :
    splitBySizes (ls.map List.length) ls.flatten = ls := by
  induction ls with
  | nil => rfl
  | cons l ls ih =>
    simp only [List.map_cons, List.flatten_cons, splitBySizes]
    rw [List.take_left', List.drop_left', ih] <;> rfl

theorem flatten_splitBySizes (sizes : List Nat) (x : List Rat) (h : sizes.sum = x.length) :
    (splitBySizes sizes x).flatten = x := by
  induction sizes generalizing x with
  | nil =>
    simp only [List.sum_nil] at h
    simp [splitBySizes, List.eq_nil_of_length_eq_zero h.symm]
  | cons s ss ih =>
    simp only [splitBySizes, List.flatten_cons]
    have hlen : ss.sum = (x.drop s).length := by
      simp only [List.sum_cons] at h
      simp only [List.length_drop]; omega
    rw [ih (x.drop s) hlen, List.take_append_drop]

theorem splitBySizes_lengths (sizes : List Nat) (x : List Rat) (h : sizes.sum = x.length) :
    (splitBySizes sizes x).map List.length = sizes := by
  induction sizes generalizing x with
  | nil => rfl
  | cons s ss ih =>
    simp only [List.sum_cons] at h
    simp only [splitBySizes, List.map_cons, List.length_take]
    have hlen : ss.sum = (x.drop s).length := by simp only [List.length_drop]; omega
    rw [ih (x.drop s) hlen]
    congr 1; omega

/-! ### prefix sums and slices of a `flatMap` -/

/-- Offset of the `i`-th variable: sum of the sizes of the variables before it. -/
def offset (vs : List Var) (i : Nat) : Nat := ((vs.take i).map Var.size).sum

theorem offset_zero (vs : List Var) : offset vs 0 = 0 := by simp [offset]

theorem offset_succ (vs : List Var) (i : Nat) (v : Var) (h : vs[i]? = some v) :
    offset vs (i + 1) = offset vs i + v.size := by
  unfold offset
  have hi : i < vs.length := by
    by_contra hc
    rw [List.getElem?_eq_none (Nat.le_of_not_lt hc)] at h; cases h
  rw [List.take_succ_eq_append_getElem hi]
  have : vs[i] = v := by
    rw [List.getElem?_eq_getElem hi] at h; exact Option.some.inj h
  simp [this]

theorem rangesAux_getElem? (vs : List Var) (off i : Nat) (v : Var) (h : vs[i]? = some v) :
    (rangesAux vs off)[i]? = some (v.name, off + offset vs i, off + offset vs i + v.size) := by
  induction vs generalizing off i with
  | nil => simp at h
  | cons w ws ih =>
    cases i with
    | zero =>
      simp only [List.getElem?_cons_zero, Option.some.injEq] at h
      subst h
      simp [rangesAux, offset]
    | succ j =>
      simp only [List.getElem?_cons_succ] at h
      simp only [rangesAux, List.getElem?_cons_succ]
      rw [ih (off + w.size) j h]
      simp only [offset, List.take_succ_cons, List.map_cons, List.sum_cons]
      have e1 : off + w.size + (List.map Var.size (List.take j ws)).sum
          = off + (w.size + (List.map Var.size (List.take j ws)).sum) := by omega
      rw [e1]

theorem rangesAux_length (vs : List Var) (off : Nat) : (rangesAux vs off).length = vs.length := by
  induction vs generalizing off with
  | nil => rfl
  | cons w ws ih => simp [rangesAux, ih]

/-- Slice of a `flatMap` at the `i`-th block. -/
theorem flatMap_slice {β : Type} (vs : List Var) (f : Var → List β)
    (hf : ∀ v ∈ vs, (f v).length = v.size) (i : Nat) (v : Var) (h : vs[i]? = some v) :
    ((vs.flatMap f).drop (offset vs i)).take v.size = f v := by
  induction vs generalizing i with
  | nil => simp at h
  | cons w ws ih =>
    cases i with
    | zero =>
      simp only [List.getElem?_cons_zero, Option.some.injEq] at h
      subst h
      simp only [offset, List.take_zero, List.map_nil, List.sum_nil, List.drop_zero,
        List.flatMap_cons]
      have := hf w (by simp)
      rw [← this, List.take_left']
      rfl
    | succ j =>
      simp only [List.getElem?_cons_succ] at h
      simp only [List.flatMap_cons, offset, List.take_succ_cons, List.map_cons, List.sum_cons]
      have hw := hf w (by simp)
      have : (f w ++ ws.flatMap f).drop (w.size + ((ws.take j).map Var.size).sum)
          = (ws.flatMap f).drop ((ws.take j).map Var.size).sum := by
        rw [← hw, List.drop_append]
        simp
      rw [this]
      exact ih (fun v hv => hf v (List.mem_cons_of_mem _ hv)) j h

theorem flatMap_length_eq_sum {β : Type} (vs : List Var) (f : Var → List β)
    (hf : ∀ v ∈ vs, (f v).length = v.size) :
    (vs.flatMap f).length = (vs.map Var.size).sum := by
  induction vs with
  | nil => rfl
  | cons w ws ih =>
    simp only [List.flatMap_cons, List.length_append, List.map_cons, List.sum_cons]
    rw [hf w (by simp), ih (fun v hv => hf v (List.mem_cons_of_mem _ hv))]

/-! ### component algebra -/

theorem scaleOf_some (l u : Rat) : scaleOf (some l) (some u) = u - l := rfl

theorem invScaleOf_mul_scaleOf (l u : Rat) (h : l ≠ u) :
    invScaleOf (some l) (some u) * scaleOf (some l) (some u) = 1 := by
  have hs : u - l ≠ 0 := sub_ne_zero.mpr (Ne.symm h)
  simp only [invScaleOf, scaleOf_some, hs, if_false]
  field_simp

theorem unnormComp_normComp (minusLb : Bool) (l u x : Rat) (h : l ≠ u) :
    unnormComp minusLb true (some l) (some u) (normComp minusLb true (some l) (some u) x) = x := by
  have hs : u - l ≠ 0 := sub_ne_zero.mpr (Ne.symm h)
  cases minusLb <;>
    simp only [unnormComp, normComp, if_true, invScaleOf, scaleOf_some, hs, if_false,
      Option.getD_some, Bool.false_eq_true] <;>
    field_simp <;> ring

theorem normComp_unnormComp (minusLb : Bool) (l u t : Rat) (h : l ≠ u) :
    normComp minusLb true (some l) (some u) (unnormComp minusLb true (some l) (some u) t) = t := by
  have hs : u - l ≠ 0 := sub_ne_zero.mpr (Ne.symm h)
  cases minusLb <;>
    simp only [unnormComp, normComp, if_true, invScaleOf, scaleOf_some, hs, if_false,
      Option.getD_some, Bool.false_eq_true] <;>
    field_simp <;> ring

theorem normComp_affine (l u x : Rat) (h : l < u) :
    normComp true true (some l) (some u) x = (x - l) / (u - l) := by
  have hs : u - l ≠ 0 := ne_of_gt (sub_pos.mpr h)
  simp only [normComp, if_true, invScaleOf, scaleOf_some, hs, if_false, Option.getD_some]
  field_simp

theorem normComp_unit_iff (l u x : Rat) (h : l < u) :
    (0 ≤ normComp true true (some l) (some u) x ∧ normComp true true (some l) (some u) x ≤ 1)
      ↔ (l ≤ x ∧ x ≤ u) := by
  rw [normComp_affine l u x h]
  have hpos : 0 < u - l := sub_pos.mpr h
  rw [le_div_iff₀ hpos, div_le_iff₀ hpos]
  constructor
  · rintro ⟨h1, h2⟩; constructor <;> linarith
  · rintro ⟨h1, h2⟩; constructor <;> linarith

theorem unnormComp_equal_bounds (l t : Rat) :
    unnormComp true true (some l) (some l) t = l := by
  simp [unnormComp, scaleOf]

theorem normComp_equal_bounds (l : Rat) :
    normComp true true (some l) (some l) l = 0 := by
  simp [normComp]

theorem normComp_not_norm (m : Bool) (l u : Option Rat) (x : Rat) :
    normComp m false l u x = x := by simp [normComp]

theorem unnormComp_not_norm (m : Bool) (l u : Option Rat) (x : Rat) :
    unnormComp m false l u x = x := by simp [unnormComp]

/-- Gradient scaling: `normalize_grad` multiplies by the scale `u - l` (0 when `l = u`). -/
theorem unnormComp_grad (l u g : Rat) :
    unnormComp false true (some l) (some u) g = g * (u - l) := by
  simp [unnormComp, scaleOf]

theorem normComp_grad (l u g : Rat) (h : l ≠ u) :
    normComp false true (some l) (some u) g = g / (u - l) := by
  have hs : u - l ≠ 0 := sub_ne_zero.mpr (Ne.symm h)
  simp only [normComp, if_true, invScaleOf, scaleOf_some, hs, if_false, Bool.false_eq_true]
  field_simp

/-! ### projection (component) -/

theorem projComp_ge (l : Rat) (ub : Option Rat) (x : Rat)
    (hb : ∀ u, ub = some u → l ≤ u) : l ≤ projComp (some l) ub x := by
  unfold projComp
  cases ub with
  | none => simp only; split <;> linarith
  | some u =>
    have := hb u rfl
    simp only
    split <;> split <;> linarith

theorem projComp_le (lb : Option Rat) (u : Rat) (x : Rat) : projComp lb (some u) x ≤ u := by
  unfold projComp
  cases lb with
  | none => simp only; split <;> linarith
  | some l => simp only; split <;> split <;> linarith

theorem projComp_fixed (lb ub : Option Rat) (x : Rat)
    (hl : ∀ l, lb = some l → l ≤ x) (hu : ∀ u, ub = some u → x ≤ u) : projComp lb ub x = x := by
  unfold projComp
  cases lb with
  | none =>
    cases ub with
    | none => rfl
    | some u => have := hu u rfl; simp only; split <;> linarith
  | some l =>
    have h1 := hl l rfl
    cases ub with
    | none => simp only; split <;> linarith
    | some u =>
      have h2 := hu u rfl
      simp only
      split <;> split <;> linarith

end GV.C02
