/-
C19 — the `out` argument of the vector maps (store of mutable arrays, Model/C19.lean):
whatever the store, the address of the input array and the address of `out` (absent, another
array, or the input array itself), the call returns an array holding the value-level map of the
ORIGINAL content of the input, `out` is that array, and every other array of the store — the input
array when it is not `out` — keeps its content.
-/
import GemseoVerif.Model.C19

namespace GV.C19

variable {α : Type} [Inhabited α]

theorem Heap.read_write_same (h : Heap α) (a : Nat) (v : α) (ha : a < h.length) :
    (h.write a v).read a = v := by
  simp [Heap.read, Heap.write, ha]

theorem Heap.read_write_other (h : Heap α) (a b : Nat) (v : α) (hab : a ≠ b) :
    (h.write a v).read b = h.read b := by
  simp [Heap.read, Heap.write, hab]

omit [Inhabited α] in
@[simp] theorem Heap.length_write (h : Heap α) (a : Nat) (v : α) :
    (h.write a v).length = h.length := by
  simp [Heap.write]

theorem Heap.read_alloc_new (h : Heap α) (v : α) : (h.alloc v).1.read (h.alloc v).2 = v := by
  simp [Heap.read, Heap.alloc]

theorem Heap.read_alloc_new' (h : Heap α) (v : α) : (h.alloc v).1.read h.length = v :=
  Heap.read_alloc_new h v

theorem Heap.read_alloc_old (h : Heap α) (v : α) (b : Nat) (hb : b < h.length) :
    (h.alloc v).1.read b = h.read b := by
  simp [Heap.read, Heap.alloc, List.getElem?_append_left hb]

omit [Inhabited α] in
@[simp] theorem Heap.length_alloc (h : Heap α) (v : α) : (h.alloc v).1.length = h.length + 1 := by
  simp [Heap.alloc]

omit [Inhabited α] in
@[simp] theorem Heap.alloc_addr (h : Heap α) (v : α) : (h.alloc v).2 = h.length := rfl

/-- What a call leaves behind: `r` holds `y`, `r` is `out` when `out` is given and a new array
    otherwise, and every array of the old store other than `out` is unchanged. -/
structure OutPost (h : Heap α) (out : Option Nat) (y : α) (h' : Heap α) (r : Nat) : Prop where
  result : h'.read r = y
  isOut : ∀ ao, out = some ao → r = ao
  fresh : out = none → h.length ≤ r
  grows : h.length ≤ h'.length
  frame : ∀ b, b < h.length → out ≠ some b → h'.read b = h.read b

/-- `DesignSpace.(un)normalize_vect(x_vect, ..., out)`. -/
theorem dsVectOut_post (f : α → α) (h : Heap α) (ax : Nat) (out : Option Nat)
    (hout : ∀ ao, out = some ao → ao < h.length) :
    OutPost h out (f (h.read ax)) (dsVectOut f h ax out).1 (dsVectOut f h ax out).2 := by
  cases out with
  | none =>
    refine ⟨?_, by simp, fun _ => by simp [dsVectOut], by simp [dsVectOut], ?_⟩
    · simp only [dsVectOut]
      rw [Heap.read_write_same _ _ _ (by simp), Heap.read_alloc_new]
    · intro b hb _
      simp only [dsVectOut]
      rw [Heap.read_write_other _ _ _ _ (by simp; omega), Heap.read_alloc_old _ _ _ hb]
  | some ao =>
    have hao := hout ao rfl
    refine ⟨?_, fun a ha => by cases ha; rfl, by simp, by simp [dsVectOut], ?_⟩
    · simp only [dsVectOut]
      rw [Heap.read_write_same _ _ _ (by simpa using hao), Heap.read_write_same _ _ _ hao]
    · intro b _ hb
      have hne : ao ≠ b := fun e => hb (by rw [e])
      simp only [dsVectOut]
      rw [Heap.read_write_other _ _ _ _ hne, Heap.read_write_other _ _ _ _ hne]

/-- `ParameterSpace.__(un)normalize_vect(x_vect, ..., out)`: the views on `x_vect` are read after
    the geometric map, which wrote into a *new* array, so they still hold the original content. -/
theorem distVectOut_post (f : α → α) (comb : α → α → Option α) (h : Heap α) (ax : Nat)
    (out : Option Nat) (hax : ax < h.length) (hout : ∀ ao, out = some ao → ao < h.length) :
    (comb (h.read ax) (f (h.read ax)) = none → distVectOut f comb h ax out = none) ∧
    (∀ y, comb (h.read ax) (f (h.read ax)) = some y →
      ∃ h' r, distVectOut f comb h ax out = some (h', r) ∧ OutPost h out y h' r) := by
  have g := dsVectOut_post f h ax none (by simp)
  have hx : (dsVectOut f h ax none).1.read ax = h.read ax := g.frame ax hax (by simp)
  have hg : (dsVectOut f h ax none).1.read (dsVectOut f h ax none).2 = f (h.read ax) := g.result
  constructor
  · intro hn
    simp [distVectOut, hx, hg, hn]
  · intro y hy
    cases out with
    | none =>
      refine ⟨((dsVectOut f h ax none).1.alloc y).1, ((dsVectOut f h ax none).1.alloc y).2,
        by simp [distVectOut, hx, hg, hy] <;> rfl, ?_⟩
      refine ⟨Heap.read_alloc_new _ _, by simp, fun _ => ?_, ?_, ?_⟩
      · simpa using g.grows
      · have := g.grows; simp; omega
      · intro b hb _
        rw [Heap.read_alloc_old _ _ _ (Nat.lt_of_lt_of_le hb g.grows)]
        exact g.frame b hb (by simp)
    | some ao =>
      have hao := hout ao rfl
      have hao' : ao < (dsVectOut f h ax none).1.length := Nat.lt_of_lt_of_le hao g.grows
      refine ⟨(((dsVectOut f h ax none).1.alloc y).1.write ao
          (((dsVectOut f h ax none).1.alloc y).1.read ((dsVectOut f h ax none).1.alloc y).2)), ao,
        by simp [distVectOut, hx, hg, hy] <;> rfl, ?_⟩
      refine ⟨?_, fun a ha => by cases ha; rfl, by simp, ?_, ?_⟩
      · rw [Heap.read_write_same _ _ _ (by simp; omega), Heap.read_alloc_new]
      · have := g.grows; simp; omega
      · intro b hb hne
        have hne' : ao ≠ b := fun e => hne (by rw [e])
        rw [Heap.read_write_other _ _ _ _ hne',
          Heap.read_alloc_old _ _ _ (Nat.lt_of_lt_of_le hb g.grows)]
        exact g.frame b hb (by simp)

/-! ### The value-level maps are the store-level ones on a store holding only the input -/

theorem normalizeVect_eq_comb (p : PS) (env : Env) (m : Bool) (x : List Rat) :
    p.normalizeVect env m true x = p.normComb env x (p.ds.normalizeVect m x) := rfl

theorem unnormalizeVect_eq_comb (p : PS) (env : Env) (m : Bool) (u : List Rat) :
    p.unnormalizeVect env m true u = p.unnormComb env u (p.ds.unnormalizeVect m u) := rfl

theorem normalizeVect2_eq_comb (p : PS) (env : Env) (m : Bool) (x : List (List Rat)) :
    p.normalizeVect2 env m true x = p.normComb2 env x (x.map (p.ds.normalizeVect m)) := rfl

theorem unnormalizeVect2_eq_comb (p : PS) (env : Env) (m : Bool) (u : List (List Rat)) :
    p.unnormalizeVect2 env m true u = p.unnormComb2 env u (u.map (p.ds.unnormalizeVect m)) := rfl

/-- The generic statement for the four public maps: `pure` is the value-level model of the call
    (`PS.normalizeVect`, ...), `store` the store-level one. -/
def OutCorrect {β : Type} [Inhabited β] (pure : β → Option β)
    (store : Heap β → Nat → Option Nat → Option (Heap β × Nat)) : Prop :=
  ∀ (h : Heap β) (ax : Nat) (out : Option Nat), ax < h.length →
    (∀ ao, out = some ao → ao < h.length) →
    (pure (h.read ax) = none → store h ax out = none) ∧
    (∀ y, pure (h.read ax) = some y → ∃ h' r, store h ax out = some (h', r) ∧ OutPost h out y h' r)

theorem outCorrect_of {β : Type} [Inhabited β] (u : Bool) (f : β → β) (comb : β → β → Option β)
    (pure : β → Option β) (store : Heap β → Nat → Option Nat → Option (Heap β × Nat))
    (hp : ∀ x, pure x = if !u then some (f x) else comb x (f x))
    (hs : ∀ h ax out, store h ax out =
      if !u then some (dsVectOut f h ax out) else distVectOut f comb h ax out) :
    OutCorrect pure store := by
  intro h ax out hax hout
  rw [hp, hs]
  cases u with
  | false =>
    refine ⟨by simp, fun y hy => ⟨_, _, rfl, ?_⟩⟩
    have : y = f (h.read ax) := by simpa using hy.symm
    rw [this]
    exact dsVectOut_post f h ax out hout
  | true => simpa using distVectOut_post f comb h ax out hax hout

/-- `OutCorrect` spelled out (the form used in Props/C19.lean). -/
theorem out_unfold {β : Type} [Inhabited β] {pure : β → Option β}
    {store : Heap β → Nat → Option Nat → Option (Heap β × Nat)} (hc : OutCorrect pure store)
    (h : Heap β) (ax : Nat) (out : Option Nat) (hax : ax < h.length)
    (hout : ∀ ao, out = some ao → ao < h.length) :
    (pure (h.read ax) = none → store h ax out = none) ∧
    ∀ y, pure (h.read ax) = some y →
      ∃ h' r, store h ax out = some (h', r) ∧ h'.read r = y ∧ (∀ ao, out = some ao → r = ao) ∧
        (∀ b, b < h.length → out ≠ some b → h'.read b = h.read b) := by
  obtain ⟨h1, h2⟩ := hc h ax out hax hout
  refine ⟨h1, fun y hy => ?_⟩
  obtain ⟨h', r, he, hp⟩ := h2 y hy
  exact ⟨h', r, he, hp.result, hp.isOut, hp.frame⟩

/-! ### A concrete space for the non-vacuity examples: `d` deterministic on `[-1, 3]`, `u` uniform on `[1, 3]` -/

def exampleSpace : PS :=
  { ds := { vars := [⟨"d", false, [some (-1)], [some 3], none⟩,
                     ⟨"u", false, [some 1], [some 3], some [2]⟩] },
    unc := ["u"], dists := [("u", [⟨"U", []⟩])], joint := [⟨"U", []⟩], fam := some "SP" }

def exampleEnv : Env :=
  { cdf := fun _ x => (x - 1) / 2, icdf := fun _ q => 1 + 2 * q, lb := fun _ => some 1,
    ub := fun _ => some 3, mean := fun _ => 2 }

end GV.C19
