/-
C10 — algebra of the finite sums `sumTo` of the model over a field.
-/
import GemseoVerif.Model.C10
import Mathlib.Algebra.BigOperators.Group.Finset.Basic
import Mathlib.Algebra.Field.Defs
import Mathlib.Tactic.Ring

namespace GV.C10

variable {K : Type} [Field K]

@[simp] theorem sumTo_zero_fn (n : Nat) : sumTo n (fun _ => (0 : K)) = 0 := by
  induction n with
  | zero => rfl
  | succ k ih => simp [sumTo, ih]

theorem sumTo_congr {n : Nat} {f g : Nat → K} (h : ∀ j, j < n → f j = g j) :
    sumTo n f = sumTo n g := by
  induction n with
  | zero => rfl
  | succ k ih =>
    simp only [sumTo]
    rw [ih (fun j hj => h j (Nat.lt_succ_of_lt hj)), h k (Nat.lt_succ_self k)]

theorem sumTo_add (n : Nat) (f g : Nat → K) :
    sumTo n (fun j => f j + g j) = sumTo n f + sumTo n g := by
  induction n with
  | zero => simp [sumTo]
  | succ k ih => simp only [sumTo, ih]; ring

theorem sumTo_sub (n : Nat) (f g : Nat → K) :
    sumTo n (fun j => f j - g j) = sumTo n f - sumTo n g := by
  induction n with
  | zero => simp [sumTo]
  | succ k ih => simp only [sumTo, ih]; ring

theorem sumTo_neg (n : Nat) (f : Nat → K) : sumTo n (fun j => - f j) = - sumTo n f := by
  induction n with
  | zero => simp [sumTo]
  | succ k ih => simp only [sumTo, ih]; ring

theorem sumTo_mul_right (n : Nat) (f : Nat → K) (c : K) :
    sumTo n (fun j => f j * c) = sumTo n f * c := by
  induction n with
  | zero => simp [sumTo]
  | succ k ih => simp only [sumTo, ih]; ring

theorem sumTo_mul_left (n : Nat) (f : Nat → K) (c : K) :
    sumTo n (fun j => c * f j) = c * sumTo n f := by
  induction n with
  | zero => simp [sumTo]
  | succ k ih => simp only [sumTo, ih]; ring

/-- Exchange of two finite sums. -/
theorem sumTo_comm (n m : Nat) (f : Nat → Nat → K) :
    sumTo n (fun i => sumTo m (fun j => f i j)) = sumTo m (fun j => sumTo n (fun i => f i j)) := by
  induction n with
  | zero => simp [sumTo]
  | succ k ih =>
    simp only [sumTo, ih]
    rw [← sumTo_add]

/-- A sum with a single non-zero term. -/
theorem sumTo_ite_eq (n j0 : Nat) (h : j0 < n) (f : Nat → K) :
    sumTo n (fun j => if j = j0 then f j else 0) = f j0 := by
  induction n with
  | zero => omega
  | succ k ih =>
    simp only [sumTo]
    by_cases hk : j0 = k
    · subst hk
      have : sumTo j0 (fun j => if j = j0 then f j else 0) = 0 := by
        rw [← sumTo_zero_fn (K := K) j0]
        exact sumTo_congr (fun j hj => by simp [Nat.ne_of_lt hj])
      simp [this]
    · have hlt : j0 < k := by omega
      rw [ih hlt]
      have : k ≠ j0 := fun h => hk h.symm
      simp [this]

theorem sumTo_eq_finset_sum (n : Nat) (f : Nat → K) : sumTo n f = ∑ j ∈ Finset.range n, f j := by
  induction n with
  | zero => simp [sumTo]
  | succ k ih => simp only [sumTo, ih, Finset.sum_range_succ]

end GV.C10
