/-
C09 — helper lemmas: algebra of Jacobian blocks, semantics of the dictionary operations of
`Model/C09.lean`, forward-mode specification of the total derivative.
-/
import GemseoVerif.Model.C09
import Mathlib.Algebra.BigOperators.Group.Finset.Basic
import Mathlib.Algebra.BigOperators.Group.List.Basic
import Mathlib.Data.Fintype.Basic

namespace GV.C09

set_option linter.unusedSectionVars false

open Finset

/-- Laws of the block operations: blocks of a given shape form a commutative additive monoid,
    the product is bilinear and associative (what `numpy`'s `+` and `@` satisfy on matrices of
    compatible shapes). -/
class LawfulBlocks {V : Type} (β : V → V → Type) [BlockOps β] [∀ o i, AddCommMonoid (β o i)] :
    Prop where
  add_eq : ∀ {o i : V} (a b : β o i), BlockOps.add a b = a + b
  mul_add : ∀ {o m i : V} (a : β o m) (b c : β m i),
    BlockOps.mul a (b + c) = BlockOps.mul a b + BlockOps.mul a c
  add_mul : ∀ {o m i : V} (a b : β o m) (c : β m i),
    BlockOps.mul (a + b) c = BlockOps.mul a c + BlockOps.mul b c
  mul_zero : ∀ {o m i : V} (a : β o m), BlockOps.mul a (0 : β m i) = 0
  zero_mul : ∀ {o m i : V} (c : β m i), BlockOps.mul (0 : β o m) c = 0
  mul_assoc : ∀ {o m n i : V} (a : β o m) (b : β m n) (c : β n i),
    BlockOps.mul (BlockOps.mul a b) c = BlockOps.mul a (BlockOps.mul b c)

section
variable {V : Type} [DecidableEq V] {β : V → V → Type} [BlockOps β]
  [∀ o i, AddCommMonoid (β o i)] [LawfulBlocks β]

local infixl:70 " ⬝ " => BlockOps.mul

theorem mul_list_sum {o m i : V} (a : β o m) (l : List (β m i)) :
    a ⬝ l.sum = (l.map (fun b => a ⬝ b)).sum := by
  induction l with
  | nil => simp [LawfulBlocks.mul_zero]
  | cons b t ih => simp [LawfulBlocks.mul_add, ih]

theorem list_sum_mul {o m i : V} (l : List (β o m)) (c : β m i) :
    l.sum ⬝ c = (l.map (fun a => a ⬝ c)).sum := by
  induction l with
  | nil => simp [LawfulBlocks.zero_mul]
  | cons b t ih => simp [LawfulBlocks.add_mul, ih]

theorem mul_finset_sum {ι : Type} {o m i : V} (a : β o m) (s : Finset ι) (f : ι → β m i) :
    a ⬝ (∑ k ∈ s, f k) = ∑ k ∈ s, a ⬝ f k := by
  classical
  induction s using Finset.induction_on with
  | empty => simp [LawfulBlocks.mul_zero]
  | insert k s hk ih => rw [Finset.sum_insert hk, Finset.sum_insert hk, LawfulBlocks.mul_add, ih]

theorem finset_sum_mul {ι : Type} {o m i : V} (s : Finset ι) (f : ι → β o m) (c : β m i) :
    (∑ k ∈ s, f k) ⬝ c = ∑ k ∈ s, f k ⬝ c := by
  classical
  induction s using Finset.induction_on with
  | empty => simp [LawfulBlocks.zero_mul]
  | insert k s hk ih => rw [Finset.sum_insert hk, Finset.sum_insert hk, LawfulBlocks.add_mul, ih]

/-! ### Semantics of rows: absent key = zero block -/

/-- The block a row stands for at key `v` (an absent key is a zero block). -/
def Row.sem {o : V} (r : Row β o) (v : V) : β o v :=
  match r.get v with
  | some b => b
  | none => 0

/-- The row with the single entry `k ↦ x`. -/
def single {o : V} (k : V) (x : β o k) (v : V) : β o v :=
  if h : k = v then h ▸ x else 0

@[simp] theorem single_self {o : V} (k : V) (x : β o k) : single k x k = x := by
  simp [single]

theorem single_ne {o : V} {k v : V} (x : β o k) (h : k ≠ v) : single k x v = 0 := by
  simp [single, h]

@[simp] theorem Row.sem_empty {o : V} (v : V) : (Row.empty : Row β o).sem v = 0 := rfl

theorem Row.sem_erase {o : V} (r : Row β o) (k v : V) :
    (r.erase k).sem v = if v = k then 0 else r.sem v := by
  unfold Row.sem Row.erase
  by_cases h : v = k <;> simp [h]

theorem Row.sem_set {o : V} (r : Row β o) (k : V) (x : β o k) (v : V) :
    (r.set k x).sem v = if k = v then single k x v else r.sem v := by
  unfold Row.sem Row.set single
  by_cases h : k = v
  · subst h; simp
  · simp [h]

theorem Row.sem_addAt {o : V} (r : Row β o) (k : V) (x : β o k) (v : V) :
    (r.addAt k x).sem v = r.sem v + single k x v := by
  unfold Row.addAt
  cases hk : r.get k with
  | none =>
    simp only [Row.sem_set]
    by_cases h : k = v
    · subst h; simp [Row.sem, hk]
    · simp [h, single_ne x h]
  | some old =>
    simp only [Row.sem_set]
    by_cases h : k = v
    · subst h; simp [Row.sem, hk, LawfulBlocks.add_eq]
    · simp [h, single_ne _ h]


/-! ### Pairing a row of sensitivities with a tangent -/

variable [Fintype V]

/-- `Σ_v f v ⬝ t v`: the tangent of the output when `f v = ∂o/∂v` and `t v` is the tangent of `v`. -/
def pair {o p : V} (f : (v : V) → β o v) (t : (v : V) → β v p) : β o p :=
  ∑ v, f v ⬝ t v

theorem pair_add {o p : V} (f g : (v : V) → β o v) (t : (v : V) → β v p) :
    pair (fun v => f v + g v) t = pair f t + pair g t := by
  simp [pair, LawfulBlocks.add_mul, Finset.sum_add_distrib]

theorem pair_zero {o p : V} (t : (v : V) → β v p) :
    pair (fun v => (0 : β o v)) t = 0 := by
  simp [pair, LawfulBlocks.zero_mul]

theorem pair_single {o p : V} (k : V) (x : β o k) (t : (v : V) → β v p) :
    pair (single k x) t = x ⬝ t k := by
  unfold pair
  rw [Finset.sum_eq_single k]
  · simp
  · intro v _ hv
    rw [single_ne x (Ne.symm hv), LawfulBlocks.zero_mul]
  · intro h; exact absurd (Finset.mem_univ k) h

theorem pair_congr {o p : V} {f g : (v : V) → β o v} (t : (v : V) → β v p)
    (h : ∀ v, f v = g v) : pair f t = pair g t := by
  unfold pair; exact Finset.sum_congr rfl (fun v _ => by rw [h v])

/-! ### Forward-mode specification -/

/-- Key `(w, v)` is present in the Jacobian dictionary of a discipline. -/
def DJac.present (j : DJac β) (w v : V) : Prop := w ∈ j.rows ∧ v ∈ j.cols w

instance (j : DJac β) (w v : V) : Decidable (j.present w v) := by
  unfold DJac.present; infer_instance

/-- Effective partial derivative: the block of the dictionary, zero when the key is absent. -/
def DJac.eff (j : DJac β) (w v : V) : β w v := if j.present w v then j.val w v else 0

/-- Tangent of the output `w` of a discipline given the tangents `t` of its inputs:
    `Σ_v ∂w/∂v ⬝ t v` (forward mode, definition of the differential). -/
def DJac.out {p : V} (j : DJac β) (t : (v : V) → β v p) (w : V) : β w p :=
  ∑ v, j.eff w v ⬝ t v

/-- One discipline of a chain: it overwrites the tangents of the variables it computes
    (`self.io.data.update(discipline.execute(self.io.data))`). -/
def fstep {p : V} (d : Disc β) (t : (v : V) → β v p) (v : V) : β v p :=
  if v ∈ d.outs then d.jac.out t v else t v

/-- Forward sweep over a chain, in execution order. -/
def fwd {p : V} (ds : List (Disc β)) (t : (v : V) → β v p) : (v : V) → β v p :=
  ds.foldl (fun t d => fstep d t) t

@[simp] theorem fwd_nil {p : V} (t : (v : V) → β v p) : fwd ([] : List (Disc β)) t = t := rfl

@[simp] theorem fwd_cons {p : V} (d : Disc β) (ds : List (Disc β)) (t : (v : V) → β v p) :
    fwd (d :: ds) t = fwd ds (fstep d t) := rfl

/-- The dictionary keys are unique (Python `dict`). -/
def DJac.WF (j : DJac β) : Prop := ∀ w, (j.cols w).Nodup

theorem DJac.sem_row (j : DJac β) (o v : V) : (j.row o).sem v = j.eff o v := by
  unfold DJac.row Row.sem DJac.eff DJac.present
  by_cases h : o ∈ j.rows ∧ v ∈ j.cols o <;> simp [h]

theorem pair_row {p : V} (j : DJac β) (o : V) (t : (v : V) → β v p) :
    pair (j.row o).sem t = j.out t o := by
  unfold pair DJac.out
  exact Finset.sum_congr rfl (fun v _ => by rw [DJac.sem_row])

/-! ### The inner loop of `reverse_chain_rule` -/

theorem sem_inner {o : V} (j : DJac β) (w : V) (curr : β o w) (vs : List V) (r : Row β o) (v : V) :
    (inner j w curr vs r).sem v
      = r.sem v + (vs.map (fun v' => single v' (curr ⬝ j.val w v') v)).sum := by
  induction vs generalizing r with
  | nil => simp [inner]
  | cons a vs ih =>
    simp only [inner, ih, Row.sem_addAt, List.map_cons, List.sum_cons]
    rw [add_assoc]

theorem pair_list_sum {o p : V} (l : List ((v : V) → β o v)) (t : (v : V) → β v p) :
    pair (fun v => (l.map (fun f => f v)).sum) t = (l.map (fun f => pair f t)).sum := by
  induction l with
  | nil => simp [pair_zero]
  | cons f l ih =>
    simp only [List.map_cons, List.sum_cons]
    rw [pair_add, ih]

/-- Contribution of one consumed key: `curr ⬝ (Σ_{v ∈ cols w} ∂w/∂v ⬝ t v)`. -/
theorem pair_inner_contrib {o p : V} (j : DJac β) (hj : j.WF) (w : V) (hw : w ∈ j.rows)
    (curr : β o w) (t : (v : V) → β v p) :
    (((j.cols w).map (fun v' => single v' (curr ⬝ j.val w v'))).map (fun f => pair f t)).sum
      = curr ⬝ j.out t w := by
  unfold DJac.out
  rw [mul_finset_sum]
  rw [List.map_map]
  have h1 : ((j.cols w).map ((fun f => pair f t) ∘ fun v' => single v' (curr ⬝ j.val w v'))).sum
      = ((j.cols w).map (fun v' => curr ⬝ (j.val w v' ⬝ t v'))).sum := by
    congr 1
    apply List.map_congr_left
    intro v' _
    simp [pair_single, LawfulBlocks.mul_assoc]
  rw [h1, ← List.sum_toFinset _ (hj w)]
  rw [← Finset.sum_subset (Finset.subset_univ (j.cols w).toFinset)]
  · apply Finset.sum_congr rfl
    intro v hv
    have : j.present w v := ⟨hw, List.mem_toFinset.mp hv⟩
    simp [DJac.eff, this]
  · intro v _ hv
    have : ¬ j.present w v := fun h => hv (List.mem_toFinset.mpr h.2)
    simp [DJac.eff, this, LawfulBlocks.zero_mul, LawfulBlocks.mul_zero]


/-! ### One `reverse_chain_rule` call on one output (repaired code) -/

theorem sem_foldl_erase {o : V} (l : List V) (r : Row β o) (v : V) :
    (l.foldl Row.erase r).sem v = if v ∈ l then 0 else r.sem v := by
  induction l generalizing r with
  | nil => simp
  | cons a l ih =>
    simp only [List.foldl_cons, ih, Row.sem_erase, List.mem_cons]
    by_cases h1 : v ∈ l <;> by_cases h2 : v = a <;> simp [h1, h2]

/-- What the composition of the popped key `w` adds to the dictionary. -/
def contrib {o : V} (d : Disc β) (r : Row β o) (w : V) : (v : V) → β o v :=
  match r.get w with
  | some curr =>
    if w ∈ d.jac.rows then
      fun v => ((d.jac.cols w).map (fun v' => single v' (curr ⬝ d.jac.val w v') v)).sum
    else fun _ => 0
  | none => fun _ => 0

theorem DJac.out_of_not_row {p : V} (j : DJac β) (t : (v : V) → β v p) (w : V) (h : w ∉ j.rows) :
    j.out t w = 0 := by
  unfold DJac.out
  apply Finset.sum_eq_zero
  intro v _
  have : ¬ j.present w v := fun hp => h hp.1
  simp [DJac.eff, this, LawfulBlocks.zero_mul]

theorem pair_contrib {o p : V} (d : Disc β) (hd : d.jac.WF) (r : Row β o) (w : V)
    (t : (v : V) → β v p) :
    pair (contrib d r w) t = r.sem w ⬝ d.jac.out t w := by
  unfold contrib Row.sem
  cases hr : r.get w with
  | none => simp [pair_zero, LawfulBlocks.zero_mul]
  | some curr =>
    by_cases hw : w ∈ d.jac.rows
    · simp only [hw, if_true]
      have := pair_list_sum ((d.jac.cols w).map (fun v' => single v' (curr ⬝ d.jac.val w v'))) t
      simp only [List.map_map] at this
      have h2 := pair_inner_contrib d.jac hd w hw curr t
      simp only [List.map_map] at h2
      rw [← h2, ← this]
      apply pair_congr
      intro v
      simp [Function.comp_def]
    · simp [hw, pair_zero, DJac.out_of_not_row _ _ _ hw, LawfulBlocks.mul_zero]

theorem sem_foldl_contrib {o : V} (d : Disc β) (r : Row β o) (l : List V) (r0 : Row β o) (v : V) :
    (l.foldl (fun acc w =>
        match r.get w with
        | some curr => if w ∈ d.jac.rows then inner d.jac w curr (d.jac.cols w) acc else acc
        | none => acc) r0).sem v
      = r0.sem v + (l.map (fun w => contrib d r w v)).sum := by
  induction l generalizing r0 with
  | nil => simp
  | cons a l ih =>
    simp only [List.foldl_cons, ih, List.map_cons, List.sum_cons]
    rw [← add_assoc]
    congr 1
    unfold contrib
    cases hr : r.get a with
    | none => simp
    | some curr =>
      by_cases hw : a ∈ d.jac.rows
      · simp [hw, sem_inner]
      · simp [hw]

theorem mem_consumedKeys {o : V} (vars outs : List V) (r : Row β o) (hall : ∀ v, v ∈ vars) (w : V) :
    w ∈ consumedKeys vars outs r ↔ w ∈ outs ∧ (r.get w).isSome = true := by
  simp [consumedKeys, hall]

/-- The adjoint identity for one discipline: pairing the updated row with the tangents before the
    discipline equals pairing the old row with the tangents after the discipline. -/
theorem pair_stepRow {o p : V} (vars : List V) (hnd : vars.Nodup) (hall : ∀ v, v ∈ vars)
    (d : Disc β) (hd : d.jac.WF) (r : Row β o) (t : (v : V) → β v p) :
    pair (stepRow vars d r).sem t = pair r.sem (fstep d t) := by
  have hcn : (consumedKeys vars d.outs r).Nodup := by
    unfold consumedKeys; exact hnd.filter _
  have hsem : ∀ v, (stepRow vars d r).sem v
      = (if v ∈ d.outs then 0 else r.sem v)
        + ((consumedKeys vars d.outs r).map (fun w => contrib d r w v)).sum := by
    intro v
    have hdef : stepRow vars d r
        = (consumedKeys vars d.outs r).foldl (fun acc w =>
            match r.get w with
            | some curr => if w ∈ d.jac.rows then inner d.jac w curr (d.jac.cols w) acc else acc
            | none => acc) ((consumedKeys vars d.outs r).foldl Row.erase r) := rfl
    rw [hdef, sem_foldl_contrib, sem_foldl_erase]
    congr 1
    simp only [mem_consumedKeys vars d.outs r hall]
    by_cases h1 : v ∈ d.outs
    · cases h2 : r.get v <;> simp [h1, h2, Row.sem]
    · simp [h1]
  rw [pair_congr t hsem, pair_add]
  have h2 := pair_list_sum ((consumedKeys vars d.outs r).map (fun w => contrib d r w)) t
  simp only [List.map_map, Function.comp_def] at h2
  rw [h2]
  simp only [pair_contrib d hd]
  rw [← List.sum_toFinset _ hcn]
  have hS : ∑ w ∈ (consumedKeys vars d.outs r).toFinset, r.sem w ⬝ d.jac.out t w
      = ∑ w, (if w ∈ d.outs then r.sem w ⬝ d.jac.out t w else 0) := by
    rw [← Finset.sum_subset (Finset.subset_univ (consumedKeys vars d.outs r).toFinset)]
    · apply Finset.sum_congr rfl
      intro w hw
      have := (mem_consumedKeys vars d.outs r hall w).mp (List.mem_toFinset.mp hw)
      simp [this.1]
    · intro w _ hw
      by_cases h1 : w ∈ d.outs
      · have h2 : r.get w = none := by
          cases h : r.get w with
          | none => rfl
          | some b =>
            exact absurd (List.mem_toFinset.mpr
              ((mem_consumedKeys vars d.outs r hall w).mpr ⟨h1, by simp [h]⟩)) hw
        simp [h1, Row.sem, h2, LawfulBlocks.zero_mul]
      · simp [h1]
  rw [hS]
  unfold pair fstep
  rw [← Finset.sum_add_distrib]
  apply Finset.sum_congr rfl
  intro v _
  by_cases h1 : v ∈ d.outs <;> simp [h1, LawfulBlocks.zero_mul]


/-! ### The whole chain: adjoint identity -/

theorem chainRow_cons (vars : List V) (d : Disc β) (ds : List (Disc β)) (o : V) :
    chainRow vars (d :: ds) o = stepOpt vars d (chainRow vars ds o) := rfl

/-- Reverse accumulation computes the row of sensitivities of `o`: for every tangent `t` of the
    variables before the chain, the tangent of `o` after the chain is the pairing of the
    accumulated row with `t` (or `t o` itself when no discipline computes `o`). -/
theorem chain_adjoint {p : V} (vars : List V) (hnd : vars.Nodup) (hall : ∀ v, v ∈ vars)
    (ds : List (Disc β)) (hds : ∀ d ∈ ds, d.jac.WF) (o : V) (t : (v : V) → β v p) :
    fwd ds t o = match chainRow vars ds o with
      | some r => pair r.sem t
      | none => t o := by
  induction ds generalizing t with
  | nil => rfl
  | cons d ds ih =>
    have hd := hds d (List.mem_cons_self ..)
    have ih' := ih (fun e he => hds e (List.mem_cons_of_mem _ he)) (fstep d t)
    rw [fwd_cons, ih', chainRow_cons]
    cases hrow : chainRow vars ds o with
    | some r => simp only [stepOpt]; rw [pair_stepRow vars hnd hall d hd]
    | none =>
      simp only [stepOpt, fstep]
      by_cases ho : o ∈ d.outs
      · simp [ho, pair_row]
      · simp [ho]

theorem chainRow_isSome (vars : List V) (ds : List (Disc β)) (o : V)
    (ho : ∃ d ∈ ds, o ∈ d.outs) : (chainRow vars ds o).isSome = true := by
  induction ds with
  | nil => obtain ⟨d, hd, _⟩ := ho; cases hd
  | cons d ds ih =>
    rw [chainRow_cons]
    cases hrow : chainRow vars ds o with
    | some r => simp [stepOpt]
    | none =>
      obtain ⟨e, he, hoe⟩ := ho
      rcases List.mem_cons.mp he with rfl | he'
      · simp [stepOpt, hoe]
      · have := ih ⟨e, he', hoe⟩
        simp [hrow] at this

/-- Pairing with a tangent supported on the requested inputs `X` only involves the keys in `X`. -/
theorem pair_support {o p : V} (f : (v : V) → β o v) (t : (v : V) → β v p) (X : List V)
    (ht : ∀ v, v ∉ X → t v = 0) :
    pair f t = ∑ x ∈ X.toFinset, f x ⬝ t x := by
  unfold pair
  rw [← Finset.sum_subset (Finset.subset_univ X.toFinset)]
  intro v _ hv
  rw [ht v (fun h => hv (List.mem_toFinset.mpr h)), LawfulBlocks.mul_zero]

theorem finishRow_zero_sem {o : V} (row : Option (Row β o)) (x : V) :
    finishRow (fun o x => (0 : β o x)) row x = match row with
      | some r => r.sem x
      | none => 0 := by
  cases row with
  | none => rfl
  | some r => simp only [finishRow, Row.sem]; cases r.get x <;> rfl

end

end GV.C09
