/-
C17 — list-level lemmas about the index arithmetic of the formulations (`Model/C17.lean`):
prefix-sum ranges, masks, unmasking, the adapter's cut of the masked vector.

A design vector laid out along `names` is the concatenation `cat names blk` of the named blocks
(`blk n` has the size of variable `n`) — the `convert_dict_to_array` view of C02.
-/
import GemseoVerif.Model.C17
import Mathlib.Data.List.Basic

namespace GV.C17

/-- The vector view of a named point: concatenation of the blocks in the order of `names`. -/
def cat (names : List String) (blk : String → Vec) : Vec := names.flatMap blk

@[simp] theorem cat_nil (blk : String → Vec) : cat [] blk = [] := rfl
@[simp] theorem cat_cons (n : String) (ns : List String) (blk : String → Vec) :
    cat (n :: ns) blk = blk n ++ cat ns blk := by simp [cat]
theorem cat_append (a b : List String) (blk : String → Vec) :
    cat (a ++ b) blk = cat a blk ++ cat b blk := by simp [cat]

@[simp] theorem totalSize_nil (sizes : Sizes) : totalSize sizes [] = 0 := rfl
@[simp] theorem totalSize_cons (sizes : Sizes) (n : String) (ns : List String) :
    totalSize sizes (n :: ns) = sizeOf sizes n + totalSize sizes ns := by simp [totalSize]
theorem totalSize_append (sizes : Sizes) (a b : List String) :
    totalSize sizes (a ++ b) = totalSize sizes a + totalSize sizes b := by
  simp [totalSize]

theorem cat_length (sizes : Sizes) (names : List String) (blk : String → Vec)
    (h : ∀ n ∈ names, (blk n).length = sizeOf sizes n) :
    (cat names blk).length = totalSize sizes names := by
  induction names with
  | nil => simp
  | cons n ns ih =>
    simp only [cat_cons, List.length_append, totalSize_cons]
    rw [h n (by simp), ih (fun m hm => h m (by simp [hm]))]

/-- The default vector of `unmask_x_swap_order` is the concatenation of zero blocks. -/
theorem replicate_total (sizes : Sizes) (names : List String) (c : Rat) :
    List.replicate (totalSize sizes names) c = cat names (fun n => List.replicate (sizeOf sizes n) c) := by
  induction names with
  | nil => simp
  | cons n ns ih => simp [List.replicate_add, ih]

/-! ### Ranges -/

theorem lookupRange_cons_self (k : String) (a b : Nat) (rest : List (String × Nat × Nat)) :
    lookupRange ((k, a, b) :: rest) k = some (a, b) := by
  simp [lookupRange]

theorem lookupRange_cons_ne {k n : String} (h : n ≠ k) (a b : Nat) (rest : List (String × Nat × Nat)) :
    lookupRange ((n, a, b) :: rest) k = lookupRange rest k := by
  have : (n == k) = false := by simpa using h
  simp [lookupRange, List.find?, this]

/-- The range of `k` in `pre ++ k :: suf` starts after the variables of `pre`. -/
theorem lookupRange_dvIndices (sizes : Sizes) (pre suf : List String) (k : String) (off : Nat)
    (hk : k ∉ pre) :
    lookupRange (dvIndices sizes (pre ++ k :: suf) off) k
      = some (off + totalSize sizes pre, off + totalSize sizes pre + sizeOf sizes k) := by
  induction pre generalizing off with
  | nil => simp [dvIndices, lookupRange_cons_self]
  | cons n ns ih =>
    have hne : n ≠ k := fun h => hk (by simp [h])
    have hk' : k ∉ ns := fun h => hk (by simp [h])
    simp only [List.cons_append, dvIndices]
    rw [lookupRange_cons_ne hne, ih _ hk']
    simp only [totalSize_cons]
    congr 2 <;> omega

theorem lookupRange_none (sizes : Sizes) (names : List String) (k : String) (off : Nat)
    (hk : k ∉ names) : lookupRange (dvIndices sizes names off) k = none := by
  induction names generalizing off with
  | nil => simp [dvIndices, lookupRange]
  | cons n ns ih =>
    have hne : n ≠ k := fun h => hk (by simp [h])
    have hk' : k ∉ ns := fun h => hk (by simp [h])
    simp only [dvIndices]
    rw [lookupRange_cons_ne hne, ih _ hk']

/-! ### Fancy indexing with a range is a slice -/

theorem takeIdx_range' (x : Vec) (a n : Nat) (h : a + n ≤ x.length) :
    takeIdx x (List.range' a n) = some ((x.drop a).take n) := by
  induction n generalizing a with
  | zero => simp [takeIdx]
  | succ m ih =>
    have ha : a < x.length := by omega
    rw [List.range'_succ, takeIdx, ih (a + 1) (by omega)]
    rw [List.getElem?_eq_getElem ha]
    simp only
    rw [List.drop_eq_getElem_cons ha, List.take_succ_cons]

theorem takeIdx_append (x : Vec) (m₁ m₂ : List Nat) (r₁ r₂ : Vec)
    (h₁ : takeIdx x m₁ = some r₁) (h₂ : takeIdx x m₂ = some r₂) :
    takeIdx x (m₁ ++ m₂) = some (r₁ ++ r₂) := by
  induction m₁ generalizing r₁ with
  | nil => simp [takeIdx] at h₁; subst h₁; simpa using h₂
  | cons i is ih =>
    simp only [takeIdx] at h₁
    split at h₁
    · rename_i a r ha hr
      cases h₁
      simp [takeIdx, ha, ih r hr]
    · cases h₁

/-! ### Slices of a concatenation -/

theorem not_mem_pre_of_nodup {α : Type} {pre suf : List α} {k : α} (h : (pre ++ k :: suf).Nodup) : k ∉ pre := by
  intro hk
  exact (List.nodup_append.mp h).2.2 k hk k (by simp) rfl

theorem drop_take_cat (sizes : Sizes) (pre suf : List String) (k : String) (blk : String → Vec)
    (hlen : ∀ n ∈ pre ++ k :: suf, (blk n).length = sizeOf sizes n) :
    ((cat (pre ++ k :: suf) blk).drop (totalSize sizes pre)).take (sizeOf sizes k) = blk k := by
  have hp : (cat pre blk).length = totalSize sizes pre :=
    cat_length sizes pre blk (fun n hn => hlen n (by simp [hn]))
  rw [cat_append, cat_cons, List.drop_left' hp]
  exact List.take_left' (hlen k (by simp))

/-- The slice of variable `k` in the vector view of a named point is the block of `k`. -/
theorem slice_cat (sizes : Sizes) (names : List String) (k : String) (blk : String → Vec)
    (hnd : names.Nodup) (hk : k ∈ names) (hlen : ∀ n ∈ names, (blk n).length = sizeOf sizes n) :
    slice sizes names (cat names blk) k = blk k := by
  obtain ⟨pre, suf, rfl⟩ := List.append_of_mem hk
  have hkpre : k ∉ pre := not_mem_pre_of_nodup hnd
  unfold slice
  rw [lookupRange_dvIndices sizes pre suf k 0 hkpre]
  simp only [Nat.zero_add, Nat.add_sub_cancel_left]
  exact drop_take_cat sizes pre suf k blk hlen

theorem slice_not_mem (sizes : Sizes) (names : List String) (k : String) (x : Vec) (hk : k ∉ names) :
    slice sizes names x k = [] := by
  unfold slice
  rw [lookupRange_none sizes names k 0 hk]

/-! ### Masking -/

/-- `get_x_mask_x_swap_order` followed by `x[mask]` picks the blocks of the masking names, in the order
    of the masking names (whatever their order in the reference names). -/
theorem maskX_cat (sizes : Sizes) (masking all : List String) (blk : String → Vec)
    (hnd : all.Nodup) (hsub : ∀ k ∈ masking, k ∈ all)
    (hlen : ∀ n ∈ all, (blk n).length = sizeOf sizes n) :
    maskX sizes masking all (cat all blk) = some (cat masking blk) := by
  have key : ∃ m, getMaskGo (dvIndices sizes all 0) masking = some m ∧
      takeIdx (cat all blk) m = some (cat masking blk) := by
    induction masking with
    | nil => exact ⟨[], by simp [getMaskGo], by simp [takeIdx]⟩
    | cons k ks ih =>
      obtain ⟨m, hm, ht⟩ := ih (fun j hj => hsub j (by simp [hj]))
      have hk : k ∈ all := hsub k (by simp)
      obtain ⟨pre, suf, hall⟩ := List.append_of_mem hk
      have hkpre : k ∉ pre := not_mem_pre_of_nodup (hall ▸ hnd)
      have hr : lookupRange (dvIndices sizes all 0) k
          = some (totalSize sizes pre, totalSize sizes pre + sizeOf sizes k) := by
        rw [hall, lookupRange_dvIndices sizes pre suf k 0 hkpre]; simp
      refine ⟨List.range' (totalSize sizes pre) (sizeOf sizes k) ++ m, ?_, ?_⟩
      · simp [getMaskGo, hr, hm]
      · have hlenx : (cat all blk).length = totalSize sizes all := cat_length sizes all blk hlen
        have hle : totalSize sizes pre + sizeOf sizes k ≤ (cat all blk).length := by
          rw [hlenx, hall, totalSize_append, totalSize_cons]; omega
        have h1 := takeIdx_range' (cat all blk) (totalSize sizes pre) (sizeOf sizes k) hle
        have h2 : ((cat all blk).drop (totalSize sizes pre)).take (sizeOf sizes k) = blk k := by
          rw [hall]; exact drop_take_cat sizes pre suf k blk (hall ▸ hlen)
        rw [h2] at h1
        simpa using takeIdx_append _ _ _ _ _ h1 ht
  obtain ⟨m, hm, ht⟩ := key
  simp [maskX, getMask, hm, ht]

theorem maskX_none (sizes : Sizes) (masking all : List String) (x : Vec) (k : String)
    (hk : k ∈ masking) (hnot : k ∉ all) : maskX sizes masking all x = none := by
  have : getMaskGo (dvIndices sizes all 0) masking = none := by
    induction masking with
    | nil => cases hk
    | cons j js ih =>
      simp only [getMaskGo]
      by_cases hj : j = k
      · subst hj; rw [lookupRange_none sizes all j 0 hnot]
      · have : k ∈ js := by
          rcases List.mem_cons.mp hk with h | h
          · exact absurd h.symm hj
          · exact h
        rw [ih this]
        split <;> simp_all
  simp [maskX, getMask, this]

/-! ### Unmasking -/

/-- The loop of `unmask_x_swap_order`: the masked vector holds the blocks of the kept reference names
    *in the order of the reference names* (anything after them is ignored), the default vector the
    default blocks of all the reference names. -/
theorem unmaskGo_cat (sizes : Sizes) (masking : List String) (keep : String → Bool)
    (blk dfl : String → Vec) (all : List String) (extra extra' : Vec)
    (hkeep : ∀ k ∈ all, masking.contains k = keep k)
    (hb : ∀ k ∈ all, (blk k).length = sizeOf sizes k)
    (hd : ∀ k ∈ all, (dfl k).length = sizeOf sizes k) :
    unmaskGo sizes masking all (cat (all.filter keep) blk ++ extra) (cat all dfl ++ extra')
      = some (cat all (fun k => if keep k then blk k else dfl k)) := by
  induction all generalizing extra extra' with
  | nil => simp [unmaskGo]
  | cons k ks ih =>
    have hk := hkeep k (by simp)
    have hbk := hb k (by simp)
    have hdk := hd k (by simp)
    have ih' := fun e e' => ih e e' (fun j hj => hkeep j (by simp [hj])) (fun j hj => hb j (by simp [hj]))
      (fun j hj => hd j (by simp [hj]))
    unfold unmaskGo
    simp only [hk]
    cases hkeepk : keep k with
    | true =>
      simp only [List.filter_cons, hkeepk, if_true, cat_cons, List.append_assoc]
      have hlt : ¬ (blk k ++ (cat (List.filter keep ks) blk ++ extra)).length < sizeOf sizes k := by
        simp [List.length_append, hbk]
      simp only [hlt, if_false]
      rw [List.drop_left' hbk, List.drop_left' hdk, List.take_left' hbk, ih']
      simp
    | false =>
      simp only [List.filter_cons, hkeepk, cat_cons, List.append_assoc]
      simp only [Bool.false_eq_true, if_false]
      rw [List.drop_left' hdk, List.take_left' hdk, ih']
      simp

/-- `unmask_x_swap_order(masking, x_masked, all)` with the default zero vector. -/
theorem unmask_cat (sizes : Sizes) (masking all : List String) (keep : String → Bool)
    (blk : String → Vec) (extra : Vec)
    (hkeep : ∀ k ∈ all, masking.contains k = keep k)
    (hb : ∀ k ∈ all, (blk k).length = sizeOf sizes k) :
    unmask sizes masking all (cat (all.filter keep) blk ++ extra) none
      = some (cat all (fun k => if keep k then blk k else List.replicate (sizeOf sizes k) 0)) := by
  unfold unmask
  simp only [Option.getD_none]
  rw [replicate_total]
  have := unmaskGo_cat sizes masking keep blk (fun n => List.replicate (sizeOf sizes n) 0) all extra []
    hkeep hb (fun k _ => by simp)
  simpa using this

/-- The same with an explicit default vector (`x_full`). -/
theorem unmask_cat_full (sizes : Sizes) (masking all : List String) (keep : String → Bool)
    (blk dfl : String → Vec) (extra : Vec)
    (hkeep : ∀ k ∈ all, masking.contains k = keep k)
    (hb : ∀ k ∈ all, (blk k).length = sizeOf sizes k)
    (hd : ∀ k ∈ all, (dfl k).length = sizeOf sizes k) :
    unmask sizes masking all (cat (all.filter keep) blk ++ extra) (some (cat all dfl))
      = some (cat all (fun k => if keep k then blk k else dfl k)) := by
  unfold unmask
  simp only [Option.getD_some]
  have := unmaskGo_cat sizes masking keep blk dfl all extra [] hkeep hb hd
  simpa using this

theorem contains_filter_of_mem {all : List String} {keep : String → Bool} {k : String} (hk : k ∈ all) :
    (all.filter keep).contains k = keep k := by
  cases h : keep k with
  | true => simp [List.mem_filter, hk, h]
  | false =>
    have : k ∉ all.filter keep := by simp [List.mem_filter, h]
    simpa [List.contains_iff_mem] using this

/-! ### The adapter's cut of its input vector -/

theorem adapterInputData_go (sizes : Sizes) (names : List String) (blk : String → Vec) (pre post : Vec)
    (hlen : ∀ n ∈ names, (blk n).length = sizeOf sizes n) :
    (dvIndices sizes names pre.length).map
        (fun p => (p.1, ((pre ++ (cat names blk ++ post)).drop p.2.1).take (p.2.2 - p.2.1)))
      = names.map (fun n => (n, blk n)) := by
  induction names generalizing pre with
  | nil => simp [dvIndices]
  | cons n ns ih =>
    have hn := hlen n (by simp)
    simp only [dvIndices, List.map_cons, cat_cons, List.append_assoc]
    congr 1
    · rw [List.drop_left' rfl, Nat.add_sub_cancel_left]
      congr 1
      exact List.take_left' hn
    · have := ih (pre ++ blk n) (fun m hm => hlen m (by simp [hm]))
      simp only [List.length_append, hn, List.append_assoc] at this
      exact this

/-- `__create_discipline_input_data`: cutting the concatenation of the input blocks along the input
    names gives back each named block. -/
theorem adapterInputData_cat (sizes : Sizes) (inputNames : List String) (blk : String → Vec)
    (hlen : ∀ n ∈ inputNames, (blk n).length = sizeOf sizes n) :
    adapterInputData sizes inputNames (cat inputNames blk) = inputNames.map (fun n => (n, blk n)) := by
  have := adapterInputData_go sizes inputNames blk [] [] hlen
  simpa [adapterInputData] using this

end GV.C17
