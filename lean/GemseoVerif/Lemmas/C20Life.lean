/-
C20 — lemmas about the *life* models of `Model/C20.lean`: a `JSONGrammar` with its lazily built schema
dict and validator (`JG`), an `HDF5Cache` whose settings change after construction (`HLife`).
-/
import GemseoVerif.Lemmas.C20

namespace GV.C20

/-! ### Association lists -/

theorem keys_cons {α : Type} (kv : String × α) (d : List (String × α)) : keys (kv :: d) = kv.1 :: keys d := rfl

theorem keys_set {α : Type} (d : List (String × α)) (k : String) (v : α) :
    keys (set d k v) = if k ∈ keys d then keys d else keys d ++ [k] := by
  induction d with
  | nil => simp [set, keys]
  | cons hd tl ih =>
    obtain ⟨k', w⟩ := hd
    by_cases h : k' = k
    · subst h; simp [set, keys]
    · have h' : ¬ k = k' := fun e => h e.symm
      simp only [set, h, if_false, keys_cons, ih, List.mem_cons, h', false_or]
      split <;> simp

theorem nodup_keys_set {α : Type} (d : List (String × α)) (k : String) (v : α) (hn : (keys d).Nodup) :
    (keys (set d k v)).Nodup := by
  rw [keys_set]
  split
  · exact hn
  · rename_i h
    exact List.nodup_append.2 ⟨hn, by simp, by intro a ha b hb; simp at hb; subst hb; intro e; exact h (e ▸ ha)⟩

theorem keys_filter {α : Type} (d : List (String × α)) (p : String → Bool) :
    keys (d.filter (fun kv => p kv.1)) = (keys d).filter p := by
  induction d with
  | nil => rfl
  | cons hd tl ih =>
    simp only [List.filter_cons, keys_cons]
    by_cases h : p hd.1 = true
    · simp [h, keys_cons, ih]
    · simp [h, ih]

theorem keys_erase {α : Type} (d : List (String × α)) (a : String) :
    keys (erase d a) = (keys d).filter (fun k => k != a) := keys_filter d (fun k => k != a)

theorem mem_keys_erase {α : Type} (d : List (String × α)) (a k : String) :
    k ∈ keys (erase d a) ↔ k ∈ keys d ∧ k ≠ a := by
  rw [keys_erase]; simp

theorem nodup_keys_erase {α : Type} (d : List (String × α)) (a : String) (hn : (keys d).Nodup) :
    (keys (erase d a)).Nodup := by
  rw [keys_erase]; exact hn.filter _

theorem get_filter {α : Type} (d : List (String × α)) (p : String → Bool) (a : String) :
    get (d.filter (fun kv => p kv.1)) a = if p a then get d a else none := by
  induction d with
  | nil => simp [get]
  | cons hd tl ih =>
    obtain ⟨k, w⟩ := hd
    by_cases hk : p k = true
    · simp only [List.filter_cons, hk, if_true, get]
      by_cases e : k = a
      · subst e; simp [hk]
      · simp [e, ih]
    · simp only [List.filter_cons, hk, get]
      by_cases e : k = a
      · subst e; simp [hk, ih]
      · simp [e, ih]

/-! ### The invariant of a `JSONGrammar` during its life -/

/-- What every operation maintains: the builder's own `required` is empty; the lazily built schema dict
    and validator, when present, were built from the *current* elements; the defaults are bound to the
    grammar (unique names that are elements). -/
structure JInv (j : JG) : Prop where
  breq : j.breq = []
  cache : ∀ c, j.cache = some c → c.props = j.g.props
  valid : ∀ v, j.valid = some v → v = j.g.props
  dnodup : (keys j.g.defaults).Nodup
  dsub : ∀ k ∈ keys j.g.defaults, k ∈ keys j.g.props

theorem JInv.fresh : JInv JG.fresh :=
  ⟨rfl, (by intro c h; cases h), (by intro v h; cases h), (by simp [JG.fresh, keys]), (by simp [JG.fresh, keys])⟩

/-- After `__init_dependencies` only the definition matters. -/
theorem JInv.of_reset {j : JG} (hb : j.breq = []) (hn : (keys j.g.defaults).Nodup)
    (hs : ∀ k ∈ keys j.g.defaults, k ∈ keys j.g.props) : JInv j.reset :=
  ⟨hb, (by intro c h; cases h), (by intro v h; cases h), hn, hs⟩

theorem JInv.schemaProp {j : JG} (hi : JInv j) : JInv j.schemaProp := by
  refine ⟨hi.breq, ?_, hi.valid, hi.dnodup, hi.dsub⟩
  intro c hc
  show c.props = j.g.props
  simp only [JG.schemaProp, Option.some.injEq] at hc
  subst hc
  cases h : j.cache with
  | none => simp
  | some c0 => simpa using hi.cache c0 h

theorem schemaProp_g (j : JG) : j.schemaProp.g = j.g := rfl

/-- The dict returned by the `schema` property during a life: the current elements and required names. -/
theorem schemaProp_cache {j : JG} (hi : JInv j) : j.schemaProp.cache = some ⟨j.g.props, j.g.required⟩ := by
  simp only [JG.schemaProp]
  cases h : j.cache with
  | none => simp
  | some c0 => simp [hi.cache c0 h]

/-- **The pickled state is a function of the current definition** (not of the moment the schema dict
    was built). -/
theorem getstate_current {j : JG} (hi : JInv j) :
    j.getstate.1 = ⟨⟨j.g.props, j.g.required⟩, j.g.required, j.g.defaults, j.g.toNs⟩ := by
  simp [JG.getstate, schemaProp_cache hi, schemaProp_g]

theorem getstate_snd {j : JG} : j.getstate.2 = j.schemaProp := rfl

theorem setstate_current {j : JG} (hi : JInv j) :
    JG.setstate j.getstate.1 = some ⟨j.g, [], some ⟨j.g.props, j.g.required⟩, none⟩ := by
  rw [getstate_current hi]
  simp only [JG.setstate]
  rw [defaultsUpdate_append j.g.props [] j.g.defaults (by simpa using hi.dnodup) hi.dsub]
  simp [clearReq]

theorem JInv.restored {j : JG} (hi : JInv j) :
    JInv ⟨j.g, [], some ⟨j.g.props, j.g.required⟩, none⟩ :=
  ⟨rfl, (by intro c h; simp at h; subst h; rfl), (by intro v h; cases h), hi.dnodup, hi.dsub⟩

/-! ### Every operation keeps the invariant -/

theorem foldl_set_keys (ns : List String) (p : List (String × Nat)) (k : String) (hk : k ∈ keys p) :
    k ∈ keys (ns.foldl (fun p n => set p n 0) p) := by
  induction ns generalizing p with
  | nil => exact hk
  | cons n t ih => exact ih _ ((mem_keys_set p n k 0).2 (Or.inr hk))

theorem renameG_dnodup (g : Grammar) (a b : String) (hn : (keys g.defaults).Nodup) :
    (keys (renameG g a b).defaults).Nodup := by
  simp only [renameG]
  split
  · exact hn
  · exact nodup_keys_set _ _ _ (nodup_keys_erase _ _ hn)

theorem renameG_dsub (g : Grammar) (a b : String) (ha : a ∈ keys g.props)
    (hs : ∀ k ∈ keys g.defaults, k ∈ keys g.props) :
    ∀ k ∈ keys (renameG g a b).defaults, k ∈ keys (renameG g a b).props := by
  obtain ⟨t, ht⟩ := (mem_keys_iff_get g.props a).1 ha
  intro k hk
  simp only [renameG, ht] at hk ⊢
  split at hk
  · rename_i hd
    have hka : k ≠ a := by
      intro e; subst e
      exact absurd ((mem_keys_iff_get g.defaults k).1 hk) (by simp [hd])
    exact (mem_keys_set _ _ _ _).2 (Or.inr ((mem_keys_erase _ _ _).2 ⟨hs k hk, hka⟩))
  · rcases (mem_keys_set _ _ _ _).1 hk with h | h
    · exact (mem_keys_set _ _ _ _).2 (Or.inl h)
    · obtain ⟨h1, h2⟩ := (mem_keys_erase _ _ _).1 h
      exact (mem_keys_set _ _ _ _).2 (Or.inr ((mem_keys_erase _ _ _).2 ⟨hs k h1, h2⟩))

theorem JInv.validate {j : JG} (hi : JInv j) (data : List (String × Nat)) : JInv (j.validate data).2 := by
  unfold JG.validate
  split
  · exact hi
  · cases hv : j.valid with
    | some v => simpa [hv] using hi
    | none =>
      have h2 := JInv.schemaProp hi
      simp only []
      refine ⟨h2.breq, h2.cache, ?_, h2.dnodup, h2.dsub⟩
      intro v h
      simp only [Option.some.injEq] at h
      subst h
      simp [schemaProp_cache hi, schemaProp_g]

theorem validate_g (j : JG) (data : List (String × Nat)) : (j.validate data).2.g = j.g := by
  unfold JG.validate
  split
  · rfl
  · cases hv : j.valid <;> simp [schemaProp_g]

/-- The verdict of `validate` during a life depends on the current definition only. -/
theorem validate_verdict {j : JG} (hi : JInv j) (data : List (String × Nat)) :
    (j.validate data).1 =
      (!(j.g.required.any (fun r => !(keys data).contains r)) &&
        j.g.props.all (dataOk data)) := by
  unfold JG.validate
  split
  · rename_i h; rw [h]; rfl
  · rename_i h
    have h' : (j.g.required.any fun r => !(keys data).contains r) = false := by simpa using h
    rw [h']
    cases hv : j.valid with
    | some v => simp [hv, hi.valid v hv]
    | none => simp [schemaProp_cache hi, schemaProp_g]

theorem JInv.step {j : JG} (hi : JInv j) (op : GOp) : JInv (j.step op).1 := by
  cases op with
  | names ns =>
    simp only [JG.step]
    split
    · exact hi
    · refine JInv.of_reset rfl hi.dnodup ?_
      intro k hk
      exact foldl_set_keys ns _ k (hi.dsub k hk)
  | types n t =>
    refine JInv.of_reset hi.breq hi.dnodup ?_
    intro k hk
    exact (mem_keys_set _ _ _ _).2 (Or.inr (hi.dsub k hk))
  | reqAdd n =>
    simp only [JG.step]
    split
    · exact ⟨hi.breq, hi.cache, hi.valid, hi.dnodup, hi.dsub⟩
    · exact hi
  | reqDiscard n => exact ⟨hi.breq, hi.cache, hi.valid, hi.dnodup, hi.dsub⟩
  | setDefault n v =>
    simp only [JG.step]
    split
    · rename_i h
      refine ⟨hi.breq, hi.cache, hi.valid, nodup_keys_set _ _ _ hi.dnodup, ?_⟩
      intro k hk
      rcases (mem_keys_set _ _ _ _).1 hk with h1 | h1
      · subst h1; simpa using h
      · exact hi.dsub k h1
    · exact hi
  | popDefault n =>
    refine ⟨hi.breq, hi.cache, hi.valid, nodup_keys_erase _ _ hi.dnodup, ?_⟩
    intro k hk
    exact hi.dsub k ((mem_keys_erase _ _ _).1 hk).1
  | del n =>
    simp only [JG.step]
    split
    · refine JInv.of_reset hi.breq (nodup_keys_erase _ _ hi.dnodup) ?_
      intro k hk
      obtain ⟨h1, h2⟩ := (mem_keys_erase _ _ _).1 hk
      exact (mem_keys_erase _ _ _).2 ⟨hi.dsub k h1, h2⟩
    · exact hi
  | rename a b =>
    simp only [JG.step]
    split
    · rename_i h
      exact JInv.of_reset hi.breq (renameG_dnodup _ _ _ hi.dnodup)
        (renameG_dsub _ _ _ (by simpa using h) hi.dsub)
    · exact hi
  | restrict ns =>
    simp only [JG.step]
    split
    · refine JInv.of_reset hi.breq ?_ ?_
      · show (keys (j.g.defaults.filter (fun kv => ns.contains kv.1))).Nodup
        rw [keys_filter j.g.defaults (fun k => ns.contains k)]
        exact hi.dnodup.filter _
      · intro k hk
        have hk' : k ∈ keys (j.g.defaults.filter (fun kv => ns.contains kv.1)) := hk
        rw [keys_filter j.g.defaults (fun k => ns.contains k)] at hk'
        show k ∈ keys (j.g.props.filter (fun kv => ns.contains kv.1))
        rw [keys_filter j.g.props (fun k => ns.contains k)]
        obtain ⟨h1, h2⟩ := List.mem_filter.1 hk'
        exact List.mem_filter.2 ⟨hi.dsub k h1, h2⟩
    · exact hi
  | addNs n ns =>
    simp only [JG.step]
    split
    · exact hi
    · rename_i h
      split
      · exact hi
      · exact JInv.of_reset hi.breq (renameG_dnodup _ _ _ hi.dnodup)
          (renameG_dsub _ _ _ (by simpa using h) hi.dsub)
  | clear => exact JInv.fresh
  | schema => exact JInv.schemaProp hi
  | validate data => exact JInv.validate hi data
  | pickle =>
    simp only [JG.step, setstate_current hi]
    exact JInv.restored hi

theorem JInv.run {j : JG} (hi : JInv j) (ops : List GOp) : JInv (j.run ops).1 := by
  induction ops generalizing j with
  | nil => exact hi
  | cons op ops ih => exact ih (JInv.step hi op)

/-! ### Two grammars with the same definition are indistinguishable -/

/-- One operation on two grammars in their life with the same current definition: same answer, same new
    definition — whatever each has or has not built lazily. -/
theorem step_congr {a b : JG} (ha : JInv a) (hb : JInv b) (hg : a.g = b.g) (op : GOp) :
    (a.step op).2 = (b.step op).2 ∧ (a.step op).1.g = (b.step op).1.g := by
  cases op with
  | names ns => simp only [JG.step, hg]; split <;> simp [JG.reset, hg]
  | types n t => simp [JG.step, JG.reset, hg]
  | reqAdd n => simp only [JG.step, hg]; split <;> simp [hg]
  | reqDiscard n => simp [JG.step, hg]
  | setDefault n v => simp only [JG.step, hg]; split <;> simp [hg]
  | popDefault n => simp [JG.step, hg]
  | del n => simp only [JG.step, hg]; split <;> simp [JG.reset, hg]
  | rename x y => simp only [JG.step, hg]; split <;> simp [JG.reset, hg]
  | restrict ns => simp only [JG.step, hg]; split <;> simp [JG.reset, hg]
  | addNs n ns =>
    simp only [JG.step, hg]
    split
    · simp [hg]
    · split <;> simp [JG.reset, hg]
  | clear => simp [JG.step]
  | schema => simp [JG.step, schemaProp_cache ha, schemaProp_cache hb, schemaProp_g, hg]
  | validate data =>
    simp only [JG.step, validate_g, validate_verdict ha, validate_verdict hb, hg, and_self]
  | pickle => simp [JG.step, setstate_current ha, setstate_current hb, hg]

theorem run_congr {a b : JG} (ha : JInv a) (hb : JInv b) (hg : a.g = b.g) (ops : List GOp) :
    (a.run ops).2 = (b.run ops).2 ∧ (a.run ops).1.g = (b.run ops).1.g := by
  induction ops generalizing a b with
  | nil => exact ⟨rfl, hg⟩
  | cons op ops ih =>
    obtain ⟨h1, h2⟩ := step_congr ha hb hg op
    obtain ⟨h3, h4⟩ := ih (JInv.step ha op) (JInv.step hb op) h2
    simp only [JG.run]
    exact ⟨by rw [h1, h3], h4⟩

/-! ### `HDF5Cache` life -/

/-- The in-memory index of a cache is the list of the inputs stored at its node of its file (true at
    attachment, kept by its own writes: the single-writer protocol). -/
def HCache.Consistent (d : Disk) (c : HCache) : Prop := c.index = (c.read d).map Entry.input

theorem consistent_attach (d : Disk) (st : HState) : (HCache.attach d st).Consistent d := by
  simp [HCache.Consistent, HCache.attach, HCache.read]

theorem consistent_write (d : Disk) (c : HCache) (e : Entry) (h : c.Consistent d) :
    (c.write d e).2.Consistent (c.write d e).1 := by
  have hw := entries_write d c e
  simp only [HCache.Consistent, HCache.read] at h ⊢
  have h1 : (c.write d e).2.path = c.path := rfl
  have h2 : (c.write d e).2.node = c.node := rfl
  have h3 : (c.write d e).2.index = c.index ++ [e.input] := rfl
  rw [h1, h2, h3, hw, h]
  simp

/-- A look-up depends on the tolerance, the index, the file and the node only. -/
theorem lookup_congr (d : Disk) (c' c : HCache) (x : Rat) (ht : c'.tol = c.tol) (hi : c'.index = c.index)
    (hp : c'.path = c.path) (hn : c'.node = c.node) : c'.lookup d x = c.lookup d x := by
  unfold HCache.lookup HCache.read
  rw [ht, hi, hp, hn]

structure HInv (d0 : Disk) (st : HState) (dl : Disk × HLife) : Prop where
  init : dl.2.init = st
  path : dl.2.cache.path = st.path
  node : dl.2.cache.node = st.node
  cons : dl.2.cache.Consistent dl.1

theorem HInv.create (d : Disk) (st : HState) : HInv d st (d, HLife.create d st) :=
  ⟨rfl, rfl, rfl, consistent_attach d st⟩

theorem HInv.step {d0 : Disk} {st : HState} {dl : Disk × HLife} (hi : HInv d0 st dl) (op : HOp) :
    HInv d0 st (HLife.step dl op).1 := by
  cases op with
  | setTol t =>
    simp only [HLife.step]
    split
    · exact hi
    · exact ⟨hi.init, hi.path, hi.node, hi.cons⟩
  | setName n => exact ⟨hi.init, hi.path, hi.node, hi.cons⟩
  | write e => exact ⟨hi.init, hi.path, hi.node, consistent_write _ _ e hi.cons⟩
  | lookup x => exact hi

theorem HInv.run {d0 : Disk} {st : HState} {dl : Disk × HLife} (hi : HInv d0 st dl) (ops : List HOp) :
    HInv d0 st (HLife.run dl ops).1 := by
  induction ops generalizing dl with
  | nil => exact hi
  | cons op ops ih => exact ih (HInv.step hi op)

end GV.C20
