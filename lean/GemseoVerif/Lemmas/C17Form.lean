/-
C17 — lemmas about the formulation-level functions of `Model/C17.lean`: what a
`FunctionFromDiscipline` evaluates and where its Jacobian blocks land, design-space composition,
consistency constraints, exactness of the linear branch.
-/
import GemseoVerif.Lemmas.C17
import Mathlib.Tactic.Ring
import Mathlib.Algebra.Order.Ring.Rat

namespace GV.C17
open GV.C02

/-! ### `mapOpt` -/

theorem mapOpt_some {α β : Type} (f : α → Option β) (g : α → β) (l : List α)
    (h : ∀ a ∈ l, f a = some (g a)) : mapOpt f l = some (l.map g) := by
  induction l with
  | nil => rfl
  | cons a l ih =>
    simp only [mapOpt, List.map_cons]
    rw [h a (by simp), ih (fun b hb => h b (by simp [hb]))]

/-! ### What a `FunctionFromDiscipline` evaluates -/

/-- The input data assembled for the discipline from the design vector. -/
def namedData (names : List String) (hasInput : String → Bool) (pt : String → Vec) : Data :=
  (names.filter hasInput).map (fun n => (n, pt n))

theorem gEval_named (sizes : Sizes) (names : List String) (hasInput : String → Bool)
    (run : Data → String → Vec) (outs : List String) (pt : String → Vec)
    (hnd : names.Nodup) (hlen : ∀ n ∈ names, (pt n).length = sizeOf sizes n) :
    gEval sizes names hasInput run outs (cat names pt)
      = some (outs.flatMap (run (namedData names hasInput pt))) := by
  unfold gEval namedData
  simp only
  rw [maskX_cat sizes (names.filter hasInput) names pt hnd
    (fun k hk => (List.mem_filter.mp hk).1) hlen]
  simp only
  rw [adapterInputData_cat sizes _ pt (fun n hn => hlen n (List.mem_filter.mp hn).1)]

theorem hcat_map (inputNames : List String) (jb : String → Mat) (rows : Nat) :
    hcat (inputNames.map jb) rows
      = (List.range rows).map (fun r => cat inputNames (fun i => (jb i).getD r [])) := by
  unfold hcat cat
  simp [List.flatMap_map]

/-- Jacobian of a `FunctionFromDiscipline` at the vector view of a named point: for every output row,
    the block of each input variable at that variable's position, zeros for the other variables. -/
theorem gJac_named' (sizes : Sizes) (names : List String) (hasInput : String → Bool)
    (jac : Data → String → String → Mat) (rowsOf : String → Nat) (outs : List String)
    (pt : String → Vec)
    (hnd : names.Nodup) (hlen : ∀ n ∈ names, (pt n).length = sizeOf sizes n)
    (hrow : ∀ o ∈ outs, ∀ i r, i ∈ names → r < rowsOf o →
      ((jac (namedData names hasInput pt) o i).getD r []).length = sizeOf sizes i) :
    gJac sizes names hasInput jac rowsOf outs (cat names pt)
      = some (outs.flatMap (fun o => (List.range (rowsOf o)).map (fun r =>
          cat names (fun k => if hasInput k then (jac (namedData names hasInput pt) o k).getD r []
                              else List.replicate (sizeOf sizes k) 0)))) := by
  unfold gJac
  simp only
  rw [maskX_cat sizes (names.filter hasInput) names pt hnd
    (fun k hk => (List.mem_filter.mp hk).1) hlen]
  simp only
  rw [adapterInputData_cat sizes _ pt (fun n hn => hlen n (List.mem_filter.mp hn).1)]
  change unmaskRows sizes (names.filter hasInput) names
    (gAdapterJac (names.filter hasInput) (jac (namedData names hasInput pt)) rowsOf outs) none = _
  unfold unmaskRows gAdapterJac
  simp only
  have hrows : ∀ o, hcat ((names.filter hasInput).map (fun i => jac (namedData names hasInput pt) o i)) (rowsOf o)
      = (List.range (rowsOf o)).map (fun r =>
          cat (names.filter hasInput) (fun i => (jac (namedData names hasInput pt) o i).getD r [])) :=
    fun o => hcat_map _ _ _
  simp only [hrows]
  -- every row is unmasked
  set D := namedData names hasInput pt with hD
  have key : ∀ row ∈ outs.flatMap (fun o => (List.range (rowsOf o)).map (fun r =>
        (o, r))), unmask sizes (names.filter hasInput) names
          (cat (names.filter hasInput) (fun i => (jac D row.1 i).getD row.2 [])) none
        = some (cat names (fun k => if hasInput k then (jac D row.1 k).getD row.2 []
                                    else List.replicate (sizeOf sizes k) 0)) := by
    intro row hmem
    obtain ⟨o, ho, hr⟩ := List.mem_flatMap.mp hmem
    obtain ⟨r, hr1, hr2⟩ := List.mem_map.mp hr
    subst hr2
    have hlt : r < rowsOf o := List.mem_range.mp hr1
    have := unmask_cat sizes (names.filter hasInput) names hasInput
      (fun i => (jac D o i).getD r []) []
      (fun k hk => contains_filter_of_mem hk)
      (fun k hk => hrow o ho k r hk hlt)
    simpa using this
  -- rewrite both sides as maps over the (output, row) pairs
  have lhs : outs.flatMap (fun o => (List.range (rowsOf o)).map (fun r =>
        cat (names.filter hasInput) (fun i => (jac D o i).getD r [])))
      = (outs.flatMap (fun o => (List.range (rowsOf o)).map (fun r => (o, r)))).map
          (fun row => cat (names.filter hasInput) (fun i => (jac D row.1 i).getD row.2 [])) := by
    simp only [List.map_flatMap, List.map_map, Function.comp_def]
  have rhs : outs.flatMap (fun o => (List.range (rowsOf o)).map (fun r =>
        cat names (fun k => if hasInput k then (jac D o k).getD r []
                            else List.replicate (sizeOf sizes k) 0)))
      = (outs.flatMap (fun o => (List.range (rowsOf o)).map (fun r => (o, r)))).map
          (fun row => cat names (fun k => if hasInput k then (jac D row.1 k).getD row.2 []
                                          else List.replicate (sizeOf sizes k) 0)) := by
    simp only [List.map_flatMap, List.map_map, Function.comp_def]
  rw [lhs, rhs]
  generalize outs.flatMap (fun o => (List.range (rowsOf o)).map (fun r => (o, r))) = rowsL at key
  induction rowsL with
  | nil => rfl
  | cons a l ih =>
    simp only [List.map_cons, mapOpt]
    rw [key a (by simp), ih (fun b hb => key b (by simp [hb]))]

theorem gJac_named (sizes : Sizes) (names : List String) (hasInput : String → Bool)
    (jac : Data → String → String → Mat) (rowsOf : String → Nat) (outs : List String)
    (pt : String → Vec)
    (hnd : names.Nodup) (hlen : ∀ n ∈ names, (pt n).length = sizeOf sizes n)
    (hrow : ∀ o i r, i ∈ names → r < rowsOf o →
      ((jac (namedData names hasInput pt) o i).getD r []).length = sizeOf sizes i) :
    gJac sizes names hasInput jac rowsOf outs (cat names pt)
      = some (outs.flatMap (fun o => (List.range (rowsOf o)).map (fun r =>
          cat names (fun k => if hasInput k then (jac (namedData names hasInput pt) o k).getD r []
                              else List.replicate (sizeOf sizes k) 0)))) :=
  gJac_named' sizes names hasInput jac rowsOf outs pt hnd hlen (fun o _ => hrow o)

/-! ### Design-space composition -/

theorem names_removeVariable (d : DS) (n : String) :
    ((d.removeVariable n).getD d).names = d.names.filter (fun m => !(m == n)) := by
  unfold DS.removeVariable
  split
  · simp only [Option.getD_some, DS.names, List.filter_map]
    rfl
  · rename_i h
    simp only [Option.getD_none]
    have hn : ∀ v ∈ d.vars, (v.name == n) = false := by
      intro v hv
      cases hvn : (v.name == n) with
      | false => rfl
      | true =>
        exfalso; apply h
        simp only [DS.contains, List.any_eq_true]
        exact ⟨v, hv, hvn⟩
    symm
    rw [List.filter_eq_self]
    intro m hm
    simp only [DS.names, List.mem_map] at hm
    obtain ⟨v, hv, rfl⟩ := hm
    simp [hn v hv]

/-- Removing a list of variables keeps the others, in the design-space order. -/
theorem names_removeAll (d : DS) (l : List String) :
    (removeAll d l).names = d.names.filter (fun m => !l.contains m) := by
  induction l generalizing d with
  | nil => simp [removeAll]
  | cons n ns ih =>
    have : removeAll d (n :: ns) = removeAll ((d.removeVariable n).getD d) ns := by
      simp [removeAll]
    rw [this, ih, names_removeVariable, List.filter_filter]
    congr 1
    funext m
    simp only [List.contains_cons]
    cases h1 : (m == n) <;> cases h2 : ns.contains m <;> simp_all

/-- MDF keeps exactly the design-space variables that are not couplings and are read by a discipline. -/
theorem mdfDS_names (s : Sys) :
    s.mdfDS.names = s.ds.names.filter (fun n => !s.allCouplings.contains n && s.allInputs.contains n) := by
  unfold Sys.mdfDS
  simp only
  rw [names_removeAll, names_removeAll, List.filter_filter]
  apply List.filter_congr
  intro m hm
  cases h1 : s.allCouplings.contains m with
  | true => simp
  | false =>
    have hnc : m ∉ s.allCouplings := by simpa using h1
    have hm1 : m ∈ s.ds.names.filter (fun m => !s.allCouplings.contains m) := by
      simp [List.mem_filter, hm, hnc]
    rw [contains_filter_of_mem hm1]
    simp

theorem idfDS_some (s : Sys) (d : DS) (h : s.idfDS = some d) :
    d = s.ds ∧ ∀ c ∈ s.allCouplings, s.ds.contains c = true := by
  unfold Sys.idfDS at h
  split at h
  · rename_i hall
    exact ⟨(Option.some.inj h).symm, fun c hc => List.all_eq_true.mp hall c hc⟩
  · cases h

theorem idfDS_none (s : Sys) (h : s.idfDS = none) :
    ∃ c ∈ s.allCouplings, s.ds.contains c = false := by
  unfold Sys.idfDS at h
  split at h
  · cases h
  · rename_i hall
    simp only [List.all_eq_true, not_forall] at hall
    obtain ⟨c, hc, hcc⟩ := hall
    exact ⟨c, hc, by simpa using hcc⟩

theorem names_filter (d : DS) (keep : List String) (hk : ∀ k ∈ keep, d.contains k = true) :
    ((d.filter keep).getD d).names = d.names.filter (fun n => keep.contains n) := by
  unfold DS.filter
  have : keep.all d.contains = true := List.all_eq_true.mpr hk
  simp only [this, if_true, Option.getD_some, DS.names, List.filter_map]
  rfl

/-! ### Consistency constraints -/

/-- `(y - t) / s = 0` component-wise iff `y = t` (non-zero scales, same sizes). -/
theorem scaled_diff_zero_iff (y t f : Vec) (hlen : y.length = t.length) (hf : f.length = y.length)
    (hnz : ∀ a ∈ f, a ≠ 0) :
    (List.zipWith (fun a s => a / s) (vsub y t) f = List.replicate y.length 0) ↔ y = t := by
  induction y generalizing t f with
  | nil =>
    cases t with
    | nil => simp [vsub]
    | cons _ _ => simp at hlen
  | cons a y ih =>
    cases t with
    | nil => simp at hlen
    | cons b t =>
      cases f with
      | nil => simp at hf
      | cons s f =>
        have hs : s ≠ 0 := hnz s (by simp)
        simp only [vsub, List.zipWith_cons_cons, List.length_cons, List.replicate_succ,
          List.cons.injEq]
        have := ih t f (by simpa using hlen) (by simpa using hf) (fun a ha => hnz a (by simp [ha]))
        simp only [vsub] at this
        rw [this]
        constructor
        · rintro ⟨h1, h2⟩
          refine ⟨?_, h2⟩
          have : a - b = 0 := by
            rcases div_eq_zero_iff.mp h1 with h | h
            · exact h
            · exact absurd h hs
          exact sub_eq_zero.mp this
        · rintro ⟨h1, h2⟩
          subst h1
          exact ⟨by simp, h2⟩

theorem diff_zero_iff (y t : Vec) (hlen : y.length = t.length) :
    (vsub y t = List.replicate y.length 0) ↔ y = t := by
  induction y generalizing t with
  | nil =>
    cases t with
    | nil => simp [vsub]
    | cons _ _ => simp at hlen
  | cons a y ih =>
    cases t with
    | nil => simp at hlen
    | cons b t =>
      simp only [vsub, List.zipWith_cons_cons, List.length_cons, List.replicate_succ, List.cons.injEq]
      have := ih t (by simpa using hlen)
      simp only [vsub] at this
      rw [this]
      constructor
      · rintro ⟨h1, h2⟩; exact ⟨sub_eq_zero.mp h1, h2⟩
      · rintro ⟨h1, h2⟩; subst h1; exact ⟨by simp, h2⟩

/-! ### Exactness of the linear branch -/

theorem linApprox_affine (c : Vec) (j : Mat) (x0 x : Vec) (hc : c.length = j.length) :
    linApprox (vadd c (matVec j x0)) j x0 x = vadd c (matVec j x) := by
  unfold linApprox vadd vsub matVec
  induction j generalizing c with
  | nil => cases c <;> simp
  | cons row rows ih =>
    cases c with
    | nil => simp at hc
    | cons a c =>
      simp only [List.map_cons, List.zipWith_cons_cons, List.cons.injEq]
      refine ⟨by ring, ?_⟩
      exact ih c (by simpa using hc)

/-! ### Named data: what a discipline receives under IDF and under MDF -/

theorem has_map (l : List String) (pt : String → Vec) (n : String) :
    Data.has (l.map (fun k => (k, pt k))) n = l.contains n := by
  induction l with
  | nil => simp [Data.has]
  | cons a l ih =>
    simp only [Data.has, List.map_cons, List.any_cons, List.contains_cons] at ih ⊢
    rw [ih]
    congr 1
    by_cases h : a = n
    · subst h; simp
    · have h' : n ≠ a := fun e => h e.symm
      simp [h, h']

theorem get_map (l : List String) (pt : String → Vec) (n : String) (h : n ∈ l) :
    Data.get (l.map (fun k => (k, pt k))) n = pt n := by
  induction l with
  | nil => cases h
  | cons a l ih =>
    simp only [Data.get, List.map_cons, List.find?_cons]
    cases hq : (a == n) with
    | true =>
      have : a = n := by simpa using hq
      subst this; rfl
    | false =>
      have hne : a ≠ n := by simpa using hq
      have hl : n ∈ l := by
        rcases List.mem_cons.mp h with h | h
        · exact absurd h.symm hne
        · exact h
      have := ih hl
      simpa [Data.get] using this

theorem has_append (a b : Data) (n : String) : Data.has (a ++ b) n = (a.has n || b.has n) := by
  simp [Data.has, List.any_append]

theorem get_append_left (a b : Data) (n : String) (h : a.has n = true) : Data.get (a ++ b) n = a.get n := by
  simp only [Data.get, List.find?_append]
  simp only [Data.has, List.any_eq_true] at h
  obtain ⟨p, hp, hpn⟩ := h
  have : (a.find? (fun p => p.1 == n)).isSome := by
    rw [List.find?_isSome]; exact ⟨p, hp, hpn⟩
  obtain ⟨q, hq⟩ := Option.isSome_iff_exists.mp this
  simp [hq]

theorem get_append_right (a b : Data) (n : String) (h : a.has n = false) : Data.get (a ++ b) n = b.get n := by
  simp only [Data.get, List.find?_append]
  have : a.find? (fun p => p.1 == n) = none := by
    rw [List.find?_eq_none]
    intro p hp hpn
    have : a.has n = true := by
      simp only [Data.has, List.any_eq_true]; exact ⟨p, hp, hpn⟩
    rw [h] at this; cases this
  simp [this]

/-- The data a discipline is executed with only depend on the given values of its own inputs. -/
theorem inputData_congr (d : Disc) (g₁ g₂ : Data)
    (h : ∀ p ∈ d.ins, g₁.has p.1 = g₂.has p.1 ∧ (g₁.has p.1 = true → g₁.get p.1 = g₂.get p.1)) :
    d.inputData g₁ = d.inputData g₂ := by
  unfold Disc.inputData
  apply List.map_congr_left
  intro p hp
  obtain ⟨h1, h2⟩ := h p hp
  cases hh : g₁.has p.1 with
  | true => rw [← h1, hh]; simp [h2 hh]
  | false => rw [← h1, hh]; simp

theorem namedPoint_cat (sizes : Sizes) (names : List String) (pt : String → Vec)
    (hlen : ∀ n ∈ names, (pt n).length = sizeOf sizes n) :
    namedPoint sizes names (cat names pt) = names.map (fun n => (n, pt n)) :=
  adapterInputData_cat sizes names pt hlen

/-- **IDF and MDF execute the discipline with the same data** when the design vectors of the two
    formulations are views of the same named point: `namesI` are IDF's variables, `namesM` MDF's,
    `cpl` the couplings (MDF gets them from the MDA, IDF from its design vector). -/
theorem inputData_idf_eq_mdf (d : Disc) (pt : String → Vec) (namesI namesM cpl : List String)
    (hnames : ∀ n, d.hasInput n = true → (n ∈ namesI ↔ n ∈ namesM ∨ n ∈ cpl)) :
    d.inputData (namedData namesI d.hasInput pt)
      = d.inputData (namesM.map (fun n => (n, pt n)) ++ cpl.map (fun k => (k, pt k))) := by
  apply inputData_congr
  intro p hp
  have hin : d.hasInput p.1 = true := by
    simp only [Disc.hasInput, List.any_eq_true]; exact ⟨p, hp, by simp⟩
  have hiff := hnames p.1 hin
  unfold namedData
  rw [has_map, has_append, has_map, has_map]
  have hfilt : (namesI.filter d.hasInput).contains p.1 = namesI.contains p.1 := by
    by_cases hm : p.1 ∈ namesI
    · rw [contains_filter_of_mem hm, hin]; simpa using hm
    · have : p.1 ∉ namesI.filter d.hasInput := fun h => hm (List.mem_filter.mp h).1
      simp [hm, this]
  constructor
  · rw [hfilt]
    by_cases hm : p.1 ∈ namesI
    · have := hiff.mp hm
      rcases this with h | h <;> simp [hm, h]
    · have h1 : p.1 ∉ namesM := fun h => hm (hiff.mpr (Or.inl h))
      have h2 : p.1 ∉ cpl := fun h => hm (hiff.mpr (Or.inr h))
      simp [hm, h1, h2]
  · intro hhas
    rw [hfilt] at hhas
    have hm : p.1 ∈ namesI := by simpa using hhas
    have hmf : p.1 ∈ namesI.filter d.hasInput := List.mem_filter.mpr ⟨hm, hin⟩
    rw [get_map _ _ _ hmf]
    by_cases hM : p.1 ∈ namesM
    · rw [get_append_left _ _ _ (by rw [has_map]; simpa using hM), get_map _ _ _ hM]
    · have hc : p.1 ∈ cpl := by
        rcases hiff.mp hm with h | h
        · exact absurd h hM
        · exact h
      rw [get_append_right _ _ _ (by rw [has_map]; simpa using hM), get_map _ _ _ hc]

end GV.C17
