/-
C18 — polynomial regression: the derivative table built by `PolynomialRegressor._predict_jacobian`
(coefficients of the differentiated monomials moved to the row of the table holding the decremented
powers) is the formal derivative of the polynomial, and the formal derivative is the derivative.
-/
import GemseoVerif.Lemmas.C18Reg
import Mathlib.Analysis.Calculus.Deriv.Pow
import Mathlib.Data.Nat.Cast.Basic

namespace GV.C18

section Table

variable {K : Type} [Field K]

theorem npow_eq_pow (x : K) (n : ℕ) : npow x n = x ^ n := by
  induction n with
  | zero => simp [npow]
  | succ k ih => simp [npow, ih, pow_succ]

theorem ofNat'_eq_cast (n : ℕ) : (ofNat' n : K) = (n : K) := by
  induction n with
  | zero => simp [ofNat', sumTo]
  | succ k ih =>
    have : (ofNat' (k + 1) : K) = ofNat' k + 1 := by simp [ofNat', sumTo]
    rw [this, ih]; push_cast; ring

theorem prodTo_congr {n : ℕ} {f g : ℕ → K} (h : ∀ j, j < n → f j = g j) :
    prodTo n f = prodTo n g := by
  induction n with
  | zero => rfl
  | succ k ih =>
    simp only [prodTo]
    rw [ih (fun j hj => h j (Nat.lt_succ_of_lt hj)), h k (Nat.lt_succ_self k)]

theorem prodTo_one (n : ℕ) : prodTo n (fun _ => (1 : K)) = 1 := by
  induction n with
  | zero => rfl
  | succ k ih => simp [prodTo, ih]

/-- A monomial depends on the first `k` exponents only. -/
theorem mono_congr (k : ℕ) (p p' : ℕ → ℕ) (z : Vec K) (h : ∀ j, j < k → p j = p' j) :
    mono k p z = mono k p' z :=
  prodTo_congr (fun j hj => by rw [h j hj])

/-- The exponents `r` decremented in column `idx`. -/
def dec (r : ℕ → ℕ) (idx : ℕ) : ℕ → ℕ := fun j => if j = idx then r j - 1 else r j

theorem decIsZero_iff (k : ℕ) (pw : ℕ → ℕ → ℕ) (p idx : ℕ) :
    decIsZero k pw p idx = true ↔ pw p idx = 1 ∧ ∀ j, j < k → j ≠ idx → pw p j = 0 := by
  simp only [decIsZero, Bool.and_eq_true, beq_iff_eq, List.all_eq_true, List.mem_range,
    Bool.or_eq_true]
  constructor
  · rintro ⟨h1, h2⟩
    exact ⟨h1, fun j hj hne => (h2 j hj).resolve_left hne⟩
  · rintro ⟨h1, h2⟩
    exact ⟨h1, fun j hj => by
      by_cases h : j = idx
      · exact Or.inl h
      · exact Or.inr (h2 j hj h)⟩

theorem decMatches_iff (k : ℕ) (pw : ℕ → ℕ → ℕ) (p q idx : ℕ) :
    decMatches k pw p q idx = true ↔
      1 ≤ pw p idx ∧ ∀ j, j < k → pw q j = dec (pw p) idx j := by
  simp only [decMatches, Bool.and_eq_true, decide_eq_true_eq, List.all_eq_true, List.mem_range]
  constructor
  · rintro ⟨h1, h2⟩
    refine ⟨h1, fun j hj => ?_⟩
    have := h2 j hj
    unfold dec
    by_cases h : j = idx
    · simp only [h, if_true] at this ⊢
      have := beq_iff_eq.mp this
      omega
    · simp only [h, if_false] at this ⊢
      exact beq_iff_eq.mp this
  · rintro ⟨h1, h2⟩
    refine ⟨h1, fun j hj => ?_⟩
    have := h2 j hj
    unfold dec at this
    by_cases h : j = idx
    · simp only [h, if_true] at this ⊢
      subst h
      exact beq_iff_eq.mpr (by omega)
    · simp only [h, if_false] at this ⊢
      exact beq_iff_eq.mpr this

/-- The table of exponents is usable by the code: its rows are distinct and it contains the
    decrement of each of its rows (or the decrement is the constant monomial). This holds for the
    full tables of `PolynomialFeatures` (all monomials of degree `1..D`). -/
structure TableOK (P k : ℕ) (pw : ℕ → ℕ → ℕ) : Prop where
  distinct : ∀ p q, p < P → q < P → (∀ j, j < k → pw p j = pw q j) → p = q
  closed : ∀ p idx, p < P → idx < k → 1 ≤ pw p idx →
    decIsZero k pw p idx = true ∨ ∃ q, q < P ∧ decMatches k pw p q idx = true

/-- **Derivative table of the code = formal derivative of the polynomial.** -/
theorem polyJac_eq_formal (P k : ℕ) (pw : ℕ → ℕ → ℕ) (hT : TableOK P k pw) (coef : Mat K)
    (z : Vec K) (i idx : ℕ) (hidx : idx < k) :
    polyJac P k pw coef z i idx
      = sumTo P (fun p => coef i p * ((pw p idx : K) * mono k (dec (pw p) idx) z)) := by
  unfold polyJac
  -- exchange the two sums of the second part
  have hswap : sumTo P (fun q =>
        sumTo P (fun p =>
          if (!decIsZero k pw p idx && decMatches k pw p q idx) = true
          then ofNat' (pw p idx) * coef i p else 0) * mono k (pw q) z)
      = sumTo P (fun p => sumTo P (fun q =>
          if (!decIsZero k pw p idx && decMatches k pw p q idx) = true
          then ofNat' (pw p idx) * coef i p * mono k (pw q) z else 0)) := by
    rw [sumTo_comm]
    exact sumTo_congr (fun q _ => by
      rw [← sumTo_mul_right]
      exact sumTo_congr (fun p _ => by
        by_cases h : (!decIsZero k pw p idx && decMatches k pw p q idx) = true <;> simp [h]))
  rw [hswap, ← sumTo_add]
  refine sumTo_congr (fun p hp => ?_)
  rw [ofNat'_eq_cast]
  by_cases h0 : pw p idx = 0
  · -- the monomial does not contain the variable
    have hz : decIsZero k pw p idx = false := by
      rw [Bool.eq_false_iff]; intro h; have := ((decIsZero_iff k pw p idx).mp h).1; omega
    have hm : ∀ q, decMatches k pw p q idx = false := fun q => by
      rw [Bool.eq_false_iff]; intro h; have := ((decMatches_iff k pw p q idx).mp h).1; omega
    simp [hz, hm, h0]
  · have h1 : 1 ≤ pw p idx := Nat.one_le_iff_ne_zero.mpr h0
    by_cases hz : decIsZero k pw p idx = true
    · -- degree-one monomial in the variable: constant term of the derivative
      obtain ⟨hone, hzero⟩ := (decIsZero_iff k pw p idx).mp hz
      have hmono : mono k (dec (pw p) idx) z = 1 := by
        unfold mono
        rw [← prodTo_one (K := K) k]
        exact prodTo_congr (fun j hj => by
          unfold dec
          by_cases h : j = idx
          · simp [h, hone, npow]
          · simp [h, hzero j hj h, npow])
      simp [hz, hmono]
      ring
    · have hz' : decIsZero k pw p idx = false := by simpa using hz
      rcases hT.closed p idx hp hidx h1 with h | ⟨q0, hq0, hmatch⟩
      · exact absurd h hz
      · have hrow := ((decMatches_iff k pw p q0 idx).mp hmatch).2
        have hsingle : sumTo P (fun q =>
              if (!decIsZero k pw p idx && decMatches k pw p q idx) = true
              then (pw p idx : K) * coef i p * mono k (pw q) z else 0)
            = (pw p idx : K) * coef i p * mono k (pw q0) z := by
          rw [sumTo_eq_single P q0 hq0]
          · simp [hz', hmatch]
          · intro q hq hne
            have : decMatches k pw p q idx = false := by
              rw [Bool.eq_false_iff]
              intro h
              have hrow' := ((decMatches_iff k pw p q idx).mp h).2
              exact hne (hT.distinct q q0 hq hq0 (fun j hj => by rw [hrow' j hj, hrow j hj]))
            simp [this]
        rw [if_neg hz, zero_add, hsingle, mono_congr k (pw q0) (dec (pw p) idx) z hrow]
        ring

end Table

/-! ### The formal derivative is the derivative -/

theorem mono_succ (k : ℕ) (p : ℕ → ℕ) (z : Vec ℝ) :
    mono (k + 1) p z = mono k p z * (z k) ^ (p k) := by
  simp [mono, prodTo, npow_eq_pow]

/-- Directional derivative of a monomial. -/
theorem mono_hasDerivAt (k : ℕ) (p : ℕ → ℕ) (z w : Vec ℝ) :
    HasDerivAt (fun t : ℝ => mono k p (fun j => z j + t * w j))
      (sumTo k (fun j => w j * ((p j : ℝ) * mono k (dec p j) z))) 0 := by
  induction k with
  | zero => simpa [mono, prodTo, sumTo] using hasDerivAt_const (0 : ℝ) (1 : ℝ)
  | succ k ih =>
    have hA := ih
    have hlin : HasDerivAt (fun t : ℝ => z k + t * w k) (w k) 0 := by
      simpa using ((hasDerivAt_id (0 : ℝ)).mul_const (w k)).const_add (z k)
    have hB := hlin.fun_pow (p k)
    have hAB := hA.fun_mul hB
    have hfun : (fun t : ℝ => mono (k + 1) p (fun j => z j + t * w j))
        = fun t => mono k p (fun j => z j + t * w j) * (z k + t * w k) ^ (p k) := by
      funext t; rw [mono_succ]
    rw [hfun]
    have h1 : sumTo k (fun j => w j * ((p j : ℝ) * mono (k + 1) (dec p j) z))
        = sumTo k (fun j => w j * ((p j : ℝ) * mono k (dec p j) z)) * z k ^ p k := by
      rw [← sumTo_mul_right]
      exact sumTo_congr (fun j hj => by
        rw [mono_succ]
        have : dec p j k = p k := by
          unfold dec
          have : k ≠ j := by omega
          simp [this]
        rw [this]; ring)
    have h2 : mono (k + 1) (dec p k) z = mono k p z * z k ^ (p k - 1) := by
      rw [mono_succ]
      have ha : mono k (dec p k) z = mono k p z :=
        mono_congr k _ _ z (fun j hj => by
          unfold dec
          have : j ≠ k := by omega
          simp [this])
      have hb : dec p k k = p k - 1 := by simp [dec]
      rw [ha, hb]
    have h3 : mono k p (fun j => z j + 0 * w j) = mono k p z := by
      congr 1; funext j; ring
    have hval : sumTo (k + 1) (fun j => w j * ((p j : ℝ) * mono (k + 1) (dec p j) z))
        = sumTo k (fun j => w j * ((p j : ℝ) * mono k (dec p j) z)) * (z k + 0 * w k) ^ p k
          + mono k p (fun j => z j + 0 * w j) * ((p k : ℝ) * (z k + 0 * w k) ^ (p k - 1) * w k) := by
      have hs : sumTo (k + 1) (fun j => w j * ((p j : ℝ) * mono (k + 1) (dec p j) z))
          = sumTo k (fun j => w j * ((p j : ℝ) * mono (k + 1) (dec p j) z))
            + w k * ((p k : ℝ) * mono (k + 1) (dec p k) z) := rfl
      rw [hs, h1, h2, h3]
      ring
    rw [hval]
    exact hAB

/-- **Polynomial regression**: the table-based Jacobian of the code is the exact Jacobian. -/
theorem polyreg_jac (P k m : ℕ) (pw : ℕ → ℕ → ℕ) (hT : TableOK P k pw) (coef : Mat ℝ) (b : Vec ℝ) :
    HasJac k m (polyPredict P k pw coef b) (polyJac P k pw coef) := by
  refine ⟨fun u v huv i _ => ?_, fun z w i _ => ?_⟩
  · unfold polyPredict
    congr 1
    exact sumTo_congr (fun p _ => by
      congr 1
      exact prodTo_congr (fun j hj => by rw [huv j hj]))
  · unfold polyPredict
    have hsum : HasDerivAt
        (fun t : ℝ => sumTo P (fun p => coef i p * mono k (pw p) (fun j => z j + t * w j)))
        (sumTo P (fun p => coef i p * sumTo k (fun j => w j * ((pw p j : ℝ) * mono k (dec (pw p) j) z)))) 0 :=
      hasDerivAt_sumTo P _ _ 0 (fun p _ => (mono_hasDerivAt k (pw p) z w).const_mul (coef i p))
    have hd := hsum.add_const (b i)
    have hval : mulVec k (polyJac P k pw coef z) w i
        = sumTo P (fun p => coef i p * sumTo k (fun j => w j * ((pw p j : ℝ) * mono k (dec (pw p) j) z))) := by
      unfold mulVec
      have h1 : sumTo k (fun j => polyJac P k pw coef z i j * w j)
          = sumTo k (fun j => sumTo P (fun p =>
              coef i p * (w j * ((pw p j : ℝ) * mono k (dec (pw p) j) z)))) :=
        sumTo_congr (fun j hj => by
          rw [polyJac_eq_formal P k pw hT coef z i j hj, ← sumTo_mul_right]
          exact sumTo_congr (fun p _ => by ring))
      rw [h1, sumTo_comm]
      exact sumTo_congr (fun p _ => by rw [sumTo_mul_left])
    rw [hval]
    exact hd

end GV.C18
