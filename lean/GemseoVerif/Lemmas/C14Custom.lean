/-
C14 — the `samples` setting of CustomDOE given by names: `convert_dict_to_array` looks the variables up
by name in the design-space order, so the order in which the user wrote the keys of a dictionary (one
dictionary of 2-D arrays, or one dictionary per sample) cannot be observed.
-/
import GemseoVerif.Lemmas.C14
import Mathlib.Data.List.Perm.Basic
import Mathlib.Data.List.Nodup

namespace GV.C14
open GV GV.C02

/-- `design_values[name]` (an absent key yields the empty block: the C02 model is total). -/
def dlookup {β : Type} (m : List (String × List β)) (n : String) : List β :=
  ((m.find? (·.1 == n)).map (·.2)).getD []

theorem dictToArray_eq (d : DS) (m : List (String × List Rat)) :
    d.dictToArray m = d.names.flatMap (dlookup m) := rfl

/-- **Looking a key up does not depend on the order of the entries** (distinct keys). -/
theorem find_perm {β : Type} (m m' : List (String × β)) (hn : (m.map (·.1)).Nodup) (hp : m.Perm m')
    (n : String) : m.find? (·.1 == n) = m'.find? (·.1 == n) := by
  cases h : m.find? (·.1 == n) with
  | none =>
    rw [List.find?_eq_none] at h
    symm
    rw [List.find?_eq_none]
    intro x hx
    exact h x (hp.mem_iff.mpr hx)
  | some a =>
    have ha : a ∈ m := List.mem_of_find?_eq_some h
    have hpa : (a.1 == n) = true := by simpa using List.find?_some h
    cases h' : m'.find? (·.1 == n) with
    | none =>
      rw [List.find?_eq_none] at h'
      exact absurd hpa (by simpa using h' a (hp.mem_iff.mp ha))
    | some b =>
      have hb : b ∈ m := hp.mem_iff.mpr (List.mem_of_find?_eq_some h')
      have hpb : (b.1 == n) = true := by simpa using List.find?_some h'
      have hk : a.1 = b.1 := by
        rw [beq_iff_eq] at hpa hpb
        rw [hpa, hpb]
      rw [List.inj_on_of_nodup_map hn ha hb hk]

theorem dlookup_perm {β : Type} (m m' : List (String × List β)) (hn : (m.map (·.1)).Nodup) (hp : m.Perm m')
    (n : String) : dlookup m n = dlookup m' n := by
  unfold dlookup
  rw [find_perm m m' hn hp n]

/-- **`convert_dict_to_array` ignores the key order of its argument.** -/
theorem dictToArray_perm (d : DS) (m m' : List (String × List Rat)) (hn : (m.map (·.1)).Nodup)
    (hp : m.Perm m') : d.dictToArray m = d.dictToArray m' := by
  rw [dictToArray_eq, dictToArray_eq]
  exact flatMap_congr' _ _ _ (fun n _ => dlookup_perm m m' hn hp n)

theorem dlookup_cons_self {β : Type} (n : String) (b : List β) (rest : List (String × List β)) :
    dlookup ((n, b) :: rest) n = b := by
  simp [dlookup]

theorem dlookup_cons_ne {β : Type} (n n' : String) (b : List β) (rest : List (String × List β)) (h : n ≠ n') :
    dlookup ((n, b) :: rest) n' = dlookup rest n' := by
  simp [dlookup, List.find?_cons, h]

/-- Looking the names up, in order, in the dictionary `names ↦ blocks` gives the blocks back. -/
theorem map_dlookup_zip {β : Type} (names : List String) (blocks : List (List β)) (hn : names.Nodup)
    (hl : names.length = blocks.length) : names.map (dlookup (names.zip blocks)) = blocks := by
  induction names generalizing blocks with
  | nil =>
    cases blocks with
    | nil => rfl
    | cons b bs => simp at hl
  | cons n ns ih =>
    cases blocks with
    | nil => simp at hl
    | cons b bs =>
      simp only [List.length_cons, Nat.add_right_cancel_iff] at hl
      obtain ⟨hnot, hns⟩ := List.nodup_cons.mp hn
      simp only [List.zip_cons_cons, List.map_cons, dlookup_cons_self, List.cons.injEq, true_and]
      rw [← ih bs hns hl]
      apply List.map_congr_left
      intro n' hn'
      rw [dlookup_cons_ne n n' b _ (fun e => hnot (e ▸ hn')), ih bs hns hl]

theorem flatMap_dlookup_zip (names : List String) (blocks : List (List Rat)) (hn : names.Nodup)
    (hl : names.length = blocks.length) : names.flatMap (dlookup (names.zip blocks)) = blocks.flatten := by
  rw [List.flatMap_def, map_dlookup_zip names blocks hn hl]

theorem arrayToDict_keys (d : DS) (x : List Rat) : (d.arrayToDict x).map (·.1) = d.names := by
  unfold DS.arrayToDict
  rw [List.map_fst_zip]
  rw [splitBySizes_length]
  simp [DS.sizes, DS.names]

/-- **dict → array after array → dict is the identity** (`convert_dict_to_array` of
    `convert_array_to_dict`), for distinct variable names and a vector of the right size. -/
theorem dictToArray_arrayToDict (d : DS) (hn : d.names.Nodup) (x : List Rat) (hx : x.length = d.dimension) :
    d.dictToArray (d.arrayToDict x) = x := by
  rw [dictToArray_eq]
  unfold DS.arrayToDict
  rw [flatMap_dlookup_zip d.names _ hn (by rw [splitBySizes_length]; simp [DS.sizes, DS.names])]
  exact flatten_splitBySizes d.sizes x (by simpa [DS.dimension] using hx.symm)

/-- **Whatever the key order**: any reordering of the dictionary form of a sample is converted back
    to the sample, expressed in the design-space variable order. -/
theorem dictToArray_perm_arrayToDict (d : DS) (hn : d.names.Nodup) (x : List Rat) (hx : x.length = d.dimension)
    (p : List (String × List Rat)) (hp : p.Perm (d.arrayToDict x)) : d.dictToArray p = x := by
  rw [← dictToArray_perm d (d.arrayToDict x) p (by rw [arrayToDict_keys]; exact hn) hp.symm]
  exact dictToArray_arrayToDict d hn x hx

/-! ### The three documented forms -/

/-- A dictionary of 2-D arrays `cols` stands for the samples `X` (rows), up to its key order. -/
def DictStandsFor (d : DS) (cols : List (String × Matrix)) (X : Matrix) : Prop :=
  dictRowCount d cols = X.length ∧ ∀ (i : Nat) (hi : i < X.length), (dictRow cols i).Perm (d.arrayToDict X[i])

/-- One dictionary per sample, each in its own key order. -/
def DictsStandFor (d : DS) (rows : List (List (String × List Rat))) (X : Matrix) : Prop :=
  List.Forall₂ (fun r x => r.Perm (d.arrayToDict x)) rows X

theorem dicts_toMatrix (d : DS) (hn : d.names.Nodup) (rows : List (List (String × List Rat))) (X : Matrix)
    (hX : ∀ x ∈ X, x.length = d.dimension) (h : DictsStandFor d rows X) :
    (CustomSamples.dicts rows).toMatrix d = X := by
  show rows.map d.dictToArray = X
  induction h with
  | nil => rfl
  | @cons r x rs xs hr _ ih =>
    simp only [List.map_cons]
    rw [dictToArray_perm_arrayToDict d hn x (hX x (by simp)) r hr, ih (fun y hy => hX y (by simp [hy]))]

theorem dict_toMatrix (d : DS) (hn : d.names.Nodup) (cols : List (String × Matrix)) (X : Matrix)
    (hX : ∀ x ∈ X, x.length = d.dimension) (h : DictStandsFor d cols X) :
    (CustomSamples.dict cols).toMatrix d = X := by
  show (List.range (dictRowCount d cols)).map (fun i => d.dictToArray (dictRow cols i)) = X
  rw [h.1]
  apply List.ext_getElem
  · simp
  · intro i h1 h2
    simp only [List.getElem_map, List.getElem_range]
    exact dictToArray_perm_arrayToDict d hn X[i] (hX _ (List.getElem_mem h2)) _ (h.2 i h2)

/-- The key order of a dictionary of 2-D arrays is irrelevant. -/
theorem dictStandsFor_perm (d : DS) (cols cols' : List (String × Matrix)) (X : Matrix)
    (hk : (cols.map (·.1)).Nodup) (hp : cols.Perm cols') (h : DictStandsFor d cols X) :
    DictStandsFor d cols' X := by
  refine ⟨?_, ?_⟩
  · rw [← h.1]
    unfold dictRowCount
    cases d.names with
    | nil => rfl
    | cons n _ => simp only []; rw [find_perm cols cols' hk hp n]
  · intro i hi
    exact ((hp.map _).symm).trans (h.2 i hi)

/-- The canonical dictionary of 2-D arrays of the samples `X`: variable `j ↦` the matrix of the `j`-th
    blocks of the rows. -/
def colsOf (d : DS) (X : Matrix) : List (String × Matrix) :=
  d.names.zip ((List.range d.names.length).map (fun j => X.map (fun x => (splitBySizes d.sizes x).getD j [])))

theorem map_snd_zip' {α β γ : Type} (f : β → γ) (l1 : List α) (l2 : List β) :
    (l1.zip l2).map (fun c => (c.1, f c.2)) = l1.zip (l2.map f) := by
  induction l1 generalizing l2 with
  | nil => simp
  | cons a as ih => cases l2 <;> simp [ih]

theorem range_map_getD {β : Type} (l : List (List β)) (n : Nat) (h : l.length = n) :
    (List.range n).map (fun j => l.getD j []) = l := by
  apply List.ext_getElem
  · simp [h]
  · intro i h1 h2
    simp [List.getD_eq_getElem?_getD, List.getElem?_eq_getElem h2]

theorem colsOf_standsFor (d : DS) (hne : d.names ≠ []) (X : Matrix) : DictStandsFor d (colsOf d X) X := by
  refine ⟨?_, ?_⟩
  · unfold dictRowCount colsOf
    cases hnm : d.names with
    | nil => exact absurd hnm hne
    | cons n ns =>
      simp [List.range_succ_eq_map, List.find?_cons]
  · intro i hi
    have : dictRow (colsOf d X) i = d.arrayToDict X[i] := by
      unfold dictRow colsOf DS.arrayToDict
      rw [map_snd_zip' (fun a : Matrix => a.getD i [])]
      congr 1
      rw [List.map_map]
      have hl : (splitBySizes d.sizes X[i]).length = d.names.length := by
        rw [splitBySizes_length]; simp [DS.sizes, DS.names]
      rw [← range_map_getD (splitBySizes d.sizes X[i]) d.names.length hl]
      apply List.map_congr_left
      intro j _
      simp [List.getD_eq_getElem?_getD, List.getElem?_map, List.getElem?_eq_getElem hi]
    rw [this]

end GV.C14
