/-
C16 — bridge between the executable complex-step model over Gaussian rationals (`GRat`,
`Poly.evalG`) and Mathlib's `ℂ` / `Polynomial ℝ`: the restriction of a model polynomial to a
coordinate line is a real polynomial `polyLine p x i` whose values at rational points are the
model's `Poly.eval` and whose value at `x_i + iδ` is the model's `Poly.evalG` at the perturbed
complex point.
-/
import GemseoVerif.Lemmas.C16
import GemseoVerif.Analysis.C16Complex
import Mathlib.Data.Rat.Cast.Order
import Mathlib.Data.Complex.Basic
import Mathlib.Algebra.BigOperators.Group.List.Basic

namespace GV.C16

open Complex Polynomial

/-! ### Generic monomial products -/

/-- `Π_l w_l ^ e_l` (truncated to the shorter list, like `zipWith`). -/
def gprod {M : Type} [CommMonoid M] (w : List M) (e : List ℕ) : M :=
  (List.zipWith (fun a k => a ^ k) w e).prod

theorem gprod_cons {M : Type} [CommMonoid M] (a : M) (w : List M) (k : ℕ) (e : List ℕ) :
    gprod (a :: w) (k :: e) = a ^ k * gprod w e := by
  simp [gprod]

theorem gprod_nil_right {M : Type} [CommMonoid M] (w : List M) : gprod w [] = 1 := by
  simp [gprod]

/-- Splitting off the factor of position `i`. -/
theorem gprod_set {M : Type} [CommMonoid M] (w : List M) (e : List ℕ) (i : ℕ) (t : M)
    (hi : i < w.length) :
    gprod (w.set i t) e = gprod (w.set i 1) e * t ^ (e.getD i 0) := by
  induction w generalizing e i with
  | nil => simp at hi
  | cons a w ih =>
    cases e with
    | nil => simp [gprod_nil_right]
    | cons k e =>
      cases i with
      | zero => simp [gprod_cons, mul_comm]
      | succ i =>
        have hi' : i < w.length := by simpa using hi
        simp only [List.set_cons_succ, gprod_cons, List.getD_cons_succ]
        rw [ih e i hi', mul_assoc]

theorem map_gprod {M N : Type} [CommMonoid M] [CommMonoid N] (φ : M →* N) (w : List M)
    (e : List ℕ) : φ (gprod w e) = gprod (w.map φ) e := by
  induction w generalizing e with
  | nil => simp [gprod]
  | cons a w ih =>
    cases e with
    | nil => simp [gprod_nil_right]
    | cons k e => simp [gprod_cons, ih]

/-! ### The rational evaluator in terms of `gprod` -/

theorem rpow_eq_pow (b : ℚ) (n : ℕ) : rpow b n = b ^ n := by
  induction n with
  | zero => simp [rpow]
  | succ n ih => simp [rpow, ih, pow_succ]

theorem prodR_eq_prod (l : List ℚ) : prodR l = l.prod := by
  induction l with
  | nil => rfl
  | cons a t ih => simp [prodR, ih]

theorem Mono.eval_eq (m : Mono) (x : Vec) : m.eval x = m.coef * gprod x m.exps := by
  unfold Mono.eval gprod
  rw [prodR_eq_prod]
  congr 2
  apply List.ext_getElem
  · simp
  · intro j h1 h2
    simp [rpow_eq_pow]

/-- Along component `i` a model monomial is `c · t^e` with `c` its value at `x_i := 1`. -/
theorem Mono.eval_set (m : Mono) (x : Vec) (i : ℕ) (t : ℚ) (hi : i < x.length) :
    m.eval (x.set i t) = m.eval (x.set i 1) * t ^ (m.exps.getD i 0) := by
  rw [Mono.eval_eq, Mono.eval_eq, gprod_set x m.exps i t hi, mul_assoc]

/-! ### Gaussian rationals inside `ℂ` -/

/-- The complex number denoted by a Gaussian rational. -/
noncomputable def GRat.toC (z : GRat) : ℂ := ⟨(z.re : ℝ), (z.im : ℝ)⟩

@[simp] theorem GRat.toC_re (z : GRat) : z.toC.re = (z.re : ℝ) := rfl
@[simp] theorem GRat.toC_im (z : GRat) : z.toC.im = (z.im : ℝ) := rfl

/-- `ℚ → ℝ → ℂ`. -/
noncomputable def castC : ℚ →+* ℂ := Complex.ofRealHom.comp (Rat.castHom ℝ)

@[simp] theorem castC_apply (r : ℚ) : castC r = (((r : ℝ)) : ℂ) := rfl

theorem GRat.toC_add (a b : GRat) : (GRat.add a b).toC = a.toC + b.toC := by
  apply Complex.ext <;> simp [GRat.add]

theorem GRat.toC_mul (a b : GRat) : (GRat.mul a b).toC = a.toC * b.toC := by
  apply Complex.ext <;> simp [GRat.mul]

theorem GRat.toC_smul (c : ℚ) (a : GRat) : (GRat.smul c a).toC = castC c * a.toC := by
  apply Complex.ext <;> simp [GRat.smul]

theorem GRat.toC_ofRat (r : ℚ) : (GRat.ofRat r).toC = castC r := by
  apply Complex.ext <;> simp [GRat.ofRat]

theorem GRat.toC_npow (a : GRat) (n : ℕ) : (GRat.npow a n).toC = a.toC ^ n := by
  induction n with
  | zero => apply Complex.ext <;> simp [GRat.npow]
  | succ n ih => rw [GRat.npow, GRat.toC_mul, ih, pow_succ]

theorem toC_prodG (l : List GRat) : (prodG l).toC = (l.map GRat.toC).prod := by
  induction l with
  | nil => apply Complex.ext <;> simp [prodG]
  | cons a t ih => rw [prodG, GRat.toC_mul, ih]; simp

theorem toC_sumG (l : List GRat) : (sumG l).toC = (l.map GRat.toC).sum := by
  induction l with
  | nil => apply Complex.ext <;> simp [sumG]
  | cons a t ih => rw [sumG, GRat.toC_add, ih]; simp

theorem Mono.toC_evalG (m : Mono) (z : CVec) :
    (m.evalG z).toC = castC m.coef * gprod (z.map GRat.toC) m.exps := by
  unfold Mono.evalG gprod
  rw [GRat.toC_smul, toC_prodG]
  congr 2
  apply List.ext_getElem
  · simp
  · intro j h1 h2
    simp [GRat.toC_npow]

/-! ### Restriction of a model polynomial to a coordinate line -/

/-- `c · X^e` with `c` the monomial evaluated at `x_i := 1` and `e` its exponent in `x_i`. -/
noncomputable def monoLine (m : Mono) (x : Vec) (i : ℕ) : ℝ[X] :=
  C ((m.eval (x.set i 1) : ℚ) : ℝ) * X ^ (m.exps.getD i 0)

/-- The real polynomial `t ↦ p(x_0, …, x_{i-1}, t, x_{i+1}, …)`. -/
noncomputable def polyLine (p : Poly) (x : Vec) (i : ℕ) : ℝ[X] :=
  (p.map (fun m => monoLine m x i)).sum

/-- At rational points the line polynomial is the model's rational evaluation. -/
theorem polyLine_eval (p : Poly) (x : Vec) (i : ℕ) (hi : i < x.length) (t : ℚ) :
    (polyLine p x i).eval (t : ℝ) = ((p.eval (x.set i t) : ℚ) : ℝ) := by
  unfold polyLine Poly.eval
  induction p with
  | nil => simp
  | cons m p ih =>
    simp only [List.map_cons, List.sum_cons, eval_add, Rat.cast_add, ih]
    congr 1
    rw [Mono.eval_set m x i t hi]
    simp [monoLine]

/-- The complex point at which the complex step evaluates, inside `ℂ`. -/
theorem map_toC_cadd_csPert (x : Vec) (s : Step) (i : ℕ) (hi : i < x.length) :
    (cadd x (csPert x.length x s i)).map GRat.toC =
      (x.map castC).set i (castC (getR x i) + castC (csDelta x s i) * I) := by
  apply List.ext_getElem?
  intro j
  by_cases hj : j < x.length
  · rw [List.getElem?_map, cadd_csPert_get x s i j hj, List.getElem?_set]
    by_cases hij : i = j
    · subst hij
      simp only [Option.map_some, List.length_map, hj, if_true]
      congr 1
      apply Complex.ext <;> simp
    · simp only [Option.map_some, hij, if_false, List.getElem?_map,
        List.getElem?_eq_getElem hj]
      congr 1
      apply Complex.ext <;> simp [getR, List.getD_eq_getElem?_getD, List.getElem?_eq_getElem hj]
  · have h1 : (cadd x (csPert x.length x s i)).length ≤ j := by
      rw [cadd_csPert_length]; exact not_lt.mp hj
    rw [List.getElem?_map, List.getElem?_eq_none h1, List.getElem?_set]
    have : ¬ i = j := fun h => hj (h ▸ hi)
    simp [this, List.getElem?_eq_none (not_lt.mp hj)]

/-- At `x_i + iδ` the line polynomial is the model's Gaussian evaluation at the perturbed point. -/
theorem polyLine_aeval (p : Poly) (x : Vec) (s : Step) (i : ℕ) (hi : i < x.length) :
    aeval (castC (getR x i) + castC (csDelta x s i) * I) (polyLine p x i) =
      (p.evalG (cadd x (csPert x.length x s i))).toC := by
  unfold polyLine Poly.evalG
  rw [toC_sumG]
  induction p with
  | nil => simp
  | cons m p ih =>
    simp only [List.map_cons, List.sum_cons, map_add, ih]
    congr 1
    rw [Mono.toC_evalG, map_toC_cadd_csPert x s i hi,
      gprod_set (x.map castC) m.exps i _ (by simpa using hi)]
    have hc : ((((m.eval (x.set i 1) : ℚ) : ℝ)) : ℂ) =
        castC m.coef * gprod ((x.map castC).set i 1) m.exps := by
      rw [Mono.eval_eq, ← castC_apply, map_mul]
      have h := map_gprod (castC : ℚ →+* ℂ).toMonoidHom (x.set i 1) m.exps
      simp only [RingHom.toMonoidHom_eq_coe, MonoidHom.coe_coe] at h
      rw [h, List.map_set]
      simp
    simp only [monoLine, map_mul, aeval_C, map_pow, aeval_X, Complex.coe_algebraMap]
    rw [hc, mul_assoc]

end GV.C16
