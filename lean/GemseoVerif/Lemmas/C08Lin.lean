/-
C08 helper lemmas: the affine discipline of the model (`LinDisc.run`, the harness's `LinDisc`) is a
`BlockSpec` — it only writes its outputs, and after its execution its equations
`out = const + Σ coef · input` hold — provided its output names are distinct and it does not read
its own outputs (not self-coupled).
-/
import GemseoVerif.Lemmas.C08Chain
import Mathlib.Data.List.Induction

namespace GV.C08

theorem Env.val_put (e : Env) (k k' : String) (v : Rat) :
    (e.put k v).val k' = if k' = k then some v else e.val k' := by
  simp [Env.put, Env.val]

def LinOut.reads (o : LinOut) : List String := o.coefs.map (·.1)

def LinDisc.reads (d : LinDisc) : List String := d.outs.flatMap LinOut.reads

def LinDisc.writes (d : LinDisc) : List String := d.outs.map (·.name)

/-- Well-formed, not self-coupled affine discipline. -/
structure LinDisc.WF (d : LinDisc) : Prop where
  nodup : d.writes.Nodup
  not_self : ∀ k ∈ d.reads, k ∉ d.writes

theorem evalAux_congr (coefs : List (String × Rat)) (e e' : Env) (acc : Option Rat)
    (h : ∀ p ∈ coefs, e.val p.1 = e'.val p.1) :
    coefs.foldl (fun acc p =>
      match acc, e.val p.1 with
      | some s, some v => some (s + p.2 * v)
      | _, _ => none) acc =
    coefs.foldl (fun acc p =>
      match acc, e'.val p.1 with
      | some s, some v => some (s + p.2 * v)
      | _, _ => none) acc := by
  induction coefs generalizing acc with
  | nil => rfl
  | cons p ps ih =>
    simp only [List.foldl_cons]
    rw [h p (by simp)]
    exact ih _ (fun q hq => h q (List.mem_cons_of_mem _ hq))

/-- The value of an affine output only depends on the names it reads. -/
theorem LinOut.eval_congr (o : LinOut) (e e' : Env) (h : ∀ k ∈ o.reads, e.val k = e'.val k) :
    o.eval e = o.eval e' := by
  unfold LinOut.eval
  apply evalAux_congr
  intro p hp
  exact h p.1 (List.mem_map.2 ⟨p, hp, rfl⟩)

theorem evalAux_isSome (coefs : List (String × Rat)) (e : Env) (s : Rat)
    (h : ∀ p ∈ coefs, (e.val p.1).isSome) :
    (coefs.foldl (fun acc p =>
      match acc, e.val p.1 with
      | some s, some v => some (s + p.2 * v)
      | _, _ => none) (some s)).isSome := by
  induction coefs generalizing s with
  | nil => simp
  | cons p ps ih =>
    simp only [List.foldl_cons]
    obtain ⟨v, hv⟩ := Option.isSome_iff_exists.1 (h p (by simp))
    rw [hv]
    exact ih _ (fun q hq => h q (List.mem_cons_of_mem _ hq))

/-- With all its inputs present an affine output has a value. -/
theorem LinOut.eval_isSome (o : LinOut) (e : Env) (h : ∀ k ∈ o.reads, (e.val k).isSome) :
    (o.eval e).isSome := by
  unfold LinOut.eval
  apply evalAux_isSome
  intro p hp
  exact h p.1 (List.mem_map.2 ⟨p, hp, rfl⟩)

/-- The writing loop of `LinDisc.run` from an arbitrary accumulator. -/
def writeOuts (e : Env) (outs : List LinOut) (acc : Env) : Env :=
  outs.foldl (fun acc o =>
    match o.eval e with
    | some v => acc.put o.name v
    | none => acc) acc

theorem run_eq_writeOuts (d : LinDisc) (e : Env) : d.run e = writeOuts e d.outs e := rfl

theorem writeOuts_frame (e : Env) (outs : List LinOut) (acc : Env) (k : String)
    (hk : k ∉ outs.map (·.name)) : (writeOuts e outs acc).val k = acc.val k := by
  induction outs generalizing acc with
  | nil => rfl
  | cons o os ih =>
    simp only [List.map_cons, List.mem_cons, not_or] at hk
    simp only [writeOuts, List.foldl_cons]
    have := ih (match o.eval e with | some v => acc.put o.name v | none => acc) hk.2
    simp only [writeOuts] at this
    rw [this]
    cases o.eval e with
    | none => rfl
    | some v => simp [Env.val_put, hk.1]

theorem writeOuts_val (e : Env) (outs : List LinOut) (acc : Env)
    (hnd : (outs.map (·.name)).Nodup) (o : LinOut) (ho : o ∈ outs) (v : Rat)
    (hv : o.eval e = some v) : (writeOuts e outs acc).val o.name = some v := by
  induction outs generalizing acc with
  | nil => simp at ho
  | cons o' os ih =>
    simp only [List.map_cons, List.nodup_cons] at hnd
    simp only [writeOuts, List.foldl_cons]
    rcases List.mem_cons.1 ho with rfl | ho
    · have := writeOuts_frame e os (match o.eval e with | some v => acc.put o.name v | none => acc)
        o.name hnd.1
      simp only [writeOuts] at this
      rw [this, hv]
      simp [Env.val_put]
    · have := ih (match o'.eval e with | some v => acc.put o'.name v | none => acc) hnd.2 ho
      simpa only [writeOuts] using this

/-- The affine discipline of the model as a block of a chain. -/
def linBlock (d : LinDisc) (hd : d.WF) : BlockSpec where
  ext := d.reads
  writes := d.writes
  run := d.run
  Pre := fun e => ∀ k ∈ d.reads, (e.val k).isSome
  Sat := fun e => ∀ o ∈ d.outs, ∃ v, o.eval e = some v ∧ e.val o.name = some v
  frame := by
    intro e k hk
    rw [run_eq_writeOuts]
    exact writeOuts_frame e d.outs e k hk
  sat_run := by
    intro e hpre o ho
    have hreads : ∀ k ∈ o.reads, k ∈ d.reads := fun k hk =>
      List.mem_flatMap.2 ⟨o, ho, hk⟩
    obtain ⟨v, hv⟩ := Option.isSome_iff_exists.1
      (o.eval_isSome e (fun k hk => hpre k (hreads k hk)))
    refine ⟨v, ?_, ?_⟩
    · rw [← hv]
      apply LinOut.eval_congr
      intro k hk
      rw [run_eq_writeOuts]
      exact writeOuts_frame e d.outs e k (hd.not_self k (hreads k hk))
    · rw [run_eq_writeOuts]
      exact writeOuts_val e d.outs e hd.nodup o ho v hv
  sat_congr := by
    intro e e' hag hsat o ho
    obtain ⟨v, hv, hval⟩ := hsat o ho
    have hreads : ∀ k ∈ o.reads, k ∈ d.reads := fun k hk =>
      List.mem_flatMap.2 ⟨o, ho, hk⟩
    refine ⟨v, ?_, ?_⟩
    · rw [← hv]
      apply LinOut.eval_congr
      intro k hk
      exact (hag k (List.mem_append_left _ (hreads k hk))).symm
    · rw [← hval]
      exact (hag o.name (List.mem_append_right _ (List.mem_map.2 ⟨o, ho, rfl⟩))).symm
  sat_det := by
    intro e e' hsat hsat' hag k hk
    obtain ⟨o, ho, rfl⟩ := List.mem_map.1 hk
    obtain ⟨v, hv, hval⟩ := hsat o ho
    obtain ⟨v', hv', hval'⟩ := hsat' o ho
    have hreads : ∀ k ∈ o.reads, k ∈ d.reads := fun k hk =>
      List.mem_flatMap.2 ⟨o, ho, hk⟩
    have : o.eval e = o.eval e' := LinOut.eval_congr o e e' (fun k hk => hag k (hreads k hk))
    rw [hval, hval', ← hv, ← hv', this]

/-! ### Definedness along a chain of affine disciplines -/

theorem writeOuts_isSome_mono (e : Env) (outs : List LinOut) (acc : Env) (k : String)
    (h : (acc.val k).isSome) : ((writeOuts e outs acc).val k).isSome := by
  induction outs generalizing acc with
  | nil => exact h
  | cons o os ih =>
    simp only [writeOuts, List.foldl_cons]
    have := ih (match o.eval e with | some v => acc.put o.name v | none => acc) (by
      cases o.eval e with
      | none => exact h
      | some v =>
        simp only [Env.val_put]
        split
        · rfl
        · exact h)
    simpa only [writeOuts] using this

theorem run_isSome_mono (d : LinDisc) (e : Env) (k : String) (h : (e.val k).isSome) :
    ((d.run e).val k).isSome := by
  rw [run_eq_writeOuts]; exact writeOuts_isSome_mono e d.outs e k h

theorem run_writes_isSome (d : LinDisc) (hd : d.WF) (e : Env)
    (hpre : ∀ k ∈ d.reads, (e.val k).isSome) (k : String) (hk : k ∈ d.writes) :
    ((d.run e).val k).isSome := by
  obtain ⟨o, ho, rfl⟩ := List.mem_map.1 hk
  obtain ⟨v, _, hval⟩ := (linBlock d hd).sat_run e hpre o ho
  have : (d.run e).val o.name = some v := hval
  rw [this]; rfl

/-- A list of well-formed affine disciplines. -/
abbrev WFLin := {d : LinDisc // d.WF}

def linBlocks (lds : List WFLin) : List BlockSpec := lds.map (fun d => linBlock d.1 d.2)

theorem linBlocks_run (lds : List WFLin) :
    (linBlocks lds).map (·.run) = lds.map (fun d => d.1.run) := by
  simp [linBlocks, linBlock]

/-- Every name read by a discipline of the chain is present in the input data or written by an
    earlier discipline. -/
def InputsAvailable (lds : List WFLin) (e : Env) : Prop :=
  ∀ pre d post, lds = pre ++ d :: post →
    ∀ k ∈ d.1.reads, (e.val k).isSome ∨ ∃ d' ∈ pre, k ∈ d'.1.writes

theorem chain_defined (lds : List WFLin) (e : Env) (hav : InputsAvailable lds e) :
    ∀ pre post, lds = pre ++ post → ∀ k,
      ((e.val k).isSome ∨ ∃ d' ∈ pre, k ∈ d'.1.writes) →
      ((chainEval (pre.map (fun d => d.1.run)) e).val k).isSome := by
  intro pre
  induction pre using List.reverseRecOn with
  | nil =>
    intro post _ k hk
    rcases hk with hk | ⟨d', hd', _⟩
    · simpa [chainEval_nil] using hk
    · simp at hd'
  | append_singleton pre b ih =>
    intro post hsplit k hk
    have hsplit' : lds = pre ++ b :: post := by rw [hsplit]; simp
    rw [List.map_append, chainEval_append]
    simp only [List.map_cons, List.map_nil, chainEval_cons, chainEval_nil]
    have hpreb : ∀ r ∈ b.1.reads, ((chainEval (pre.map (fun d => d.1.run)) e).val r).isSome :=
      fun r hr => ih (b :: post) hsplit' r (hav pre b post hsplit' r hr)
    by_cases hkb : k ∈ b.1.writes
    · exact run_writes_isSome b.1 b.2 _ hpreb k hkb
    · apply run_isSome_mono
      apply ih (b :: post) hsplit' k
      rcases hk with hk | ⟨d', hd', hkd'⟩
      · exact Or.inl hk
      · rcases List.mem_append.1 hd' with hd' | hd'
        · exact Or.inr ⟨d', hd', hkd'⟩
        · simp only [List.mem_singleton] at hd'
          subst hd'
          exact absurd hkd' hkb

theorem linBlocks_pre (lds : List WFLin) (e : Env) (hav : InputsAvailable lds e) :
    ∀ pre b post, linBlocks lds = pre ++ b :: post →
      b.Pre (chainEval (pre.map (·.run)) e) := by
  intro pre b post hsplit
  -- split the list of disciplines at the same position
  unfold linBlocks at hsplit
  obtain ⟨pre', rest, hlds, hp, hr⟩ := List.map_eq_append_iff.1 hsplit
  obtain ⟨d, post', hrest, hd, _⟩ := List.map_eq_cons_iff.1 hr
  subst hp hd hrest
  have hrun : (pre'.map (fun d => linBlock d.1 d.2)).map (·.run) = pre'.map (fun d => d.1.run) := by
    simp [linBlock]
  rw [hrun]
  intro k hk
  exact chain_defined lds e hav pre' _ hlds k (hav _ _ _ hlds k hk)

end GV.C08
