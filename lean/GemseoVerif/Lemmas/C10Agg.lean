/-
C10 — sum-of-squares aggregation and second-order Taylor polynomial: the values and Jacobians
of the model are exact (any nontrivially normed field).
-/
import GemseoVerif.Lemmas.C10Calculus

namespace GV.C10

variable {𝕜 : Type} [NontriviallyNormedField 𝕜]

/-- `aggregate_sum_square` (total Jacobian `sum((2 scale g) * g'.T, axis=1)`): exact derivative
    of `sum_k scale_k g_k^2` over the selected components. -/
theorem aggSumSq_den {n M : ℕ} {x : ℕ → 𝕜} {d : DV 𝕜} {F : (ℕ → 𝕜) → ℕ → 𝕜}
    (h : Den n x d F M) (idx : Option (List ℕ)) (scale : List 𝕜)
    (hsel : ∀ k, k < selLen idx M → selIdx idx k < M) :
    Den n x (aggSumSq d idx scale)
      (fun y _ => sumTo (selLen idx M)
        (fun k => vec scale (bi scale.length k) * (F y (selIdx idx k) * F y (selIdx idx k)))) 1 := by
  refine ⟨rfl, fun i _ => ⟨?_, fun v => ?_⟩⟩
  · simp only [aggSumSq, h.dim]
    exact sumTo_congr (fun k hk => by rw [h.val_eq (hsel k hk)])
  · have hd := hasDerivAt_sumTo (selLen idx M)
      (fun k t => vec scale (bi scale.length k) * (F (x + t • v) (selIdx idx k) * F (x + t • v) (selIdx idx k)))
      (fun k => vec scale (bi scale.length k) *
        (rowDot n (d.jac (selIdx idx k)) v * F x (selIdx idx k)
          + F x (selIdx idx k) * rowDot n (d.jac (selIdx idx k)) v)) 0
      (fun k hk => by
        have hk' := h.deriv (hsel k hk) v
        refine ((HasDerivAt.fun_mul hk' hk').const_mul _).congr_deriv ?_
        simp only [zero_smul, add_zero])
    refine hd.congr_deriv ?_
    simp only [aggSumSq, rowDot, h.dim]
    have e : (fun j => sumTo (selLen idx M) (fun k =>
          (1 + 1) * vec scale (bi scale.length k) * d.val (selIdx idx k) * d.jac (selIdx idx k) j) * v j)
        = fun j => sumTo (selLen idx M) (fun k =>
          (1 + 1) * vec scale (bi scale.length k) * d.val (selIdx idx k) * (d.jac (selIdx idx k) j * v j)) := by
      funext j
      rw [← sumTo_mul_right]
      exact sumTo_congr (fun k _ => by ring)
    rw [e, sumTo_comm]
    refine sumTo_congr (fun k hk => ?_)
    rw [sumTo_mul_left, ← h.val_eq (hsel k hk)]
    ring

/-! ### Second-order Taylor polynomial -/

theorem dsum_expand (n : ℕ) (H : ℕ → ℕ → 𝕜) (y a : ℕ → 𝕜) :
    sumTo n (fun i => sumTo n (fun j => H i j * (y i - a i) * (y j - a j)))
      = sumTo n (fun i => sumTo n (fun j => H i j * y i * y j))
        - sumTo n (fun i => sumTo n (fun j => H i j * y i * a j))
        - sumTo n (fun i => sumTo n (fun j => H i j * a i * y j))
        + sumTo n (fun i => sumTo n (fun j => H i j * a i * a j)) := by
  have e : (fun i => sumTo n (fun j => H i j * (y i - a i) * (y j - a j)))
      = fun i => sumTo n (fun j => H i j * y i * y j) - sumTo n (fun j => H i j * y i * a j)
          - sumTo n (fun j => H i j * a i * y j) + sumTo n (fun j => H i j * a i * a j) := by
    funext i
    rw [← sumTo_sub, ← sumTo_sub, ← sumTo_add]
    exact sumTo_congr (fun j _ => by ring)
  rw [e, sumTo_add, sumTo_sub, sumTo_sub]

/-- `compute_quadratic_approximation` for a symmetric Hessian approximation `H`:
    the quadratic function it builds is `f(x̂) + f'(x̂).(x - x̂) + (x - x̂)' H (x - x̂) / 2`,
    and its gradient (`(Q + Q') x + b`) is the exact derivative of it. -/
theorem taylor2_den {n : ℕ} {xh : ℕ → 𝕜} {d : DV 𝕜} {F : (ℕ → 𝕜) → ℕ → 𝕜}
    (h : Den n xh d F 1) (H : ℕ → ℕ → 𝕜) (hsym : ∀ i j, i < n → j < n → H i j = H j i)
    (h2 : (1 + 1 : 𝕜) ≠ 0) (x : ℕ → 𝕜) :
    Den n x ((taylor2 n d xh H).eval x)
      (fun y _ => F xh 0
        + sumTo n (fun j => deriv (fun t : 𝕜 => F (xh + t • basisVec j) 0) 0 * (y j - xh j))
        + half * sumTo n (fun i => sumTo n (fun j => H i j * (y i - xh i) * (y j - xh j)))) 1 := by
  have hq := QuadF.den (taylor2 n d xh H) x
  refine hq.congr (fun y i _ => ?_)
  have h0 : (0 : ℕ) < 1 := Nat.one_pos
  have hderiv : sumTo n (fun j => deriv (fun t : 𝕜 => F (xh + t • basisVec j) 0) 0 * (y j - xh j))
      = sumTo n (fun j => d.jac 0 j * y j) - sumTo n (fun j => d.jac 0 j * xh j) := by
    rw [← sumTo_sub]
    refine sumTo_congr (fun j hj => ?_)
    rw [(h.partial h0 hj).deriv]; ring
  have hsymm : sumTo n (fun i => sumTo n (fun j => H i j * xh i * y j))
      = sumTo n (fun i => sumTo n (fun j => H i j * y i * xh j)) := by
    rw [sumTo_comm]
    refine sumTo_congr (fun i hi => sumTo_congr (fun j hj => ?_))
    rw [hsym j i hj hi]; ring
  have hhalf : (half : 𝕜) * (1 + 1) = 1 := by
    unfold half; field_simp
  simp only [QuadF.fn, taylor2, matVec]
  rw [hderiv, dsum_expand, hsymm, ← h.val_eq h0]
  -- the three sums built by the code
  have e1 : sumTo n (fun i => y i * sumTo n (fun j => half * H i j * y j))
      = half * sumTo n (fun i => sumTo n (fun j => H i j * y i * y j)) := by
    rw [← sumTo_mul_left]
    refine sumTo_congr (fun i _ => ?_)
    rw [← sumTo_mul_left, ← sumTo_mul_left]
    exact sumTo_congr (fun j _ => by ring)
  have e2 : sumTo n (fun j => (d.jac 0 j - sumTo n (fun k => H j k * xh k)) * y j)
      = sumTo n (fun j => d.jac 0 j * y j)
        - sumTo n (fun i => sumTo n (fun j => H i j * y i * xh j)) := by
    rw [← sumTo_sub]
    refine sumTo_congr (fun j _ => ?_)
    rw [sub_mul, ← sumTo_mul_right]
    congr 1
    exact sumTo_congr (fun k _ => by ring)
  have e3 : sumTo n (fun i => (half * sumTo n (fun k => H i k * xh k) - d.jac 0 i) * xh i)
      = half * sumTo n (fun i => sumTo n (fun j => H i j * xh i * xh j))
        - sumTo n (fun j => d.jac 0 j * xh j) := by
    rw [← sumTo_mul_left, ← sumTo_sub]
    refine sumTo_congr (fun i _ => ?_)
    rw [sub_mul, ← sumTo_mul_left, ← sumTo_mul_left, ← sumTo_mul_right]
    congr 1
    exact sumTo_congr (fun k _ => by ring)
  rw [e1, e2, e3]
  have key : half * (sumTo n (fun i => sumTo n (fun j => H i j * y i * y j))
        - sumTo n (fun i => sumTo n (fun j => H i j * y i * xh j))
        - sumTo n (fun i => sumTo n (fun j => H i j * y i * xh j))
        + sumTo n (fun i => sumTo n (fun j => H i j * xh i * xh j)))
      = half * sumTo n (fun i => sumTo n (fun j => H i j * y i * y j))
        - sumTo n (fun i => sumTo n (fun j => H i j * y i * xh j))
        + half * sumTo n (fun i => sumTo n (fun j => H i j * xh i * xh j)) := by
    have : ∀ a b c : 𝕜, half * (a - b - b + c) = half * a - (half * (1 + 1)) * b + half * c := by
      intro a b c; ring
    rw [this, hhalf, one_mul]
  rw [key]
  ring

end GV.C10
