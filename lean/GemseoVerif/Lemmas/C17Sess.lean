/-
C17 — lemmas for the function objects of several formulations alive in one process (`lazyCall`, `lazyRun` of
`Model/C17.lean`): the mask every object keeps is its own, whatever the other objects did before.
-/
import GemseoVerif.Lemmas.C17Buf

namespace GV.C17

/-- Every mask kept so far is the mask of the object that keeps it. -/
def MemoOk (objs : Nat → FObj) (memo : MaskMemo) : Prop :=
  ∀ i idx, memo i = some idx → (objs i).mask = some idx

theorem MemoOk.empty (objs : Nat → FObj) : MemoOk objs (fun _ => none) := by
  intro i idx h
  cases h

/-- One call returns the value of the object used alone and keeps the invariant. -/
theorem lazyCall_spec (objs : Nat → FObj) (memo : MaskMemo) (h : MemoOk objs memo) (i : Nat) (x : Vec) :
    (lazyCall objs memo i x).2 = (objs i).pure x ∧ MemoOk objs (lazyCall objs memo i x).1 := by
  unfold lazyCall
  cases hm : memo i with
  | some idx =>
    have := h i idx hm
    simp [FObj.pure, this, h]
  | none =>
    cases hk : (objs i).mask with
    | none => simp [FObj.pure, hk, h]
    | some idx =>
      refine ⟨by simp [FObj.pure, hk], ?_⟩
      intro k idx' hk'
      by_cases hki : k = i
      · subst hki
        simp at hk'
        rw [hk, hk']
      · simp [hki] at hk'
        exact h k idx' hk'

theorem lazyRun_eq (objs : Nat → FObj) (memo : MaskMemo) (h : MemoOk objs memo) (hist : List (Nat × Vec)) :
    lazyRun objs memo hist = hist.map (fun p => (objs p.1).pure p.2) := by
  induction hist generalizing memo with
  | nil => rfl
  | cons p rest ih =>
    obtain ⟨i, x⟩ := p
    have hs := lazyCall_spec objs memo h i x
    simp only [lazyRun, List.map_cons]
    rw [hs.1, ih _ hs.2]

/-- The memory-less value of the function object of `gEval` is `gEval`. -/
theorem FObj.pure_ofDisc (sizes : Sizes) (names : List String) (hasInput : String → Bool)
    (run : Data → String → Vec) (outs : List String) (x : Vec) :
    (FObj.ofDisc sizes names hasInput run outs).pure x = gEval sizes names hasInput run outs x := by
  simp only [FObj.pure, FObj.ofDisc, FObj.mask, FObj.applyMask, gEval, maskX]
  cases h1 : getMask sizes (names.filter hasInput) names with
  | none => rfl
  | some idx =>
    cases h2 : takeIdx x idx <;> simp [h2]

end GV.C17
