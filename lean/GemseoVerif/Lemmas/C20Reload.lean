/-
C20 — lemmas about the process model of `Model/C20.lean` (`Proc`): the save/load helpers used more than once.
Key fact: `__setstate__` run in a process whose shared memory is `h` is `__setstate__` run in an empty
shared memory, with every cell index shifted by `h.length` — what a load returns is a function of the file.
-/
import GemseoVerif.Lemmas.C20

namespace GV.C20

/-- Cell references moved by `n` cells. -/
def shiftVal (n : Nat) : Val → Val
  | .sync c => .sync (c + n)
  | v => v

def shiftObj (n : Nat) (o : Obj) : Obj := o.map (fun kv => (kv.1, shiftVal n kv.2))

theorem get_shiftObj (n : Nat) (o : Obj) (a : String) :
    get (shiftObj n o) a = (get o a).map (shiftVal n) := by
  induction o with
  | nil => rfl
  | cons kv r ih =>
    obtain ⟨k, v⟩ := kv
    by_cases hk : k = a
    · simp [shiftObj, get, hk]
    · simpa [shiftObj, get, hk] using ih

theorem set_shiftObj (n : Nat) (o : Obj) (a : String) (v : Val) :
    set (shiftObj n o) a (shiftVal n v) = shiftObj n (set o a v) := by
  induction o with
  | nil => rfl
  | cons kv r ih =>
    obtain ⟨k, w⟩ := kv
    by_cases hk : k = a
    · simp [shiftObj, set, hk]
    · simpa [shiftObj, set, hk] using ih

theorem shiftVal_fromS (n : Nat) (x : SVal) : shiftVal n (fromS x) = fromS x := by
  cases x <;> rfl

theorem toS_shift (h hp : Heap) (v : Val) : toS (h ++ hp) (shiftVal h.length v) = toS hp v := by
  cases v with
  | sync c =>
    simp only [shiftVal, toS]
    congr 1
    simp [List.getD_eq_getElem?_getD, List.getElem?_append_right]
  | _ => rfl

theorem runInit_shift (h : Heap) (o : Obj) (hp : Heap) (ki : String × Init) :
    runInit (shiftObj h.length o, h ++ hp) ki
      = (shiftObj h.length (runInit (o, hp) ki).1, h ++ (runInit (o, hp) ki).2) := by
  obtain ⟨k, i⟩ := ki
  cases i with
  | mkSync v =>
    simp only [runInit]
    rw [← set_shiftObj]
    simp [shiftVal, List.length_append, Nat.add_comm, List.append_assoc]
  | mkPlain v => simp only [runInit]; rw [← set_shiftObj]; rfl
  | mkPath p => simp only [runInit]; rw [← set_shiftObj]; rfl
  | mkLock => simp only [runInit]; rw [← set_shiftObj]; rfl

theorem runHook_shift (h : Heap) (hook : List (String × Init)) (o : Obj) (hp : Heap) :
    runHook hook (shiftObj h.length o, h ++ hp)
      = (shiftObj h.length (runHook hook (o, hp)).1, h ++ (runHook hook (o, hp)).2) := by
  induction hook generalizing o hp with
  | nil => rfl
  | cons ki r ih =>
    rw [runHook_cons, runHook_cons, runInit_shift]
    exact ih _ _

theorem stepItem_shift (h : Heap) (o : Obj) (hp : Heap) (kv : String × SVal) :
    stepItem (shiftObj h.length o, h ++ hp) kv
      = (shiftObj h.length (stepItem (o, hp) kv).1, h ++ (stepItem (o, hp) kv).2) := by
  obtain ⟨k, x⟩ := kv
  unfold stepItem
  simp only [get_shiftObj]
  cases hg : get o k with
  | none =>
    simp only [Option.map]
    rw [← set_shiftObj, shiftVal_fromS]
  | some w =>
    cases w with
    | sync c =>
      cases x with
      | num v =>
        simp only [Option.map, shiftVal]
        congr 1
        rw [List.set_append_right _ _ (by omega)]
        simp
      | ppath p => simp [Option.map, shiftVal]
      | unpicklable => simp [Option.map, shiftVal]
    | plain v => simp [Option.map, shiftVal]
    | path p => simp [Option.map, shiftVal]
    | lock => simp [Option.map, shiftVal]

theorem foldl_stepItem_shift (h : Heap) (st : PState) (o : Obj) (hp : Heap) :
    st.foldl stepItem (shiftObj h.length o, h ++ hp)
      = (shiftObj h.length (st.foldl stepItem (o, hp)).1, h ++ (st.foldl stepItem (o, hp)).2) := by
  induction st generalizing o hp with
  | nil => rfl
  | cons kv r ih =>
    simp only [List.foldl_cons]
    rw [stepItem_shift]
    exact ih _ _

/-- `__setstate__` in a process whose shared memory is `h` = `__setstate__` in an empty shared memory, shifted. -/
theorem setstate_shift (s : Spec) (st : PState) (h : Heap) :
    setstate s st h = (shiftObj h.length (setstate s st []).1, h ++ (setstate s st []).2) := by
  unfold setstate
  have h0 : (([] : Obj), h) = (shiftObj h.length [], h ++ []) := by simp [shiftObj]
  rw [h0, runHook_shift, foldl_stepItem_shift, runHook_shift, runHook_shift]

theorem observe_shift (h hp : Heap) (o : Obj) : observe (shiftObj h.length o) (h ++ hp) = observe o hp := by
  unfold observe shiftObj
  rw [List.map_map]
  apply List.map_congr_left
  intro kv _
  simp [toS_shift]

/-! ### Processes -/

/-- What an object answers when an attribute is read (`Value.value` for a shared-memory cell). -/
def look (o : Obj) (h : Heap) (a : String) : Option SVal := (get o a).map (toS h)

theorem look_shift (h hp : Heap) (o : Obj) (a : String) :
    look (shiftObj h.length o) (h ++ hp) a = look o hp a := by
  unfold look
  rw [get_shiftObj]
  cases get o a with
  | none => rfl
  | some v => simp [toS_shift]

theorem setstate_inv (s : Spec) (st : PState) (h : Heap) : Inv h (setstate s st h) := by
  unfold setstate
  exact ((((Inv.init h).of_runHook s.before).of_foldl _).of_runHook s.after).of_runHook s.post

/-- The object an operation mutates. -/
def POp.target : POp → Option Nat
  | .assign i _ _ => some i
  | .bump i _ => some i
  | _ => none

/-- Every cell an object refers to exists; two objects of the process never refer to the same cell. -/
structure Proc.WF (P : Proc) : Prop where
  bound : ∀ (i : Nat) (o : Obj), P.objs[i]? = some o →
    ∀ (k : String) (c : Nat), get o k = some (Val.sync c) → c < P.heap.length
  disj : ∀ (i j : Nat) (oi oj : Obj), i ≠ j → P.objs[i]? = some oi → P.objs[j]? = some oj →
    ∀ (k1 k2 : String) (c : Nat), get oi k1 = some (Val.sync c) → get oj k2 = some (Val.sync c) → False

theorem getElem?_append_singleton {α : Type} (l : List α) (x y : α) (i : Nat)
    (h : (l ++ [x])[i]? = some y) : l[i]? = some y ∨ (i = l.length ∧ y = x) := by
  by_cases hi : i < l.length
  · left; rwa [List.getElem?_append_left hi] at h
  · right
    have hle : l.length ≤ i := Nat.le_of_not_lt hi
    rw [List.getElem?_append_right hle] at h
    by_cases h0 : i - l.length = 0
    · rw [h0] at h
      simp at h
      exact ⟨by omega, h.symm⟩
    · have : ([x] : List α)[i - l.length]? = none := by
        apply List.getElem?_eq_none; simp; omega
      rw [this] at h; cases h

theorem getElem?_set_cases {α : Type} (l : List α) (i j : Nat) (x y : α)
    (h : (l.set i x)[j]? = some y) : (j = i ∧ y = x) ∨ (j ≠ i ∧ l[j]? = some y) := by
  by_cases hij : i = j
  · subst hij
    left
    rw [List.getElem?_set_self'] at h
    cases hl : l[i]? with
    | none => simp [hl] at h
    | some z => simp [hl] at h; exact ⟨rfl, h.symm⟩
  · right
    rw [List.getElem?_set_ne hij] at h
    exact ⟨fun e => hij e.symm, h⟩

theorem lt_length_of_getElem? {α : Type} {l : List α} {i : Nat} {x : α} (h : l[i]? = some x) : i < l.length := by
  rcases Nat.lt_or_ge i l.length with hlt | hge
  · exact hlt
  · rw [List.getElem?_eq_none hge] at h
    cases h

/-- Replacing an object by one that refers to no new cell, in a shared memory of the same size. -/
theorem Proc.WF.of_update {P : Proc} (hwf : P.WF) (i : Nat) (o o' : Obj) (h' : Heap)
    (hi : P.objs[i]? = some o) (hlen : h'.length = P.heap.length)
    (hsub : ∀ k c, get o' k = some (.sync c) → ∃ k', get o k' = some (.sync c)) :
    Proc.WF { P with heap := h', objs := P.objs.set i o' } := by
  constructor
  · intro j oj hj k c hk
    show c < h'.length
    rw [hlen]
    rcases getElem?_set_cases _ _ _ _ _ hj with ⟨_, rfl⟩ | ⟨_, hj'⟩
    · obtain ⟨k', hk'⟩ := hsub k c hk
      exact hwf.bound i o hi k' c hk'
    · exact hwf.bound j oj hj' k c hk
  · intro a b oa ob hab ha hb k1 k2 c h1 h2
    rcases getElem?_set_cases _ _ _ _ _ ha with ⟨rfl, rfl⟩ | ⟨hai, ha'⟩
    · rcases getElem?_set_cases _ _ _ _ _ hb with ⟨rfl, _⟩ | ⟨_, hb'⟩
      · exact hab rfl
      · obtain ⟨k', hk'⟩ := hsub k1 c h1
        exact hwf.disj a b o ob hab hi hb' k' k2 c hk' h2
    · rcases getElem?_set_cases _ _ _ _ _ hb with ⟨rfl, rfl⟩ | ⟨_, hb'⟩
      · obtain ⟨k', hk'⟩ := hsub k2 c h2
        exact hwf.disj a b oa o hab ha' hi k1 k' c h1 hk'
      · exact hwf.disj a b oa ob hab ha' hb' k1 k2 c h1 h2

theorem sync_of_set_plain (o : Obj) (a : String) (v : Rat) (k : String) (c : Nat)
    (h : get (set o a (.plain v)) k = some (.sync c)) : ∃ k', get o k' = some (.sync c) := by
  rw [get_set] at h
  by_cases hk : a = k
  · simp [hk] at h
  · simp [hk] at h; exact ⟨k, h⟩

theorem bumpObj_sync (o : Obj) (h : Heap) (a : String) (k : String) (c : Nat)
    (hk : get (bumpObj o h a).1 k = some (.sync c)) : ∃ k', get o k' = some (.sync c) := by
  unfold bumpObj at hk
  split at hk
  · exact ⟨k, hk⟩
  · exact sync_of_set_plain _ _ _ _ _ hk
  · exact ⟨k, hk⟩

theorem bumpObj_length (o : Obj) (h : Heap) (a : String) : (bumpObj o h a).2.length = h.length := by
  unfold bumpObj
  split <;> simp

/-- The invariant is kept by every operation. -/
theorem Proc.WF.step {P : Proc} (hwf : P.WF) (s : Spec) (op : POp) : (P.step s op).WF := by
  cases op with
  | save i p =>
    simp only [Proc.step]
    split
    · exact hwf
    · split
      · exact ⟨hwf.bound, hwf.disj⟩
      · exact hwf
  | load p =>
    simp only [Proc.step]
    split
    · exact hwf
    · rename_i st _
      have hinv := setstate_inv s st P.heap
      simp only [fromPickle]
      constructor
      · intro i o hi k c hk
        rcases getElem?_append_singleton _ _ _ _ hi with hold | ⟨_, rfl⟩
        · exact Nat.lt_of_lt_of_le (hwf.bound i o hold k c hk) hinv.le
        · exact (hinv.fresh k c hk).2
      · intro i j oi oj hij hi hj k1 k2 c h1 h2
        rcases getElem?_append_singleton _ _ _ _ hi with hio | ⟨hil, rfl⟩
        · rcases getElem?_append_singleton _ _ _ _ hj with hjo | ⟨_, rfl⟩
          · exact hwf.disj i j oi oj hij hio hjo k1 k2 c h1 h2
          · have := hwf.bound i oi hio k1 c h1
            have := (hinv.fresh k2 c h2).1
            omega
        · rcases getElem?_append_singleton _ _ _ _ hj with hjo | ⟨hjl, _⟩
          · have := hwf.bound j oj hjo k2 c h2
            have := (hinv.fresh k1 c h1).1
            omega
          · omega
  | assign i a v =>
    simp only [Proc.step]
    split
    · exact hwf
    · rename_i o ho
      exact hwf.of_update i o _ P.heap ho rfl (sync_of_set_plain o a v)
  | bump i a =>
    simp only [Proc.step]
    split
    · exact hwf
    · rename_i o ho
      exact hwf.of_update i o _ _ ho (bumpObj_length o P.heap a) (bumpObj_sync o P.heap a)

theorem Proc.WF.run {P : Proc} (hwf : P.WF) (s : Spec) (ops : List POp) : (P.run s ops).WF := by
  induction ops generalizing P with
  | nil => exact hwf
  | cons op r ih => exact ih (hwf.step s op)

/-! ### The files are written by `to_pickle` only -/

theorem files_step (s : Spec) (P : Proc) (op : POp) (p : String) (hop : ∀ i, op ≠ .save i p) :
    get (P.step s op).files p = get P.files p := by
  cases op with
  | save i q =>
    have hq : q ≠ p := fun e => hop i (by rw [e])
    simp only [Proc.step]
    split
    · rfl
    · split
      · simp [get_set, hq]
      · rfl
  | load q => simp only [Proc.step]; split <;> rfl
  | assign i a v => simp only [Proc.step]; split <;> rfl
  | bump i a => simp only [Proc.step]; split <;> rfl

theorem files_run (s : Spec) (P : Proc) (ops : List POp) (p : String)
    (hops : ∀ op ∈ ops, ∀ i, op ≠ .save i p) : get (P.run s ops).files p = get P.files p := by
  induction ops generalizing P with
  | nil => rfl
  | cons op r ih =>
    show get ((P.step s op).run s r).files p = _
    rw [ih _ (fun o ho => hops o (List.mem_cons_of_mem _ ho)), files_step s P op p (hops op List.mem_cons_self)]

theorem step_load (s : Spec) (P : Proc) (p : String) (st : PState) (hf : get P.files p = some st) :
    P.step s (.load p) = { P with heap := (setstate s st P.heap).2, objs := P.objs ++ [(setstate s st P.heap).1] } := by
  simp [Proc.step, hf, fromPickle]

/-! ### What is done to one object is not seen through another one -/

theorem getD_of_take {h h' : Heap} (ht : h'.take h.length = h) (c : Nat) (hc : c < h.length) :
    h'.getD c 0 = h.getD c 0 := by
  have e : h.getD c 0 = (h'.take h.length).getD c 0 := by rw [ht]
  rw [e]
  simp [List.getD_eq_getElem?_getD, hc]

theorem look_congr (o : Obj) (h h' : Heap) (a : String)
    (hc : ∀ k c, get o k = some (.sync c) → h'.getD c 0 = h.getD c 0) : look o h' a = look o h a := by
  unfold look
  cases hg : get o a with
  | none => rfl
  | some v =>
    cases v with
    | sync c => simp only [Option.map, toS]; rw [hc a c hg]
    | _ => rfl

theorem step_keeps_other_objects (s : Spec) (P : Proc) (hwf : P.WF) (op : POp) (j : Nat) (oj : Obj)
    (hj : P.objs[j]? = some oj) (hne : op.target ≠ some j) :
    (P.step s op).objs[j]? = some oj ∧ ∀ a, look oj (P.step s op).heap a = look oj P.heap a := by
  cases op with
  | save i p =>
    simp only [Proc.step]
    split
    · exact ⟨hj, fun _ => rfl⟩
    · split
      · exact ⟨hj, fun _ => rfl⟩
      · exact ⟨hj, fun _ => rfl⟩
  | load p =>
    simp only [Proc.step]
    split
    · exact ⟨hj, fun _ => rfl⟩
    · rename_i st _
      have hinv := setstate_inv s st P.heap
      simp only [fromPickle]
      refine ⟨?_, fun a => look_congr oj _ _ a (fun k c hk => getD_of_take hinv.pre c (hwf.bound j oj hj k c hk))⟩
      rw [List.getElem?_append_left (lt_length_of_getElem? hj)]; exact hj
  | assign i a v =>
    have hij : i ≠ j := fun e => hne (by simp [POp.target, e])
    simp only [Proc.step]
    split
    · exact ⟨hj, fun _ => rfl⟩
    · exact ⟨by rw [List.getElem?_set_ne hij]; exact hj, fun _ => rfl⟩
  | bump i a =>
    have hij : i ≠ j := fun e => hne (by simp [POp.target, e])
    simp only [Proc.step]
    split
    · exact ⟨hj, fun _ => rfl⟩
    · rename_i o ho
      refine ⟨by rw [List.getElem?_set_ne hij]; exact hj, fun b => look_congr oj _ _ b ?_⟩
      intro k c hk
      unfold bumpObj
      split
      · rename_i c' hc'
        have hcc : c' ≠ c := fun e => hwf.disj i j o oj hij ho hj a k c (by rw [← e]; exact hc') hk
        simp [List.getD_eq_getElem?_getD, List.getElem?_set_ne hcc]
      · rfl
      · rfl

theorem run_keeps_other_objects (s : Spec) (P : Proc) (hwf : P.WF) (ops : List POp) (j : Nat) (oj : Obj)
    (hj : P.objs[j]? = some oj) (hne : ∀ op ∈ ops, op.target ≠ some j) :
    (P.run s ops).objs[j]? = some oj ∧ ∀ a, look oj (P.run s ops).heap a = look oj P.heap a := by
  induction ops generalizing P with
  | nil => exact ⟨hj, fun _ => rfl⟩
  | cons op r ih =>
    have h1 := step_keeps_other_objects s P hwf op j oj hj (hne op List.mem_cons_self)
    have h2 := ih (P.step s op) (hwf.step s op) h1.1 (fun o ho => hne o (List.mem_cons_of_mem _ ho))
    exact ⟨h2.1, fun a => (h2.2 a).trans (h1.2 a)⟩

end GV.C20
