/-
C18 — (1) one model object trained several times: whatever the history of trainings and queries, the
state that answers a query is the one left by the trainings (core parameters of the last training,
transformers of the last training that refitted them), queries change nothing, and — when the payload of
every training is dimensionally consistent with the transformers in force — `predict_jacobian` of the
state reached is the derivative of `predict` of the state reached.
(2) surrogate discipline created with explicit name lists: the outputs in the order of the output
grammar are the windows of the model's prediction *at the model's offsets* of the requested variables.
-/
import GemseoVerif.Lemmas.C18Poly

namespace GV.C18

/-! ## Training sessions -/

/-- The parameters of the core model fit `k` transformed inputs. -/
def CoreWF (k : ℕ) : Core ℝ → Prop
  | Core.lin _ _ => True
  | Core.poly P pw _ _ => TableOK P k pw

/-- Every well-formed core model has an exact Jacobian: the one `_predict_jacobian` builds from the
    parameters in force. -/
theorem core_hasJac (k m : ℕ) (c : Core ℝ) (h : CoreWF k c) :
    HasJac k m (c.predict k) (c.jac k) := by
  cases c with
  | lin W b => exact linreg_jac k m W b
  | poly P pw coef b => exact polyreg_jac P k m pw h coef b

/-- A trained state whose transformers chain from `d` inputs / `dout` outputs and whose core
    parameters fit the transformed input dimension. -/
structure SessWF (d dout : ℕ) (s : Sess ℝ) : Prop where
  hin : PipeWF s.tin d
  hout : PipeWF s.tout dout
  hcore : CoreWF (pipeOutDim s.tin d) s.core

/-- Invariant of a session: once trained, the state is well formed. -/
def SessInv (d dout : ℕ) (s : Sess ℝ) : Prop := s.trained = true → SessWF d dout s

/-- What a training must provide: refitted transformers that chain (when `fit_transformers`), an
    already trained object otherwise (unfitted transformers cannot be kept), and core parameters fitting
    the transformed input dimension of the transformers that will be in force. -/
def OpWF (d dout : ℕ) (s : Sess ℝ) : SOp ℝ → Prop
  | SOp.learn ft tin tout core =>
      (ft = true → PipeWF tin d ∧ PipeWF tout dout) ∧ (ft = false → s.trained = true) ∧
        CoreWF (pipeOutDim (if ft then tin else s.tin) d) core
  | SOp.query _ => True

/-- Every operation of the history is well formed in the state it is applied to. -/
def HistoryWF (d dout : ℕ) : Sess ℝ → List (SOp ℝ) → Prop
  | _, [] => True
  | s, op :: rest => OpWF d dout s op ∧ HistoryWF d dout (Sess.step d dout s op).1 rest

theorem step_inv (d dout : ℕ) (s : Sess ℝ) (op : SOp ℝ) (hs : SessInv d dout s)
    (hop : OpWF d dout s op) : SessInv d dout (Sess.step d dout s op).1 := by
  cases op with
  | query x => exact hs
  | learn ft tin tout core =>
    intro _
    obtain ⟨h1, h2, h3⟩ := hop
    cases ft with
    | true =>
      obtain ⟨hi, ho⟩ := h1 rfl
      exact ⟨by simpa [Sess.step, Sess.learn] using hi, by simpa [Sess.step, Sess.learn] using ho,
        by simpa [Sess.step, Sess.learn] using h3⟩
    | false =>
      have hw := hs (h2 rfl)
      exact ⟨by simpa [Sess.step, Sess.learn] using hw.hin,
        by simpa [Sess.step, Sess.learn] using hw.hout,
        by simpa [Sess.step, Sess.learn] using h3⟩

theorem run_cons (d dout : ℕ) (s : Sess ℝ) (op : SOp ℝ) (ops : List (SOp ℝ)) :
    Sess.run d dout s (op :: ops) = Sess.run d dout (Sess.step d dout s op).1 ops := rfl

theorem run_append (d dout : ℕ) (s : Sess ℝ) (a b : List (SOp ℝ)) :
    Sess.run d dout s (a ++ b) = Sess.run d dout (Sess.run d dout s a) b := by
  unfold Sess.run
  rw [List.foldl_append]

/-- The invariant holds after every well-formed history. -/
theorem run_inv (d dout : ℕ) (ops : List (SOp ℝ)) :
    ∀ s : Sess ℝ, SessInv d dout s → HistoryWF d dout s ops → SessInv d dout (Sess.run d dout s ops) := by
  induction ops with
  | nil => intro s hs _; exact hs
  | cons op rest ih =>
    intro s hs hh
    rw [run_cons]
    exact ih _ (step_inv d dout s op hs hh.1) hh.2

theorem historyWF_append_left (d dout : ℕ) (a b : List (SOp ℝ)) :
    ∀ s : Sess ℝ, HistoryWF d dout s (a ++ b) → HistoryWF d dout s a := by
  induction a with
  | nil => intro s _; trivial
  | cons op rest ih => intro s h; exact ⟨h.1, ih _ h.2⟩

theorem historyWF_take (d dout : ℕ) (s : Sess ℝ) (ops : List (SOp ℝ)) (n : ℕ)
    (h : HistoryWF d dout s ops) : HistoryWF d dout s (ops.take n) := by
  have := List.take_append_drop n ops
  exact historyWF_append_left d dout (ops.take n) (ops.drop n) s (by rw [this]; exact h)

/-- A query is an operation that does not train. -/
def SOp.isQuery : SOp ℝ → Prop
  | SOp.query _ => True
  | SOp.learn _ _ _ _ => False

/-- Queries (predictions, Jacobians) leave the state as it is: nothing is remembered from them. -/
theorem run_queries (d dout : ℕ) (qs : List (SOp ℝ)) (hq : ∀ op ∈ qs, SOp.isQuery op) :
    ∀ s : Sess ℝ, Sess.run d dout s qs = s := by
  induction qs with
  | nil => intro s; rfl
  | cons op rest ih =>
    intro s
    rw [run_cons]
    have h1 : SOp.isQuery op := hq op (by simp)
    cases op with
    | learn ft tin tout core => exact absurd h1 (by simp [SOp.isQuery])
    | query x =>
      show Sess.run d dout s rest = s
      exact ih (fun o ho => hq o (by simp [ho])) s

/-- **The state in force is the one left by the last training**, whatever happened before it and
    whatever was queried after it: its core parameters are those of that training; its transformers
    are those of that training when it refitted them, and otherwise the ones in force before it. -/
theorem run_last_training (d dout : ℕ) (s : Sess ℝ) (pre qs : List (SOp ℝ)) (ft : Bool)
    (tin tout : List (Step ℝ)) (core : Core ℝ) (hq : ∀ op ∈ qs, SOp.isQuery op) :
    Sess.run d dout s (pre ++ SOp.learn ft tin tout core :: qs)
      = (Sess.run d dout s pre).learn ft tin tout core := by
  rw [run_append, run_cons]
  exact run_queries d dout qs hq _

/-- The answers of a history: operation `n` is answered by the state reached by the first `n`
    operations — a query gets the prediction and the Jacobian of THAT state. -/
theorem answers_spec (d dout : ℕ) (ops : List (SOp ℝ)) :
    ∀ (s : Sess ℝ) (n : ℕ) (hn : n < ops.length),
      (Sess.answers d dout s ops)[n]? =
        some (Sess.step d dout (Sess.run d dout s (ops.take n)) ops[n]).2 := by
  induction ops with
  | nil => intro s n hn; simp at hn
  | cons op rest ih =>
    intro s n hn
    cases n with
    | zero => simp [Sess.answers, Sess.run]
    | succ m =>
      have hm : m < rest.length := by simpa using hn
      simp only [Sess.answers, List.getElem?_cons_succ, List.take_succ_cons, List.getElem_cons_succ]
      rw [ih _ m hm, run_cons]

/-- `predict_jacobian` of a well-formed trained state is the derivative of its `predict`, in every
    direction. -/
theorem sess_jacobian_hasDerivAt (d dout : ℕ) (s : Sess ℝ) (hw : SessWF d dout s) (x v : Vec ℝ)
    (i : ℕ) (hi : i < dout) :
    HasDerivAt (fun t : ℝ => s.predict d (fun j => x j + t * v j) i)
      (mulVec d (s.jacobian d dout x) v i) 0 :=
  regressor_jacobian_chain_rule s.tin s.tout d (pipeOutDim s.tin d) (pipeOutDim s.tout dout) dout
    hw.hin rfl hw.hout rfl _ _ (core_hasJac _ _ s.core hw.hcore) x v i hi

/-! ## Surrogate discipline with explicit name lists -/

theorem foldl_add_init (l : List ℕ) : ∀ a : ℕ, l.foldl (· + ·) a = a + l.foldl (· + ·) 0 := by
  induction l with
  | nil => intro a; simp
  | cons x rest ih =>
    intro a
    simp only [List.foldl_cons]
    rw [ih (a + x), ih (0 + x)]
    omega

theorem offsetOf_zero (sizes : List ℕ) : offsetOf sizes 0 = 0 := by simp [offsetOf]

theorem offsetOf_cons (s : ℕ) (rest : List ℕ) (n : ℕ) :
    offsetOf (s :: rest) (n + 1) = s + offsetOf rest n := by
  unfold offsetOf
  simp only [List.take_succ_cons, List.foldl_cons]
  rw [foldl_add_init]
  omega

/-- **Outputs by requested names**: in the array made of the outputs of the discipline in the order of
    its output grammar, component `a` of the `n`-th requested variable is component `a` of that variable
    in the model's prediction, i.e. the entry of the prediction array at the MODEL's offset of the
    variable — for every list of requested positions (sub-lists, reorderings, repetitions). -/
theorem concatSel_spec {K : Type} [Field K] (outSizes : List ℕ) (v : Vec K) (sel : List ℕ) :
    ∀ (n a : ℕ), n < sel.length → a < outSizes.getD (sel.getD n 0) 0 →
      concatSel outSizes v sel (offsetOf (selSizes outSizes sel) n + a)
        = surOutput outSizes v sel n a := by
  induction sel with
  | nil => intro n a hn; simp at hn
  | cons o rest ih =>
    intro n a hn ha
    cases n with
    | zero =>
      have ha0 : a < outSizes.getD o 0 := by simpa using ha
      rw [offsetOf_zero, Nat.zero_add]
      simp only [concatSel, if_pos ha0]
      rfl
    | succ m =>
      have hm : m < rest.length := by simpa using hn
      have ha' : a < outSizes.getD (rest.getD m 0) 0 := by simpa using ha
      have hoff : offsetOf (selSizes outSizes (o :: rest)) (m + 1)
          = outSizes.getD o 0 + offsetOf (selSizes outSizes rest) m := by
        simp only [selSizes, List.map_cons]
        exact offsetOf_cons _ _ _
      have hnot : ¬ (outSizes.getD o 0 + offsetOf (selSizes outSizes rest) m + a < outSizes.getD o 0) := by
        omega
      have hsub : outSizes.getD o 0 + offsetOf (selSizes outSizes rest) m + a - outSizes.getD o 0
          = offsetOf (selSizes outSizes rest) m + a := by omega
      rw [hoff]
      simp only [concatSel, if_neg hnot, hsub]
      rw [ih m a hm ha']
      rfl

end GV.C18
