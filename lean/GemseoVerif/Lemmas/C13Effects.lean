/-
C13 — tasks with effects on the objects they run on (`Model/C13.lean` §6): the effectful pool
`estep?` simulates the pure pool `step?` as long as what a task leaves behind on an object cannot
change the outcome of the tasks that still have to run on it.
-/
import GemseoVerif.Lemmas.C13Pool

set_option linter.unusedSimpArgs false
set_option linter.unusedSectionVars false
set_option linter.unusedVariables false

namespace GV.C13

variable {σ β : Type}

/-! ### The pure configuration of an effectful one -/

@[simp] theorem pure_nTasks (ec : ECfg σ β) (out : Nat → Outcome β) : (ec.pure out).nTasks = ec.nTasks := by
  simp [ECfg.pure, Cfg.nTasks]

@[simp] theorem pure_nProcs (ec : ECfg σ β) (out : Nat → Outcome β) : (ec.pure out).nProcs = ec.nProcs := rfl

theorem pure_run (ec : ECfg σ β) (out : Nat → Outcome β) (i : Nat) (hi : i < ec.nTasks) :
    (ec.pure out).run i = out i := by
  simp [ECfg.pure, Cfg.run, Cfg.call, hi]

/-- The transitions other than `finish` only look at the number of tasks. -/
theorem step?_congr_of_not_finish {α α' : Type} (c : Cfg α β) (c' : Cfg α' β) (h : c.nTasks = c'.nTasks)
    (s : State β) (op : Op) (hop : ∀ w, op ≠ .finish w) : step? c s op = step? c' s op := by
  cases op with
  | finish w => exact absurd rfl (hop w)
  | submit => simp [step?]
  | take w => simp [step?]
  | collect => simp [step?, h]
  | shutdown => simp [step?, h]

/-! ### Tasks that still have to run -/

/-- Task `i` has not been run yet: not submitted, in `queue_in`, or held by a worker. -/
def Unfinished (s : State β) (i : Nat) : Prop :=
  i ∈ s.pending ∨ i ∈ tasksOf s.queueIn ∨ i ∈ busyOf s.workers

theorem mem_busyOf_of_getElem? (ws : List WState) (w i : Nat) (h : ws[w]? = some (.busy i)) :
    i ∈ busyOf ws := by
  induction ws generalizing w with
  | nil => simp at h
  | cons x xs ih =>
    cases w with
    | zero => simp at h; subst h; simp [busyOf]
    | succ w =>
      simp at h
      have := ih w h
      cases x <;> simp_all [busyOf]

theorem mem_busyOf_set_idle (ws : List WState) (w i j : Nat) (h : ws[w]? = some (.busy i))
    (hj : j ∈ busyOf (ws.set w .idle)) : j ∈ busyOf ws := by
  have := busyOf_set_idle ws w i h j
  have hc : 0 < (busyOf (ws.set w .idle)).count j := List.count_pos_iff.mpr hj
  exact List.count_pos_iff.mp (by omega)

theorem mem_busyOf_set_busy (ws : List WState) (w i j : Nat) (h : ws[w]? = some .idle)
    (hj : j ∈ busyOf (ws.set w (.busy i))) : j ∈ busyOf ws ∨ j = i := by
  have := busyOf_set_busy ws w i h j
  have hc : 0 < (busyOf (ws.set w (.busy i))).count j := List.count_pos_iff.mpr hj
  by_cases hij : i = j
  · exact Or.inr hij.symm
  · left
    simp [hij] at this
    exact List.count_pos_iff.mp (by omega)

/-- No transition makes a task unfinished again. -/
theorem unfinished_of_step {α : Type} {c : Cfg α β} {s s' : State β} {op : Op} (h : step? c s op = some s')
    (j : Nat) (hj : Unfinished s' j) : Unfinished s j := by
  cases op with
  | submit =>
    obtain ⟨i, rest, hp, rfl⟩ := step_submit h
    rcases hj with hj | hj | hj
    · exact Or.inl (by simp [hp]; exact Or.inr hj)
    · simp only [tasksOf_append, tasksOf_cons_some, tasksOf_nil, List.mem_append, List.mem_singleton] at hj
      rcases hj with hj | hj
      · exact Or.inr (Or.inl hj)
      · exact Or.inl (by simp [hp, hj])
    · exact Or.inr (Or.inr hj)
  | take w =>
    obtain ⟨hw, hcase⟩ := step_take h
    rcases hcase with ⟨i, rest, hq, rfl⟩ | ⟨rest, hq, rfl⟩
    · rcases hj with hj | hj | hj
      · exact Or.inl hj
      · exact Or.inr (Or.inl (by simp [hq, tasksOf_cons_some]; exact Or.inr hj))
      · rcases mem_busyOf_set_busy s.workers w i j hw hj with hb | hb
        · exact Or.inr (Or.inr hb)
        · exact Or.inr (Or.inl (by simp [hq, tasksOf_cons_some, hb]))
    · rcases hj with hj | hj | hj
      · exact Or.inl hj
      · exact Or.inr (Or.inl (by simpa [hq, tasksOf_cons_none] using hj))
      · exact Or.inr (Or.inr (by simpa [busyOf_set_exited s.workers w hw] using hj))
  | finish w =>
    obtain ⟨i, hw, rfl⟩ := step_finish h
    rcases hj with hj | hj | hj
    · exact Or.inl hj
    · exact Or.inr (Or.inl hj)
    · exact Or.inr (Or.inr (mem_busyOf_set_idle s.workers w i j hw hj))
  | collect =>
    obtain ⟨_, _, _, _, i, o, rest, hq, rfl⟩ := step_collect h
    exact hj
  | shutdown =>
    obtain ⟨_, _, _, rfl⟩ := step_shutdown h
    rcases hj with hj | hj | hj
    · exact Or.inl hj
    · exact Or.inr (Or.inl (by simpa [tasksOf_append, tasksOf_replicate_none] using hj))
    · exact Or.inr (Or.inr hj)

/-- A task whose result is in `queue_out` (or retrieved) is not unfinished. -/
theorem not_unfinished_of_mem_queueOut {α : Type} {c : Cfg α β} {s : State β} (hi : Inv c s) (k : Nat)
    (hk : k ∈ s.queueOut.map Prod.fst) : ¬ Unfinished s k := by
  intro hu
  have h1 := hi.once k
  have hq : 0 < (s.queueOut.map Prod.fst).count k := List.count_pos_iff.mpr hk
  have hle : loc s k ≤ 1 := by rw [h1]; split <;> omega
  simp only [loc] at hle
  rcases hu with hu | hu | hu
  · have : 0 < s.pending.count k := List.count_pos_iff.mpr hu
    omega
  · have : 0 < (tasksOf s.queueIn).count k := List.count_pos_iff.mpr hu
    omega
  · have : 0 < (busyOf s.workers).count k := List.count_pos_iff.mpr hu
    omega

theorem lt_nTasks_of_unfinished {α : Type} {c : Cfg α β} {s : State β} (hi : Inv c s) (k : Nat)
    (hu : Unfinished s k) : k < c.nTasks := by
  have h1 := hi.once k
  by_cases hk : k < c.nTasks
  · exact hk
  · simp only [hk, if_false, loc] at h1
    rcases hu with hu | hu | hu
    · have : 0 < s.pending.count k := List.count_pos_iff.mpr hu
      omega
    · have : 0 < (tasksOf s.queueIn).count k := List.count_pos_iff.mpr hu
      omega
    · have : 0 < (busyOf s.workers).count k := List.count_pos_iff.mpr hu
      omega

/-! ### The simulation -/

/-- The invariant: the pool part is a reachable-like state of the pure pool in which task `i` gives
    `out i`, and every task that still has to run finds — whatever the worker that will run it — an
    object on which it gives that outcome (`Ok i`). -/
structure EInv (ec : ECfg σ β) (out : Nat → Outcome β) (Ok : Nat → σ → Prop) (s : EState σ β) : Prop where
  pinv : Inv (ec.pure out) s.pool
  ok : ∀ w i, Unfinished s.pool i → ∃ o, s.mem[ec.obj w i]? = some o ∧ Ok i o

theorem einit_inv_of (ec : ECfg σ β) (out : Nat → Outcome β) (Ok : Nat → σ → Prop) (mem0 : List σ)
    (hinit : ∀ w i, i < ec.nTasks → ∃ o, mem0[ec.obj w i]? = some o ∧ Ok i o) :
    EInv ec out Ok (einit ec mem0) where
  pinv := by
    have : (einit ec mem0).pool = init (ec.pure out) := by
      simp [einit, init, pure_nTasks, pure_nProcs]
    rw [this]
    exact inv_init _
  ok := by
    intro w i hu
    apply hinit w i
    have hinv : Inv (ec.pure out) (einit ec mem0).pool := by
      have : (einit ec mem0).pool = init (ec.pure out) := by
        simp [einit, init, pure_nTasks, pure_nProcs]
      rw [this]
      exact inv_init _
    simpa using lt_nTasks_of_unfinished hinv i hu

/-- One transition of the effectful pool is the same transition of the pure pool, and the invariant
    is kept: `hout` — on an object that is `Ok` for it a task gives its pure outcome; `hpres` — a task
    leaves an object that other tasks may still use `Ok` for them. -/
theorem estep_sim {ec : ECfg σ β} {out : Nat → Outcome β} {Ok : Nat → σ → Prop}
    (hout : ∀ i o, Ok i o → (ec.body i o).1 = out i)
    (hpres : ∀ k i o w w', i ≠ k → ec.obj w' i = ec.obj w k → Ok k o → Ok i o → Ok i (ec.body k o).2)
    {s s' : EState σ β} {op : Op} (hi : EInv ec out Ok s) (h : estep? ec s op = some s') :
    step? (ec.pure out) s.pool op = some s'.pool ∧ EInv ec out Ok s' := by
  have hn : (ec.pure (fun _ => Outcome.fail)).nTasks = (ec.pure out).nTasks := by simp
  -- the transitions that do not run a task
  have other : ∀ op', (∀ w, op' ≠ .finish w) →
      (step? (ec.pure (fun _ => Outcome.fail)) s.pool op').map (fun p => ({ s with pool := p } : EState σ β)) = some s' →
      step? (ec.pure out) s.pool op' = some s'.pool ∧ EInv ec out Ok s' := by
    intro op' hop hmap
    rw [step?_congr_of_not_finish _ (ec.pure out) hn s.pool op' hop] at hmap
    cases hp : step? (ec.pure out) s.pool op' with
    | none => simp [hp] at hmap
    | some p =>
      simp only [hp, Option.map_some, Option.some.injEq] at hmap
      subst hmap
      refine ⟨rfl, ⟨inv_step hi.pinv hp, ?_⟩⟩
      intro w i hu
      exact hi.ok w i (unfinished_of_step hp i hu)
  cases op with
  | submit => exact other .submit (by intro w; simp) (by simpa [estep?] using h)
  | take w => exact other (.take w) (by intro w'; simp) (by simpa [estep?] using h)
  | collect => exact other .collect (by intro w; simp) (by simpa [estep?] using h)
  | shutdown => exact other .shutdown (by intro w; simp) (by simpa [estep?] using h)
  | finish w =>
    simp only [estep?] at h
    split at h
    · rename_i k hw
      have hbusy : k ∈ busyOf s.pool.workers := mem_busyOf_of_getElem? _ w k hw
      have hunf : Unfinished s.pool k := Or.inr (Or.inr hbusy)
      have hk : k < ec.nTasks := by simpa using lt_nTasks_of_unfinished hi.pinv k hunf
      obtain ⟨o, hmem, hok⟩ := hi.ok w k hunf
      split at h
      · rename_i o' hmem'
        rw [hmem] at hmem'
        cases hmem'
        simp only [Option.some.injEq] at h
        subst h
        have hpure : step? (ec.pure out) s.pool (.finish w) =
            some { s.pool with workers := s.pool.workers.set w .idle,
                               queueOut := s.pool.queueOut ++ [(k, (ec.body k o).1)] } := by
          simp [step?, hw, pure_run ec out k hk, hout k o hok]
        refine ⟨hpure, ⟨inv_step hi.pinv hpure, ?_⟩⟩
        intro w' i hu
        have hinv' := inv_step hi.pinv hpure
        have hik : i ≠ k := by
          intro heq
          subst heq
          exact not_unfinished_of_mem_queueOut hinv' i (by simp) hu
        have hu0 : Unfinished s.pool i := unfinished_of_step hpure i hu
        obtain ⟨o', hmem', hok'⟩ := hi.ok w' i hu0
        by_cases hobj : ec.obj w' i = ec.obj w k
        · rw [hobj] at hmem'
          rw [hmem] at hmem'
          cases hmem'
          refine ⟨(ec.body k o).2, ?_, hpres k i o w w' hik hobj hok hok'⟩
          have hlt : ec.obj w k < s.mem.length := by
            rcases Nat.lt_or_ge (ec.obj w k) s.mem.length with hl | hl
            · exact hl
            · simp [List.getElem?_eq_none hl] at hmem
          simp [hobj, List.getElem?_set_self hlt]
        · refine ⟨o', ?_, hok'⟩
          simp only
          rw [List.getElem?_set_ne (Ne.symm hobj)]
          exact hmem'
      · rename_i hnone
        rw [hmem] at hnone
        cases hnone
    · cases h

theorem erun_sim {ec : ECfg σ β} {out : Nat → Outcome β} {Ok : Nat → σ → Prop}
    (hout : ∀ i o, Ok i o → (ec.body i o).1 = out i)
    (hpres : ∀ k i o w w', i ≠ k → ec.obj w' i = ec.obj w k → Ok k o → Ok i o → Ok i (ec.body k o).2)
    {s s' : EState σ β} {ops : List Op} (hi : EInv ec out Ok s) (h : erun? ec s ops = some s') :
    run? (ec.pure out) s.pool ops = some s'.pool ∧ EInv ec out Ok s' := by
  induction ops generalizing s with
  | nil =>
    simp only [erun?, Option.some.injEq] at h
    subst h
    exact ⟨rfl, hi⟩
  | cons op ops ih =>
    simp only [erun?] at h
    split at h
    · rename_i s1 h1
      obtain ⟨hstep, hi1⟩ := estep_sim hout hpres hi h1
      obtain ⟨hrun, hi'⟩ := ih hi1 h
      exact ⟨by simp [run?, hstep, hrun], hi'⟩
    · cases h

theorem filterMap_congr_mem {γ δ : Type} (l : List γ) (f g : γ → Option δ) (h : ∀ x ∈ l, f x = g x) :
    l.filterMap f = l.filterMap g := by
  induction l with
  | nil => rfl
  | cons x xs ih =>
    have hx := h x (by simp)
    have := ih (fun y hy => h y (by simp [hy]))
    simp [List.filterMap_cons, hx, this]

/-! ### The discipline tasks -/

/-- Thanks to `_reset_failed_status`, what a task gives does not depend on the execution status the
    object was left in. -/
theorem discCall_status_blind (t : DiscCall) (o : ObjSt) (f : Bool) :
    (discCall t { o with failed := f }).1 = (discCall t o).1 := by
  simp [discCall, resetFailed]

/-- A task that brings its own input gives the same outcome on every object. -/
theorem discCall_own_blind (t : DiscCall) (h : t.own.isSome) (o o' : ObjSt) :
    (discCall t o).1 = (discCall t o').1 := by
  obtain ⟨x, hx⟩ := Option.isSome_iff_exists.mp h
  simp only [discCall, discCore, resetFailed, hx]
  simp only [Option.isSome_some, Bool.true_or, Bool.not_true, Bool.and_false, Option.getD_some]
  repeat' split
  all_goals first | rfl | simp_all

/-- What a task gives depends on the object only through the array it holds and its write flag. -/
theorem discCall_cell (t : DiscCall) (o o' : ObjSt) (hv : o.val = o'.val) (hw : o.writable = o'.writable) :
    (discCall t o).1 = (discCall t o').1 := by
  cases o with
  | mk v f w =>
    cases o' with
    | mk v' f' w' =>
      simp only at hv hw
      subst hv hw
      rw [← discCall_status_blind t ⟨v, f, w⟩ false, ← discCall_status_blind t ⟨v, f', w⟩ false]

end GV.C13
