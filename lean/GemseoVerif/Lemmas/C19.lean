/-
C19 — helper lemmas for the parameter-space model: per-variable decomposition of the design-space
(un)normalisation (so that a parameter space maps every variable independently), dictionary lookups
on insertion-ordered association lists, and the block form of `normalize_vect(use_dist=True)`.
-/
import GemseoVerif.Model.C19
import GemseoVerif.Lemmas.C02Ops

namespace GV.C19
open GV GV.C02

/-! ### zipWith4 / zipWith over appended blocks -/

theorem zipWith4_nil_right {α β γ δ ε : Type} (f : α → β → γ → δ → ε)
    (as : List α) (bs : List β) (cs : List γ) : zipWith4 f as bs cs [] = [] := by
  cases as <;> cases bs <;> cases cs <;> rfl

theorem zipWith4_append {α β γ δ ε : Type} (f : α → β → γ → δ → ε)
    (a a' : List α) (b b' : List β) (c c' : List γ) (x : List δ)
    (hb : b.length = a.length) (hc : c.length = a.length) :
    zipWith4 f (a ++ a') (b ++ b') (c ++ c') x =
      zipWith4 f a b c (x.take a.length) ++ zipWith4 f a' b' c' (x.drop a.length) := by
  induction a generalizing b c x with
  | nil =>
    have hb' : b = [] := List.eq_nil_of_length_eq_zero (by simpa using hb)
    have hc' : c = [] := List.eq_nil_of_length_eq_zero (by simpa using hc)
    subst hb' hc'
    simp [zipWith4]
  | cons a0 as ih =>
    cases b with
    | nil => simp at hb
    | cons b0 bs =>
      cases c with
      | nil => simp at hc
      | cons c0 cs =>
        cases x with
        | nil => simp [zipWith4_nil_right]
        | cons x0 xs =>
          simp only [List.cons_append, zipWith4, List.length_cons, List.take_succ_cons,
            List.drop_succ_cons]
          rw [ih bs cs xs (by simpa using hb) (by simpa using hc)]

theorem zipWith4_length {α β γ δ ε : Type} (f : α → β → γ → δ → ε)
    (as : List α) (bs : List β) (cs : List γ) (ds : List δ)
    (hb : bs.length = as.length) (hc : cs.length = as.length) (hd : ds.length = as.length) :
    (zipWith4 f as bs cs ds).length = as.length := by
  induction as generalizing bs cs ds with
  | nil => simp [zipWith4]
  | cons a as ih =>
    cases bs with
    | nil => simp at hb
    | cons b bs =>
      cases cs with
      | nil => simp at hc
      | cons c cs =>
        cases ds with
        | nil => simp at hd
        | cons d ds =>
          simp only [zipWith4, List.length_cons]
          rw [ih bs cs ds (by simpa using hb) (by simpa using hc) (by simpa using hd)]

/-! ### Per-variable form of the design-space maps -/

/-- `normalize_vect` restricted to the components of one variable. -/
def normBlock (intNorm m : Bool) (v : Var) (xb : List Rat) : List Rat :=
  zipWith4 (fun n l u xi => normComp m n l u xi) (Var.normMask intNorm v) v.lb v.ub xb

/-- `unnormalize_vect` restricted to the components of one variable. -/
def unnormBlock (intNorm m : Bool) (v : Var) (ub : List Rat) : List Rat :=
  let raw := zipWith4 (fun n l b ui => unnormComp m n l b ui) (Var.normMask intNorm v) v.lb v.ub ub
  if m then List.zipWith roundIf (List.replicate v.size v.isInt) raw else raw

theorem normMask_length (b : Bool) (v : Var) (h : v.WF) : (Var.normMask b v).length = v.size := by
  simp [Var.normMask, Var.size, h.1]

theorem normBlock_length (b m : Bool) (v : Var) (h : v.WF) (xb : List Rat)
    (hx : xb.length = v.size) : (normBlock b m v xb).length = v.size := by
  unfold normBlock
  rw [zipWith4_length _ _ _ _ _ (by rw [normMask_length b v h]; rfl)
    (by rw [normMask_length b v h]; simp [Var.size, h.1]) (by rw [normMask_length b v h]; exact hx)]
  exact normMask_length b v h

theorem unnormBlock_length (b m : Bool) (v : Var) (h : v.WF) (xb : List Rat)
    (hx : xb.length = v.size) : (unnormBlock b m v xb).length = v.size := by
  have hraw : (zipWith4 (fun n l b ui => unnormComp m n l b ui) (Var.normMask b v) v.lb v.ub xb).length
      = v.size := by
    rw [zipWith4_length _ _ _ _ _ (by rw [normMask_length b v h]; rfl)
      (by rw [normMask_length b v h]; simp [Var.size, h.1]) (by rw [normMask_length b v h]; exact hx)]
    exact normMask_length b v h
  unfold unnormBlock
  cases m with
  | false => simpa using hraw
  | true => simp [hraw]

/-- Block form over an arbitrary list of well-formed variables. -/
theorem zipWith4_blocks {ε : Type} (intNorm : Bool) (f : Bool → Option Rat → Option Rat → Rat → ε)
    (vs : List Var) (hwf : ∀ v ∈ vs, v.WF) (x : List Rat) :
    zipWith4 f (vs.flatMap (Var.normMask intNorm)) (vs.flatMap (·.lb)) (vs.flatMap (·.ub)) x =
      (List.zipWith (fun v xb => zipWith4 f (Var.normMask intNorm v) v.lb v.ub xb) vs
        (splitBySizes (vs.map Var.size) x)).flatten := by
  induction vs generalizing x with
  | nil => cases x <;> simp [zipWith4, splitBySizes]
  | cons v vs ih =>
    have hv := hwf v (by simp)
    simp only [List.flatMap_cons, List.map_cons, splitBySizes, List.zipWith_cons_cons,
      List.flatten_cons]
    rw [zipWith4_append f _ _ _ _ _ _ x
      (by rw [normMask_length intNorm v hv]; rfl)
      (by rw [normMask_length intNorm v hv]; simp [Var.size, hv.1])]
    rw [normMask_length intNorm v hv, ih (fun w hw => hwf w (List.mem_cons_of_mem _ hw))]

theorem normalizeVect_blocks (d : DS) (hwf : d.WF) (m : Bool) (x : List Rat) :
    d.normalizeVect m x =
      (List.zipWith (normBlock d.intNorm m) d.vars (splitBySizes d.sizes x)).flatten := by
  unfold DS.normalizeVect DS.normMask DS.flatLb DS.flatUb DS.sizes
  exact zipWith4_blocks d.intNorm (fun n l u xi => normComp m n l u xi) d.vars hwf.2 x

/-! ### `zipWith` over blocks -/

theorem zipWith_flatten_blocks {α β γ : Type} (f : α → β → γ)
    (as : List (List α)) (bs : List (List β))
    (hlen : as.map List.length = bs.map List.length) :
    List.zipWith f as.flatten bs.flatten = (List.zipWith (List.zipWith f) as bs).flatten := by
  induction as generalizing bs with
  | nil => simp
  | cons a as ih =>
    cases bs with
    | nil => simp at hlen
    | cons b bs =>
      simp only [List.map_cons, List.cons.injEq] at hlen
      simp only [List.flatten_cons, List.zipWith_cons_cons]
      rw [List.zipWith_append hlen.1, ih bs hlen.2]

theorem zipWith_map_length {α β γ : Type} (f : α → β → List γ) (g : α → Nat)
    (as : List α) (bs : List β) (hl : bs.length = as.length)
    (h : ∀ (i : Nat) (a : α) (b : β), as[i]? = some a → bs[i]? = some b → (f a b).length = g a) :
    (List.zipWith f as bs).map List.length = as.map g := by
  induction as generalizing bs with
  | nil => simp
  | cons a as ih =>
    cases bs with
    | nil => simp at hl
    | cons b bs =>
      simp only [List.zipWith_cons_cons, List.map_cons]
      rw [h 0 a b rfl rfl, ih bs (by simpa using hl)
        (fun i a' b' ha hb => h (i + 1) a' b' (by simpa using ha) (by simpa using hb))]

theorem splitBySizes_length (sizes : List Nat) (x : List Rat) :
    (splitBySizes sizes x).length = sizes.length := by
  induction sizes generalizing x with
  | nil => rfl
  | cons s ss ih => simp [splitBySizes, ih]

theorem splitBySizes_getElem_length (sizes : List Nat) (x : List Rat) (h : sizes.sum = x.length)
    (i : Nat) (b : List Rat) (hb : (splitBySizes sizes x)[i]? = some b) :
    sizes[i]? = some b.length := by
  have := splitBySizes_lengths sizes x h
  have h2 : ((splitBySizes sizes x).map List.length)[i]? = some b.length := by
    simp [List.getElem?_map, hb]
  rw [this] at h2
  exact h2

theorem unnormalizeVect_blocks (d : DS) (hwf : d.WF) (m : Bool) (u : List Rat)
    (hu : u.length = d.dimension) :
    d.unnormalizeVect m u =
      (List.zipWith (unnormBlock d.intNorm m) d.vars (splitBySizes d.sizes u)).flatten := by
  have hraw : zipWith4 (fun n l b ui => unnormComp m n l b ui) d.normMask d.flatLb d.flatUb u =
      (List.zipWith (fun v xb => zipWith4 (fun n l b ui => unnormComp m n l b ui)
        (Var.normMask d.intNorm v) v.lb v.ub xb) d.vars (splitBySizes d.sizes u)).flatten := by
    unfold DS.normMask DS.flatLb DS.flatUb DS.sizes
    exact zipWith4_blocks d.intNorm (fun n l b ui => unnormComp m n l b ui) d.vars hwf.2 u
  have hsum : d.sizes.sum = u.length := by simpa [DS.dimension] using hu.symm
  have hlenS : (splitBySizes d.sizes u).length = d.vars.length := by
    rw [splitBySizes_length]; simp [DS.sizes]
  unfold DS.unnormalizeVect
  cases m with
  | false =>
    simp only [Bool.false_eq_true, if_false]
    rw [hraw]
    have hfun : unnormBlock d.intNorm false = fun v xb => zipWith4 (fun n l b ui => unnormComp false n l b ui)
        (Var.normMask d.intNorm v) v.lb v.ub xb := by
      funext v xb; simp [unnormBlock]
    rw [hfun]
  | true =>
    simp only [if_true]
    rw [hraw]
    have hmask : d.intMask = (d.vars.map (fun v => List.replicate v.size v.isInt)).flatten := by
      simp [DS.intMask, List.flatMap]
    rw [hmask]
    have hl : (d.vars.map (fun v => List.replicate v.size v.isInt)).map List.length =
        (List.zipWith (fun v xb => zipWith4 (fun n l b ui => unnormComp true n l b ui)
          (Var.normMask d.intNorm v) v.lb v.ub xb) d.vars (splitBySizes d.sizes u)).map List.length := by
      rw [zipWith_map_length _ Var.size d.vars _ hlenS]
      · simp
      · intro i v b hv hb
        have hwv := hwf.2 v (List.mem_of_getElem? hv)
        have hsz := splitBySizes_getElem_length d.sizes u hsum i b hb
        have hvs : d.sizes[i]? = some v.size := by simp [DS.sizes, List.getElem?_map, hv]
        have hbl : b.length = v.size := by rw [hvs] at hsz; exact (Option.some.inj hsz).symm
        rw [zipWith4_length _ _ _ _ _ (by rw [normMask_length _ v hwv]; rfl)
          (by rw [normMask_length _ v hwv]; simp [Var.size, hwv.1])
          (by rw [normMask_length _ v hwv]; exact hbl)]
        exact normMask_length _ v hwv
    rw [zipWith_flatten_blocks roundIf _ _ hl]
    congr 1
    apply List.ext_getElem?
    intro i
    simp only [List.getElem?_zipWith, List.getElem?_map]
    cases hv : d.vars[i]? with
    | none => simp
    | some v =>
      cases hb : (splitBySizes d.sizes u)[i]? with
      | none => simp
      | some b => simp [unnormBlock]

/-! ### Dictionary lookups -/

theorem dget_zip {β : Type} (names : List String) (bs : List β) (hnd : names.Nodup)
    (i : Nat) (n : String) (hn : names[i]? = some n) :
    dget (names.zip bs) n = bs[i]? := by
  induction names generalizing bs i with
  | nil => simp at hn
  | cons m ms ih =>
    cases bs with
    | nil => simp [dget]
    | cons b bs =>
      cases i with
      | zero =>
        simp only [List.getElem?_cons_zero, Option.some.injEq] at hn
        subst hn
        simp [dget]
      | succ j =>
        simp only [List.getElem?_cons_succ] at hn
        have hne : (m == n) = false := by
          have hmem : n ∈ ms := List.mem_of_getElem? hn
          have := (List.nodup_cons.mp hnd).1
          simp only [beq_eq_false_iff_ne, ne_eq]
          intro h; subst h; exact this hmem
        have := ih bs (List.nodup_cons.mp hnd).2 j hn
        simp only [dget, List.zip_cons_cons, List.find?_cons, hne, List.getElem?_cons_succ] at this ⊢
        exact this

theorem dget_map_self {β : Type} (l : List String) (g : String → β) (k : String) :
    dget (l.map (fun n => (n, g n))) k = if k ∈ l then some (g k) else none := by
  induction l with
  | nil => simp [dget]
  | cons a l ih =>
    simp only [dget, List.map_cons, List.find?_cons] at ih ⊢
    by_cases h : a = k
    · subst h; simp
    · have : (a == k) = false := by simpa using h
      simp only [this, List.mem_cons]
      rw [ih]
      have hk : ¬ k = a := fun e => h e.symm
      simp [hk]

end GV.C19
